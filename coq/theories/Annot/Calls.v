(* Annot/Calls.v -- a call judged against the signature derived from the def
   node and against the one derived from the function object.  Binding is the
   binder of C05 (Binder/Bind.v, `Signature.bind_arguments`); checking the bound
   arguments against the declared types is the call model of C06
   (Call/Model.v, `check_call_preprocessed`), instantiated with the annotation
   values of this model as its value type: every declared type is a closed type
   expression `TTy t` of that model, and its literal None is TNone.  No proofs in this file. *)
From Coq Require Import NArith List Bool.
Import ListNotations.
Require Import PV.Annot.Forms PV.Annot.Routes PV.Annot.DefSig.
Require PV.Binder.Kind PV.Binder.Sig PV.Binder.Bind.
Require PV.TypeVar.Base PV.TypeVar.Model PV.Call.Model.

Definition to_kind (k : pkind) : Kind.kind :=
  match k with
  | PosOnly => Kind.PO | PosOrKw => Kind.POK | VarPos => Kind.VP | KwOnly => Kind.KO | VarKw => Kind.VK
  end.

Definition bparam (e : N * pkind * bool) : Sig.param :=
  let '(n, k, d) := e in Sig.mkParam n (to_kind k) d.

(* the part of a signature the binder looks at *)
Definition to_binder_sig (l : list sparam) : Sig.sig := map bparam (map erase l).

(* declared types by parameter name, up to the representation of unannotated varargs *)
Definition decl_table (ty : param -> tval) (ps : list param) : list (N * tval) :=
  map (fun p => (p_name p, norm_type (p_kind p) (ty p))) ps.

Fixpoint lookup (tys : list (N * tval)) (n : N) : option tval :=
  match tys with
  | [] => None
  | (m, t) :: r => if N.eqb m n then Some t else lookup r n
  end.

(* the verdict of one call: where every argument is bound, and against which declared type
   it will be checked (None = the call is reported: no binding) *)
Definition judge (l : list sparam) (tys : list (N * tval)) (raw : list Bind.rawarg)
  : option (list (N * Bind.position * Bind.payload * option tval)) :=
  match Bind.preprocess raw with
  | None => None
  | Some a =>
      match Bind.bind (to_binder_sig l) a with
      | None => None
      | Some b => Some (map (fun x => (x, lookup tys (fst (fst x)))) b)
      end
  end.

Definition call_in_defining_scope (ps : list param) := judge (sig_from_def ps) (decl_table def_type ps).
Definition call_in_defining_scope_legacy (ps : list param) := judge (sig_from_def_legacy ps) (decl_table def_type ps).
Definition call_from_importer (ps : list param) := judge (sig_from_runtime ps) (decl_table rt_type ps).

(* ---- with argument types: the call checker of C06 over these signatures ---- *)
(* *args / **kwargs are checked element-wise against the element type *)
Definition elem_type (k : pkind) (t : tval) : tval :=
  match k, t with
  | VarPos, TGeneric _ [e] => e
  | VarKw, TGeneric _ [_; e] => e
  | _, _ => t
  end.

Section Checked.
  Context (O : PV.TypeVar.Base.ops tval) (limit : nat).

  Definition cparam_of (tys : list (N * tval)) (e : N * pkind * bool) : @Call.Model.cparam tval :=
    let '(n, k, d) := e in
    Call.Model.mk_cparam (bparam e)
      (match lookup tys n with Some t => Call.Model.AnnE (Call.Model.TTy (elem_type k t)) | None => Call.Model.AnnNone end)
      None.

  Definition to_csig (l : list sparam) (tys : list (N * tval)) (ret : tval) : @Call.Model.csig tval :=
    Call.Model.mk_csig (map (cparam_of tys) (map erase l)) [] (Call.Model.RTy ret).

  (* diagnostics (incompatible_call / incompatible_argument / ...) and result type of one call *)
  Definition check_in_defining_scope (ps : list param) (r : option aexpr) (c : @Call.Model.ccall tval) :=
    Call.Model.check_call O limit TNone (to_csig (sig_from_def ps) (decl_table def_type ps) (ret_from_def r)) c.
  Definition check_from_importer (ps : list param) (r : option aexpr) (c : @Call.Model.ccall tval) :=
    Call.Model.check_call O limit TNone (to_csig (sig_from_runtime ps) (decl_table rt_type ps) (ret_from_runtime r)) c.
End Checked.
