(* Annot/Calls.v -- a call judged against the signature derived from the def
   node and against the one derived from the function object: both go through
   the binder of C05 (Binder/Bind.v, `Signature.bind_arguments`).
   No proofs in this file. *)
From Coq Require Import NArith List Bool.
Import ListNotations.
Require Import PV.Annot.Forms PV.Annot.Routes PV.Annot.DefSig.
Require PV.Binder.Kind PV.Binder.Sig PV.Binder.Bind.

Definition to_kind (k : pkind) : Kind.kind :=
  match k with
  | PosOnly => Kind.PO | PosOrKw => Kind.POK | VarPos => Kind.VP | KwOnly => Kind.KO | VarKw => Kind.VK
  end.

(* the part of a signature the binder looks at *)
Definition to_binder_sig (l : list sparam) : Sig.sig :=
  map (fun s => Sig.mkParam (s_name s) (to_kind (s_kind s)) (s_default s)) l.

(* declared type of the parameter an argument was bound to *)
Fixpoint type_of_param (l : list sparam) (n : N) : option tval :=
  match l with
  | [] => None
  | s :: r => if N.eqb (s_name s) n then Some (s_type (norm_sparam s)) else type_of_param r n
  end.

(* the verdict of one call: where every argument is bound, and against which declared type
   it will be checked (None = the call is reported: no binding) *)
Definition judge (l : list sparam) (raw : list Bind.rawarg)
  : option (list (N * Bind.position * Bind.payload * option tval)) :=
  match Bind.preprocess raw with
  | None => None
  | Some a =>
      match Bind.bind (to_binder_sig l) a with
      | None => None
      | Some b => Some (map (fun x => (x, type_of_param l (fst (fst x)))) b)
      end
  end.

Definition call_in_defining_scope (ps : list param) := judge (sig_from_def ps).
Definition call_from_importer (ps : list param) := judge (sig_from_runtime ps).
