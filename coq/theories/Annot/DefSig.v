(* Annot/DefSig.v -- executable model of the two ways pyanalyze derives a
   function's parameters:
     sig_from_def      functions.compute_parameters on the def node
     sig_from_runtime  arg_spec.from_signature / _make_sig_parameter on inspect.signature(f)
   No proofs in this file. *)
From Coq Require Import NArith ZArith List Bool.
Import ListNotations.
Require Import PV.Annot.Forms PV.Gen.Annot PV.Annot.Routes.


Record param := mkParam {
  p_name : N;
  p_kind : pkind;                (* from the def syntax = inspect.Parameter.kind *)
  p_default : bool;
  p_annot : option aexpr;
  p_private : bool               (* is_positional_only_arg_name: "__x" without trailing "__" *)
}.

Record sparam := mkSParam { s_name : N; s_kind : pkind; s_default : bool; s_type : tval }.


(* translate_vararg_type: generated *)
Definition wrap := gen_wrap.

(* compute_parameters: kind from the syntax; an unannotated parameter is
   Any (united with its default, which is Any again up to representation),
   and *args / **kwargs are always wrapped *)
Definition def_param (p : param) : sparam :=
  mkSParam (p_name p) (p_kind p) (p_default p)
    (wrap (p_kind p) (match p_annot p with Some e => route_visitor e | None => TAny end)).

Definition sig_from_def (ps : list param) : list sparam := map def_param ps.

(* _make_sig_parameter: a positional-or-keyword parameter whose name is
   "private" becomes positional-only and makes every earlier parameter
   positional-only; only annotated *args / **kwargs are wrapped *)
Definition rt_type (p : param) : tval :=
  match p_annot p with Some e => wrap (p_kind p) (route_runtime e) | None => TAny end.

Definition is_posorkw (k : pkind) : bool := match k with PosOrKw => true | _ => false end.

Definition make_posonly (s : sparam) : sparam := mkSParam (s_name s) PosOnly (s_default s) (s_type s).

Definition rt_step (acc : list sparam) (p : param) : list sparam :=
  let (k, everything_posonly) := rt_kind (p_kind p) (p_private p) in
  (if everything_posonly then map make_posonly acc else acc) ++ [mkSParam (p_name p) k (p_default p) (rt_type p)].

Definition sig_from_runtime (ps : list param) : list sparam := fold_left rt_step ps [].

(* representation: an unannotated *args is Any on one side and tuple[Any, ...] on the other *)
Definition norm_sparam (s : sparam) : sparam :=
  match s_type s with
  | TAny => mkSParam (s_name s) (s_kind s) (s_default s) (wrap (s_kind s) TAny)
  | _ => s
  end.

Definition ret_from_def (r : option aexpr) : tval := match r with Some e => route_visitor e | None => TAny end.
Definition ret_from_runtime (r : option aexpr) : tval := match r with Some e => route_runtime e | None => TAny end.

Definition param_ok (p : param) : bool := negb (p_private p).
