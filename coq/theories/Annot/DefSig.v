(* Annot/DefSig.v -- executable model of the two ways pyanalyze derives a
   function's parameters:
     sig_from_def      functions.compute_parameters on the def node
     sig_from_runtime  arg_spec.from_signature / _make_sig_parameter on inspect.signature(f)
   No proofs in this file. *)
From Coq Require Import NArith ZArith List Bool.
Import ListNotations.
Require Import PV.Annot.Forms PV.Gen.Annot PV.Annot.Routes.


Record param := mkParam {
  p_name : N;
  p_kind : pkind;                (* from the def syntax = inspect.Parameter.kind *)
  p_default : bool;
  p_annot : option aexpr;
  p_private : bool               (* is_positional_only_arg_name: "__x" without trailing "__" *)
}.

Record sparam := mkSParam { s_name : N; s_kind : pkind; s_default : bool; s_type : tval }.


(* translate_vararg_type: generated *)
Definition wrap := gen_wrap.

(* the declared type of one parameter on each route *)
(* compute_parameters: an unannotated parameter is Any (united with its default, which is Any
   again up to representation); *args / **kwargs are always wrapped *)
Definition def_type (p : param) : tval :=
  wrap (p_kind p) (match p_annot p with Some e => route_visitor e | None => TAny end).
(* _get_type_for_parameter: only annotated *args / **kwargs are wrapped *)
Definition rt_type (p : param) : tval :=
  match p_annot p with Some e => wrap (p_kind p) (route_runtime e) | None => TAny end.

Definition make_posonly (s : sparam) : sparam := mkSParam (s_name s) PosOnly (s_default s) (s_type s).

(* one parameter is appended; when the PEP 484 rule applies (`use_rule`) a positional-or-keyword
   parameter with a private name becomes positional-only and so does everything before it *)
Definition gstep (ty : param -> tval) (use_rule : bool) (acc : list sparam) (p : param) : list sparam :=
  let (k, everything_posonly) := if use_rule then rt_kind (p_kind p) (p_private p) else (p_kind p, false) in
  (if everything_posonly then map make_posonly acc else acc) ++ [mkSParam (p_name p) k (p_default p) (ty p)].

(* functions.compute_parameters (def_private_rule: generated -- is the rule applied there?) *)
Definition sig_from_def (ps : list param) : list sparam := fold_left (gstep def_type def_private_rule) ps [].
(* the code before repo_fixes/C13-private-name-def-route *)
Definition sig_from_def_legacy (ps : list param) : list sparam := fold_left (gstep def_type false) ps [].
(* arg_spec.from_signature / _make_sig_parameter *)
Definition sig_from_runtime (ps : list param) : list sparam := fold_left (gstep rt_type true) ps [].

(* representation: an unannotated *args is Any on one side and tuple[Any, ...] on the other *)
Definition norm_type (k : pkind) (t : tval) : tval := match t with TAny => wrap k TAny | _ => t end.

(* what the binder sees of a parameter *)
Definition erase (s : sparam) : N * pkind * bool := (s_name s, s_kind s, s_default s).

Definition ret_from_def (r : option aexpr) : tval := match r with Some e => route_visitor e | None => TAny end.
Definition ret_from_runtime (r : option aexpr) : tval := match r with Some e => route_runtime e | None => TAny end.

(* ---- the owning class of an unannotated `self` -------------------------------- *)
(* The def route takes it from the enclosing ClassDef.  The runtime route
   (_get_type_for_parameter) walks function.__qualname__ = Outer.Inner.method from the
   module: every component is looked up on the object found in the previous step
   (`self_walk_on_previous`, generated). *)
Inductive cls := Cls (name : N) (nested : list cls).
Definition cname (c : cls) : N := match c with Cls n _ => n end.
Definition cnested (c : cls) : list cls := match c with Cls _ l => l end.

Fixpoint find_cls (n : N) (l : list cls) : option cls :=
  match l with
  | [] => None
  | c :: r => if N.eqb (cname c) n then Some c else find_cls n r
  end.

(* walk on_previous module here path: `here` = the attributes of the object found so far *)
Fixpoint walk_from (on_previous : bool) (module here : list cls) (path : list N) (found : option cls) : option cls :=
  match path with
  | [] => found
  | n :: r =>
      match find_cls n (if on_previous then here else module) with
      | None => None
      | Some c => walk_from on_previous module (cnested c) r (Some c)
      end
  end.

Definition owner_from_qualname (module : list cls) (path : list N) : option cls :=
  walk_from self_walk_on_previous module module path None.
Definition owner_from_qualname_on_module (module : list cls) (path : list N) : option cls :=
  walk_from false module module path None.      (* every component looked up on the module *)

(* a class nested in a class nested in ... : N0 containing N1 containing ... *)
Fixpoint chain (names : list N) : list cls :=
  match names with
  | [] => []
  | n :: r => [Cls n (chain r)]
  end.
