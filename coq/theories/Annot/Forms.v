(* Annot/Forms.v -- the vocabulary shared by the generated tables (PV.Gen.Annot)
   and the models (Annot/Routes.v, Annot/DefSig.v): type values, annotation
   forms, the actions a dispatch branch can perform, parameter kinds.
   No proofs in this file. *)
From Coq Require Import NArith ZArith List Bool.
Import ListNotations.

Inductive tval :=
| TAny
| TErr                                    (* Any[error] together with an invalid_annotation diagnostic *)
| TCrash                                  (* the evaluator raises (internal_error) *)
| TNever
| TNone
| TTyped (c : N)
| TGeneric (c : N) (args : list tval)
| TSeq (ms : list (bool * tval))          (* SequenceValue(tuple, members) *)
| TUnion (has_none : bool) (ms : list tval)
| TLit (l : Z)
| TSub (v : tval)                         (* SubclassValue *)
| TCallAny (r : tval)
| TCall (ps : list tval) (r : tval)
| TAnnot (v : tval) (m : N)
| TAlias (n : N) (args : list tval).   (* TypeAliasValue: a PEP 695 alias, with its type arguments *)

Definition tuple_c : N := 1000%N.
Definition dict_c : N := 1001%N.
Definition str_c : N := 1002%N.
Definition type_c : N := 8%N.

(* the annotation forms the two dispatch functions recognise *)
Inductive form :=
| FUnion | FLiteral | FTupleBare | FTupleVar | FTupleEmpty | FTupleFixed | FOptional | FType
| FAnnotated | FFinal | FClassVar | FUnpack | FCallable | FGenericClass | FTypeAlias.

(* what the recognising branch does with the (already converted) arguments *)
Inductive action :=
| ActUniteMembers                 (* unite_values of the converted members *)
| ActUniteLiterals (flatten : bool) (* unite_values of the literals; nested Literal flattened first or rejected *)
| ActGenericTuple1                (* GenericValue(tuple, [member 0]) *)
| ActSeqEmpty                     (* SequenceValue(tuple, []) *)
| ActSeqMembers                   (* _make_sequence_value(tuple, members): Unpack members are spliced *)
| ActSeqMembersStarLost           (* same, but a starred alias is converted as a plain tuple *)
| ActOptional (none_first : bool) (* unite_values(None, member) / (member, None) *)
| ActSubclassMake                 (* SubclassValue.make(member 0) *)
| ActAnnotated                    (* _make_annotated(member 0, metadata) *)
| ActTransparent                  (* member 0 *)
| ActUnpacked                     (* UnpackedValue(member 0) *)
| ActCallable                     (* CallableValue from parameter types and return type *)
| ActGenericOf                    (* GenericValue(root, members) *)
| ActAliasOf.                     (* TypeAliasValue(alias, members) *)

Definition form_code (f : form) : nat :=
  match f with
  | FUnion => 0 | FLiteral => 1 | FTupleBare => 2 | FTupleVar => 3 | FTupleEmpty => 4 | FTupleFixed => 5
  | FOptional => 6 | FType => 7 | FAnnotated => 8 | FFinal => 9 | FClassVar => 10 | FUnpack => 11
  | FCallable => 12 | FGenericClass => 13 | FTypeAlias => 14
  end.

Fixpoint act (t : list (form * action)) (f : form) : option action :=
  match t with
  | [] => None
  | (g, a) :: r => if Nat.eqb (form_code g) (form_code f) then Some a else act r f
  end.

Inductive pkind := PosOnly | PosOrKw | VarPos | KwOnly | VarKw.
