(* Annot/Routes.v -- executable model of the three ways pyanalyze turns an
   annotation expression into a type:

     route_ast      annotations._Visitor + _type_from_value / _type_from_subscripted_value
                    (type_from_ast; also every string / forward reference, through
                    _eval_forward_ref)
     route_runtime  _type_from_runtime / _value_of_origin_args applied to the object
                    that evaluating the expression produces (type_from_runtime(eval(E)))
     route_visitor  name_check_visitor.value_of_annotation for an annotation written in
                    the checked module

   Values are kept "up to representation": a union records whether None is a
   member separately from its other members (so `Optional[X]`, which the AST
   route builds as None|X and typing builds as X|None, is one value), members
   keep their order and multiplicity (the harness compares them as sets).
   No proofs in this file. *)
From Coq Require Import NArith ZArith List Bool.
Import ListNotations.

Inductive aexpr :=
| EClass (c : N)                          (* int, str, A, ...: a plain class *)
| ENone
| EAny
| EOptional (e : aexpr)                   (* Optional[e] *)
| EUnion (es : list aexpr)                (* Union[e1, ..., en] *)
| EOr (a b : aexpr)                       (* a | b *)
| EGeneric (c : N) (es : list aexpr)      (* list[e], Dict[k, v], Sequence[e] ... *)
| ETupleVar (e : aexpr)                   (* tuple[e, ...] *)
| ETupleFixed (es : list aexpr)           (* tuple[e1, ..., en] *)
| ETupleEmpty                             (* tuple[()] *)
| EStarTuple (pre : list aexpr) (s : aexpr)  (* tuple[pre..., *tuple[s, ...]] *)
| EUnpackTuple (pre : list aexpr) (s : aexpr) (* Tuple[pre..., Unpack[Tuple[s, ...]]] *)
| ELiteral (ls : list Z)                  (* Literal[l1, ..., ln] *)
| ELitNested (inner ls : list Z)          (* Literal[Literal[inner...], ls...] *)
| EType (e : aexpr)                       (* type[e] *)
| ECallableAny (r : aexpr)                (* Callable[..., r] *)
| ECallable (ps : list aexpr) (r : aexpr) (* Callable[[p1, ...], r] *)
| EAnnotated (e : aexpr) (m : N)          (* Annotated[e, m] *)
| EFinal (e : aexpr)                      (* Final[e] *)
| EClassVar (e : aexpr)                   (* ClassVar[e] *)
| EStr (e : aexpr).                       (* "e": a string / forward reference *)

Inductive tval :=
| TAny
| TErr                                    (* Any[error] together with an invalid_annotation diagnostic *)
| TCrash                                  (* the evaluator raises (internal_error) *)
| TNever
| TNone
| TTyped (c : N)
| TGeneric (c : N) (args : list tval)
| TSeq (ms : list (bool * tval))          (* SequenceValue(tuple, members) *)
| TUnion (has_none : bool) (ms : list tval)
| TLit (l : Z)
| TSub (v : tval)                         (* SubclassValue *)
| TCallAny (r : tval)
| TCall (ps : list tval) (r : tval)
| TAnnot (v : tval) (m : N).

Definition tuple_c : N := 1000%N.

(* unite_values, up to representation *)
Definition has_none_v (v : tval) : bool :=
  match v with TNone => true | TUnion b _ => b | _ => false end.
Definition nonnone_members (v : tval) : list tval :=
  match v with TNone => [] | TUnion _ ms => ms | TNever => [] | _ => [v] end.
Definition unite (l : list tval) : tval :=
  let hn := existsb has_none_v l in
  let ms := flat_map nonnone_members l in
  match hn, ms with
  | true, [] => TNone
  | false, [] => TNever
  | false, [x] => x
  | _, _ => TUnion hn ms
  end.

(* does a value carry an error / an exception (they are diagnostics of the whole annotation) *)
Fixpoint has_tag (crash : bool) (v : tval) : bool :=
  match v with
  | TErr => negb crash
  | TCrash => crash
  | TGeneric _ args => existsb (has_tag crash) args
  | TSeq ms => (fix go (l : list (bool * tval)) : bool :=
                  match l with [] => false | (_, x) :: r => has_tag crash x || go r end) ms
  | TUnion _ ms => existsb (has_tag crash) ms
  | TSub v | TCallAny v | TAnnot v _ => has_tag crash v
  | TCall ps r => existsb (has_tag crash) ps || has_tag crash r
  | _ => false
  end.

(* SubclassValue.make *)
Definition type_c : N := 8%N.
Definition mk_sub1 (v : tval) : tval :=
  match v with
  | TAny => TTyped type_c               (* Type[Any] is plain type *)
  | TTyped _ | TGeneric _ _ | TSeq _ | TCallAny _ | TCall _ _ => TSub v   (* TypedValue and its subclasses *)
  | TErr => TErr
  | TCrash => TCrash
  | _ => if has_tag true v then TCrash else if has_tag false v then TErr else TAny
  end.
Definition mk_sub (v : tval) : tval :=
  match v with
  | TUnion hn ms => unite (map mk_sub1 ms ++ (if hn then [TAny] else []))
  | _ => mk_sub1 v
  end.

Definition single (vs : list tval) : list (bool * tval) := map (fun v => (false, v)) vs.

(* _Visitor walks the whole expression before anything is interpreted: a starred
   element anywhere outside a string raises NotImplementedError *)
Fixpoint star_outside_str (e : aexpr) : bool :=
  match e with
  | EStarTuple _ _ => true
  | EStr _ => false
  | EOptional e | ETupleVar e | EType e | ECallableAny e | EAnnotated e _ | EFinal e | EClassVar e => star_outside_str e
  | EUnion es | EGeneric _ es | ETupleFixed es => existsb star_outside_str es
  | EOr a b => star_outside_str a || star_outside_str b
  | EUnpackTuple pre s => existsb star_outside_str pre || star_outside_str s
  | ECallable ps r => existsb star_outside_str ps || star_outside_str r
  | _ => false
  end.

(* ---- AST / string route ------------------------------------------------- *)
Fixpoint route_ast (e : aexpr) : tval :=
  match e with
  | EClass c => TTyped c
  | ENone => TNone
  | EAny => TAny
  | EOptional e => unite [TNone; route_ast e]
  | EUnion es => unite (map route_ast es)
  | EOr a b => unite [route_ast a; route_ast b]
  | EGeneric c es => TGeneric c (map route_ast es)
  | ETupleVar e => TGeneric tuple_c [route_ast e]
  | ETupleFixed es => TSeq (single (map route_ast es))
  | ETupleEmpty => TSeq []
  | EStarTuple _ _ => TCrash                       (* _Visitor has no visit_Starred *)
  | EUnpackTuple pre s => TSeq (single (map route_ast pre) ++ [(true, route_ast s)])
  | ELiteral ls => unite (map TLit ls)
  | ELitNested _ _ => TErr                         (* "Arguments to Literal[] must be literals" *)
  | EType e => mk_sub (route_ast e)
  | ECallableAny r => TCallAny (route_ast r)
  | ECallable ps r => TCall (map route_ast ps) (route_ast r)
  | EAnnotated e m => TAnnot (route_ast e) m
  | EFinal e => if star_outside_str e then TCrash else TErr   (* "Unrecognized subscripted annotation" *)
  | EClassVar e => if star_outside_str e then TCrash else TErr
  | EStr e => route_ast e                          (* _eval_forward_ref: parse, then this route *)
  end.

(* ---- runtime-object route and the visitor route --------------------------- *)
(* Both convert the object that evaluating the expression produces; they differ
   only in what happens to a starred member (`star`). *)
Fixpoint route_rt (star : list tval -> tval -> tval) (e : aexpr) : tval :=
  match e with
  | EClass c => TTyped c
  | ENone => TNone
  | EAny => TAny
  | EOptional e => unite [route_rt star e; TNone]  (* typing: Optional[X] = Union[X, None] *)
  | EUnion es => unite (map (route_rt star) es)
  | EOr a b => unite [route_rt star a; route_rt star b]
  | EGeneric c es => TGeneric c (map (route_rt star) es)
  | ETupleVar e => TGeneric tuple_c [route_rt star e]
  | ETupleFixed es => TSeq (single (map (route_rt star) es))
  | ETupleEmpty => TSeq []
  | EStarTuple pre s => star (map (route_rt star) pre) (route_rt star s)
  | EUnpackTuple pre s => TSeq (single (map (route_rt star) pre) ++ [(true, route_rt star s)])
  | ELiteral ls => unite (map TLit ls)
  | ELitNested inner ls => unite (map TLit (inner ++ ls))   (* typing flattens nested Literal *)
  | EType e => mk_sub (route_rt star e)
  | ECallableAny r => TCallAny (route_rt star r)
  | ECallable ps r => TCall (map (route_rt star) ps) (route_rt star r)
  | EAnnotated e m => TAnnot (route_rt star e) m
  | EFinal e => route_rt star e
  | EClassVar e => route_rt star e
  | EStr e => route_ast e                          (* a str object goes through _eval_forward_ref *)
  end.

(* _value_of_origin_args: get_origin of the starred alias is tuple, the star is lost *)
Definition star_runtime (pre : list tval) (s : tval) : tval :=
  TSeq (single pre ++ [(false, TGeneric tuple_c [s])]).
(* value_of_annotation: the starred subscript is not understood; the result is tuple[Any] *)
Definition star_visitor (pre : list tval) (s : tval) : tval :=
  if existsb (has_tag true) pre || has_tag true s then TCrash else TSeq [(false, TAny)].

Definition route_runtime : aexpr -> tval := route_rt star_runtime.
Definition route_visitor : aexpr -> tval := route_rt star_visitor.

(* ---- guard: the three classes on which the routes are known to differ ---- *)
Fixpoint has_star_unpack (e : aexpr) : bool :=
  match e with
  | EStarTuple _ _ => true
  | EOptional e | ETupleVar e | EType e | ECallableAny e | EAnnotated e _ | EFinal e | EClassVar e | EStr e => has_star_unpack e
  | EUnion es | EGeneric _ es | ETupleFixed es => existsb has_star_unpack es
  | EOr a b => has_star_unpack a || has_star_unpack b
  | EUnpackTuple pre s => existsb has_star_unpack pre || has_star_unpack s
  | ECallable ps r => existsb has_star_unpack ps || has_star_unpack r
  | _ => false
  end.

Fixpoint has_nested_literal (e : aexpr) : bool :=
  match e with
  | ELitNested _ _ => true
  | EOptional e | ETupleVar e | EType e | ECallableAny e | EAnnotated e _ | EFinal e | EClassVar e | EStr e => has_nested_literal e
  | EUnion es | EGeneric _ es | ETupleFixed es => existsb has_nested_literal es
  | EOr a b => has_nested_literal a || has_nested_literal b
  | EStarTuple pre s | EUnpackTuple pre s => existsb has_nested_literal pre || has_nested_literal s
  | ECallable ps r => existsb has_nested_literal ps || has_nested_literal r
  | _ => false
  end.

Fixpoint has_final_classvar (e : aexpr) : bool :=
  match e with
  | EFinal _ | EClassVar _ => true
  | EOptional e | ETupleVar e | EType e | ECallableAny e | EAnnotated e _ | EStr e => has_final_classvar e
  | EUnion es | EGeneric _ es | ETupleFixed es => existsb has_final_classvar es
  | EOr a b => has_final_classvar a || has_final_classvar b
  | EStarTuple pre s | EUnpackTuple pre s => existsb has_final_classvar pre || has_final_classvar s
  | ECallable ps r => existsb has_final_classvar ps || has_final_classvar r
  | _ => false
  end.

Definition routes_guard (e : aexpr) : bool :=
  negb (has_star_unpack e) && negb (has_nested_literal e) && negb (has_final_classvar e).
