(* Annot/Routes.v -- executable model of the three ways pyanalyze turns an
   annotation expression into a type:

     route_ast      annotations._Visitor + _type_from_value / _type_from_subscripted_value
                    (type_from_ast; also every string / forward reference, through
                    _eval_forward_ref)
     route_runtime  _type_from_runtime / _value_of_origin_args applied to the object
                    that evaluating the expression produces (type_from_runtime(eval(E)))
     route_visitor  name_check_visitor.value_of_annotation for an annotation written in
                    the checked module

   Values are kept "up to representation": a union records whether None is a
   member separately from its other members (so `Optional[X]`, which the AST
   route builds as None|X and typing builds as X|None, is one value), members
   keep their order and multiplicity (the harness compares them as sets).
   No proofs in this file. *)
From Coq Require Import NArith ZArith List Bool.
Import ListNotations.
Require Import PV.Annot.Forms PV.Gen.Annot.

Inductive aexpr :=
| EClass (c : N)                          (* int, str, A, ...: a plain class *)
| ENone
| EAny
| EOptional (e : aexpr)                   (* Optional[e] *)
| EUnion (es : list aexpr)                (* Union[e1, ..., en] *)
| EOr (a b : aexpr)                       (* a | b *)
| EGeneric (c : N) (es : list aexpr)      (* list[e], Dict[k, v], Sequence[e] ... *)
| ETupleVar (e : aexpr)                   (* tuple[e, ...] *)
| ETupleFixed (es : list aexpr)           (* tuple[e1, ..., en] *)
| ETupleEmpty                             (* tuple[()] *)
| EStarTuple (pre : list aexpr) (s : aexpr)  (* tuple[pre..., *tuple[s, ...]] *)
| EUnpackTuple (pre : list aexpr) (s : aexpr) (* Tuple[pre..., Unpack[Tuple[s, ...]]] *)
| ELiteral (ls : list Z)                  (* Literal[l1, ..., ln] *)
| ELitNested (inner ls : list Z)          (* Literal[Literal[inner...], ls...] *)
| EType (e : aexpr)                       (* type[e] *)
| ECallableAny (r : aexpr)                (* Callable[..., r] *)
| ECallable (ps : list aexpr) (r : aexpr) (* Callable[[p1, ...], r] *)
| EAnnotated (e : aexpr) (m : N)          (* Annotated[e, m] *)
| EFinal (e : aexpr)                      (* Final[e] *)
| EClassVar (e : aexpr)                   (* ClassVar[e] *)
| EStr (e : aexpr)                        (* "e": a string / forward reference *)
| EAlias (n : N)                          (* a PEP 695 alias used by name: `type X = ...`; X *)
| EAliasApp (n : N) (es : list aexpr).    (* a generic PEP 695 alias with arguments: X[e1, ...] *)

(* unite_values, up to representation *)
Definition has_none_v (v : tval) : bool :=
  match v with TNone => true | TUnion b _ => b | _ => false end.
Definition nonnone_members (v : tval) : list tval :=
  match v with TNone => [] | TUnion _ ms => ms | TNever => [] | _ => [v] end.
Definition unite (l : list tval) : tval :=
  let hn := existsb has_none_v l in
  let ms := flat_map nonnone_members l in
  match hn, ms with
  | true, [] => TNone
  | false, [] => TNever
  | false, [x] => x
  | _, _ => TUnion hn ms
  end.

(* does a value carry an error / an exception (they are diagnostics of the whole annotation) *)
Fixpoint has_tag (crash : bool) (v : tval) : bool :=
  match v with
  | TErr => negb crash
  | TCrash => crash
  | TGeneric _ args => existsb (has_tag crash) args
  | TSeq ms => (fix go (l : list (bool * tval)) : bool :=
                  match l with [] => false | (_, x) :: r => has_tag crash x || go r end) ms
  | TUnion _ ms => existsb (has_tag crash) ms
  | TSub v | TCallAny v | TAnnot v _ => has_tag crash v
  | TCall ps r => existsb (has_tag crash) ps || has_tag crash r
  | TAlias _ args => existsb (has_tag crash) args
  | _ => false
  end.

(* SubclassValue.make *)
Definition mk_sub1 (v : tval) : tval :=
  match v with
  | TAny => TTyped type_c               (* Type[Any] is plain type *)
  | TTyped _ | TGeneric _ _ | TSeq _ | TCallAny _ | TCall _ _ => TSub v   (* TypedValue and its subclasses *)
  | TErr => TErr
  | TCrash => TCrash
  | _ => if has_tag true v then TCrash else if has_tag false v then TErr else TAny
  end.
Definition mk_sub (v : tval) : tval :=
  match v with
  | TUnion hn ms => unite (map mk_sub1 ms ++ (if hn then [TAny] else []))
  | _ => mk_sub1 v
  end.

Definition single (vs : list tval) : list (bool * tval) := map (fun v => (false, v)) vs.

(* ---- interpreting one dispatch branch --------------------------------------- *)
(* args: the converted arguments; for a Callable the return type comes first;
   lits/nested: the literals of a Literal form and whether some were written as
   an inner Literal[...]; c: the class of a generic; m: Annotated metadata;
   ellipsis: Callable[..., R] *)
Definition interp (a : option action) (args : list tval) (lits : list Z) (nested : bool)
                  (c m : N) (ellipsis : bool) : tval :=
  match a with
  | Some ActUniteMembers => unite args
  | Some (ActUniteLiterals flat) => if nested && negb flat then TErr else unite (map TLit lits)
  | Some ActGenericTuple1 => TGeneric tuple_c args
  | Some ActSeqEmpty => TSeq []
  | Some ActSeqMembers | Some ActSeqMembersStarLost => TSeq (single args)
  | Some (ActOptional none_first) => if none_first then unite (TNone :: args) else unite (args ++ [TNone])
  | Some ActSubclassMake => mk_sub (hd TErr args)
  | Some ActAnnotated => TAnnot (hd TErr args) m
  | Some ActTransparent => hd TErr args
  | Some ActCallable => if ellipsis then TCallAny (hd TErr args) else TCall (tl args) (hd TErr args)
  | Some ActGenericOf => TGeneric c args
  | Some ActAliasOf => TAlias c args
  | Some ActUnpacked | None => TErr          (* Unpack outside a tuple / unrecognised form *)
  end.

(* a tuple whose last member is Unpack[tuple[s, ...]] (written with Unpack or with a star) *)
Definition seq_unpack (t : list (form * action)) (star : bool) (star_desugared : bool)
                      (pre : list tval) (s : tval) : tval :=
  match act t FTupleFixed, act t FUnpack with
  | Some ActSeqMembers, Some ActUnpacked =>
      if star && negb star_desugared then TErr else TSeq (single pre ++ [(true, s)])
  | Some ActSeqMembersStarLost, Some ActUnpacked =>
      if star then TSeq (single pre ++ [(false, TGeneric tuple_c [s])]) else TSeq (single pre ++ [(true, s)])
  | _, _ => TErr
  end.

Definition ast_do (f : form) := interp (act ast_table f).
Definition rt_do (f : form) := interp (act rt_table f).

(* ---- AST / string route ------------------------------------------------- *)
Fixpoint route_ast (e : aexpr) : tval :=
  match e with
  | EClass c => TTyped c
  | ENone => TNone
  | EAny => TAny
  | EOptional e => ast_do FOptional [route_ast e] [] false 0 0 false
  | EUnion es => ast_do FUnion (map route_ast es) [] false 0 0 false
  | EOr a b => ast_do FUnion [route_ast a; route_ast b] [] false 0 0 false   (* visit_BinOp: Union *)
  | EGeneric c es => ast_do FGenericClass (map route_ast es) [] false c 0 false
  | ETupleVar e => ast_do FTupleVar [route_ast e] [] false 0 0 false
  | ETupleFixed es => ast_do FTupleFixed (map route_ast es) [] false 0 0 false
  | ETupleEmpty => ast_do FTupleEmpty [] [] false 0 0 false
  | EStarTuple pre s => seq_unpack ast_table true ast_visit_starred (map route_ast pre) (route_ast s)
  | EUnpackTuple pre s => seq_unpack ast_table false true (map route_ast pre) (route_ast s)
  | ELiteral ls => ast_do FLiteral [] ls false 0 0 false
  | ELitNested inner ls => ast_do FLiteral [] (inner ++ ls) true 0 0 false
  | EType e => ast_do FType [route_ast e] [] false 0 0 false
  | ECallableAny r => ast_do FCallable [route_ast r] [] false 0 0 true
  | ECallable ps r => ast_do FCallable (route_ast r :: map route_ast ps) [] false 0 0 false
  | EAnnotated e m => ast_do FAnnotated [route_ast e] [] false 0 m false
  | EFinal e => ast_do FFinal [route_ast e] [] false 0 0 false
  | EClassVar e => ast_do FClassVar [route_ast e] [] false 0 0 false
  | EStr e => route_ast e                          (* _eval_forward_ref: parse, then this route *)
  | EAlias n => TAlias n []                        (* a name: the object itself goes through _type_from_runtime *)
  | EAliasApp n es => ast_do FTypeAlias (map route_ast es) [] false n 0 false
  end.

(* ---- runtime-object route ------------------------------------------------ *)
(* typing itself turns Optional[X] into Union[X, None], X | Y into a union object and
   flattens nested Literal; the starred alias reaches the tuple branch as an argument *)
Fixpoint route_runtime (e : aexpr) : tval :=
  match e with
  | EClass c => TTyped c
  | ENone => TNone
  | EAny => TAny
  | EOptional e => rt_do FUnion [route_runtime e; TNone] [] false 0 0 false
  | EUnion es => rt_do FUnion (map route_runtime es) [] false 0 0 false
  | EOr a b => rt_do FUnion [route_runtime a; route_runtime b] [] false 0 0 false
  | EGeneric c es => rt_do FGenericClass (map route_runtime es) [] false c 0 false
  | ETupleVar e => rt_do FTupleVar [route_runtime e] [] false 0 0 false
  | ETupleFixed es => rt_do FTupleFixed (map route_runtime es) [] false 0 0 false
  | ETupleEmpty => rt_do FTupleEmpty [] [] false 0 0 false
  | EStarTuple pre s => seq_unpack rt_table true true (map route_runtime pre) (route_runtime s)
  | EUnpackTuple pre s => seq_unpack rt_table false true (map route_runtime pre) (route_runtime s)
  | ELiteral ls => rt_do FLiteral [] ls false 0 0 false
  | ELitNested inner ls => rt_do FLiteral [] (inner ++ ls) false 0 0 false
  | EType e => rt_do FType [route_runtime e] [] false 0 0 false
  | ECallableAny r => rt_do FCallable [route_runtime r] [] false 0 0 true
  | ECallable ps r => rt_do FCallable (route_runtime r :: map route_runtime ps) [] false 0 0 false
  | EAnnotated e m => rt_do FAnnotated [route_runtime e] [] false 0 m false
  | EFinal e => rt_do FFinal [route_runtime e] [] false 0 0 false
  | EClassVar e => rt_do FClassVar [route_runtime e] [] false 0 0 false
  | EStr e => route_ast e                          (* a str object goes through _eval_forward_ref *)
  | EAlias n => TAlias n []
  | EAliasApp n es => rt_do FTypeAlias (map route_runtime es) [] false n 0 false
  end.

(* ---- annotation written in the checked module ---------------------------- *)
(* value_of_annotation evaluates the expression with the checker's own visitor
   (a starred known alias inside a tuple display is replaced by its unpacked
   form), obtains the runtime object and converts that *)
Definition route_visitor (e : aexpr) : tval := route_runtime e.

(* which expressions contain a starred tuple member (kept for the histogram of
   the harness and for the statement about the unrepaired code) *)
Fixpoint has_star_unpack (e : aexpr) : bool :=
  match e with
  | EStarTuple _ _ => true
  | EOptional e | ETupleVar e | EType e | ECallableAny e | EAnnotated e _ | EFinal e | EClassVar e | EStr e => has_star_unpack e
  | EUnion es | EGeneric _ es | ETupleFixed es | EAliasApp _ es => existsb has_star_unpack es
  | EOr a b => has_star_unpack a || has_star_unpack b
  | EUnpackTuple pre s => existsb has_star_unpack pre || has_star_unpack s
  | ECallable ps r => existsb has_star_unpack ps || has_star_unpack r
  | _ => false
  end.
