(* Annot/Routes.v -- executable model of the three ways pyanalyze turns an
   annotation expression into a type:

     route_ast      annotations._Visitor + _type_from_value / _type_from_subscripted_value
                    (type_from_ast; also every string / forward reference, through
                    _eval_forward_ref)
     route_runtime  _type_from_runtime / _value_of_origin_args applied to the object
                    that evaluating the expression produces (type_from_runtime(eval(E)))
     route_visitor  name_check_visitor.value_of_annotation for an annotation written in
                    the checked module

   Values are kept "up to representation": a union records whether None is a
   member separately from its other members (so `Optional[X]`, which the AST
   route builds as None|X and typing builds as X|None, is one value), members
   keep their order and multiplicity (the harness compares them as sets).
   No proofs in this file. *)
From Coq Require Import NArith ZArith List Bool.
Import ListNotations.

Inductive aexpr :=
| EClass (c : N)                          (* int, str, A, ...: a plain class *)
| ENone
| EAny
| EOptional (e : aexpr)                   (* Optional[e] *)
| EUnion (es : list aexpr)                (* Union[e1, ..., en] *)
| EOr (a b : aexpr)                       (* a | b *)
| EGeneric (c : N) (es : list aexpr)      (* list[e], Dict[k, v], Sequence[e] ... *)
| ETupleVar (e : aexpr)                   (* tuple[e, ...] *)
| ETupleFixed (es : list aexpr)           (* tuple[e1, ..., en] *)
| ETupleEmpty                             (* tuple[()] *)
| EStarTuple (pre : list aexpr) (s : aexpr)  (* tuple[pre..., *tuple[s, ...]] *)
| EUnpackTuple (pre : list aexpr) (s : aexpr) (* Tuple[pre..., Unpack[Tuple[s, ...]]] *)
| ELiteral (ls : list Z)                  (* Literal[l1, ..., ln] *)
| ELitNested (inner ls : list Z)          (* Literal[Literal[inner...], ls...] *)
| EType (e : aexpr)                       (* type[e] *)
| ECallableAny (r : aexpr)                (* Callable[..., r] *)
| ECallable (ps : list aexpr) (r : aexpr) (* Callable[[p1, ...], r] *)
| EAnnotated (e : aexpr) (m : N)          (* Annotated[e, m] *)
| EFinal (e : aexpr)                      (* Final[e] *)
| EClassVar (e : aexpr)                   (* ClassVar[e] *)
| EStr (e : aexpr).                       (* "e": a string / forward reference *)

Inductive tval :=
| TAny
| TErr                                    (* Any[error] together with an invalid_annotation diagnostic *)
| TCrash                                  (* the evaluator raises (internal_error) *)
| TNever
| TNone
| TTyped (c : N)
| TGeneric (c : N) (args : list tval)
| TSeq (ms : list (bool * tval))          (* SequenceValue(tuple, members) *)
| TUnion (has_none : bool) (ms : list tval)
| TLit (l : Z)
| TSub (v : tval)                         (* SubclassValue *)
| TCallAny (r : tval)
| TCall (ps : list tval) (r : tval)
| TAnnot (v : tval) (m : N).

Definition tuple_c : N := 1000%N.

(* unite_values, up to representation *)
Definition has_none_v (v : tval) : bool :=
  match v with TNone => true | TUnion b _ => b | _ => false end.
Definition nonnone_members (v : tval) : list tval :=
  match v with TNone => [] | TUnion _ ms => ms | TNever => [] | _ => [v] end.
Definition unite (l : list tval) : tval :=
  let hn := existsb has_none_v l in
  let ms := flat_map nonnone_members l in
  match hn, ms with
  | true, [] => TNone
  | false, [] => TNever
  | false, [x] => x
  | _, _ => TUnion hn ms
  end.

Definition single (vs : list tval) : list (bool * tval) := map (fun v => (false, v)) vs.

(* ---- AST / string route ------------------------------------------------- *)
Fixpoint route_ast (e : aexpr) : tval :=
  match e with
  | EClass c => TTyped c
  | ENone => TNone
  | EAny => TAny
  | EOptional e => unite [TNone; route_ast e]
  | EUnion es => unite (map route_ast es)
  | EOr a b => unite [route_ast a; route_ast b]
  | EGeneric c es => TGeneric c (map route_ast es)
  | ETupleVar e => TGeneric tuple_c [route_ast e]
  | ETupleFixed es => TSeq (single (map route_ast es))
  | ETupleEmpty => TSeq []
  | EStarTuple _ _ => TCrash                       (* _Visitor has no visit_Starred *)
  | EUnpackTuple pre s => TSeq (single (map route_ast pre) ++ [(true, route_ast s)])
  | ELiteral ls => unite (map TLit ls)
  | ELitNested _ _ => TErr                         (* "Arguments to Literal[] must be literals" *)
  | EType e => TSub (route_ast e)
  | ECallableAny r => TCallAny (route_ast r)
  | ECallable ps r => TCall (map route_ast ps) (route_ast r)
  | EAnnotated e m => TAnnot (route_ast e) m
  | EFinal _ => TErr                               (* "Unrecognized subscripted annotation" *)
  | EClassVar _ => TErr
  | EStr e => route_ast e                          (* _eval_forward_ref: parse, then this route *)
  end.

(* ---- runtime-object route ------------------------------------------------ *)
Fixpoint route_runtime (e : aexpr) : tval :=
  match e with
  | EClass c => TTyped c
  | ENone => TNone
  | EAny => TAny
  | EOptional e => unite [route_runtime e; TNone]  (* typing: Optional[X] = Union[X, None] *)
  | EUnion es => unite (map route_runtime es)
  | EOr a b => unite [route_runtime a; route_runtime b]
  | EGeneric c es => TGeneric c (map route_runtime es)
  | ETupleVar e => TGeneric tuple_c [route_runtime e]
  | ETupleFixed es => TSeq (single (map route_runtime es))
  | ETupleEmpty => TSeq []
  | EStarTuple pre s =>                            (* get_origin of the starred alias is tuple: the star is lost *)
      TSeq (single (map route_runtime pre) ++ [(false, TGeneric tuple_c [route_runtime s])])
  | EUnpackTuple pre s => TSeq (single (map route_runtime pre) ++ [(true, route_runtime s)])
  | ELiteral ls => unite (map TLit ls)
  | ELitNested inner ls => unite (map TLit (inner ++ ls))   (* typing flattens nested Literal *)
  | EType e => TSub (route_runtime e)
  | ECallableAny r => TCallAny (route_runtime r)
  | ECallable ps r => TCall (map route_runtime ps) (route_runtime r)
  | EAnnotated e m => TAnnot (route_runtime e) m
  | EFinal e => route_runtime e
  | EClassVar e => route_runtime e
  | EStr e => route_ast e                          (* a str object goes through _eval_forward_ref *)
  end.

(* ---- annotation written in the checked module ---------------------------- *)
(* the visitor evaluates the expression to the runtime object and converts
   that; a top-level string is parsed; a starred member is not understood *)
Definition route_visitor (e : aexpr) : tval :=
  match e with
  | EStarTuple _ _ => TSeq [(false, TAny)]
  | EStr e' => route_ast e'
  | _ => route_runtime e
  end.

(* ---- guard: the three classes on which the routes are known to differ ---- *)
Fixpoint has_star_unpack (e : aexpr) : bool :=
  match e with
  | EStarTuple _ _ => true
  | EOptional e | ETupleVar e | EType e | ECallableAny e | EAnnotated e _ | EFinal e | EClassVar e | EStr e => has_star_unpack e
  | EUnion es | EGeneric _ es | ETupleFixed es => existsb has_star_unpack es
  | EOr a b => has_star_unpack a || has_star_unpack b
  | EUnpackTuple pre s => existsb has_star_unpack pre || has_star_unpack s
  | ECallable ps r => existsb has_star_unpack ps || has_star_unpack r
  | _ => false
  end.

Fixpoint has_nested_literal (e : aexpr) : bool :=
  match e with
  | ELitNested _ _ => true
  | EOptional e | ETupleVar e | EType e | ECallableAny e | EAnnotated e _ | EFinal e | EClassVar e | EStr e => has_nested_literal e
  | EUnion es | EGeneric _ es | ETupleFixed es => existsb has_nested_literal es
  | EOr a b => has_nested_literal a || has_nested_literal b
  | EStarTuple pre s | EUnpackTuple pre s => existsb has_nested_literal pre || has_nested_literal s
  | ECallable ps r => existsb has_nested_literal ps || has_nested_literal r
  | _ => false
  end.

Fixpoint has_final_classvar (e : aexpr) : bool :=
  match e with
  | EFinal _ | EClassVar _ => true
  | EOptional e | ETupleVar e | EType e | ECallableAny e | EAnnotated e _ | EStr e => has_final_classvar e
  | EUnion es | EGeneric _ es | ETupleFixed es => existsb has_final_classvar es
  | EOr a b => has_final_classvar a || has_final_classvar b
  | EStarTuple pre s | EUnpackTuple pre s => existsb has_final_classvar pre || has_final_classvar s
  | ECallable ps r => existsb has_final_classvar ps || has_final_classvar r
  | _ => false
  end.

Definition routes_guard (e : aexpr) : bool :=
  negb (has_star_unpack e) && negb (has_nested_literal e) && negb (has_final_classvar e).
