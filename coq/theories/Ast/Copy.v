(* Ast/Copy.v — model of node_visitor.NodeTransformer.generic_visit (the non-mutating AST copier
   behind replace_node) and of ReplaceNodeTransformer (C16).

   A node has an identity (Python object identity: ast nodes compare by identity), a kind (its
   class) and fields; a field holds a node, a list, or a non-AST value; a list entry is a node,
   None (ast.Dict.keys marks `**mapping` with None, ast.arguments.kw_defaults marks a keyword-only
   parameter without default with None) or another non-AST value.  `visit` may return a node,
   None or a sequence of nodes.  Definitions only; the body of the inner loop is *generated* from
   the source (Gen/CopyGen.v) and proved equal to `item_body` here. *)
From Coq Require Import List Bool NArith.
Import ListNotations.

Inductive node : Type := Node (id : N) (kind : N) (fs : fields)
with fields : Type := FNil | FCons (f : field) (r : fields)
with field : Type := FNode (n : node) | FList (l : items) | FAtom (a : N)
with items : Type := INil | ICons (v : val) (r : items)
with val : Type := VAst (n : node) | VNone | VAtom (a : N) | VSeq (l : nodes)
with nodes : Type := NNil | NCons (n : node) (r : nodes).

Scheme node_mut := Induction for node Sort Prop
with fields_mut := Induction for fields Sort Prop
with field_mut := Induction for field Sort Prop
with items_mut := Induction for items Sort Prop
with val_mut := Induction for val Sort Prop
with nodes_mut := Induction for nodes Sort Prop.
Combined Scheme ast_mutind from node_mut, fields_mut, field_mut, items_mut, val_mut, nodes_mut.

Definition node_id (n : node) : N := match n with Node i _ _ => i end.

Fixpoint items_app (a b : items) : items :=
  match a with INil => b | ICons v r => ICons v (items_app r b) end.
Fixpoint items_of_nodes (l : nodes) : items :=
  match l with NNil => INil | NCons n r => ICons (VAst n) (items_of_nodes r) end.
Fixpoint items_length (l : items) : nat := match l with INil => 0 | ICons _ r => S (items_length r) end.

(* new_value.append(value) / new_value.extend(value) *)
Definition append (acc : items) (value : val) : items := items_app acc (ICons value INil).
Definition extend (acc : items) (value : val) : items :=
  match value with VSeq l => items_app acc (items_of_nodes l) | _ => acc end.

Definition is_ast (v : val) : bool := match v with VAst _ => true | _ => false end.
Definition is_none (v : val) : bool := match v with VNone => true | _ => false end.
Definition is_seq (v : val) : bool := match v with VSeq _ => true | _ => false end.
(* self.visit(value) for a list entry that is a node *)
Definition visit_val (visit : node -> val) (v : val) : val := match v with VAst n => visit n | _ => v end.

(* the body of `for value in old_value:` — value, accumulated new_value -> new_value *)
Definition item_body (visit : node -> val) (value : val) (acc : items) : items :=
  match value with
  | VAst n =>
      match visit n with
      | VNone => acc
      | VAst n' => append acc (VAst n')
      | other => extend acc other
      end
  | _ => append acc value
  end.

Fixpoint fold_items (body : val -> items -> items) (l : items) (acc : items) : items :=
  match l with INil => acc | ICons v r => fold_items body r (body v acc) end.

(* ReplaceNodeTransformer(target, replacement).visit *)
Section Replace.
  Context (target : N) (replacement : node).

  Fixpoint rn (n : node) : node :=
    match n with
    | Node i k fs => if N.eqb i target then replacement else Node i k (rn_fields fs)
    end
  with rn_fields (fs : fields) : fields :=
    match fs with FNil => FNil | FCons f r => FCons (rn_field f) (rn_fields r) end
  with rn_field (f : field) : field :=
    match f with
    | FNode n => FNode (rn n)
    | FList l => FList (rn_items l)
    | FAtom a => FAtom a
    end
  with rn_items (l : items) : items :=
    match l with
    | INil => INil
    | ICons v r =>
        match v with
        | VAst n => ICons (VAst (rn n)) (rn_items r)
        | other => ICons other (rn_items r)
        end
    end.

  (* the same list, computed the way generic_visit does: a left fold of the loop body *)
  Definition copy_items (l : items) : items := fold_items (item_body (fun n => VAst (rn n))) l INil.

  (* does the target occur? *)
  Fixpoint occ (n : node) : bool :=
    match n with Node i _ fs => N.eqb i target || occ_fields fs end
  with occ_fields (fs : fields) : bool :=
    match fs with FNil => false | FCons f r => occ_field f || occ_fields r end
  with occ_field (f : field) : bool :=
    match f with FNode n => occ n | FList l => occ_items l | FAtom _ => false end
  with occ_items (l : items) : bool :=
    match l with INil => false | ICons v r => occ_val v || occ_items r end
  with occ_val (v : val) : bool :=
    match v with VAst n => occ n | VSeq l => occ_nodes l | _ => false end
  with occ_nodes (l : nodes) : bool :=
    match l with NNil => false | NCons n r => occ n || occ_nodes r end.
End Replace.
