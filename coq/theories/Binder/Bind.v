(* Binder/Bind.v — executable model of pyanalyze's argument binder.

   `preprocess`  mirrors signature.py preprocess_args (step 1: literal
                 *tuple / **dict arguments are split into positionals /
                 keywords; step 2: everything positional after an unknown
                 *args is merged into it, all **kwargs are merged, a keyword
                 given twice is an error).
   `bind`        mirrors Signature.bind_arguments (signature.py:802), one
                 `match` arm per `elif param.kind is ...` branch, same order
                 of tests inside every arm, same four final checks.

   Outside the fragment (never produced by a call to a `def` with
   positional / keyword / * / ** arguments): ActualArguments.ellipsis,
   pos_or_keyword_params, param_spec and the PARAM_SPEC / ELLIPSIS kinds.

   The model is of the REPAIRED code (repo_fixes/C05-stranger-keyword.diff):
   the final "unexpected keyword" test is skipped only when a parameter that
   takes arbitrary keywords was seen (`eka`).  `bind_legacy` is the unrepaired
   logic (test skipped whenever star_kwargs_consumed), kept so that the defect
   stays visible as a refutation lemma. *)
From Coq Require Import List Bool NArith PeanoNat.
Import ListNotations.
Require Import PV.Binder.Kind PV.Binder.Sig.

(* ---- actual arguments (class ActualArguments) ---- *)
Record actuals := mkActuals {
  positionals : list bool;          (* definitely_provided flag of each positional *)
  star_args : bool;                 (* star_args is not None *)
  keywords : list (N * bool);       (* dict name -> definitely_provided, insertion order *)
  star_kwargs : bool;               (* star_kwargs is not None *)
  kwargs_required : bool
}.

Fixpoint kw_lookup (n : N) (l : list (N * bool)) : option bool :=
  match l with
  | [] => None
  | (m, b) :: r => if N.eqb n m then Some b else kw_lookup n r
  end.

(* ---- raw arguments as the visitor hands them to preprocess_args ---- *)
Inductive rawarg :=
| RPos                       (* f(x) *)
| RKw (n : N)                (* f(n=x) *)
| RStarLit (len : nat)       (* f( *(x, y)) : a tuple display of known length *)
| RStarUnknown               (* f( *xs) with xs : list[int] / tuple[int, ...] *)
| RKwLit (names : list N)    (* f( **{"a": x}) : a dict display with string keys *)
| RKwUnknown.                (* f( **kw) with kw : dict[str, int] *)

(* state of step 2 of preprocess_args *)
Record pstate := mkP {
  p_pos : list bool; p_star : bool; p_kws : list (N * bool); p_skw : bool; p_req : bool
}.

Definition add_kw (n : N) (st : pstate) : option pstate :=
  match kw_lookup n (p_kws st) with
  | Some _ => None        (* "Multiple values provided for argument" *)
  | None => Some (mkP (p_pos st) (p_star st) (p_kws st ++ [(n, true)]) (p_skw st) (p_req st))
  end.

Fixpoint add_kws (ns : list N) (st : pstate) : option pstate :=
  match ns with
  | [] => Some st
  | n :: r => match add_kw n st with None => None | Some st' => add_kws r st' end
  end.

Definition add_pos (st : pstate) : option pstate :=
  (* "Positional argument follow keyword arguments" *)
  if (match p_kws st with [] => false | _ => true end) || p_skw st then None
  else if p_star st then Some st   (* merged into star_args: the count is lost *)
  else Some (mkP (p_pos st ++ [true]) false (p_kws st) (p_skw st) (p_req st)).

Fixpoint add_poss (k : nat) (st : pstate) : option pstate :=
  match k with
  | O => Some st
  | S k' => match add_pos st with None => None | Some st' => add_poss k' st' end
  end.

Definition pre_step (st : pstate) (r : rawarg) : option pstate :=
  match r with
  | RPos => add_pos st
  | RStarLit k => add_poss k st
  | RStarUnknown =>
      if p_skw st then None     (* "*args follows **kwargs" *)
      else Some (mkP (p_pos st) true (p_kws st) (p_skw st) (p_req st))
  | RKw n => add_kw n st
  | RKwLit ns => add_kws (rev ns) st   (* _preprocess_kwargs_kv_pairs walks `reversed(items)` *)
  | RKwUnknown =>
      (* kwargs_requireds.append(not items): no known items for dict[str, int] *)
      Some (mkP (p_pos st) (p_star st) (p_kws st) true true)
  end.

Fixpoint pre_fold (st : pstate) (l : list rawarg) : option pstate :=
  match l with
  | [] => Some st
  | r :: rest => match pre_step st r with None => None | Some st' => pre_fold st' rest end
  end.

Definition preprocess (l : list rawarg) : option actuals :=
  match pre_fold (mkP [] false [] false false) l with
  | None => None
  | Some st => Some (mkActuals (p_pos st) (p_star st) (p_kws st) (p_skw st) (p_req st))
  end.

(* ---- bound arguments ---- *)
Inductive position := Pos (i : nat) | Kw (n : N) | Default | Args | Kwargs | Unknown.

(* what the bound Composite is made of (only for *args / **kwargs parameters) *)
Inductive payload :=
| One
| Tuple (from count : nat) (plus_star : bool)    (* positionals[from : from+count] (+ star_args) *)
| Dict (names : list N) (plus_star : bool).      (* unconsumed keywords (+ star_kwargs) *)

Record bstate := mkB {
  pidx : nat;            (* positional_index *)
  kcons : list N;        (* keywords_consumed *)
  sac : bool;            (* star_args_consumed *)
  skc : bool;            (* star_kwargs_consumed *)
  eka : bool;            (* extra_keywords_allowed (repair) *)
  bound : list (N * position * payload)   (* bound_args, insertion order, reversed *)
}.

Definition init_state : bstate := mkB 0 [] false false false [].

Definition bind1 (st : bstate) (p : param) (pos : position) : bstate :=
  mkB (pidx st) (kcons st) (sac st) (skc st) (eka st) ((pname p, pos, One) :: bound st).

Definition step (a : actuals) (st : bstate) (p : param) : option bstate :=
  let npos := length (positionals a) in
  match pkind p with
  | PO =>
      if pidx st <? npos then
        if negb (nth (pidx st) (positionals a) true) && negb (pdefault p) then None
        else Some (mkB (S (pidx st)) (kcons st) (sac st) (skc st) (eka st)
                       ((pname p, Pos (pidx st), One) :: bound st))
      else if star_args a then
        Some (mkB (pidx st) (kcons st) true (skc st) (eka st)
                  ((pname p, (if pdefault p then Unknown else Args), One) :: bound st))
      else if pdefault p then Some (bind1 st p Default)
      else None                                       (* Missing required positional argument *)
  | POK =>
      if pidx st <? npos then
        if negb (nth (pidx st) (positionals a) true) && negb (pdefault p) then None
        else match kw_lookup (pname p) (keywords a) with
             | Some _ => None                         (* both a positional and a keyword argument *)
             | None => Some (mkB (S (pidx st)) (kcons st) (sac st) (skc st) (eka st)
                                 ((pname p, Pos (pidx st), One) :: bound st))
             end
      else if star_args a then
        match kw_lookup (pname p) (keywords a) with
        | Some _ => None                              (* may be filled from both *args and a keyword *)
        | None =>
            let position := if star_kwargs a then Unknown
                            else if pdefault p then Unknown else Args in
            Some (mkB (pidx st) (kcons st) true (skc st || star_kwargs a) (eka st)
                      ((pname p, position, One) :: bound st))
        end
      else match kw_lookup (pname p) (keywords a) with
        | Some dp =>
            if negb dp && negb (pdefault p) then None
            else Some (mkB (pidx st) (pname p :: kcons st) (sac st) (skc st) (eka st)
                           ((pname p, Kw (pname p), One) :: bound st))
        | None =>
            if star_kwargs a then
              Some (mkB (pidx st) (kcons st) (sac st) true (eka st)
                        ((pname p, (if pdefault p then Unknown else Kwargs), One) :: bound st))
            else if pdefault p then Some (bind1 st p Default)
            else None                                 (* Missing required argument *)
        end
  | KO =>
      match kw_lookup (pname p) (keywords a) with
      | Some dp =>
          if negb dp && negb (pdefault p) then None
          else Some (mkB (pidx st) (pname p :: kcons st) (sac st) (skc st) (eka st)
                         ((pname p, Kw (pname p), One) :: bound st))
      | None =>
          if star_kwargs a then
            Some (mkB (pidx st) (pname p :: kcons st) (sac st) true (eka st)
                      ((pname p, (if pdefault p then Unknown else Kwargs), One) :: bound st))
          else if pdefault p then Some (bind1 st p Default)
          else None
      end
  | VP =>
      let count := npos - pidx st in
      let position := if star_args a then Args
                      else match count with O => Default | _ => Args end in
      Some (mkB (Nat.max (pidx st) npos) (kcons st) true (skc st) (eka st)
                ((pname p, position, Tuple (pidx st) count (star_args a)) :: bound st))
  | VK =>
      let items := filter (fun n => negb (memN n (kcons st))) (map fst (keywords a)) in
      let position := if star_kwargs a then Kwargs
                      else match items with [] => Default | _ => Kwargs end in
      Some (mkB (pidx st) (kcons st) (sac st) true true
                ((pname p, position, Dict items (star_kwargs a)) :: bound st))
  end.

Fixpoint bind_params (a : actuals) (st : bstate) (s : sig) : option bstate :=
  match s with
  | [] => Some st
  | p :: rest => match step a st p with None => None | Some st' => bind_params a st' rest end
  end.

Definition has_extra_kw (a : actuals) (st : bstate) : bool :=
  existsb (fun n => negb (memN n (kcons st))) (map fst (keywords a)).

(* the four checks after the loop; `skip_extra` is the flag that guards the
   "unexpected keyword" test *)
Definition finish_with (skip_extra : bstate -> bool) (a : actuals) (st : bstate) : bool :=
  negb (negb (sac st) && negb (pidx st =? length (positionals a)))   (* Takes n positional arguments *)
  && negb (negb (skip_extra st) && has_extra_kw a st)                 (* unexpected keyword argument *)
  && negb (negb (sac st) && star_args a)                              (* *args provided but not used *)
  && negb (negb (skc st) && star_kwargs a && kwargs_required a).      (* **kwargs provided but not used *)

Definition bind_with (skip_extra : bstate -> bool) (s : sig) (a : actuals)
  : option (list (N * position * payload)) :=
  match bind_params a init_state s with
  | None => None
  | Some st => if finish_with skip_extra a st then Some (rev (bound st)) else None
  end.

Definition bind := bind_with eka.            (* repaired code *)
Definition bind_legacy := bind_with skc.     (* code before repo_fixes/C05-stranger-keyword *)

Definition accepts (s : sig) (a : actuals) : bool :=
  match bind s a with Some _ => true | None => false end.

(* end to end: a call with raw arguments is reported iff this is false *)
Definition call_ok (s : sig) (l : list rawarg) : bool :=
  match preprocess l with None => false | Some a => accepts s a end.

(* guard clause of known finding C05-positional-after-star-args: a positional
   argument (or a non-empty tuple display) follows an unknown-length *args *)
Fixpoint positional_after_star_from (seen : bool) (l : list rawarg) : bool :=
  match l with
  | [] => false
  | RStarUnknown :: r => positional_after_star_from true r
  | RPos :: r => seen || positional_after_star_from seen r
  | RStarLit (S _) :: r => seen || positional_after_star_from seen r
  | _ :: r => positional_after_star_from seen r
  end.
Definition positional_after_star (l : list rawarg) : bool := positional_after_star_from false l.

(* ---- `**x` where x is a UNION of closed mappings (dict displays / TypedDicts with only
   known keys), e.g.  kw = {"a": 1} if c else {"a": 1, "b": 2};  f( **kw).
   preprocess_args merges the members key by key (signature.py, the KWARGS branch of step 1,
   as repaired by "a key missing from one member of a union ... may be missing at runtime"):
   the keys keep first-seen order (each member walked in reverse, like a single display),
   and a key is `required` (definitely provided) iff EVERY member provides it.  No member
   has unknown keys, so no star_kwargs results. *)
Inductive rawarg_u :=
| UPlain (r : rawarg)
| UKwUnion (alts : list (list N)).

Fixpoint union_keys (seen : list N) (alts : list (list N)) : list N :=
  match alts with
  | [] => seen
  | alt :: rest =>
      union_keys (fold_left (fun acc k => if memN k acc then acc else acc ++ [k]) (rev alt) seen) rest
  end.

Definition union_items (alts : list (list N)) : list (N * bool) :=
  map (fun k => (k, forallb (fun alt => memN k alt) alts)) (union_keys [] alts).

Definition add_kw_flag (kv : N * bool) (st : pstate) : option pstate :=
  match kw_lookup (fst kv) (p_kws st) with
  | Some _ => None
  | None => Some (mkP (p_pos st) (p_star st) (p_kws st ++ [kv]) (p_skw st) (p_req st))
  end.

Fixpoint add_kw_flags (l : list (N * bool)) (st : pstate) : option pstate :=
  match l with
  | [] => Some st
  | kv :: r => match add_kw_flag kv st with None => None | Some st' => add_kw_flags r st' end
  end.

Definition pre_step_u (st : pstate) (r : rawarg_u) : option pstate :=
  match r with
  | UPlain x => pre_step st x
  | UKwUnion alts => add_kw_flags (union_items alts) st
  end.

Fixpoint pre_fold_u (st : pstate) (l : list rawarg_u) : option pstate :=
  match l with
  | [] => Some st
  | r :: rest => match pre_step_u st r with None => None | Some st' => pre_fold_u st' rest end
  end.

Definition preprocess_u (l : list rawarg_u) : option actuals :=
  match pre_fold_u (mkP [] false [] false false) l with
  | None => None
  | Some st => Some (mkActuals (p_pos st) (p_star st) (p_kws st) (p_skw st) (p_req st))
  end.

Definition call_ok_u (s : sig) (l : list rawarg_u) : bool :=
  match preprocess_u l with None => false | Some a => accepts s a end.
