(* Binder/BindCore.v — the part of the binder state that the loop of
   Signature.bind_arguments computes with plain variables
   (positional_index, keywords_consumed, star_args_consumed,
   star_kwargs_consumed, extra_keywords_allowed) plus the Position recorded
   for the current parameter.  harness/translate/binder.py generates the five
   per-kind arms of the loop over this vocabulary (Gen/BinderArms.v) and
   Proofs/BinderGen.v proves them equal to `step_core`, the projection of the
   hand model's `Bind.step`.  (What *args / **kwargs collect — the payload — is
   value construction in the source and stays correspondence-checked.) *)
From Coq Require Import List Bool NArith PeanoNat.
Import ListNotations.
Require Import PV.Binder.Kind PV.Binder.Sig PV.Binder.Bind.

Record gstate := mkG { g_pidx : nat; g_kc : list N; g_sac : bool; g_skc : bool; g_eka : bool }.

Definition core (st : bstate) : gstate := mkG (pidx st) (kcons st) (sac st) (skc st) (eka st).

Definition last_position (st : bstate) : position :=
  match bound st with (_, pos, _) :: _ => pos | [] => Default end.

Definition step_core (a : actuals) (st : bstate) (p : param) : option (gstate * position) :=
  match step a st p with
  | Some st' => Some (core st', last_position st')
  | None => None
  end.

(* `param.name in actual_args.keywords` and the definitely_provided flag stored there *)
Definition kw_mem (a : actuals) (p : param) : bool :=
  match kw_lookup (pname p) (keywords a) with Some _ => true | None => false end.
Definition kw_dp (a : actuals) (p : param) : bool :=
  match kw_lookup (pname p) (keywords a) with Some dp => dp | None => true end.
(* the keywords not yet consumed (the `items` of the VAR_KEYWORD arm) *)
Definition unconsumed (a : actuals) (kc : list N) : list N :=
  filter (fun n => negb (memN n kc)) (map fst (keywords a)).
Definition is_nil {A : Type} (l : list A) : bool := match l with [] => true | _ :: _ => false end.
