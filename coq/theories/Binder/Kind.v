(* Binder/Kind.v — parameter kinds of pyanalyze.signature.ParameterKind that
   `def` headers can produce (PARAM_SPEC and ELLIPSIS only arise from
   Callable[...] types and are outside the fragment of C05/C07). *)
From Coq Require Import List Bool NArith.
Import ListNotations.

Inductive kind := PO | POK | VP | KO | VK.
(* POSITIONAL_ONLY | POSITIONAL_OR_KEYWORD | VAR_POSITIONAL | KEYWORD_ONLY | VAR_KEYWORD *)

Definition kind_eqb (a b : kind) : bool :=
  match a, b with
  | PO, PO | POK, POK | VP, VP | KO, KO | VK, VK => true
  | _, _ => false
  end.

Definition kmem (k : kind) (l : list kind) : bool := existsb (kind_eqb k) l.

Definition all_kinds : list kind := [PO; POK; VP; KO; VK].

Definition memN (n : N) (l : list N) : bool := existsb (N.eqb n) l.
