(* Binder/PyBind.v — the specification: how CPython binds the arguments of a
   call `f(p_0, ..., p_{n-1}, k_1=..., ..., k_m=...)` to the parameters of a
   Python function (Objects/call.c + Python/ceval.c `initialize_locals`).

   The algorithm is ARGUMENT-driven (the implementation model in Bind.v is
   parameter-driven):
     0. a keyword given twice (only possible through `**{...}`) fails before
        the function is entered ("multiple values for keyword argument");
     1. the first min(n, #positional parameters) positional arguments fill
        the positional parameters left to right; surplus goes to *args, or
        the call fails ("takes k positional arguments but n were given");
     2. every keyword argument goes to the positional-or-keyword or
        keyword-only parameter of that name (a positional-only name is not a
        keyword target); if that parameter already has a value the call
        fails ("multiple values for argument"); a keyword that names no such
        parameter goes to **kwargs, or the call fails ("unexpected keyword
        argument");
     3. every parameter still empty takes its default, or the call fails
        ("missing required argument").
   Validated on every run against the interpreter itself (harness/c05.py
   executes each generated call and reads `locals()`). *)
From Coq Require Import List Bool NArith PeanoNat.
Import ListNotations.
Require Import PV.Binder.Kind PV.Binder.Sig.

Inductive source :=
| SPos (i : nat)                   (* the i-th positional argument *)
| SKw (n : N)                      (* the keyword argument n *)
| SDefault
| SVarPos (from count : nat)       (* *args = positionals[from : from+count] *)
| SVarKw (names : list N).         (* **kwargs = these keyword arguments, in call order *)

Fixpoint assoc (n : N) (l : list (N * source)) : option source :=
  match l with
  | [] => None
  | (m, v) :: r => if N.eqb n m then Some v else assoc n r
  end.

(* step 1: names of the positional parameters paired with argument indices *)
Fixpoint fill_positional (pp : list param) (i n : nat) : list (N * source) :=
  match pp, n with
  | p :: rest, S n' => (pname p, SPos i) :: fill_positional rest (S i) n'
  | _, _ => []
  end.

Definition kw_target (s : sig) (k : N) : bool :=
  existsb (fun p => is_kw_target (pkind p) && N.eqb (pname p) k) s.

(* step 2, one keyword argument k: may it be passed? *)
Definition kw_ok (s : sig) (filled0 : list (N * source)) (k : N) : bool :=
  if kw_target s k then
    match assoc k filled0 with
    | Some _ => false          (* multiple values for argument k *)
    | None => true
    end
  else has_kind VK s.          (* else: unexpected keyword argument k *)

(* step 3: where one parameter takes its value from *)
Definition source_of (s : sig) (npos : nat) (kws : list N) (filled0 : list (N * source)) (p : param)
  : option source :=
  match pkind p with
  | VP => Some (SVarPos (length (pos_params s)) (npos - length (pos_params s)))
  | VK => Some (SVarKw (filter (fun k => negb (kw_target s k)) kws))
  | _ =>
      match assoc (pname p) filled0 with
      | Some v => Some v
      | None =>
          if is_kw_target (pkind p) && memN (pname p) kws then Some (SKw (pname p))
          else if pdefault p then Some SDefault
          else None                                  (* missing required argument *)
      end
  end.

Fixpoint collect (f : param -> option source) (s : sig) : option (list (N * source)) :=
  match s with
  | [] => Some []
  | p :: rest =>
      match f p, collect f rest with
      | Some v, Some r => Some ((pname p, v) :: r)
      | _, _ => None
      end
  end.

Definition py_bind_full (s : sig) (npos : nat) (kws : list N) : option (list (N * source)) :=
  let pp := pos_params s in
  if negb (names_nodup kws) then None                        (* step 0 *)
  else if (length pp <? npos) && negb (has_kind VP s) then None   (* too many positional arguments *)
  else
    let filled0 := fill_positional pp 0 npos in
    if forallb (kw_ok s filled0) kws
    then collect (source_of s npos kws filled0) s
    else None.

Definition py_bind (s : sig) (npos : nat) (kws : list N) : bool :=
  match py_bind_full s npos kws with Some _ => true | None => false end.
