(* Binder/Sig.v — signatures: ordered parameters (name, kind, has_default).
   `valid_sig` is the loop of Signature.validate (signature.py:591) over the
   tables KIND_TO_ALLOWED_PREVIOUS / CAN_HAVE_DEFAULT, which are regenerated
   from the source on every run (Gen/Kinds.v).  Signature.parameters is a
   dict keyed by name, so names are pairwise distinct by construction:
   `names_nodup`. *)
From Coq Require Import List Bool NArith.
Import ListNotations.
Require Import PV.Binder.Kind PV.Gen.Kinds.

Record param := mkParam { pname : N; pkind : kind; pdefault : bool }.
Definition sig := list param.

Fixpoint names_nodup (l : list N) : bool :=
  match l with
  | [] => true
  | x :: r => negb (memN x r) && names_nodup r
  end.

(* one iteration of the loop in Signature.validate *)
Definition validate_step (seen_kinds seen_with_default : list kind) (p : param) : bool :=
  (* disallowed_previous = seen_kinds - KIND_TO_ALLOWED_PREVIOUS[param.kind] must be empty *)
  forallb (fun k => kmem k (allowed_previous (pkind p))) seen_kinds
  (* param.default is not None and param.kind not in CAN_HAVE_DEFAULT -> invalid *)
  && (negb (pdefault p) || can_have_default (pkind p))
  (* a parameter without default may not follow a positional one with a default *)
  && (pdefault p ||
      match pkind p with
      | PO => negb (kmem PO seen_with_default)
      | POK => negb (kmem PO seen_with_default || kmem POK seen_with_default)
      | _ => true
      end).

Fixpoint validate_from (seen_kinds seen_with_default : list kind) (s : sig) : bool :=
  match s with
  | [] => true
  | p :: rest =>
      validate_step seen_kinds seen_with_default p
      && validate_from (pkind p :: seen_kinds)
           (if pdefault p then pkind p :: seen_with_default else seen_with_default) rest
  end.

Definition valid_sig (s : sig) : bool :=
  validate_from [] [] s && names_nodup (map pname s).

(* vocabulary used by both the binder model and the CPython specification *)
Definition is_positional (k : kind) : bool := match k with PO | POK => true | _ => false end.
Definition is_kw_target (k : kind) : bool := match k with POK | KO => true | _ => false end.
Definition is_var (k : kind) : bool := match k with VP | VK => true | _ => false end.
Definition has_kind (k : kind) (s : sig) : bool := existsb (fun p => kind_eqb (pkind p) k) s.
Definition pos_params (s : sig) : sig := filter (fun p => is_positional (pkind p)) s.

(* ---- the grammar of `def` headers:  def f(po.., /, pok.., *vp | *, ko.., **vk) ----
   kinds in that order, at most one *vp and one **vk, neither with a default,
   no parameter without default after one with a default among po/pok
   ("non-default argument follows default argument"), distinct names.
   `ph` = phase of the previous parameter (0 po, 1 pok, 2 *vp, 3 ko, 4 **vk). *)
Definition phase (k : kind) : nat :=
  match k with PO => 0 | POK => 1 | VP => 2 | KO => 3 | VK => 4 end.
(* the latest phase that may precede a parameter of kind k *)
Definition phase_bound (k : kind) : nat :=
  match k with PO => 0 | POK => 1 | VP => 1 | KO => 3 | VK => 3 end.

Fixpoint def_ok (ph : nat) (seen_default : bool) (s : sig) : bool :=
  match s with
  | [] => true
  | p :: r =>
      Nat.leb ph (phase_bound (pkind p))
      && match pkind p with
         | PO | POK => pdefault p || negb seen_default
         | VP | VK => negb (pdefault p)
         | KO => true
         end
      && def_ok (phase (pkind p))
                (match pkind p with PO | POK => seen_default || pdefault p | _ => seen_default end) r
  end.

Definition def_header_ok (s : sig) : bool := def_ok 0 false s && names_nodup (map pname s).
