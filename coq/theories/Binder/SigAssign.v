(* Binder/SigAssign.v — executable model of Signature.can_assign
   (signature.py:1448): "may a callable with signature `a` (theirs, `other`)
   be used where signature `e` (mine, `self`) is expected?"

   One `match` arm per `elif my_param.kind is ...` branch of the loop, the
   same bookkeeping sets (consumed_positional, consumed_required_pos_only,
   consumed_keyword), the same final "extra required parameter" loop.

   Every type test of the implementation has the form
       their_annotation.can_assign(my_annotation)
   and failing any of them fails the comparison, so the model returns the
   LIST of those obligations as pairs (their parameter name, my parameter
   name) and the verdict is  kinds verdict && all obligations hold && return
   type covariance (`sig_can_assign`, parametrised by the acceptance relation
   `le their mine`).  Parameter names are unique inside a signature, so a
   name identifies the annotation.

   Outside the fragment: overloads, asynq, PARAM_SPEC / ELLIPSIS parameters,
   *args annotated with an unpacked tuple, **kwargs annotated with a
   TypedDict (Unpack). *)
From Coq Require Import List Bool NArith PeanoNat.
Import ListNotations.
Require Import PV.Binder.Kind PV.Binder.Sig.

Record cstate := mkC {
  cpos : list N;      (* consumed_positional *)
  crpo : list N;      (* consumed_required_pos_only *)
  ckw : list N;       (* consumed_keyword *)
  obl : list (N * N)  (* type obligations (their name, my name), reversed *)
}.

Definition find_param (n : N) (s : sig) : option param :=
  find (fun p => N.eqb (pname p) n) s.

Definition param_of_kind (k : kind) (s : sig) : option param :=
  find (fun p => kind_eqb (pkind p) k) s.

Definition add_obl (t m : N) (st : cstate) : cstate :=
  mkC (cpos st) (crpo st) (ckw st) ((t, m) :: obl st).

Definition opt_obl (t : option param) (m : N) (st : cstate) : cstate :=
  match t with Some q => add_obl (pname q) m st | None => st end.

(* my default, their none: "param has no default" *)
Definition default_clash (m t : param) : bool := pdefault m && negb (pdefault t).

Definition sca_step (a : sig) (i : nat) (st : cstate) (m : param) : option cstate :=
  let their_args := param_of_kind VP a in
  let their_kwargs := param_of_kind VK a in
  let hasvp := match their_args with Some _ => true | None => false end in
  let hasvk := match their_kwargs with Some _ => true | None => false end in
  match pkind m with
  | PO =>
      match nth_error a i with
      | Some t =>
          if is_positional (pkind t) then
            if default_clash m t then None
            else Some (mkC (pname t :: cpos st)
                           (if pdefault t then crpo st else pname t :: crpo st)
                           (ckw st) ((pname t, pname m) :: obl st))
          else if hasvp then Some (opt_obl their_args (pname m) st)
          else None                                  (* positional-only parameter i is not accepted *)
      | None => if hasvp then Some (opt_obl their_args (pname m) st) else None
      end
  | POK =>
      let absorbed :=
        if hasvp && hasvk
        then Some (opt_obl their_kwargs (pname m) (opt_obl their_args (pname m) st))
        else None in                                 (* parameter is not accepted *)
      match nth_error a i with
      | Some t =>
          match pkind t with
          | POK =>
              if negb (N.eqb (pname m) (pname t)) then None         (* param name does not match *)
              else if default_clash m t then None
              else Some (mkC (pname t :: cpos st) (crpo st) (pname t :: ckw st)
                             ((pname t, pname m) :: obl st))
          | PO => None                               (* not accepted as a keyword argument *)
          | _ => absorbed
          end
      | None => absorbed
      end
  | KO =>
      let absorbed := if hasvk then Some (opt_obl their_kwargs (pname m) st) else None in
      match find_param (pname m) a with
      | Some t =>
          if is_kw_target (pkind t) then
            if default_clash m t then None
            else Some (mkC (cpos st) (crpo st) (pname t :: ckw st) ((pname t, pname m) :: obl st))
          else absorbed
      | None => absorbed
      end
  | VP =>
      match their_args with
      | None => None                                 (* *args are not accepted *)
      | Some va =>
          let extra := filter (fun q => negb (memN (pname q) (cpos st)) && is_positional (pkind q)) a in
          Some (mkC (cpos st) (crpo st) (ckw st)
                    (rev (map (fun q => (pname q, pname m)) extra) ++ (pname va, pname m) :: obl st))
      end
  | VK =>
      match their_kwargs with
      | None => None                                 (* **kwargs are not accepted *)
      | Some vk =>
          let extra := filter (fun q => negb (memN (pname q) (ckw st)) && is_kw_target (pkind q)
                                        && negb (memN (pname q) (crpo st))) a in
          Some (mkC (cpos st) (crpo st) (ckw st)
                    (rev (map (fun q => (pname q, pname m)) extra) ++ (pname vk, pname m) :: obl st))
      end
  end.

Fixpoint sca_loop (a : sig) (i : nat) (st : cstate) (e : sig) : option cstate :=
  match e with
  | [] => Some st
  | m :: rest =>
      match sca_step a i st m with
      | None => None
      | Some st' => sca_loop a (S i) st' rest
      end
  end.

(* the loop after the comparison: no required parameter of theirs is left over *)
Definition extra_required_ok (st : cstate) (q : param) : bool :=
  is_var (pkind q) || pdefault q ||
  match pkind q with
  | PO => memN (pname q) (cpos st)
  | POK => memN (pname q) (cpos st) || memN (pname q) (ckw st)
  | KO => memN (pname q) (ckw st)
  | _ => true
  end.

Definition sca (e a : sig) : option (list (N * N)) :=
  match sca_loop a 0 (mkC [] [] [] []) e with
  | None => None
  | Some st => if forallb (extra_required_ok st) a then Some (rev (obl st)) else None
  end.

(* kinds / names / defaults only (all annotations Any) *)
Definition kinds_ok (e a : sig) : bool :=
  match sca e a with Some _ => true | None => false end.

(* with types: `le t m` = "their annotation accepts my annotation";
   `le_ret` = my return type accepts their return type *)
Definition sig_can_assign (le : N -> N -> bool) (le_ret : bool) (e a : sig) : bool :=
  le_ret &&
  match sca e a with
  | Some obs => forallb (fun tm => le (fst tm) (snd tm)) obs
  | None => false
  end.

(* ---- guard clause of the known findings ----
   Some positional-or-keyword parameter q of `a`, at positional index j, can be
   filled twice by a call that `e` binds: e takes more than j positionals, and
   e also takes the keyword `pname q` while j+1 positionals are passed —
   because that name is keyword-only in e, or positional-or-keyword in e at an
   index > j, or names no keyword target of e while e has **kwargs. *)
Fixpoint pos_index_of (n : N) (s : sig) (i : nat) : option nat :=
  match s with
  | [] => None
  | p :: r =>
      if is_positional (pkind p) then
        if N.eqb (pname p) n then Some i else pos_index_of n r (S i)
      else pos_index_of n r i
  end.

Definition kw_target_b (s : sig) (k : N) : bool :=
  existsb (fun p => is_kw_target (pkind p) && N.eqb (pname p) k) s.

Definition takes_kw_with (e : sig) (n : N) (npos : nat) : bool :=
  match find_param n e with
  | Some p =>
      match pkind p with
      | KO => true
      | POK => match pos_index_of n e 0 with Some i => npos <=? i | None => false end
      | _ => has_kind VK e      (* the name of a positional-only / *args / **kwargs parameter *)
      end
  | None => has_kind VK e
  end.

Definition double_fill_at (e : sig) (q : param) (j : nat) : bool :=
  kind_eqb (pkind q) POK
  && (has_kind VP e || (j <? length (pos_params e)))
  && takes_kw_with e (pname q) (S j).

Fixpoint double_fill_from (e : sig) (a : sig) (j : nat) : bool :=
  match a with
  | [] => false
  | q :: r =>
      if is_positional (pkind q)
      then double_fill_at e q j || double_fill_from e r (S j)
      else double_fill_from e r j
  end.

Definition double_fill (e a : sig) : bool := double_fill_from e a 0.

(* ---- overloads on either side (Signature.can_assign with an OverloadedSignature `other`:
   some component is assignable; OverloadedSignature.can_assign: every component of the
   expected side must be satisfied).  A non-overloaded signature is a one-element list. *)
Definition ov_kinds_ok (es as_ : list sig) : bool :=
  forallb (fun e => existsb (fun a => kinds_ok e a) as_) es.

(* ---- a UNION on the accepted side (a value that may be any of several callables:
   `g1 if c else g2`): CallableValue.can_assign defers to the member-wise rule of
   TypedValue.can_assign — every member must be acceptable; a union on the expected side:
   some member must accept. *)
Definition union_accepted_ok (e : sig) (members : list sig) : bool := forallb (fun a => kinds_ok e a) members.
Definition union_expected_ok (es : list sig) (a : sig) : bool := existsb (fun e => kinds_ok e a) es.
