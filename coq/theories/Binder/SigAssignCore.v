(* Binder/SigAssignCore.v — vocabulary of the code generated from the comparison loop of
   Signature.can_assign (harness/translate/binder.py -> Gen/BinderShape.v, gen_sca_step):
   `their_params[i]`, `other.parameters.get(name)`, additions to the three consumed-sets
   and to the list of type obligations. *)
From Coq Require Import List Bool NArith PeanoNat.
Import ListNotations.
Require Import PV.Binder.Kind PV.Binder.Sig PV.Binder.SigAssign.

Definition dummy_param : param := mkParam 0 VK false.
(* their_params[i]  (guarded by  i < len(their_params)) *)
Definition has_their (a : sig) (i : nat) : bool := i <? length a.
Definition their (a : sig) (i : nat) : param := nth i a dummy_param.
(* other.parameters.get(my_param.name)  (guarded by  `is not None`) *)
Definition has_named (a : sig) (m : param) : bool :=
  match find_param (pname m) a with Some _ => true | None => false end.
Definition named (a : sig) (m : param) : param :=
  match find_param (pname m) a with Some t => t | None => dummy_param end.
Definition hasvp (a : sig) : bool := match param_of_kind VP a with Some _ => true | None => false end.
Definition hasvk (a : sig) : bool := match param_of_kind VK a with Some _ => true | None => false end.
Definition kind_in (k : kind) (l : list kind) : bool := kmem k l.

Definition add_cpos (n : N) (st : cstate) : cstate := mkC (n :: cpos st) (crpo st) (ckw st) (obl st).
Definition add_crpo (n : N) (st : cstate) : cstate := mkC (cpos st) (n :: crpo st) (ckw st) (obl st).
Definition add_ckw (n : N) (st : cstate) : cstate := mkC (cpos st) (crpo st) (n :: ckw st) (obl st).
(* obligations of a `for extra_param in [...]` loop, in loop order *)
Definition push_obls (l : list (N * N)) (st : cstate) : cstate :=
  mkC (cpos st) (crpo st) (ckw st) (rev l ++ obl st).
