(* Call/Model.v — self-contained small model of checking one call against one
   signature (pyanalyze/signature.py: bind_arguments on concrete calls,
   check_call_with_bound_args, _check_param_type_compatibility,
   get_default_return), composed with the type-variable solver of C15
   (TypeVar/Model.v: arg_ok, arg_bounds, mresolve).

   Scope: parameters of kind positional-or-keyword, keyword-only, *args, **kwargs,
   with or without default, annotated with a type of the value fragment, with
   the bare type variable T (one type variable per signature, declared
   unbounded / bounded / constrained), or unannotated; calls with literal
   positional and keyword arguments (no star arguments).  Well-formedness
   assumed by the generators (and by nothing else): the parameter order is
   pos-or-kw*, [*args], kw-only*, [**kwargs]; a parameter with a default is not
   annotated with T (its default would contribute a lower bound), and neither is
   *args / **kwargs (pyanalyze unites the collected arguments into one lower
   bound there; the model would treat them one by one).

   Values are abstract (`ops V`, as in C15); `val o` is the KnownValue of the
   literal argument object `o`. *)
From Coq Require Import List Bool Arith NArith.
Import ListNotations.
Require Import PV.TypeVar.Base PV.TypeVar.Model.

Inductive pkind : Type := PosOrKw | KwOnly | VarPos | VarKw.

Section CallModel.
  Context {V : Type} (O : ops V) (limit : nat).
  Context {Obj : Type} (val : Obj -> V).

  Inductive annot : Type :=
  | AnnNone                 (* unannotated *)
  | AnnTy (t : V)
  | AnnVar.                 (* the signature's type variable T *)

  Record param : Type := mk_param {
    pname : N;
    kind : pkind;
    has_default : bool;
    ann : annot
  }.

  Record sig : Type := mk_sig {
    params : list param;
    tdecl : @decl V;         (* declaration of T *)
    ret : annot
  }.

  Record call : Type := mk_call {
    cpos : list Obj;
    ckw : list (N * Obj)     (* distinct names (Python syntax) *)
  }.

  (* what a parameter is bound to *)
  Inductive barg : Type :=
  | BOne (o : Obj)
  | BDefault
  | BMany (os : list Obj).   (* *args / **kwargs *)

  Definition objs_of (b : barg) : list Obj :=
    match b with BOne o => [o] | BDefault => [] | BMany os => os end.

  (* ---- binding (concrete calls) ---- *)
  Fixpoint kw_take (n : N) (kw : list (N * Obj)) : option (Obj * list (N * Obj)) :=
    match kw with
    | [] => None
    | (m, o) :: kw' =>
        if N.eqb n m then Some (o, kw')
        else match kw_take n kw' with
             | Some (o', rest) => Some (o', (m, o) :: rest)
             | None => None
             end
    end.

  Definition kw_mem (n : N) (kw : list (N * Obj)) : bool := existsb (fun '(m, _) => N.eqb n m) kw.

  Definition cons_opt {A} (x : A) (r : option (list A)) : option (list A) :=
    match r with Some l => Some (x :: l) | None => None end.

  Fixpoint bind_go (ps : list param) (pos : list Obj) (kw : list (N * Obj))
      : option (list (param * barg)) :=
    match ps with
    | [] => match pos, kw with [], [] => Some [] | _, _ => None end
    | p :: ps' =>
        let by_keyword :=
          match kw_take (pname p) kw with
          | Some (o, kw') => cons_opt (p, BOne o) (bind_go ps' [] kw')
          | None => if has_default p then cons_opt (p, BDefault) (bind_go ps' [] kw) else None
          end in
        match kind p with
        | PosOrKw =>
            match pos with
            | o :: pos' => if kw_mem (pname p) kw then None   (* multiple values *)
                           else cons_opt (p, BOne o) (bind_go ps' pos' kw)
            | [] => by_keyword
            end
        | VarPos => cons_opt (p, BMany pos) (bind_go ps' [] kw)
        | KwOnly => match pos with [] => by_keyword | _ => None end   (* too many positionals *)
        | VarKw => match pos with
                   | [] => cons_opt (p, BMany (map snd kw)) (bind_go ps' [] [])
                   | _ => None
                   end
        end
    end.

  Definition bind (s : sig) (c : call) : option (list (param * barg)) :=
    bind_go (params s) (cpos c) (ckw c).

  (* ---- per-parameter compatibility ---- *)
  Definition sub (sol : V) (a : annot) : option V :=
    match a with AnnNone => None | AnnTy t => Some t | AnnVar => Some sol end.

  (* _check_param_type_compatibility: a default is not checked; *args / **kwargs
     are checked element-wise (tuple[T, ...] / dict[str, T] against the literal
     tuple / dict of the collected arguments) *)
  Definition arg_fits (t : option V) (b : barg) : bool :=
    match t with
    | None => true
    | Some t => forallb (fun o => acc O t (val o)) (objs_of b)
    end.

  Definition is_var (a : annot) : bool := match a with AnnVar => true | _ => false end.

  Inductive diag : Type :=
  | IncompatibleCall                  (* binding failed *)
  | CannotResolve                     (* "Cannot resolve type variables" *)
  | IncompatibleArgument (p : N).

  (* first pass (only parameters mentioning T): every argument on its own *)
  Definition t_values (b : list (param * barg)) : list V :=
    flat_map (fun '(p, ba) => if is_var (ann p) then map val (objs_of ba) else []) b.

  Definition pass1_fail (d : @decl V) (b : list (param * barg)) : option N :=
    match find (fun '(p, ba) => is_var (ann p) &&
                  negb (forallb (fun o => arg_ok O limit d (val o)) (objs_of ba))) b with
    | Some (p, _) => Some (pname p)
    | None => None
    end.

  (* second pass: every bound argument against the substituted annotation *)
  Definition pass2 (sol : V) (b : list (param * barg)) : list diag :=
    flat_map (fun '(p, ba) => if arg_fits (sub sol (ann p)) ba then []
                              else [IncompatibleArgument (pname p)]) b.

  (* get_default_return: T := Any *)
  Definition inferred (sol : V) (a : annot) : V :=
    match a with AnnNone => any_generic O | AnnTy t => t | AnnVar => sol end.
  Definition default_ret (s : sig) : V := inferred (any_inference O) (ret s).

  Definition check_call (s : sig) (c : call) : list diag * V :=
    match bind s c with
    | None => ([IncompatibleCall], default_ret s)
    | Some b =>
        match pass1_fail (tdecl s) b with
        | Some n => ([IncompatibleArgument n], default_ret s)
        | None =>
            match mresolve O limit (flat_map (arg_bounds (tdecl s)) (t_values b)) with
            | Err => ([CannotResolve], default_ret s)
            | Sol sol => (pass2 sol b, inferred sol (ret s))
            end
        end
    end.

  Definition diagnosed (s : sig) (c : call) : bool :=
    match fst (check_call s c) with [] => false | _ => true end.

  Definition no_vars (s : sig) : bool := forallb (fun p => negb (is_var (ann p))) (params s).
End CallModel.

Arguments AnnNone {V}.
Arguments AnnTy {V}.
Arguments AnnVar {V}.
Arguments BOne {Obj}.
Arguments BDefault {Obj}.
Arguments BMany {Obj}.
Arguments IncompatibleCall.
Arguments CannotResolve.
Arguments IncompatibleArgument.
