(* Call/Model.v — model of checking one call against one signature
   (pyanalyze/signature.py: check_call_preprocessed = bind_arguments +
   check_call_with_bound_args, _check_param_type_compatibility,
   get_default_return), built on

     * the C05 binder  PV.Binder.Bind.bind  (all five parameter kinds, star
       arguments at the call site) — the values of the arguments travel next to
       the flags the binder looks at, and are re-attached to its result
       (position, payload) by `bound_values`;
     * the C15 solver  PV.TypeVar.Model.mresolve  (= the model regenerated from
       typevar.py), once per type variable of the signature.

   Annotations: a type expression nested to any depth over closed types of the
   value fragment, type variables T_k, list[.], dict[., .], tuple[., ...],
   tuple[., .] and Optional[.]; or Callable[[T_k], r] with r a type / a type
   variable / absent; or no annotation.  Argument values: an opaque static value
   (a literal's KnownValue, a class type, a union ...), list / dict / tuple values
   nested to any depth, a callable (p) -> r.  Bound generation through these forms mirrors
   TypeVarValue.can_assign (lower bound), GenericValue.can_assign (element-wise)
   and Signature.can_assign / TypeVarValue.can_be_assigned (a callback's
   parameter type is an UPPER bound, its return type a lower bound).

   Several values bound to one parameter ( *args, **kwargs, `unite_values(star_args,
   star_kwargs)`) are ONE lower bound for a parameter annotated T_k: their
   union (pyanalyze turns the tuple / dict of collected arguments into
   tuple[union, ...] / dict[str, union] first; when nothing was collected the
   element type is Any[unreachable], which — in the repaired code — contributes
   no lower bound; before the repair it made T Any: C06_unused_star_args_refuted_before_fix).  A default contributes its
   lower bound when it fits the declaration and nothing otherwise, and is never
   reported.

   Shape assumptions made by the generators only: a union-typed argument is not passed for
   an Optional[..] parameter (pyanalyze splits it member by member; values are opaque here);
   a structured argument
   (list / dict / callable) is passed for a parameter with the matching
   structured annotation, for an unannotated parameter, or not at all. *)
From Coq Require Import List Bool Arith NArith.
Import ListNotations.
Require Import PV.TypeVar.Base PV.TypeVar.Model.
Require Import PV.Binder.Kind PV.Binder.Sig PV.Binder.Bind.

Section CallModel.
  Context {V : Type} (O : ops V) (limit : nat).

  Inductive aval : Type :=
  | AV (v : V)                   (* opaque static value: a literal's KnownValue, a class type, a union ... *)
  | AList (e : aval)             (* list[e] *)
  | ADict (k v : aval)           (* dict[k, v] *)
  | ATupleVar (e : aval)         (* tuple[e, ...] *)
  | ATuple2 (a b : aval)         (* tuple[a, b] *)
  | AFun (p r : V).              (* a callable (p) -> r *)

  Inductive rann : Type := RNone | RTy (t : V) | RVar (j : nat).

  (* type expressions of annotations, nested to any depth *)
  Inductive texp : Type :=
  | TTy (t : V)                  (* a closed type of the value fragment *)
  | TVarE (k : nat)              (* the type variable T_k *)
  | TList (e : texp)
  | TDict (k v : texp)
  | TTupleVar (e : texp)
  | TTuple2 (a b : texp)
  | TOpt (e : texp).             (* Optional[e] = e | None *)

  Inductive annot : Type :=
  | AnnNone
  | AnnE (e : texp)
  | AnnFun (k : nat) (r : rann). (* Callable[[T_k], r] *)

  Record cparam : Type := mk_cparam {
    cp : param;                 (* name, kind, has-default flag: what the binder sees *)
    ann : annot;
    dflt : option aval          (* value of the default, when there is one *)
  }.

  Record csig : Type := mk_csig {
    cparams : list cparam;
    decls : list (@decl V);     (* declaration of T_k = nth k decls Unbounded *)
    cret : rann
  }.

  Record ccall : Type := mk_ccall {
    a_pos : list aval;
    a_star : option aval;       (* element value of a *args argument of unknown length *)
    a_kw : list (N * aval);
    a_starkw : option aval      (* value type of a **kwargs argument *)
  }.

  Definition is_some {A} (x : option A) : bool := match x with Some _ => true | None => false end.
  Definition opt_list {A} (x : option A) : list A := match x with Some a => [a] | None => [] end.

  Definition sig_of (s : csig) : sig := map cp (cparams s).

  Definition actuals_of (c : ccall) : actuals :=
    mkActuals (map (fun _ => true) (a_pos c)) (is_some (a_star c))
              (map (fun '(n, _) => (n, true)) (a_kw c)) (is_some (a_starkw c)) (is_some (a_starkw c)).

  Fixpoint kw_find (n : N) (kw : list (N * aval)) : list aval :=
    match kw with
    | [] => []
    | (m, v) :: r => if N.eqb n m then [v] else kw_find n r
    end.

  (* what a parameter is bound to *)
  Inductive barg : Type :=
  | BVals (vs : list aval)          (* argument value(s): checked *)
  | BDefault (d : option aval).     (* the default: never reported *)

  (* re-attach values to one entry of the binder's result *)
  Definition bound_values (c : ccall) (p : cparam) (pos : position) (pl : payload) : barg :=
    match pl with
    | Tuple from count plus =>
        BVals (firstn count (skipn from (a_pos c)) ++ (if plus then opt_list (a_star c) else []))
    | Dict names plus =>
        BVals (flat_map (fun n => kw_find n (a_kw c)) names ++ (if plus then opt_list (a_starkw c) else []))
    | One =>
        match pos with
        | Pos i => BVals (opt_list (nth_error (a_pos c) i))
        | Kw n => BVals (kw_find n (a_kw c))
        | Default => BDefault (dflt p)
        | _ =>   (* ARGS / KWARGS / UNKNOWN: filled from a star argument *)
            match pkind (cp p) with
            | PO => BVals (opt_list (a_star c))
            | POK => match a_star c with
                     | Some x => BVals (x :: opt_list (a_starkw c))   (* unite_values(star_args, star_kwargs) *)
                     | None => BVals (opt_list (a_starkw c))
                     end
            | _ => BVals (opt_list (a_starkw c))
            end
        end
    end.

  Definition cbind (s : csig) (c : ccall) : option (list (cparam * barg)) :=
    match bind (sig_of s) (actuals_of c) with
    | None => None
    | Some r => Some (map (fun '(p, (_, pos, pl)) => (p, bound_values c p pos pl)) (combine (cparams s) r))
    end.

  (* ---- bound generation ---- *)
  Definition decl_of (s : csig) (k : nat) : @decl V := nth k (decls s) Unbounded.

  Definition tagged : Type := (nat * PV.TypeVar.Base.bound V)%type.
  Definition tag (k : nat) (bs : list (PV.TypeVar.Base.bound V)) : list tagged := map (fun b => (k, b)) bs.

  (* TypeVarValue.can_assign(v): LowerBound(v) + inherent bounds, solvable on their own *)
  Definition lower_gen (s : csig) (k : nat) (v : V) : option (list tagged) :=
    let bs := arg_bounds (decl_of s k) v in
    if is_err (mresolve O limit bs) then None else Some (tag k bs).

  (* TypeVarValue.can_assign(Any[unreachable]) — the element type of an empty collection:
     only the inherent bounds (repo_fixes/C06-empty-collection-lower-bound) *)
  Definition inherent_gen (s : csig) (k : nat) : option (list tagged) :=
    let bs := inherent (decl_of s k) in
    if is_err (mresolve O limit bs) then None else Some (tag k bs).

  (* TypeVarValue.can_be_assigned(v): UpperBound(v) + inherent bounds *)
  Definition upper_gen (s : csig) (k : nat) (v : V) : option (list tagged) :=
    let bs := UpperBound v :: inherent (decl_of s k) in
    if is_err (mresolve O limit bs) then None else Some (tag k bs).

  Definition both {A} (x y : option (list A)) : option (list A) :=
    match x, y with Some a, Some b => Some (a ++ b) | _, _ => None end.

  Fixpoint all_gen {A B} (f : A -> option (list B)) (l : list A) : option (list B) :=
    match l with
    | [] => Some []
    | x :: r => both (f x) (all_gen f r)
    end.

  Definition av_values (vs : list aval) : option (list V) :=
    all_gen (fun a => match a with AV v => Some [v] | _ => None end) vs.

  Definition unite_all (vs : list V) : option V :=
    match vs with
    | [] => None
    | v :: r => Some (fold_left (unite O) r v)
    end.

  (* the literal None, for Optional[..] *)
  Context (none_v : V).

  (* bounds generated by `e.can_assign(x)`; None = CanAssignError *)
  Fixpoint gen_e (s : csig) (e : texp) (x : aval) : option (list tagged) :=
    match e, x with
    | TTy t, AV v => if acc O t v then Some [] else None
    | TVarE k, AV v => lower_gen s k v
    | TList e1, AList x1 => gen_e s e1 x1
    | TDict ek ev, ADict xk xv => both (gen_e s ek xk) (gen_e s ev xv)
    | TTupleVar e1, ATupleVar x1 => gen_e s e1 x1
    | TTuple2 ea eb, ATuple2 xa xb => both (gen_e s ea xa) (gen_e s eb xb)
    | TOpt e1, AV v =>
        (* (e1 | None).can_assign(v): when None accepts v the alternatives are intersected and the
           type variables of e1 are dropped (intersect_bounds_maps keeps only those present in all) *)
        if acc O none_v v then Some [] else gen_e s e1 x
    | TOpt e1, _ => gen_e s e1 x
    | _, _ => None
    end.

  (* the bounds one bound argument contributes; None = the argument alone is rejected *)
  Definition gen_bounds (s : csig) (a : annot) (vs : list aval) : option (list tagged) :=
    match a with
    | AnnNone => Some []
    | AnnE (TVarE k) =>
        (* several values bound to a parameter annotated T_k are one lower bound: their union *)
        match av_values vs with
        | None => None
        | Some l => match unite_all l with
                    | None => inherent_gen s k   (* an empty *args / **kwargs says nothing about T_k (repaired code) *)
                    | Some u => lower_gen s k u
                    end
        end
    | AnnE e => all_gen (gen_e s e) vs
    | AnnFun k r => all_gen (fun x => match x with
                                      | AFun p q =>
                                          both (upper_gen s k p)
                                               (match r with
                                                | RNone => Some []
                                                | RTy t => if acc O t q then Some [] else None
                                                | RVar j => lower_gen s j q
                                                end)
                                      | _ => None end) vs
    end.

  Fixpoint tv_in (e : texp) : bool :=
    match e with
    | TTy _ => false
    | TVarE _ => true
    | TList e1 | TTupleVar e1 | TOpt e1 => tv_in e1
    | TDict a b | TTuple2 a b => tv_in a || tv_in b
    end.

  Definition has_tv (a : annot) : bool :=
    match a with AnnNone => false | AnnE e => tv_in e | AnnFun _ _ => true end.

  Inductive diag : Type :=
  | IncompatibleCall
  | CannotResolve
  | IncompatibleArgument (p : N).

  (* first pass: parameters mentioning a type variable, in order; the first
     rejected argument stops the check *)
  Fixpoint pass1 (s : csig) (b : list (cparam * barg)) : N + list tagged :=
    match b with
    | [] => inr []
    | (p, ba) :: rest =>
        let here :=
          if has_tv (ann p) then
            match ba with
            | BVals vs => gen_bounds s (ann p) vs
            | BDefault None => Some []
            | BDefault (Some d) => match gen_bounds s (ann p) [d] with Some l => Some l | None => Some [] end
            end
          else Some [] in
        match here with
        | None => inl (pname (cp p))
        | Some l => match pass1 s rest with
                    | inl n => inl n
                    | inr l' => inr (l ++ l')
                    end
        end
    end.

  Definition bounds_for (k : nat) (l : list tagged) : list (PV.TypeVar.Base.bound V) :=
    flat_map (fun '(j, b) => if Nat.eqb j k then [b] else []) l.

  Definition tvs (l : list tagged) : list nat := map fst l.

  (* resolve_bounds_map: every type variable that received bounds *)
  Definition solved (l : list tagged) (k : nat) : result V :=
    match bounds_for k l with
    | [] => Sol (any_generic O)
    | bs => mresolve O limit bs
    end.

  Definition resolve_ok (l : list tagged) : bool :=
    forallb (fun k => negb (is_err (solved l k))) (tvs l).

  Definition sol_of (l : list tagged) (k : nat) : V :=
    match solved l k with Sol v => v | Err => any_inference O end.

  (* second pass: every bound argument against the substituted annotation *)
  Fixpoint fits_e (sol : nat -> V) (e : texp) (x : aval) : bool :=
    match e, x with
    | TTy t, AV v => acc O t v
    | TVarE k, AV v => acc O (sol k) v
    | TList e1, AList x1 => fits_e sol e1 x1
    | TDict ek ev, ADict xk xv => fits_e sol ek xk && fits_e sol ev xv
    | TTupleVar e1, ATupleVar x1 => fits_e sol e1 x1
    | TTuple2 ea eb, ATuple2 xa xb => fits_e sol ea xa && fits_e sol eb xb
    | TOpt e1, AV v => acc O none_v v || fits_e sol e1 x
    | TOpt e1, _ => fits_e sol e1 x
    | _, _ => false
    end.

  Definition fits1 (sol : nat -> V) (a : annot) (x : aval) : bool :=
    match a, x with
    | AnnNone, _ => true
    | AnnE e, _ => fits_e sol e x
    | AnnFun k r, AFun p q =>
        acc O p (sol k) &&                  (* parameters are contravariant *)
        match r with RNone => true | RTy t => acc O t q | RVar j => acc O (sol j) q end
    | _, _ => false
    end.

  Definition fits (sol : nat -> V) (a : annot) (b : barg) : bool :=
    match b with
    | BDefault _ => true
    | BVals vs => forallb (fits1 sol a) vs
    end.

  Definition pass2 (sol : nat -> V) (b : list (cparam * barg)) : list diag :=
    flat_map (fun '(p, ba) => if fits sol (ann p) ba then [] else [IncompatibleArgument (pname (cp p))]) b.

  Definition inferred (sol : nat -> V) (r : rann) : V :=
    match r with RNone => any_generic O | RTy t => t | RVar j => sol j end.
  Definition default_ret (s : csig) : V := inferred (fun _ => any_inference O) (cret s).

  Definition check_call (s : csig) (c : ccall) : list diag * V :=
    match cbind s c with
    | None => ([IncompatibleCall], default_ret s)
    | Some b =>
        match pass1 s b with
        | inl n => ([IncompatibleArgument n], default_ret s)
        | inr l =>
            if resolve_ok l
            then (pass2 (sol_of l) b, inferred (sol_of l) (cret s))
            else ([CannotResolve], default_ret s)
        end
    end.

  Definition diagnosed (s : csig) (c : ccall) : bool :=
    match fst (check_call s c) with [] => false | _ => true end.

  Definition no_tv (s : csig) : bool := forallb (fun p => negb (has_tv (ann p))) (cparams s).
  Definition concrete_call (c : ccall) : bool := negb (is_some (a_star c)) && negb (is_some (a_starkw c)).
End CallModel.

Arguments AV {V}.
Arguments AList {V}.
Arguments ADict {V}.
Arguments AFun {V}.
Arguments RNone {V}.
Arguments RTy {V}.
Arguments RVar {V}.
Arguments AnnNone {V}.
Arguments AnnE {V}.
Arguments AnnFun {V}.
Arguments TTy {V}.
Arguments TVarE {V}.
Arguments TList {V}.
Arguments TDict {V}.
Arguments TTupleVar {V}.
Arguments TTuple2 {V}.
Arguments TOpt {V}.
Arguments ATupleVar {V}.
Arguments ATuple2 {V}.
Arguments BVals {V}.
Arguments BDefault {V}.
