(* Core/C03Run.v — guard clauses of C03 and the observables of one case (model only). *)
From Coq Require Import ZArith List Bool NArith.
Import ListNotations.
Require Import PV.Core.Obj PV.Core.Val PV.Core.Cls PV.Core.Member PV.Core.CanAssignK.


(* list / tuple / set / frozenset literals: what replace_known_sequence_value expands *)
Definition seq_elems (o : obj) : option (list obj) :=
  match o with
  | OTuple _ l | OList _ l | OSet _ l | OFrozenset l => Some l
  | _ => None
  end.

Definition all_false (fl : list bool) : bool := forallb negb fl.


Fixpoint garg_list_eqb (a b : list garg) : bool :=
  match a, b with
  | [], [] => true
  | GArg i :: a', GArg j :: b' => Nat.eqb i j && garg_list_eqb a' b'
  | GCls c :: a', GCls d :: b' => N.eqb c d && garg_list_eqb a' b'
  | GAnyv :: a', GAnyv :: b' => garg_list_eqb a' b'
  | _, _ => false
  end.

Definition opt_gargs_eqb (x : option (list garg)) (y : option (list garg)) : bool :=
  match x, y with
  | None, None => true
  | Some a, Some b => garg_list_eqb a b
  | _, _ => false
  end.

(* the boolean decision procedure for the guard [ok] of C03_known_assign_iff_member_partial
   (Proofs/C03Okb.v: okb ct T o = true -> ok ct T o) *)
Section Okb.
  Context (ct : class_table).

  (* the generic bases of the literal's class are what the spec's kind expects *)
  Definition elems_table_ok (c d : N) : bool :=
    (issub ct c d && opt_gargs_eqb (gb_args ct c d) (Some [GArg 0])) ||
    (negb (issub ct c d) && opt_gargs_eqb (gb_args ct c d) None && negb (nominal ct c d)).

  Fixpoint okb (T : val) (o : obj) {struct T} : bool :=
    match T with
    | VLeaf (LTyped d _) => Bool.eqb (nominal ct (class_of o) d) (sub_promo ct (class_of o) d)
    | VLeaf (LNewType _ d) => if N.eqb (class_of o) d then nominal ct d d else true
    | VLeaf _ => true
    | VUnion vs => (fix all (l : list val) : bool := match l with [] => true | t :: r => okb t o && all r end) vs
    | VNode (TAnnot _) [t] => okb t o
    | VNode (TSubclass _) [VLeaf (LTyped d _)] =>
        match o with OClass c' => Bool.eqb (tassign ct c' d) (sub_promo ct c' d) | _ => true end
    | VNode (TGeneric d) args =>
        match seq_elems o, o with
        | Some es, _ =>
            match gkind_of d, args with
            | Some GKElems, [X] =>
                elems_table_ok (class_of o) d && Nat.eqb (length (dedup_lits es)) (length es) && forallb (okb X) es
            | Some GKMapping, [_; _] =>
                opt_gargs_eqb (gb_args ct (class_of o) d) None && negb (nominal ct (class_of o) d)
            | _, _ => false
            end
        | None, ODict _ kvs =>
            match gkind_of d, args with
            | Some GKMapping, [K; V] =>
                issub ct c_dict d && opt_gargs_eqb (gb_args ct c_dict d) (Some [GArg 0; GArg 1]) &&
                Nat.eqb (length (dedup_lits (map fst kvs))) (length kvs) &&
                Nat.eqb (length (dedup_lits (map snd kvs))) (length kvs) &&
                forallb (fun kv => okb K (fst kv)) kvs && forallb (fun kv => okb V (snd kv)) kvs
            | Some GKElems, [X] =>
                elems_table_ok c_dict d && Nat.eqb (length (dedup_lits (map fst kvs))) (length kvs) &&
                forallb (fun kv => okb X (fst kv)) kvs
            | _, _ => false
            end
        | None, _ =>
            match iter_elems o with
            | None => opt_gargs_eqb (gb_noargs ct (class_of o) d) None && negb (nominal ct (class_of o) d)
            | Some _ => false     (* str / bytes against a generic: compared by type only *)
            end
        end
    | VNode (TSeq d flags) (_ :: ms) =>
        N.eqb d c_tuple && all_false flags && Nat.eqb (length flags) (length ms) &&
        tassign ct c_tuple c_tuple && negb (tassign ct c_list c_tuple) && negb (tassign ct c_set c_tuple) &&
        match seq_elems o with
        | Some es =>
            (fix go (ms : list val) (es : list obj) {struct ms} : bool :=
               match ms, es with
               | X :: ms', e :: es' => okb X e && go ms' es'
               | _, _ => true
               end) ms es
        | None => true
        end
    | VNode (TTypedDict _ _ _) (_ :: ts) =>
        match o with
        | ODict _ kvs =>
            forallb (fun kv => is_str (fst kv)) kvs &&
            (fix all (l : list val) : bool :=
               match l with [] => true | t :: r => forallb (fun kv => okb t (snd kv)) kvs && all r end) ts
        | _ => true
        end
    | _ => false
    end.
End Okb.

(* a tuple type with an unpacked member: tuple[int, *tuple[str, ...]] *)
Fixpoint has_variadic (T : val) : bool :=
  match T with
  | VLeaf _ => false
  | VNode (TSeq _ fl) k => existsb (fun b => b) fl || existsb has_variadic k
  | VNode _ k => existsb has_variadic k
  | VUnion k => existsb has_variadic k
  end.

Fixpoint has_typeddict (T : val) : bool :=
  match T with
  | VLeaf _ => false
  | VNode (TTypedDict _ _ _) _ => true
  | VNode _ k => existsb has_typeddict k
  | VUnion k => existsb has_typeddict k
  end.

Fixpoint obj_has_frozenset (o : obj) : bool :=
  match o with
  | OFrozenset _ => true
  | OTuple _ l | OList _ l | OSet _ l => existsb obj_has_frozenset l
  | ODict _ kvs => existsb (fun kv => obj_has_frozenset (fst kv) || obj_has_frozenset (snd kv)) kvs
  | _ => false
  end.

Fixpoint obj_has_nonstr_key (o : obj) : bool :=
  match o with
  | OTuple _ l | OList _ l | OSet _ l | OFrozenset l => existsb obj_has_nonstr_key l
  | ODict _ kvs => existsb (fun kv => negb (is_str (fst kv)) || obj_has_nonstr_key (snd kv)) kvs
  | _ => false
  end.

(* a str / bytes object (checked by its type Sequence[str] / Sequence[int], not by its characters) *)
Fixpoint obj_has_strbytes (o : obj) : bool :=
  match o with
  | OStr _ | OBytes _ => true
  | OTuple _ l | OList _ l | OSet _ l | OFrozenset l => existsb obj_has_strbytes l
  | ODict _ kvs => existsb (fun kv => obj_has_strbytes (fst kv) || obj_has_strbytes (snd kv)) kvs
  | _ => false
  end.

(* uniting the element literals of a container merges nothing *)
Fixpoint dedup_safe (o : obj) : bool :=
  match o with
  | OTuple _ l | OList _ l | OSet _ l | OFrozenset l =>
      Nat.eqb (length (dedup_lits l)) (length l) && forallb dedup_safe l
  | ODict _ kvs =>
      Nat.eqb (length (dedup_lits (map fst kvs))) (length kvs) &&
      Nat.eqb (length (dedup_lits (map snd kvs))) (length kvs) &&
      forallb (fun kv => dedup_safe (fst kv) && dedup_safe (snd kv)) kvs
  | _ => true
  end.

Definition c03_run (ct : class_table) (T : val) (o : obj) :=
  (ca ct T o, member ct T o,
   (has_variadic T, negb (dedup_safe o), obj_has_frozenset o, obj_has_nonstr_key o && has_typeddict T, obj_has_strbytes o, okb ct T o)).
