(* Core/C03Run.v — guard clauses of C03 and the observables of one case (model only). *)
From Coq Require Import ZArith List Bool NArith.
Import ListNotations.
Require Import PV.Core.Obj PV.Core.Val PV.Core.Cls PV.Core.Member PV.Core.CanAssignK.

(* a tuple type with an unpacked member: tuple[int, *tuple[str, ...]] *)
Fixpoint has_variadic (T : val) : bool :=
  match T with
  | VLeaf _ => false
  | VNode (TSeq _ fl) k => existsb (fun b => b) fl || existsb has_variadic k
  | VNode _ k => existsb has_variadic k
  | VUnion k => existsb has_variadic k
  end.

Fixpoint has_typeddict (T : val) : bool :=
  match T with
  | VLeaf _ => false
  | VNode (TTypedDict _ _ _) _ => true
  | VNode _ k => existsb has_typeddict k
  | VUnion k => existsb has_typeddict k
  end.

Fixpoint obj_has_frozenset (o : obj) : bool :=
  match o with
  | OFrozenset _ => true
  | OTuple _ l | OList _ l | OSet _ l => existsb obj_has_frozenset l
  | ODict _ kvs => existsb (fun kv => obj_has_frozenset (fst kv) || obj_has_frozenset (snd kv)) kvs
  | _ => false
  end.

Fixpoint obj_has_nonstr_key (o : obj) : bool :=
  match o with
  | OTuple _ l | OList _ l | OSet _ l | OFrozenset l => existsb obj_has_nonstr_key l
  | ODict _ kvs => existsb (fun kv => negb (is_str (fst kv)) || obj_has_nonstr_key (snd kv)) kvs
  | _ => false
  end.

(* a str / bytes object (checked by its type Sequence[str] / Sequence[int], not by its characters) *)
Fixpoint obj_has_strbytes (o : obj) : bool :=
  match o with
  | OStr _ | OBytes _ => true
  | OTuple _ l | OList _ l | OSet _ l | OFrozenset l => existsb obj_has_strbytes l
  | ODict _ kvs => existsb (fun kv => obj_has_strbytes (fst kv) || obj_has_strbytes (snd kv)) kvs
  | _ => false
  end.

(* uniting the element literals of a container merges nothing *)
Fixpoint dedup_safe (o : obj) : bool :=
  match o with
  | OTuple _ l | OList _ l | OSet _ l | OFrozenset l =>
      Nat.eqb (length (dedup_lits l)) (length l) && forallb dedup_safe l
  | ODict _ kvs =>
      Nat.eqb (length (dedup_lits (map fst kvs))) (length kvs) &&
      Nat.eqb (length (dedup_lits (map snd kvs))) (length kvs) &&
      forallb (fun kv => dedup_safe (fst kv) && dedup_safe (snd kv)) kvs
  | _ => true
  end.

Definition c03_run (ct : class_table) (T : val) (o : obj) :=
  (ca ct T o, member ct T o,
   (has_variadic T, negb (dedup_safe o), obj_has_frozenset o, obj_has_nonstr_key o && has_typeddict T, obj_has_strbytes o)).
