(* Core/C04Run.v — observables and guard clauses of one C04 case (model only). *)
From Coq Require Import ZArith List Bool NArith.
Import ListNotations.
Require Import PV.Core.Obj PV.Core.Val PV.Core.Cls PV.Core.Member PV.Core.CanAssignK PV.Core.CanAssign PV.Core.C03Run.

Definition generic_capable (c : N) : bool :=
  existsb (N.eqb c) [c_type; c_tuple; c_list; c_set; c_frozenset; c_dict; c_Iterable; c_Collection; c_Sequence;
                     c_MutableSequence; c_Mapping; c_MutableMapping; c_AbstractSet; c_Container; c_Reversible; c_MutableSet].

(* documented leniency 1: a bare generic class stands for G[Any] (bare `type` is type[Any]) *)
Fixpoint has_bare_generic (v : val) : bool :=
  match v with
  | VLeaf (LTyped c _) => generic_capable c
  | VLeaf _ => false
  | VNode _ k => existsb has_bare_generic k
  | VUnion k => existsb has_bare_generic k
  end.

Fixpoint has_seq (v : val) : bool :=
  match v with
  | VLeaf _ => false
  | VNode (TSeq _ _) _ => true
  | VNode _ k => existsb has_seq k
  | VUnion k => existsb has_seq k
  end.

(* documented leniency 2: tuple[X, ...] on the right of a fixed-length tuple *)
Fixpoint has_variadic_tuple (v : val) : bool :=
  match v with
  | VLeaf _ => false
  | VNode (TGeneric c) k => N.eqb c c_tuple || existsb has_variadic_tuple k
  | VNode _ k => existsb has_variadic_tuple k
  | VUnion k => existsb has_variadic_tuple k
  end.

(* Any[unreachable] is only the derived element type of an empty SequenceValue / dict, not an Any of the type *)
Fixpoint has_any (v : val) : bool :=
  match v with
  | VLeaf (LAny s) => negb (N.eqb s any_unreachable)
  | VLeaf _ => false
  | VNode _ k => existsb has_any k
  | VUnion k => existsb has_any k
  end.

(* a literal whose elements are merged before they are checked (C03-literal-dedup) *)
Fixpoint has_unsafe_literal (v : val) : bool :=
  match v with
  | VLeaf (LKnown o) | VLeaf (LKnownTV o) => negb (dedup_safe o)
  | VLeaf _ => false
  | VNode _ k => existsb has_unsafe_literal k
  | VUnion k => existsb has_unsafe_literal k
  end.

Fixpoint has_newtype (v : val) : bool :=
  match v with
  | VLeaf (LNewType _ _) => true
  | VLeaf _ => false
  | VNode _ k => existsb has_newtype k
  | VUnion k => existsb has_newtype k
  end.

Definition is_annot (v : val) : bool := match v with VNode (TAnnot _) _ => true | _ => false end.
Definition is_vunion (v : val) : bool := match v with VUnion _ => true | _ => false end.

(* get_generic_bases(d, args)[d] returns the arguments themselves *)
Definition gb_identity (ct : class_table) (d : N) (k : nat) : bool :=
  match gb_args ct d d with
  | Some gs => Nat.eqb (length gs) k && forallb (fun p => match snd p with GArg i => Nat.eqb i (fst p) | _ => false end)
                                                (combine (seq 0 k) gs)
  | None => false
  end.

(* the reflexive fragment (decidable).  Excluded on purpose, each with a replayed
   counterexample in design.d/C04.md: GenericValue without arguments, Annotated
   directly around Annotated or around a union, unions that are not flat. *)
Fixpoint refl_ok (ct : class_table) (A : val) {struct A} : bool :=
  match A with
  | VLeaf (LKnown o) | VLeaf (LKnownTV o) => py_eq o o
  | VLeaf (LTyped d _) => tassign ct d d
  | VLeaf _ => true
  | VNode (TAnnot _) [t] => negb (is_annot t) && negb (is_vunion t) && refl_ok ct t
  | VNode (TSubclass _) [t] => refl_ok ct t
  | VNode (TGeneric d) args =>
      match args with [] => false | _ => true end && gb_identity ct d (length args) && forallb (refl_ok ct) args
  | VNode (TSeq d flags) (a :: ms) =>
      tassign ct d d && Nat.eqb (length flags) (length ms) && forallb (refl_ok ct) ms
  | VUnion vs => forallb (fun b => negb (is_vunion b) && refl_ok ct b) vs
  | _ => false
  end.

Definition c04_run (ct : class_table) (A B C : val) (pool : list obj) :=
  ((can_assign ct false A B, can_assign ct true A B, can_assign ct false A C, can_assign ct false A A, can_assign ct true A A),
   (map (member ct A) pool, map (member ct B) pool),
   (has_bare_generic A || has_bare_generic B, has_seq A && has_variadic_tuple B, has_any A || has_any B,
    has_unsafe_literal B, has_variadic A || has_variadic B, has_newtype A, refl_ok ct A, strict_f ct big A B)).
