(* Core/C14Run.v — the observables of one C14 case, evaluated by harness/c14.py
   with vm_compute and compared with the implementation (model only). *)
From Coq Require Import ZArith List Bool NArith.
Import ListNotations.
Require Import PV.Core.Obj PV.Core.Val PV.Core.Subst.

Definition c14_run (a b c : val) (m : tvmap) :=
  let ab := unite [a; b] in let ba := unite [b; a] in
  let l := unite [unite [a; b]; c] in let r := unite [a; unite [b; c]] in
  let sa := subst m a in let sb := subst m b in
  let s_u := subst m ab in let u_s := unite [sa; sb] in
  let mem := VAnyUnreachable :: flatten a ++ flatten b ++ flatten c ++ flatten sa ++ flatten sb in
  let sts := flat_map subterms [a; b; c; sa; sb] in
  ((veq a b, veq b c, veq a c, E_f big a b, heq a b),
   (ab, ba, veq ab ba), (l, r, veq l r), (unite [a; a], unite [a], veq a (unite [a]), veq (unite [a; a]) a),
   (sa, s_u, u_s, veq s_u u_s),
   (equiv_onb (E_f big) mem, hash_consistent big sts, existsb has_unhashable_literal [a; b; c; sa; sb],
    existsb has_annotated_unreachable [a; b; c; sa; sb], forallb flat [a; b; c],
    existsb has_nested_annot [sa; sb; s_u; u_s]),
   root_causes big sts,
   (let mem3 := flatten a ++ flatten b ++ flatten c in map (fun x => map (E_f big x) mem3) mem3)).
