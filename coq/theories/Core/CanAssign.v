(* Core/CanAssign.v — MODEL of A.can_assign(B, ctx) between values of the static
   fragment (Any, Literal, classes, NewType, unions, Annotated, type[...], generics,
   tuples), both exclude-Any modes.  Follows the per-class dispatch of value.py and
   the base rules of Value.can_assign.  Fuel = explicit (0 = out of fuel = false).
   A container literal on the right is expanded as replace_known_sequence_value does.
   Outside the fragment (TypedDict, DictIncomplete, Callable, TypeVar on either
   side): false; the encoder never produces them for C04.  No proofs. *)
From Coq Require Import ZArith List Bool NArith.
Import ListNotations.
Require Import PV.Core.Obj PV.Core.Val PV.Core.Cls PV.Core.Member PV.Core.CanAssignK.

Definition any_generic_argument : N := 9.

(* the class of a value that is an instance of TypedValue, with the arguments
   get_generic_bases receives *)
Definition typed_view (B : val) : option (N * list val * bool) :=   (* class, args, has_args *)
  match B with
  | VLeaf (LTyped c _) => Some (c, [], false)
  | VLeaf (LNewType _ c) => Some (c, [], false)
  | VNode (TGeneric c) args => Some (c, args, true)
  | VNode (TSeq c _) (a :: _) => Some (c, [a], true)
  | VNode (TDictInc c _) (ka :: va :: _) => Some (c, [ka; va], true)
  | VLeaf (LKnown o) | VLeaf (LKnownTV o) => Some (class_of o, [], false)
  | _ => None
  end.

(* replace_known_sequence_value on a literal: list / tuple / set / frozenset literals become a
   SequenceValue of their element literals, dict literals a DictIncompleteValue; the derived
   arguments are the united element literals (Any[unreachable] when empty) *)
Definition lits (es : list obj) : list val := map (fun e => VLeaf (LKnown e)) es.
Definition united (vs : list val) : val := match vs with [] => VAnyUnreachable | _ => unite vs end.
Definition expand_known (B : val) : val :=
  match B with
  | VLeaf (LKnown (OTuple _ es)) => VNode (TSeq c_tuple (map (fun _ => false) es)) (united (lits es) :: lits es)
  | VLeaf (LKnown (OList _ es)) => VNode (TSeq c_list (map (fun _ => false) es)) (united (lits es) :: lits es)
  | VLeaf (LKnown (OSet _ es)) => VNode (TSeq c_set (map (fun _ => false) es)) (united (lits es) :: lits es)
  | VLeaf (LKnown (OFrozenset es)) => VNode (TSeq c_frozenset (map (fun _ => false) es)) (united (lits es) :: lits es)
  | VLeaf (LKnown (ODict _ kvs)) =>
      VNode (TDictInc c_dict (map (fun _ => (false, true)) kvs))
            (united (lits (map fst kvs)) :: united (lits (map snd kvs)) :: flat_map (fun kv => [VLeaf (LKnown (fst kv)); VLeaf (LKnown (snd kv))]) kvs)
  | _ => B
  end.

(* replace_known_sequence_value on the right-hand side: Annotated stripped *)
Fixpoint strip_annot (B : val) : val :=
  match B with
  | VNode (TAnnot _) [b] => strip_annot b
  | _ => B
  end.

(* a SequenceValue view: class, members with flags *)
Definition seq_view (B : val) : option (N * list (bool * val)) :=
  match B with
  | VNode (TSeq c fl) (_ :: ms) => Some (c, combine fl ms)
  | VLeaf (LKnown (OTuple _ es)) => Some (c_tuple, map (fun e => (false, VLeaf (LKnown e))) es)
  | VLeaf (LKnown (OList _ es)) => Some (c_list, map (fun e => (false, VLeaf (LKnown e))) es)
  | VLeaf (LKnown (OSet _ es)) => Some (c_set, map (fun e => (false, VLeaf (LKnown e))) es)
  | VLeaf (LKnown (OFrozenset es)) => Some (c_frozenset, map (fun e => (false, VLeaf (LKnown e))) es)
  | _ => None
  end.

Section CanAssign.
  Context (ct : class_table).

  Definition garg_val (bargs : list val) (g : garg) : val :=
    match g with
    | GArg i => nth i bargs (VLeaf (LAny any_generic_argument))
    | GCls c => VLeaf (LTyped c false)
    | GAnyv => VLeaf (LAny any_generic_argument)
    end.

  (* one unfolding of can_assign, with the recursive calls abstracted as [rec] *)
  Section Step.
    Context (excl : bool) (rec : val -> val -> bool).

    (* Value.can_assign *)
    Definition base_rule (A B : val) : bool :=
      match B with
      | VLeaf (LAny _) => if excl then veq A B else true
      | VUnion vs => forallb (rec A) vs
      | VNode (TAnnot _) [b] => rec A b
      | _ => veq A B
      end.

    (* TypedValue.can_assign for TypedValue(d, literal_only = lit) standing for A *)
    Definition typed_path (A B : val) (d : N) (lit : bool) : bool :=
      match B with
      | VLeaf (LKnown o) | VLeaf (LKnownTV o) => nominal ct (class_of o) d
      | VLeaf (LTyped c lit') => (negb lit || lit') && tassign ct c d
      | VNode (TSubclass _) [t] =>
          match t with
          | VLeaf (LTyped _ _) | VLeaf (LNewType _ _) | VNode (TGeneric _) _ | VNode (TSeq _ _) _ => tassign ct c_type d
          | VLeaf (LAny _) | VNode (TTypeVar _ _) _ => true
          | _ => base_rule A B
          end
      | _ =>
          match typed_view B with
          | Some (c, _, _) => negb lit && tassign ct c d
          | None => base_rule A B
          end
      end.

    (* GenericValue.can_assign for GenericValue(d, args) standing for A *)
    Definition generic_path (A B : val) (d : N) (args : list val) : bool :=
      match typed_view (expand_known (strip_annot B)) with
      | Some (c, bargs, has_args) =>
          match (if has_args then gb_args ct c d else gb_noargs ct c d) with
          | Some gs =>
              if Nat.eqb (length args) (length gs) then
                match args with [] => false | _ => true end &&
                forallb (fun p => rec (fst p) (garg_val bargs (snd p))) (combine args gs)
              else typed_path A B d false
          | None => typed_path A B d false
          end
      | None => typed_path A B d false
      end.

    Definition ca_step (A B : val) : bool :=
      match A with
      | VLeaf (LAny _) =>
          match B with
          | VUnion _ | VNode (TAnnot _) _ => base_rule A B
          | _ => true
          end
      | VLeaf (LKnown o) | VLeaf (LKnownTV o) =>
          match B with
          | VLeaf (LKnown o') | VLeaf (LKnownTV o') => same_literal o o'
          | _ => base_rule A B
          end
      | VLeaf (LTyped d lit) => typed_path A B d lit
      | VLeaf (LNewType nt d) =>
          match B with
          | VLeaf (LNewType nt' _) => N.eqb nt nt'
          | VLeaf (LKnown o) | VLeaf (LKnownTV o) => N.eqb (class_of o) d && nominal ct (class_of o) d
          | _ =>
              match typed_view B with
              | Some (c, _, _) => N.eqb c d && typed_path A B d false
              | None => typed_path A B d false
              end
          end
      | VLeaf LUninit => base_rule A B
      | VUnion vs =>
          match B with
          | VUnion bs => forallb (rec A) bs
          | VNode (TAnnot md) [VUnion bs] =>
              match bs with [] => false | _ => forallb (fun b => rec A (annotate md b)) bs end
          | VLeaf (LAny _) => if excl then existsb (fun a => rec a B) vs else true
          | _ => existsb (fun a => rec a B) vs
          end
      | VNode (TAnnot _) [t] => rec t B
      | VNode (TSubclass _) [t] =>
          match B with
          | VNode (TSubclass _) [t'] => rec t t'
          | VLeaf (LKnown (OClass c')) =>
              match typed_view t with
              | Some (d, _, _) => tassign ct c' d
              | None => false
              end
          | VLeaf (LTyped c _) => N.eqb c c_type || base_rule A B
          | _ => base_rule A B
          end
      | VNode (TGeneric d) args => generic_path A B d args
      | VNode (TSeq d flags) (a :: ms) =>
          match seq_view (strip_annot B) with
          | Some (c, bms) =>
              tassign ct c d && Nat.eqb (length ms) (length bms) &&
              forallb (fun p => Bool.eqb (fst (fst p)) (fst (snd p)) && rec (snd (fst p)) (snd (snd p)))
                      (combine (combine flags ms) bms)
          | None => generic_path A B d [a]
          end
      | _ => false
      end.
  End Step.

  Fixpoint can_assign_f (n : nat) (excl : bool) (A B : val) {struct n} : bool :=
    match n with
    | O => false
    | S n' => ca_step excl (can_assign_f n' excl) A B
    end.
End CanAssign.


(* ---- the sound core of can_assign: only the rules that are sound for membership, none of the
   leniencies (bare generics, fixed tuple <- tuple[X, ...], NewType <- supertype, literals
   checked after de-duplication).  Proofs/C04Sound.v: an acceptance derived with these rules is
   (1) an acceptance of the full model and (2) sound for membership.  The harness evaluates
   [strict_f] on every generated pair: it is the decidable guard of the soundness theorem. ---- *)
Definition scalar_obj (o : obj) : bool :=
  match o with
  | OTuple _ _ | OList _ _ | OSet _ _ | OFrozenset _ | ODict _ _ => false
  | _ => true
  end.

Definition nominal_cls (c : N) : bool := negb (protocol_like c).
Definition all_false_b (fl : list bool) : bool := forallb negb fl.

Section Strict.
  Context (ct : class_table) (r : val -> val -> bool).

  Definition gargs_is (x : option (list garg)) (want : list nat) : bool :=
    match x with
    | Some gs => Nat.eqb (length gs) (length want) &&
                 forallb (fun p => match fst p with GArg i => Nat.eqb i (snd p) | _ => false end) (combine gs want)
    | None => false
    end.

  Definition sstep (A B : val) : bool :=
    match A with
    | VUnion vs =>
        match B with
        | VUnion bs => forallb (r A) bs
        | VLeaf (LTyped _ _) | VLeaf (LKnown _) | VNode (TGeneric _) _ | VNode (TSeq _ _) _ | VNode (TSubclass _) _ =>
            existsb (fun a => r a B) vs
        | _ => false
        end
    | VNode (TAnnot _) [t] => r t B
    | VLeaf (LTyped d false) =>
        nominal_cls d &&
        match B with
        | VUnion bs => forallb (r A) bs
        | VNode (TAnnot _) [b] => r A b
        | VLeaf (LTyped c _) => tassign ct c d
        | VLeaf (LKnown o) => scalar_obj o && nominal ct (class_of o) d
        | _ => false
        end
    | VLeaf (LKnown o) =>
        scalar_obj o &&
        match B with
        | VUnion bs => forallb (r A) bs
        | VNode (TAnnot _) [b] => r A b
        | VLeaf (LKnown o') => scalar_obj o' && same_literal o o'
        | _ => false
        end
    | VNode (TSubclass _) [VLeaf (LTyped d false)] =>
        nominal_cls d &&
        match B with
        | VUnion bs => forallb (r A) bs
        | VNode (TAnnot _) [b] => r A b
        | VNode (TSubclass _) [VLeaf (LTyped c false)] => r (VLeaf (LTyped d false)) (VLeaf (LTyped c false))
        | VLeaf (LKnown (OClass c')) => tassign ct c' d
        | _ => false
        end
    | VNode (TGeneric d) args =>
        match B with
        | VUnion bs => forallb (r A) bs
        | VNode (TGeneric c) bargs =>
            issub ct c d &&
            match gkind_of d, args, gkind_of c, bargs with
            | Some GKElems, [X], Some GKElems, [Y] => gargs_is (gb_args ct c d) [0] && r X Y
            | Some GKMapping, [K; V], Some GKMapping, [K'; V'] => gargs_is (gb_args ct c d) [0; 1] && r K K' && r V V'
            | Some GKElems, [X], Some GKMapping, [K'; _] => gargs_is (gb_args ct c d) [0] && r X K'
            | _, _, _, _ => false
            end
        | _ => false
        end
    | VNode (TSeq d fl) (_ :: ms) =>
        match B with
        | VUnion bs => forallb (r A) bs
        | VNode (TSeq c fl') (_ :: bs) =>
            N.eqb d c_tuple && N.eqb c c_tuple && tassign ct c_tuple c_tuple &&
            all_false_b fl && all_false_b fl' && Nat.eqb (length fl) (length ms) && Nat.eqb (length fl') (length bs) &&
            Nat.eqb (length ms) (length bs) && forall2b r ms bs
        | _ => false
        end
    | _ => false
    end.
End Strict.

Fixpoint strict_f (ct : class_table) (n : nat) (A B : val) {struct n} : bool :=
  match n with
  | O => false
  | S n' => sstep ct (strict_f ct n') A B
  end.

Definition can_assign (ct : class_table) (excl : bool) (A B : val) : bool := can_assign_f ct big excl A B.
