(* Core/CanAssignK.v — MODEL of T.can_assign(KnownValue(o), ctx) for a static type T
   (what pyanalyze.runtime.is_assignable computes), following the dispatch of
   value.py (with repo_fixes/C03-frozenset-elements.diff applied: frozenset
   literals are expanded like list / tuple / set literals): KnownValue / TypedValue / NewTypeValue / GenericValue (through
   replace_known_sequence_value and get_generic_bases) / SequenceValue /
   TypedDictValue / SubclassValue / MultiValuedValue / AnnotatedValue.  No proofs. *)
From Coq Require Import ZArith List Bool NArith.
Import ListNotations.
Require Import PV.Core.Obj PV.Core.Val PV.Core.Cls PV.Core.Member.

(* unite_values on KnownValues of the elements: equal (and hash-equal) literals are merged *)
Definition lit_E (a b : obj) : bool := literal_heq a b && lit_key_eq a b.
Definition dedup_lits (es : list obj) : list obj := dedup lit_E es.

Section CanAssignK.
  Context (ct : class_table).

  (* TypeObject.can_assign, then TypedValue's `is_instance` fallback for literals *)
  Definition nominal (c d : N) : bool :=
    match nomk ct c d with Some b => b | None => tassign ct c d || issub ct c d end.

  (* T.can_assign(TypedValue(c)): needed for str / bytes, whose generic bases are
     Sequence[str] / Sequence[int] *)
  Fixpoint ca_typed (T : val) (c : N) {struct T} : bool :=
    match T with
    | VLeaf (LAny _) => true
    | VLeaf (LTyped d lit) => negb lit && tassign ct c d
    | VLeaf (LNewType _ d) => N.eqb c d && tassign ct c d
    | VUnion vs =>
        (fix any (l : list val) : bool :=
           match l with [] => false | t :: r => ca_typed t c || any r end) vs
    | VNode (TAnnot _) [t] => ca_typed t c
    | VNode (TGeneric d) args =>
        match gb_noargs ct c d with
        | Some gs =>
            if Nat.eqb (length args) (length gs) then
              match args with [] => false | _ => true end &&
              (fix go (args : list val) (gs : list garg) {struct args} : bool :=
                 match args, gs with
                 | X :: args', g :: gs' =>
                     match g with GCls c' => ca_typed X c' | _ => true end && go args' gs'
                 | _, _ => true
                 end) args gs
            else tassign ct c d
        | None => tassign ct c d
        end
    | _ => false
    end.

  Fixpoint ca (T : val) (o : obj) {struct T} : bool :=
    match T with
    | VLeaf (LAny _) => true
    | VLeaf (LKnown o') | VLeaf (LKnownTV o') => same_literal o' o
    | VLeaf (LTyped d _) => nominal (class_of o) d
    | VLeaf (LNewType _ d) => N.eqb (class_of o) d && nominal (class_of o) d
    | VLeaf LUninit => false
    | VUnion vs =>
        (fix any (l : list val) : bool :=
           match l with [] => false | t :: r => ca t o || any r end) vs
    | VNode (TAnnot _) [t] => ca t o
    | VNode (TSubclass _) [t] =>
        match o with
        | OClass c' =>
            match t with
            | VLeaf (LTyped d _) | VNode (TGeneric d) _ | VNode (TSeq d _) _ => tassign ct c' d
            | _ => false
            end
        | _ => false
        end
    | VNode (TGeneric d) args =>
        (* the argument of the generic base, as a list of element literals / a class / Any *)
        let table := match o with
                     | OTuple _ _ | OList _ _ | OSet _ _ | OFrozenset _ | ODict _ _ => gb_args ct (class_of o) d
                     | _ => gb_noargs ct (class_of o) d
                     end in
        match table with
        | Some gs =>
            if Nat.eqb (length args) (length gs) then
              match args with [] => false | _ => true end &&
              (fix go (args : list val) (gs : list garg) {struct args} : bool :=
                 match args, gs with
                 | X :: args', g :: gs' =>
                     match g with
                     | GCls c' => ca_typed X c'
                     | GAnyv => true
                     | GArg i =>
                         match o with
                         | OTuple _ es | OList _ es | OSet _ es | OFrozenset es => forallb (ca X) (dedup_lits es)
                         | ODict _ kvs =>
                             forallb (ca X) (dedup_lits (map (if Nat.eqb i 0 then fst else snd) kvs))
                         | _ => true
                         end
                     end && go args' gs'
                 | _, _ => true
                 end) args gs
            else nominal (class_of o) d
        | None => nominal (class_of o) d
        end
    | VNode (TSeq d flags) (_ :: ms) =>
        match o with
        | OTuple _ es | OList _ es | OSet _ es =>
            tassign ct (class_of o) d && Nat.eqb (length ms) (length es) &&
            (fix go (fl : list bool) (ms : list val) (es : list obj) {struct ms} : bool :=
               match ms, fl, es with
               | X :: ms', f :: fl', e :: es' => negb f && ca X e && go fl' ms' es'
               | [], _, _ => true
               | _, _, _ => false
               end) flags ms es
        | _ => false
        end
    | VNode (TTypedDict keys he _) (_ :: ts) =>
        match o with
        | ODict _ kvs =>
            (fix tdgo (ks : list (N * (bool * bool))) (ts : list val) {struct ts} : bool :=
               match ks, ts with
               | (k, (req, _)) :: ks', t :: ts' =>
                   match dict_get (OStr [k]) kvs with
                   | Some v => ca t v
                   | None => negb req
                   end && tdgo ks' ts'
               | [], [ext] =>
                   if he then forallb (fun kv => key_named keys (fst kv) || ca ext (snd kv)) kvs else false
               | [], [] => negb he
               | _, _ => false
               end) keys ts
        | _ => false
        end
    | _ => false
    end.
End CanAssignK.
