(* Core/Cls.v — the class table (data supplied by Gen/ClassTable.v, dumped from the
   running implementation) and the nominal part of the membership spec. *)
From Coq Require Import ZArith List Bool NArith.
Import ListNotations.
Require Import PV.Core.Obj.

(* an argument of a generic base: the i-th argument of the source value, a fixed class, or Any *)
Inductive garg : Type := GArg (i : nat) | GCls (c : N) | GAnyv.

Record class_table : Type := {
  tassign : N -> N -> bool;      (* TypedValue(d).can_assign(TypedValue(c)) on the implementation *)
  issub : N -> N -> bool;        (* CPython issubclass(c, d) *)
  gb_args : N -> N -> option (list garg);     (* get_generic_bases(c, args)[d] *)
  gb_noargs : N -> N -> option (list garg);   (* get_generic_bases(c, ())[d] *)
  nomk : N -> N -> option bool   (* TypedValue(d).can_assign(KnownValue(x)) for an instance x of c, when dumped *)
}.

Fixpoint mem_pair (c d : N) (l : list (N * N)) : bool :=
  match l with
  | [] => false
  | (a, b) :: r => (N.eqb a c && N.eqb b d) || mem_pair c d r
  end.

Fixpoint find_pair {A} (c d : N) (l : list ((N * N) * A)) : option A :=
  match l with
  | [] => None
  | ((a, b), x) :: r => if N.eqb a c && N.eqb b d then Some x else find_pair c d r
  end.

(* ABC codes (harness/universe.py) *)
Definition c_Iterable : N := 20.  Definition c_Collection : N := 21. Definition c_Sequence : N := 22.
Definition c_MutableSequence : N := 23. Definition c_Mapping : N := 24. Definition c_MutableMapping : N := 25.
Definition c_AbstractSet : N := 26. Definition c_Container : N := 30. Definition c_Reversible : N := 31.
Definition c_MutableSet : N := 32.

(* classes that pyanalyze compares structurally (typeshed protocols) and Callable: the dumped
   `tassign` is not transitive through them (object is Hashable, list is not) *)
Definition protocol_like (d : N) : bool := existsb (N.eqb d) [27; 28; 20; 21; 30; 31; 29]%N.

(* SPEC: runtime subclassing plus the numeric promotions of the typing spec
   (int -> float -> complex; bool is an int) *)
Definition sub_promo (ct : class_table) (c d : N) : bool :=
  issub ct c d
  || (issub ct c c_int && (N.eqb d c_float || N.eqb d c_complex))
  || (issub ct c c_float && N.eqb d c_complex).

(* SPEC: which generic classes are element containers (one argument: the type of
   the elements obtained by iterating) and which are mappings (key, value) *)
Inductive gkind := GKElems | GKMapping.
Definition gkind_of (d : N) : option gkind :=
  if existsb (N.eqb d) [c_list; c_set; c_frozenset; c_tuple; c_Iterable; c_Collection; c_Sequence;
                        c_MutableSequence; c_AbstractSet; c_Container; c_Reversible; c_MutableSet]
  then Some GKElems
  else if existsb (N.eqb d) [c_dict; c_Mapping; c_MutableMapping] then Some GKMapping
  else None.

(* SPEC: the elements one gets by iterating an object *)
Definition iter_elems (o : obj) : option (list obj) :=
  match o with
  | OTuple _ l | OList _ l | OSet _ l | OFrozenset l => Some l
  | OStr s => Some (map (fun ch => OStr [ch]) s)
  | OBytes s => Some (map (fun b => OInt (Z.of_N b)) s)
  | ODict _ kvs => Some (map fst kvs)
  | _ => None
  end.
