(* Core/Member.v — SPEC: structural membership of a concrete object in a fully
   static type (model only, no proofs).  Independent of pyanalyze's algorithm:
   it uses CPython's issubclass (class table field [issub]), the numeric
   promotions, and iteration of the object. *)
From Coq Require Import ZArith List Bool NArith.
Import ListNotations.
Require Import PV.Core.Obj PV.Core.Val PV.Core.Cls.

Definition is_str (o : obj) : bool := match o with OStr _ => true | _ => false end.

Fixpoint dict_get (k : obj) (kvs : list (obj * obj)) : option obj :=
  match kvs with
  | [] => None
  | (k', v) :: r => if py_eq k' k then Some v else dict_get k r
  end.

Definition key_named (keys : list (N * (bool * bool))) (k : obj) : bool :=
  existsb (fun e => py_eq (OStr [fst e]) k) keys.

(* the class a type[...] argument stands for *)
Definition class_target (t : val) : option N :=
  match t with
  | VLeaf (LTyped d _) => Some d
  | VNode (TGeneric d) _ => Some d
  | _ => None
  end.

Section Member.
  Context (ct : class_table).

  Fixpoint member (T : val) (o : obj) {struct T} : bool :=
    match T with
    | VLeaf (LAny _) => true
    | VLeaf (LKnown o') | VLeaf (LKnownTV o') => same_literal o' o
    | VLeaf (LTyped d _) => sub_promo ct (class_of o) d
    | VLeaf (LNewType _ d) => N.eqb (class_of o) d
    | VLeaf LUninit => false
    | VUnion vs =>
        (fix any (l : list val) : bool :=
           match l with [] => false | t :: r => member t o || any r end) vs
    | VNode (TAnnot _) [t] => member t o
    | VNode (TSubclass _) [t] =>
        match o, class_target t with
        | OClass c', Some d => sub_promo ct c' d
        | _, _ => false
        end
    | VNode (TGeneric d) args =>
        issub ct (class_of o) d &&
        match gkind_of d, args with
        | Some GKElems, [X] =>
            match iter_elems o with Some es => forallb (member X) es | None => false end
        | Some GKMapping, [K; V] =>
            match o with
            | ODict _ kvs => forallb (fun kv => member K (fst kv) && member V (snd kv)) kvs
            | _ => false
            end
        | _, _ => false
        end
    | VNode (TSeq d flags) (_ :: ms) =>
        N.eqb d c_tuple &&
        match o with
        | OTuple _ es =>
            (* the members, read as a regular expression over the elements *)
            (fix mseq (fl : list bool) (ms : list val) (es : list obj) {struct ms} : bool :=
               match ms, fl with
               | [], _ => match es with [] => true | _ => false end
               | X :: ms', false :: fl' =>
                   match es with e :: es' => member X e && mseq fl' ms' es' | [] => false end
               | X :: ms', true :: fl' =>
                   (fix star (es : list obj) : bool :=
                      mseq fl' ms' es ||
                      match es with e :: es' => member X e && star es' | [] => false end) es
               | _ :: _, [] => false
               end) flags ms es
        | _ => false
        end
    | VNode (TTypedDict keys he _) (_ :: ts) =>
        match o with
        | ODict _ kvs =>
            forallb (fun kv => is_str (fst kv)) kvs &&
            (fix tdgo (ks : list (N * (bool * bool))) (ts : list val) {struct ts} : bool :=
               match ks, ts with
               | (k, (req, _)) :: ks', t :: ts' =>
                   match dict_get (OStr [k]) kvs with
                   | Some v => member t v
                   | None => negb req
                   end && tdgo ks' ts'
               | [], [ext] =>
                   if he then forallb (fun kv => key_named keys (fst kv) || member ext (snd kv)) kvs else false
               | [], [] => negb he
               | _, _ => false
               end) keys ts
        | _ => false
        end
    | _ => false
    end.
End Member.
