(* Core/Obj.v — concrete Python objects of the harness universe (model, no proofs).

   Numbers: floats and complex components are dyadic "halves" (OFloat 3 = 1.5),
   which is enough for the universe (0.0, 1.0, 1.5, -0.5, ...).  NaN is not in the
   fragment.  Mutable / possibly unhashable containers carry an identity token
   [id] (what CPython's id() distinguishes); it is ignored by [py_eq] and used
   only by the hash model of KnownValue (Core/Val.v). *)
From Coq Require Import ZArith List Bool NArith.
Import ListNotations.

Inductive obj : Type :=
| ONone
| OBool (b : bool)
| OInt (z : Z)
| OFloat (h : Z)                 (* value h/2 *)
| OComplex (re im : Z)           (* halves *)
| OStr (s : list N)
| OBytes (s : list N)
| OIntInst (c : N) (z : Z)       (* instance of an int subclass (IntEnum member, class ISub(int)) *)
| OFloatInst (c : N) (h : Z)     (* instance of a float subclass (class FSub(float), float-Enum member); value h/2 *)
| OInst (c : N) (k : N)          (* instance k of user class c; default (identity) __eq__/__hash__ *)
| OClass (c : N)                 (* a class object *)
| OTuple (id : N) (l : list obj)
| OList (id : N) (l : list obj)
| OSet (id : N) (l : list obj)
| OFrozenset (l : list obj)
| ODict (id : N) (kvs : list (obj * obj)).

(* class codes (the table itself is data: Gen/ClassTable.v) *)
Definition c_object : N := 0.   Definition c_int : N := 1.     Definition c_bool : N := 2.
Definition c_float : N := 3.    Definition c_complex : N := 4. Definition c_str : N := 5.
Definition c_bytes : N := 6.    Definition c_tuple : N := 7.   Definition c_list : N := 8.
Definition c_set : N := 9.      Definition c_frozenset : N := 10. Definition c_dict : N := 11.
Definition c_type : N := 12.    Definition c_NoneType : N := 13.

Definition class_of (o : obj) : N :=
  match o with
  | ONone => c_NoneType | OBool _ => c_bool | OInt _ => c_int | OFloat _ => c_float
  | OComplex _ _ => c_complex | OStr _ => c_str | OBytes _ => c_bytes
  | OIntInst c _ => c | OFloatInst c _ => c | OInst c _ => c | OClass _ => c_type
  | OTuple _ _ => c_tuple | OList _ _ => c_list | OSet _ _ => c_set
  | OFrozenset _ => c_frozenset | ODict _ _ => c_dict
  end.

(* numeric value (re, im) in halves, for Python's cross-type numeric == *)
Definition num (o : obj) : option (Z * Z) :=
  match o with
  | OBool b => Some ((if b then 2 else 0)%Z, 0%Z)
  | OInt z => Some ((2 * z)%Z, 0%Z)
  | OIntInst _ z => Some ((2 * z)%Z, 0%Z)
  | OFloatInst _ h => Some (h, 0%Z)
  | OFloat h => Some (h, 0%Z)
  | OComplex r i => Some (r, i)
  | _ => None
  end.

Definition zz_eqb (p q : Z * Z) : bool := Z.eqb (fst p) (fst q) && Z.eqb (snd p) (snd q).

Fixpoint listN_eqb (a b : list N) : bool :=
  match a, b with
  | [], [] => true
  | x :: a', y :: b' => N.eqb x y && listN_eqb a' b'
  | _, _ => false
  end.

(* Python's == on the universe *)
Fixpoint py_eq (a b : obj) {struct a} : bool :=
  let list_eq := fix list_eq (l1 l2 : list obj) {struct l1} : bool :=
    match l1, l2 with
    | [], [] => true
    | x :: l1', y :: l2' => py_eq x y && list_eq l1' l2'
    | _, _ => false
    end in
  let mem_in := fix mem_in (y : obj) (l1 : list obj) {struct l1} : bool :=   (* y in l1 ? *)
    match l1 with [] => false | x :: l1' => py_eq x y || mem_in y l1' end in
  let incl12 := fix incl12 (l1 l2 : list obj) {struct l1} : bool :=
    match l1 with
    | [] => true
    | x :: l1' =>
        (fix has_el (l2 : list obj) : bool :=
           match l2 with [] => false | y :: l2' => py_eq x y || has_el l2' end) l2
        && incl12 l1' l2
    end in
  let set_eq := fun (l1 l2 : list obj) => incl12 l1 l2 && forallb (fun y => mem_in y l1) l2 in
  let dict_incl := fix dict_incl (l1 l2 : list (obj * obj)) {struct l1} : bool :=
    match l1 with
    | [] => true
    | (k, v) :: l1' =>
        (fix kv_in (l2 : list (obj * obj)) : bool :=
           match l2 with
           | [] => false
           | (k', v') :: l2' => (py_eq k k' && py_eq v v') || kv_in l2'
           end) l2
        && dict_incl l1' l2
    end in
  match num a, num b with
  | Some p, Some q => zz_eqb p q
  | Some _, None | None, Some _ => false
  | None, None =>
    match a, b with
    | ONone, ONone => true
    | OStr s, OStr t => listN_eqb s t
    | OBytes s, OBytes t => listN_eqb s t
    | OInst c k, OInst c' k' => N.eqb c c' && N.eqb k k'
    | OClass c, OClass c' => N.eqb c c'
    | OTuple _ l1, OTuple _ l2 => list_eq l1 l2
    | OList _ l1, OList _ l2 => list_eq l1 l2
    | OSet _ l1, OSet _ l2 | OSet _ l1, OFrozenset l2
    | OFrozenset l1, OSet _ l2 | OFrozenset l1, OFrozenset l2 => set_eq l1 l2
    | ODict _ l1, ODict _ l2 => Nat.eqb (length l1) (length l2) && dict_incl l1 l2
    | _, _ => false
    end
  end.

(* hash(o) does not raise *)
Fixpoint hashable (o : obj) : bool :=
  match o with
  | OTuple _ l => forallb hashable l
  | OList _ _ | OSet _ _ | ODict _ _ => false
  | _ => true
  end.

Definition ident (o : obj) : N :=
  match o with
  | OTuple i _ | OList i _ | OSet i _ | ODict i _ => i
  | _ => 0%N
  end.

(* callable(o): what KnownValue.substitute_typevars tests *)
Definition callable (o : obj) : bool :=
  match o with OClass _ => true | _ => false end.

(* type(a) is type(b) and a == b : KnownValue.__eq__ *)
Definition same_literal (a b : obj) : bool := N.eqb (class_of a) (class_of b) && py_eq a b.

(* KnownValue.__eq__ after repo_fixes/C14-known-value-eq-nested-types.diff: the same type and
   equal, where the elements of tuples and frozensets are compared in the same way recursively
   ((1, True) and (1, 1) are different literals; lists / sets / dicts inside are compared by ==) *)
Fixpoint lit_key_eq (a b : obj) {struct a} : bool :=
  match a, b with
  | OTuple _ l1, OTuple _ l2 =>
      (fix go (l1 l2 : list obj) {struct l1} : bool :=
         match l1, l2 with
         | [], [] => true
         | x :: l1', y :: l2' => lit_key_eq x y && go l1' l2'
         | _, _ => false
         end) l1 l2
  | OFrozenset l1, OFrozenset l2 =>
      (fix incl (l1 : list obj) : bool :=
         match l1 with
         | [] => true
         | x :: l1' => (fix has (l2 : list obj) : bool :=
                          match l2 with [] => false | y :: l2' => lit_key_eq x y || has l2' end) l2 && incl l1'
         end) l1
      && forallb (fun y => (fix has (l1 : list obj) : bool :=
                              match l1 with [] => false | x :: l1' => lit_key_eq x y || has l1' end) l1) l2
  | _, _ => N.eqb (class_of a) (class_of b) && py_eq a b
  end.

(* hash(KnownValue(a)) == hash(KnownValue(b)), ideal hashing (no accidental
   collisions): hash((type, val)) when val is hashable, hash((type, id(val))) otherwise *)
Definition literal_heq (a b : obj) : bool :=
  N.eqb (class_of a) (class_of b) &&
  (if hashable a then hashable b && py_eq a b
   else negb (hashable b) && N.eqb (ident a) (ident b)).
