(* Core/Subst.v — Value.substitute_typevars on the tree model (model only).
   Written for the repaired code: MultiValuedValue.substitute_typevars re-unites
   its members (repo_fixes/C14-subst-union-reunite.diff). *)
From Coq Require Import ZArith List Bool NArith.
Import ListNotations.
Require Import PV.Core.Obj PV.Core.Val.

Definition tvmap := list (N * val).

Fixpoint lookup (tv : N) (m : tvmap) : option val :=
  match m with
  | [] => None
  | (k, v) :: r => if N.eqb k tv then Some v else lookup tv r
  end.

Definition any_inference : N := 5.

(* every other element of [k1; v1; k2; v2; ...] *)
Fixpoint evens (l : list val) : list val :=
  match l with
  | k :: _ :: r => k :: evens r
  | _ => []
  end.
Fixpoint odds (l : list val) : list val :=
  match l with
  | _ :: v :: r => v :: odds r
  | _ => []
  end.

(* the derived `args` that the constructors compute with unite_values *)
Definition seq_arg (n : nat) (members : list val) : val :=
  match members with [] => VAnyUnreachable | _ => unite_f n members end.
Definition dict_args (n : nat) (kvs : list val) : list val :=
  match kvs with
  | [] => [VAnyUnreachable; VAnyUnreachable]
  | _ => [unite_f n (evens kvs); unite_f n (odds kvs)]
  end.

(* SubclassValue.make(origin, exactly=ex) for a non-union origin *)
Definition subclass_make1 (ex : bool) (r : val) : val :=
  match r with
  | VLeaf (LAny _) => VLeaf (LTyped c_type false)
  | VLeaf (LTyped _ _) | VLeaf (LNewType _ _) => VNode (TSubclass ex) [r]
  | VNode (TTypeVar _ _) _ | VNode (TGeneric _) _ | VNode (TSeq _ _) _
  | VNode (TDictInc _ _) _ | VNode (TTypedDict _ _ _) _ | VNode (TCallable _ _) _ =>
      VNode (TSubclass ex) [r]
  | _ => VLeaf (LAny any_inference)
  end.
Definition subclass_make (n : nat) (ex : bool) (r : val) : val :=
  match r with
  | VUnion vs => unite_f n (map (subclass_make1 ex) vs)
  | _ => subclass_make1 ex r
  end.

Definition nonempty {A} (l : list A) : bool := match l with [] => false | _ => true end.

Fixpoint subst_f (n : nat) (m : tvmap) (v : val) {struct v} : val :=
  match v with
  | VLeaf (LKnown o) | VLeaf (LKnownTV o) =>
      if nonempty m && callable o then VLeaf (LKnownTV o) else v
  | VLeaf _ => v
  | VUnion vs =>
      if nonempty vs && nonempty m then unite_f n (map (subst_f n m) vs) else v
  | VNode t kids =>
      match t with
      | TTypeVar tv _ => match lookup tv m with Some r => r | None => v end
      | TGeneric _ | TAnnot _ => VNode t (map (subst_f n m) kids)
      | TCallable _ _ =>
          (* Signature.substitute_typevars returns self when nothing changed up to == *)
          let kids' := map (subst_f n m) kids in
          if forall2b (veq_f n) kids' kids then v else VNode t kids'
      | TSeq _ _ =>
          match kids with
          | _ :: ms => let ms' := map (subst_f n m) ms in VNode t (seq_arg n ms' :: ms')
          | [] => v
          end
      | TDictInc _ _ =>
          match kids with
          | _ :: _ :: kvs => let kvs' := map (subst_f n m) kvs in VNode t (dict_args n kvs' ++ kvs')
          | _ => v
          end
      | TTypedDict _ _ _ =>
          match kids with
          | _ :: es => let es' := map (subst_f n m) es in VNode t (seq_arg n es' :: es')
          | [] => v
          end
      | TSubclass ex =>
          match kids with
          | [t0] => subclass_make n ex (subst_f n m t0)
          | _ => v
          end
      end
  end.

Definition subst (m : tvmap) (v : val) : val := subst_f big m v.

(* the type variable tv occurs in v (bounds and constraints of other type
   variables are not searched: typing forbids type variables there, and
   TypeVarValue.substitute_typevars does not look inside them either) *)
Fixpoint occurs (tv : N) (v : val) {struct v} : bool :=
  match v with
  | VLeaf _ => false
  | VNode (TTypeVar tv' _) _ => N.eqb tv' tv
  | VNode _ kids => existsb (occurs tv) kids
  | VUnion vs => existsb (occurs tv) vs
  end.

(* no type variable at all, and no callable literal (KnownValue of a class gets
   tagged KnownValueWithTypeVars by substitution; still == to the original) *)
Fixpoint closed (v : val) {struct v} : bool :=
  match v with
  | VLeaf (LKnown o) | VLeaf (LKnownTV o) => negb (callable o)
  | VLeaf _ => true
  | VNode (TTypeVar _ _) _ => false
  | VNode _ kids => forallb closed kids
  | VUnion vs => forallb closed vs
  end.

(* well-shaped nodes (what the encoder produces) and no CallableValue (whose substitution
   returns the signature itself when nothing changed up to ==) *)
Fixpoint elim_ok (v : val) : bool :=
  match v with
  | VLeaf _ => true
  | VNode (TCallable _ _) _ => false
  | VNode t k =>
      match t, k with
      | TSeq _ _, [] => false
      | TDictInc _ _, ([] | [_]) => false
      | TTypedDict _ _ _, [] => false
      | TSubclass _, ([] | _ :: _ :: _) => false
      | _, _ => true
      end && forallb elim_ok k
  | VUnion k => forallb elim_ok k
  end.


(* canonical n v: every derived argument is what the constructor computes and
   every union is a fixed point of unite_values (true of values the checker
   builds through the constructors / unite_values) *)
Fixpoint canonical (n : nat) (v : val) {struct v} : Prop :=
  let all := fix all (l : list val) : Prop :=
    match l with [] => True | x :: r => canonical n x /\ all r end in
  match v with
  | VLeaf _ => True
  | VUnion vs => all vs /\ (vs <> [] -> unite_f n vs = VUnion vs)
  | VNode t kids =>
      all kids /\
      match t, kids with
      | TSeq _ _, a :: ms => a = seq_arg n ms
      | TSeq _ _, [] => False
      | TDictInc _ _, a :: b :: kvs => [a; b] = dict_args n kvs
      | TDictInc _ _, _ => False
      | TTypedDict _ _ _, a :: es => a = seq_arg n es
      | TTypedDict _ _ _, [] => False
      | TSubclass ex, [t0] => subclass_make n ex t0 = VNode (TSubclass ex) [t0]
      | TSubclass _, _ => False
      | _, _ => True
      end
  end.
