(* Core/Val.v — pyanalyze Values as a tree, their equality (Value.__eq__), their
   hash-equality (Value.__hash__, ideal hashing), flattening and unite_values.
   Model only, no proofs.

   Representation.  Every constructor of value.py that the properties range over
   is either a leaf, a node with an ordered list of child values, or a union:
     VLeaf (LAny s)            AnyValue(source s)        (s = 4 is AnySource.unreachable)
     VLeaf (LKnown o)          KnownValue(o)
     VLeaf (LKnownTV o)        KnownValueWithTypeVars(o, _)
     VLeaf (LTyped c lit)      TypedValue(c, literal_only=lit)
     VLeaf (LNewType n c)      NewTypeValue(n) over class c
     VLeaf LUninit             UNINITIALIZED_VALUE
     VNode (TGeneric c) args                     GenericValue(c, args)
     VNode (TSeq c flags) (arg :: members)       SequenceValue(c, zip flags members); arg = its derived .args[0]
     VNode (TDictInc c fl) (ka :: va :: k1 :: v1 :: ...)   DictIncompleteValue; fl = (is_many, is_required) per pair
     VNode (TTypedDict keys he ro) (va :: entry types ++ [extra]?)   TypedDictValue, keys in declaration (dict insertion) order
     VNode (TSubclass ex) [t]                    SubclassValue(t, exactly=ex)
     VNode (TAnnot md) [v]                       AnnotatedValue(v, md), metadata as opaque codes
     VNode (TTypeVar tv hb) (bound? ++ constraints)   TypeVarValue
     VNode (TCallable npos kw) (positional-only annotations ++ keyword-only annotations ++ [return])
                                                 CallableValue of a plain Signature; kw = names in declaration order
     VUnion vs                                   MultiValuedValue with .vals = vs
   Derived dataclass fields (the `args` of SequenceValue / DictIncompleteValue /
   TypedDictValue, which the constructors compute with unite_values) are explicit
   children, because the generated __eq__/__hash__ look at them. *)
From Coq Require Import ZArith List Bool NArith.
Import ListNotations.
Require Import PV.Core.Obj.

Inductive leaf : Type :=
| LAny (src : N)
| LKnown (o : obj)
| LKnownTV (o : obj)
| LTyped (c : N) (lit_only : bool)
| LNewType (n : N) (c : N)
| LUninit.

Inductive tag : Type :=
| TGeneric (c : N)
| TSeq (c : N) (flags : list bool)
| TDictInc (c : N) (flags : list (bool * bool))
| TTypedDict (keys : list (N * (bool * bool))) (has_extra extra_ro : bool)
| TSubclass (exactly : bool)
| TAnnot (md : list N)
| TTypeVar (tv : N) (has_bound : bool)
| TCallable (npos : nat) (kw : list N).

Inductive val : Type :=
| VLeaf (l : leaf)
| VNode (t : tag) (kids : list val)
| VUnion (vs : list val).

Definition any_unreachable : N := 4.
Definition VNever : val := VUnion [].
Definition VAnyUnreachable : val := VLeaf (LAny any_unreachable).

(* ---- equality / hash-equality of the non-recursive parts ---- *)

Fixpoint listb_eqb (a b : list bool) : bool :=
  match a, b with
  | [], [] => true
  | x :: a', y :: b' => Bool.eqb x y && listb_eqb a' b'
  | _, _ => false
  end.

Fixpoint listbb_eqb (a b : list (bool * bool)) : bool :=
  match a, b with
  | [], [] => true
  | (x1, x2) :: a', (y1, y2) :: b' => Bool.eqb x1 y1 && Bool.eqb x2 y2 && listbb_eqb a' b'
  | _, _ => false
  end.

Fixpoint keys_eqb (a b : list (N * (bool * bool))) : bool :=
  match a, b with
  | [], [] => true
  | (k, (r, o)) :: a', (k', (r', o')) :: b' =>
      N.eqb k k' && Bool.eqb r r' && Bool.eqb o o' && keys_eqb a' b'
  | _, _ => false
  end.

Definition tag_eqb (s t : tag) : bool :=
  match s, t with
  | TGeneric c, TGeneric c' => N.eqb c c'
  | TSeq c f, TSeq c' f' => N.eqb c c' && listb_eqb f f'
  | TDictInc c f, TDictInc c' f' => N.eqb c c' && listbb_eqb f f'
  | TTypedDict k he ro, TTypedDict k' he' ro' => keys_eqb k k' && Bool.eqb he he' && Bool.eqb ro ro'
  | TSubclass e, TSubclass e' => Bool.eqb e e'
  | TAnnot m, TAnnot m' => listN_eqb m m'
  | TTypeVar v hb, TTypeVar v' hb' => N.eqb v v' && Bool.eqb hb hb'
  | TCallable p k, TCallable p' k' => Nat.eqb p p' && listN_eqb k k'
  | _, _ => false
  end.

(* TypedDictValue.__hash__ is hash(tuple(sorted(self.items))): the key names only, in
   sorted order — i.e. the *set* of names (names of one TypedDict are distinct) *)
Definition same_names (a b : list N) : bool :=
  Nat.eqb (length a) (length b) && forallb (fun x => existsb (N.eqb x) b) a.

Definition tag_heqb (s t : tag) : bool :=
  match s, t with
  | TTypedDict k _ _, TTypedDict k' _ _ => same_names (map fst k) (map fst k')
  | _, _ => tag_eqb s t
  end.

Definition is_typeddict (t : tag) : bool :=
  match t with TTypedDict _ _ _ => true | _ => false end.

(* KnownValue.__eq__ = lit_key_eq (inherited by KnownValueWithTypeVars: the repaired class is
   declared eq=False) *)
Definition leaf_eqb (a b : leaf) : bool :=
  match a, b with
  | LAny s, LAny s' => N.eqb s s'
  | (LKnown o | LKnownTV o), (LKnown o' | LKnownTV o') => lit_key_eq o o'
  | LTyped c l, LTyped c' l' => N.eqb c c' && Bool.eqb l l'
  | LNewType n c, LNewType n' c' => N.eqb n n' && N.eqb c c'
  | LUninit, LUninit => true
  | _, _ => false
  end.

(* One systematic collision of the generated hashes is modelled: TypedValue(c)
   hashes (c, False) and KnownValue(o) hashes (type(o), o), so they collide when
   type(o) is c and o == 0 (hash(False) = hash(0)). *)
Definition typed_known_collide (c : N) (lit : bool) (o : obj) : bool :=
  negb lit && N.eqb (class_of o) c && hashable o &&
  match num o with Some (0%Z, 0%Z) => true | _ => false end.

Definition leaf_heqb (a b : leaf) : bool :=
  match a, b with
  | (LKnown o | LKnownTV o), (LKnown o' | LKnownTV o') => literal_heq o o'
  | LTyped c l, (LKnown o | LKnownTV o) => typed_known_collide c l o
  | (LKnown o | LKnownTV o), LTyped c l => typed_known_collide c l o
  | _, _ => leaf_eqb a b
  end.

(* ---- hash equality: structural, order-sensitive on unions (the generated
   dataclass hash of MultiValuedValue hashes the tuple .vals) ---- *)
Fixpoint heq (a b : val) {struct a} : bool :=
  let lheq := fix lheq (l1 l2 : list val) {struct l1} : bool :=
    match l1, l2 with
    | [], [] => true
    | x :: l1', y :: l2' => heq x y && lheq l1' l2'
    | _, _ => false
    end in
  match a, b with
  | VLeaf x, VLeaf y => leaf_heqb x y
  | VNode s k1, VNode t k2 => tag_heqb s t && (is_typeddict s || lheq k1 k2)
  | VUnion l1, VUnion l2 => lheq l1 l2
  | _, _ => false
  end.

(* ---- the containers Python builds from values: dict keys / set elements are
   identified when hashes agree and == holds ---- *)
Section Dedup.
  Context {T : Type} (E : T -> T -> bool).
  (* `x in d` for a dict/set whose keys, in insertion order, are acc:
     CPython compares the stored key with the probe: stored == probe *)
  Definition mem_keys (acc : list T) (x : T) : bool := existsb (fun k => E k x) acc.
  Fixpoint dedup_acc (acc l : list T) : list T :=
    match l with
    | [] => acc
    | x :: r => dedup_acc (if mem_keys acc x then acc else acc ++ [x]) r
    end.
  Definition dedup (l : list T) : list T := dedup_acc [] l.
  (* set(l1) == set(l2) *)
  Definition set_eq (l1 l2 : list T) : bool :=
    let d1 := dedup l1 in
    let d2 := dedup l2 in
    Nat.eqb (length d1) (length d2) && forallb (fun x => mem_keys d2 x) d1.
End Dedup.

(* ---- Value.__eq__ ; fuel = nesting depth still allowed (0 = out of fuel = false) ---- *)
Section Forall2b.
  Context {A : Type} (f : A -> A -> bool).
  Fixpoint forall2b (l1 l2 : list A) : bool :=
    match l1, l2 with
    | [], [] => true
    | x :: l1', y :: l2' => f x y && forall2b l1' l2'
    | _, _ => false
    end.
End Forall2b.

(* generated dataclass __eq__ of a node.  Two fields are dicts and compare without
   regard to insertion order: TypedDictValue.items and Signature.parameters (only the
   keyword-only parameters can be permuted in a valid signature). *)
Section NodeEq.
  Context (f : val -> val -> bool).

  (* every (key, data, value) of the first keyed list has a counterpart in the second *)
  Definition keyed_incl {K : Type} (keq : K -> K -> bool) (l1 l2 : list (K * val)) : bool :=
    forallb (fun p => existsb (fun q => keq (fst p) (fst q) && f (snd p) (snd q)) l2) l1.

  Definition tdkey_eqb (a b : N * (bool * bool)) : bool :=
    N.eqb (fst a) (fst b) && Bool.eqb (fst (snd a)) (fst (snd b)) && Bool.eqb (snd (snd a)) (snd (snd b)).

  Definition node_veq (s : tag) (k1 : list val) (t : tag) (k2 : list val) : bool :=
    match s, t with
    | TTypedDict ks1 he1 ro1, TTypedDict ks2 he2 ro2 =>
        Bool.eqb he1 he2 && Bool.eqb ro1 ro2 && Nat.eqb (length ks1) (length ks2) &&
        match k1, k2 with
        | va1 :: ts1, va2 :: ts2 =>
            f va1 va2 &&
            keyed_incl tdkey_eqb (combine ks1 ts1) (combine ks2 ts2) &&
            forall2b f (skipn (length ks1) ts1) (skipn (length ks2) ts2)
        | _, _ => false
        end
    | TCallable p1 kw1, TCallable p2 kw2 =>
        Nat.eqb p1 p2 && Nat.eqb (length kw1) (length kw2) && Nat.eqb (length k1) (length k2) &&
        forall2b f (firstn p1 k1) (firstn p2 k2) &&
        keyed_incl N.eqb (combine kw1 (skipn p1 k1)) (combine kw2 (skipn p2 k2)) &&
        forall2b f (skipn (p1 + length kw1) k1) (skipn (p2 + length kw2) k2)
    | _, _ => tag_eqb s t && forall2b f k1 k2
    end.
End NodeEq.

Fixpoint veq_f (n : nat) (a b : val) {struct n} : bool :=
  match n with
  | O => false
  | S n' =>
    match a, b with
    | VLeaf x, VLeaf y => leaf_eqb x y
    | VNode s k1, VNode t k2 => node_veq (veq_f n') s k1 t k2
    | VUnion l1, VUnion l2 =>
        forall2b (veq_f n') l1 l2 || set_eq (fun x y => heq x y && veq_f n' x y) l1 l2
    | _, _ => false
    end
  end.

(* the identification used by dicts and sets of Values *)
Definition E_f (n : nat) (a b : val) : bool := heq a b && veq_f n a b.

Fixpoint depth (v : val) : nat :=
  match v with
  | VLeaf _ => 1
  | VNode _ k => S (fold_right (fun x m => Nat.max (depth x) m) 0 k)
  | VUnion k => S (fold_right (fun x m => Nat.max (depth x) m) 0 k)
  end.

(* ---- flattening ---- *)
Fixpoint dedupN_acc (acc l : list N) : list N :=
  match l with
  | [] => acc
  | x :: r => dedupN_acc (if existsb (N.eqb x) acc then acc else acc ++ [x]) r
  end.

(* annotate_value(origin, metadata) *)
Definition annotate (md : list N) (v : val) : val :=
  match md with
  | [] => v
  | _ =>
    match v with
    | VNode (TAnnot md0) [y] => VNode (TAnnot (dedupN_acc [] (md0 ++ md))) [y]
    | _ => VNode (TAnnot (dedupN_acc [] md)) [v]
    end
  end.

Definition is_union (v : val) : bool :=
  match v with
  | VUnion _ => true
  | VNode (TAnnot _) [VUnion _] => true
  | _ => false
  end.

(* flatten_values(val) *)
Definition flatten (v : val) : list val :=
  match v with
  | VUnion vs => vs
  | VNode (TAnnot md) [VUnion vs] => map (annotate md) vs
  | _ => [v]
  end.

(* the MultiValuedValue constructor *)
Definition mk_union (l : list val) : val := VUnion (flat_map flatten l).

Fixpoint is_unreachable (v : val) : bool :=
  match v with
  | VLeaf (LAny s) => N.eqb s any_unreachable
  | VNode (TAnnot _) [y] => is_unreachable y
  | _ => false
  end.

(* unite_values applied to the list l, parametrised by the key identification E *)
Definition unite_with (E : val -> val -> bool) (l : list val) : val :=
  let existing := dedup E (flat_map flatten l) in
  let reach := filter (fun v => negb (is_unreachable v)) existing in
  match reach with
  | [] => if existsb is_unreachable existing then VAnyUnreachable else VNever
  | [x] => x
  | _ => mk_union reach
  end.

Definition unite_f (n : nat) (l : list val) : val := unite_with (E_f n) l.

(* default fuel for evaluation: more than any term of the harness *)
Definition big : nat := 40.
Definition veq (a b : val) : bool := veq_f big a b.
Definition unite (l : list val) : val := unite_f big l.

(* ---- shape predicates used by the theorems' guards ---- *)
(* the members of a union are not themselves unions (true of every value built
   through the MultiValuedValue constructor) *)
Definition flat (v : val) : bool := forallb (fun m => negb (is_union m)) (flatten v).

(* decidable "E is an equivalence on the list S" *)
Definition equiv_onb (E : val -> val -> bool) (S : list val) : bool :=
  forallb (fun x => E x x) S &&
  forallb (fun x => forallb (fun y => implb (E x y) (E y x)) S) S &&
  forallb (fun x => forallb (fun y => forallb (fun z => implb (E x y && E y z) (E x z)) S) S) S.

(* ---- classification of the operands (guard clauses of the known findings) ---- *)
Fixpoint subterms (v : val) : list val :=
  v :: match v with
       | VLeaf _ => []
       | VNode _ k => flat_map subterms k
       | VUnion k => flat_map subterms k
       end.

(* "values that compare equal hash equal", checked on a finite list *)
Definition hash_consistent (n : nat) (S : list val) : bool :=
  forallb (fun x => forallb (fun y => implb (veq_f n x y) (heq x y)) S) S.

Fixpoint has_unhashable_literal (v : val) : bool :=
  match v with
  | VLeaf (LKnown o) | VLeaf (LKnownTV o) => negb (hashable o)
  | VLeaf _ => false
  | VNode _ k => existsb has_unhashable_literal k
  | VUnion k => existsb has_unhashable_literal k
  end.

Fixpoint has_annotated_unreachable (v : val) : bool :=
  match v with
  | VLeaf _ => false
  | VNode (TAnnot md) [y] => is_unreachable y || has_annotated_unreachable y
  | VNode _ k => existsb has_annotated_unreachable k
  | VUnion k => existsb has_annotated_unreachable k
  end.

(* an AnnotatedValue directly around an AnnotatedValue or around a union (incl. Never):
   only the constructor builds these; annotate_value / unite_values flatten or distribute them *)
Fixpoint has_nested_annot (v : val) : bool :=
  match v with
  | VLeaf _ => false
  | VNode (TAnnot _) [VNode (TAnnot _) _] => true
  | VNode (TAnnot _) [VUnion _] => true      (* Annotated[union]: unite_values distributes the metadata *)
  | VNode _ k => existsb has_nested_annot k
  | VUnion k => existsb has_nested_annot k
  end.

(* ---- root causes of a hash inconsistency (== but different hash) ----
   A bad pair is a *root* when none of its pairs of direct children is itself bad:
   the inconsistency originates at this node.  Roots are classified by shape; a root
   of any other shape is unexplained. *)
Definition kids_of (v : val) : list val :=
  match v with VLeaf _ => [] | VNode _ k => k | VUnion k => k end.

Definition bad_pair (n : nat) (x y : val) : bool := veq_f n x y && negb (heq x y).

Definition root_bad (n : nat) (x y : val) : bool :=
  bad_pair n x y &&
  forallb (fun cx => forallb (fun cy => negb (bad_pair n cx cy)) (kids_of y)) (kids_of x).

Inductive cause := CLiteral | CUnionOrder | CKwOnlyOrder | COther.

Definition classify_root (x y : val) : cause :=
  match x, y with
  | VLeaf (LKnown _ | LKnownTV _), VLeaf (LKnown _ | LKnownTV _) => CLiteral
  | VUnion _, VUnion _ => CUnionOrder
  | VNode (TCallable _ kw) _, VNode (TCallable _ kw') _ => if listN_eqb kw kw' then COther else CKwOnlyOrder
  | _, _ => COther
  end.

(* numbers of root bad pairs per cause, over a list of subterms *)
Definition root_causes (n : nat) (S : list val) : nat * nat * nat * nat :=
  fold_left (fun acc x =>
    fold_left (fun acc y =>
      if root_bad n x y then
        match acc, classify_root x y with
        | (a, b, c, d), CLiteral => (Datatypes.S a, b, c, d)
        | (a, b, c, d), CUnionOrder => (a, Datatypes.S b, c, d)
        | (a, b, c, d), CKwOnlyOrder => (a, b, Datatypes.S c, d)
        | (a, b, c, d), COther => (a, b, c, Datatypes.S d)
        end
      else acc) S acc) S (0, 0, 0, 0).
