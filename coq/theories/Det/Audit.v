(* Det/Audit.v — classification of the set-consumption sites of the seven files
   anchored by C10 (model side; the inventory itself is Gen/Sites.v, regenerated
   from the source on every run by harness/translate/sites.py).

   A site is (file, enclosing qualified name, context kind, source text of the
   set-kind expression, ordinal among identical keys).  Every site is either
   of a context kind that cannot expose an order (`generic`), or listed in the
   hand-audited table `audit` with the consumer it feeds.  No proofs here. *)
From Coq Require Import String List Bool.
Require Import PV.Det.SetConsumers.
Import ListNotations.
Open Scope string_scope.

Record site := Site { s_file : string; s_func : string; s_ctx : string; s_expr : string; s_ord : nat }.

Definition site_eqb (a b : site) : bool :=
  String.eqb (s_file a) (s_file b) && String.eqb (s_func a) (s_func b) && String.eqb (s_ctx a) (s_ctx b)
  && String.eqb (s_expr a) (s_expr b) && Nat.eqb (s_ord a) (s_ord b).

Inductive verdict :=
| VPassive                      (* bound, returned, combined by a set operation: no consumption *)
| VKind (k : kind)              (* consumed by a consumer of this kind (Det/SetConsumers.v) *)
| VFoldComm                     (* loop whose body commutes between iterations (fold_left_comm_perm) *)
| VClosure                      (* worklist `while pending: x = pending.pop()` computing a reachable set *)
| VKeyedOnly                    (* the order reaches only the key order of a dict that is used by key *)
| VStored                       (* kept as a set inside another value; its consumers are sites of their own *)
| VEscape (callee : string) (k : kind)   (* passed to `callee`, which consumes it as kind k *)
| VEscapeClosure (callee : string)
| VSingleton (why : string)      (* an order-exposing consumer of a set that has at most one element here (Proofs/DetSites.v) *)
| VFirstSuccess (why : string)   (* a loop that keeps the first success: insensitive iff the successes agree (first_success_perm) *)
| VSensitiveUnwitnessed (why : string)   (* order can reach text; no input showing it was found *)
| VSensitiveNotDiagnostic (why : string). (* order reaches output that is not a diagnostic *)

(* context kinds that cannot expose an iteration order, with the consumer kind *)
Definition generic (ctx : string) : option verdict :=
  if String.eqb ctx "flow" then Some VPassive
  else if String.eqb ctx "setop" then Some VPassive
  else if String.eqb ctx "in" then Some (VKind KMember)
  else if String.eqb ctx "cmp" then Some (VKind KMember)          (* ==, <= on sets: membership only *)
  else if String.eqb ctx "truth" then Some (VKind KTruth)
  else if String.eqb ctx "call:len" then Some (VKind KLen)
  else if String.eqb ctx "call:set" then Some (VKind KToSet)
  else if String.eqb ctx "call:frozenset" then Some (VKind KToSet)
  else if String.eqb ctx "call:update" then Some (VKind KUnion)   (* s.update(<set>) *)
  else if String.eqb ctx "call:sorted" then Some (VKind KSorted)  (* without key= *)
  else if String.eqb ctx "call:iter/next@len1" then Some (VKind KOnly)
  else if String.eqb ctx "method:add" then Some (VKind KUnion)
  else if String.eqb ctx "method:update" then Some (VKind KUnion)
  else if String.eqb ctx "method:discard" then Some (VKind KDiff)
  else if String.eqb ctx "method:remove" then Some (VKind KDiff)
  else if String.eqb ctx "method:copy" then Some VPassive
  else if String.eqb ctx "method:union" then Some (VKind KUnion)
  else if String.eqb ctx "method:difference" then Some (VKind KDiff)
  else if String.eqb ctx "method:issubset" then Some (VKind KAll)
  else if String.eqb ctx "method:issuperset" then Some (VKind KAll)
  else if String.eqb ctx "method:isdisjoint" then Some (VKind KAll)
  else if String.eqb ctx "comp:SetComp" then Some (VKind KToSet)
  else if String.eqb ctx "comp:GeneratorExp/any" then Some (VKind KAny)
  else if String.eqb ctx "comp:GeneratorExp/all" then Some (VKind KAll)
  else if String.eqb ctx "comp:GeneratorExp/set" then Some (VKind KToSet)
  else if String.eqb ctx "comp:GeneratorExp/frozenset" then Some (VKind KToSet)
  else if String.eqb ctx "comp:GeneratorExp/sorted" then Some (VKind KSorted)
  else if String.eqb ctx "comp:GeneratorExp/from_iterable>set" then Some (VKind KToSet)
  else if String.eqb ctx "elt:GeneratorExp/from_iterable>set" then Some (VKind KToSet)
  else None.


(* ------------------------------------------------------------------ *)
(* The hand-audited sites (everything whose context kind alone does not
   settle the question).  Written for the tree with the C10 repairs applied
   (repo_fixes/C10-*.diff): the sites those repairs removed --
   `list(set(constraints))`, `", ".join(map(repr, extra_kwargs))`,
   `list(nodes - old)`, `for member in self.protocol_members`,
   `frozenset(current definition nodes)`, `for unused in all_unused_nodes`,
   `tuple(bound_lists)`, `{.. for key in all_keys}`, `{.. for varname in all_variables}`,
   `for composite in self.name_to_composites[..]` -- are NOT listed, so they
   fail the obligation if they come back. *)
Definition audit : list (site * verdict) := [
  (* KnownValue equality key (fix f24fbae): a frozenset built from a frozenset, kept inside the
     (type, value) tuple and consumed only by ==, which is order-insensitive for frozensets *)
  (Site "value.py" "_literal_key" "stored:Tuple" "frozenset((_literal_key(elt) for elt in val))" 0, VStored);
  (* returned / kept inside a tuple; consumers are sites of their own *)
  (Site "value.py" "MultiValuedValue._get_known_subvals" "stored:Tuple" "known_values" 0, VStored);
  (* becomes VarnameWithOrigin.origin *)
  (Site "stacked_scopes.py" "VarnameWithOrigin.extend_with" "call:VarnameWithOrigin" "self.origin" 0, VStored);
  (* becomes VarnameWithOrigin.origin *)
  (Site "stacked_scopes.py" "Composite.get_extended_varname_with_origin" "call:extend_with" "origin" 0, VStored);
  (* returned / kept inside a tuple; consumers are sites of their own *)
  (Site "stacked_scopes.py" "FunctionScope.get_local" "stored:Tuple" "self._resolve_origin(definers)" 0, VStored);
  (* returned / kept inside a tuple; consumers are sites of their own *)
  (Site "stacked_scopes.py" "VarnameWithOrigin.get_all_varnames" "stored:Tuple" "self.origin" 0, VStored);
  (* seeds the worklist *)
  (Site "stacked_scopes.py" "FunctionScope._add_single_constraint" "call:_resolve_origin" "current_origin" 0, VEscapeClosure "FunctionScope._resolve_origin");
  (* returned / kept inside a tuple; consumers are sites of their own *)
  (Site "stacked_scopes.py" "VarnameWithOrigin.extend_with" "stored:Tuple" "origin" 0, VStored);
  (* worklist *)
  (Site "stacked_scopes.py" "FunctionScope._resolve_origin" "method:pop" "pending" 0, VClosure);
  (* KIND_TO_ALLOWED_PREVIOUS entry; consumed by a set difference *)
  (Site "signature.py" "<module>" "stored:Dict" "{ParameterKind.POSITIONAL_ONLY}" 0, VStored);
  (* KIND_TO_ALLOWED_PREVIOUS entry; consumed by a set difference *)
  (Site "signature.py" "<module>" "stored:Dict" "{ParameterKind.POSITIONAL_ONLY, ParameterKind.POSITIONAL_OR_KEYWORD}" 0, VStored);
  (* KIND_TO_ALLOWED_PREVIOUS entry; consumed by a set difference *)
  (Site "signature.py" "<module>" "stored:Dict" "{ParameterKind.POSITIONAL_OR_KEYWORD, ParameterKind.POSITIONAL_ONLY}" 0, VStored);
  (* KIND_TO_ALLOWED_PREVIOUS entry; consumed by a set difference *)
  (Site "signature.py" "<module>" "stored:Dict" "{ParameterKind.POSITIONAL_ONLY, ParameterKind.POSITIONAL_OR_KEYWORD, ParameterKind.VAR_POSITIONAL, ParameterKind.KEYWORD_ONLY}" 0, VStored);
  (* KIND_TO_ALLOWED_PREVIOUS entry; consumed by a set difference *)
  (Site "signature.py" "<module>" "stored:Dict" "{ParameterKind.POSITIONAL_ONLY, ParameterKind.POSITIONAL_OR_KEYWORD, ParameterKind.VAR_POSITIONAL, ParameterKind.KEYWORD_ONLY}" 1, VStored);
  (* KIND_TO_ALLOWED_PREVIOUS entry; consumed by a set difference *)
  (Site "signature.py" "<module>" "stored:Dict" "{ParameterKind.POSITIONAL_ONLY, ParameterKind.POSITIONAL_OR_KEYWORD}" 1, VStored);
  (* KIND_TO_ALLOWED_PREVIOUS entry; consumed by a set difference *)
  (Site "signature.py" "<module>" "stored:Dict" "{ParameterKind.POSITIONAL_ONLY}" 1, VStored);
  (* Container field, `in` only *)
  (Site "signature.py" "preprocess_args" "kwarg:pos_or_keyword_params" "pok_indices" 0, VEscape "Signature.bind_arguments" KMember);
  (* typevar map passed to substitute_typevars (lookup by key) *)
  (Site "signature.py" "Signature.get_default_return" "comp:DictComp" "self.all_typevars" 0, VKeyedOnly);
  (* typevar.resolve_bounds_map builds {tv: Any} and overwrites by key *)
  (Site "signature.py" "Signature.check_call_with_bound_args" "kwarg:all_typevars" "self.all_typevars" 0, VKeyedOnly);
  (Site "signature.py" "Signature.validate" "comp:GeneratorExp/join" "disallowed_previous" 0, VSingleton "the only place that shows the InvalidSignature text builds signatures from POSITIONAL_ONLY and VAR_POSITIONAL parameters (annotations._make_callable_from_value); for these the set of disallowed previous kinds has at most one element (validate_join_is_singleton)");
  (* loop returns on the first hit, result is a boolean / constant *)
  (Site "type_object.py" "TypeObject.is_assignable_to_type" "for" "self.base_classes" 0, VKind KAny);
  (* loop returns on the first hit, result is a boolean / constant *)
  (Site "type_object.py" "TypeObject.has_attribute" "for" "self.base_classes" 0, VKind KAny);
  (* `self.typ in types` *)
  (Site "type_object.py" "TypeObject.can_be_unbound_method" "call:is_exactly" "{cast(type, Callable), collections.abc.Callable, object}" 0, VEscape "TypeObject.is_exactly" KMember);
  (* membership *)
  (Site "type_object.py" "TypeObject.__post_init__" "call:safe_in" "self.base_classes" 0, VEscape "safe_in" KMember);
  (* membership *)
  (Site "type_object.py" "TypeObject.__post_init__" "call:safe_in" "self.base_classes" 1, VEscape "safe_in" KMember);
  (* loop returns on the first hit, result is a boolean / constant *)
  (Site "type_object.py" "TypeObject.can_assign" "for" "other.base_classes" 0, VKind KAny);
  (* membership *)
  (Site "type_object.py" "TypeObject.can_assign" "call:safe_in" "other.base_classes" 0, VEscape "safe_in" KMember);
  (Site "type_object.py" "TypeObject.can_assign" "for" "other.artificial_bases" 0, VFirstSuccess "float has one artificial base (complex), a thrift enum one (int); int has {float, complex}: the first that matches the protocol supplies the bounds map. Insensitive iff at most one matches or both give the same bounds map; every attribute float and complex share also exists on int, so no input where both match with different maps was found");
  (* becomes TypeObject.base_classes *)
  (Site "checker.py" "Checker._build_type_object" "call:TypeObject" "bases" 0, VStored);
  (* iterated inside set(chain.from_iterable(..)) *)
  (Site "checker.py" "Checker._build_type_object" "call:_get_protocol_members" "bases" 0, VEscape "Checker._get_protocol_members" KToSet);
  (* becomes TypeObject.protocol_members *)
  (Site "checker.py" "Checker._build_type_object" "kwarg:protocol_members" "protocol_members" 0, VStored);
  (* becomes TypeObject.base_classes *)
  (Site "checker.py" "Checker._build_type_object" "call:TypeObject" "self.get_additional_bases(typ)" 0, VStored);
  (* becomes TypeObject.base_classes *)
  (Site "checker.py" "Checker._build_type_object" "call:TypeObject" "additional_bases" 0, VStored);
  (* worklist *)
  (Site "checker.py" "Checker._get_recursive_typeshed_bases" "method:pop" "to_do" 0, VClosure);
  (* becomes TypeObject.base_classes *)
  (Site "checker.py" "Checker._build_type_object" "call:TypeObject" "additional_bases" 1, VStored);
  (* becomes TypeObject.base_classes *)
  (Site "checker.py" "Checker._build_type_object" "call:TypeObject" "additional_bases" 2, VStored);
  (* becomes TypeObject.protocol_members *)
  (Site "checker.py" "Checker._build_type_object" "kwarg:protocol_members" "self._get_protocol_members(typeshed_bases)" 0, VStored);
  (* becomes TypeObject.protocol_members *)
  (Site "checker.py" "Checker._build_type_object" "kwarg:protocol_members" "members" 0, VStored);
  (* iterated inside set(chain.from_iterable(..)) *)
  (Site "checker.py" "Checker._build_type_object" "call:_get_protocol_members" "typeshed_bases" 0, VEscape "Checker._get_protocol_members" KToSet);
  (Site "name_check_visitor.py" "ClassAttributeChecker.check_unused_attributes" "for" "existing_attrs - attrs_read - ignored" 0, VSensitiveNotDiagnostic "prints Unused-method lines of --find-unused-attributes in set order: WITNESSED (the order of the lines for one class changes with PYTHONHASHSEED), but it is stdout of an experimental mode, not a diagnostic");
  (* returned / kept inside a tuple; consumers are sites of their own *)
  (Site "name_check_visitor.py" "NameCheckVisitor._set_name_in_scope" "stored:Tuple" "origin" 0, VStored);
  (* becomes VarnameWithOrigin.origin *)
  (Site "name_check_visitor.py" "NameCheckVisitor._extend_composite" "call:get_extended_varname_with_origin" "origin" 0, VStored);
  (* `all_attrs_read[..] |= attr_names_read` *)
  (Site "name_check_visitor.py" "ClassAttributeChecker.check_unused_attributes" "call:_add_attrs" "attr_names_read" 0, VEscape "check_unused_attributes._add_attrs" KUnion);
  (* `code not in disabled` *)
  (Site "name_check_visitor.py" "NameCheckVisitor.visit_Assert" "kwarg:disabled" "{ErrorCode.value_always_true}" 0, VEscape "NameCheckVisitor._check_boolability" KMember);
  (* `code not in disabled` *)
  (Site "name_check_visitor.py" "NameCheckVisitor.constraint_from_condition" "kwarg:disabled" "disabled" 0, VEscape "NameCheckVisitor._check_boolability" KMember);
  (* returned / kept inside a tuple; consumers are sites of their own *)
  (Site "name_check_visitor.py" "IgnoredUnusedClassAttributes.parse" "stored:Tuple" "set(attrs)" 0, VStored);
  (* `self.typ in types` *)
  (Site "name_check_visitor.py" "NameCheckVisitor._unwrap_yield_result" "call:is_exactly" "{list, tuple}" 0, VEscape "TypeObject.is_exactly" KMember);
  (* `self.typ in types` *)
  (Site "name_check_visitor.py" "NameCheckVisitor._unwrap_yield_result" "call:is_exactly" "{dict}" 0, VEscape "TypeObject.is_exactly" KMember);
  (* Container parameter, `in` only *)
  (Site "name_check_visitor.py" "NameCheckVisitor._check_function_unused_vars" "call:_all_names_unused" "all_unused_nodes" 0, VEscape "_all_names_unused" KMember);
  (* Container parameter, `in` only *)
  (Site "name_check_visitor.py" "NameCheckVisitor._check_function_unused_vars" "call:_all_names_unused" "all_unused_nodes" 1, VEscape "_all_names_unused" KMember)
]%list.

(* ------------------------------------------------------------------ *)
(* phase 2: the sites outside the seven anchored files (every other non-test module).
   format_strings.py (`", ".join(keys_left)`) and typeshed.py (TypedDict fields iterated in
   set order) were found here; after their repairs (repo_fixes/C10-format-missing-keys-order,
   C10-typeshed-typeddict-order) those sites are gone or generic and are NOT listed. *)
Definition audit_extra : list (site * verdict) := [
  (* min(boolabilities, key=lambda b: b.value): enum values are distinct *)
  (Site "boolability.py" "get_boolability" "call:min" "boolabilities" 0, VKind KMin);
  (* qcore.override(self, "_recursive_stack", set()): becomes an attribute used by `in` / add *)
  (Site "find_unused.py" "UnusedObjectFinder._has_import_star_usage" "call:override" "set()" 0, VStored);
  (* _UsageKind.aggregate(...) keeps the strongest usage kind: commutative *)
  (Site "find_unused.py" "UnusedObjectFinder._has_import_star_usage_inner" "comp:GeneratorExp/aggregate" "import_stars" 0, VFoldComm);
  (* one option instance per disabled error code; every lookup is per option class *)
  (Site "options.py" "_parse_config_section" "for" "error_codes_to_disable" 0, VKeyedOnly);
  (Site "options.py" "parse_config_file" "kwarg:seen_paths" "{path, *seen_paths}" 0, VEscape "parse_config_file" KMember);
  (* patma: sets of KVPairs returned in a tuple and merged with |= ; consumed by `in` *)
  (Site "patma.py" "get_value_from_kv_pairs" "stored:Tuple" "new_optional_pairs" 0, VStored);
  (Site "patma.py" "get_value_from_kv_pairs" "stored:Tuple" "set()" 0, VStored);
  (Site "patma.py" "get_value_from_kv_pairs" "stored:Tuple" "set()" 1, VStored);
  (Site "patma.py" "get_value_from_kv_pairs" "stored:Tuple" "set()" 2, VStored);
  (Site "patma.py" "PatmaVisitor.visit_MatchMapping" "call:get_value_from_kv_pairs" "optional_pairs" 0, VEscape "get_value_from_kv_pairs" KMember);
  (Site "patma.py" "PatmaVisitor.visit_MatchMapping" "call:get_value_from_kv_pairs" "removed_pairs" 0, VEscape "get_value_from_kv_pairs" KMember);
  (Site "patma.py" "get_value_from_kv_pairs" "stored:Tuple" "new_optional_pairs" 1, VStored);
  (Site "patma.py" "get_value_from_kv_pairs" "stored:Tuple" "new_removed_pairs" 0, VStored);
  (* rest_sets = [set(mro) ...]: a list of sets used by `in` *)
  (Site "suggested_type.py" "get_shared_type" "elt:ListComp" "set(mro)" 0, VStored);
  (* {key: unite_values(...) for key in keys}: a VarMap, used by key *)
  (Site "type_evaluation.py" "unite_varmaps" "comp:DictComp" "keys" 0, VKeyedOnly);
  (* set.intersection( *[set(m) for m in varmaps] ): a set again *)
  (Site "type_evaluation.py" "unite_varmaps" "elt:ListComp/star>intersection" "set(m)" 0, VKind KToSet)
]%list.

Fixpoint lookup (s : site) (t : list (site * verdict)) : option verdict :=
  match t with
  | [] => None
  | (s', v) :: r => if site_eqb s s' then Some v else lookup s r
  end%list.

Definition verdict_of (s : site) : option verdict :=
  match generic (s_ctx s) with
  | Some v => Some v
  | None => match lookup s audit with Some v => Some v | None => lookup s audit_extra end
  end.

(* a verdict is acceptable unless it names an order-exposing consumer *)
Definition acceptable (v : verdict) : bool :=
  match v with
  | VKind k => insensitive k
  | VEscape _ k => insensitive k
  | _ => true
  end.

Definition classified (s : site) : bool :=
  match verdict_of s with
  | Some v => acceptable v
  | None => false
  end.

(* sites whose order CAN reach output, kept visible *)
Definition is_residual (s : site) : bool :=
  match verdict_of s with
  | Some (VSensitiveUnwitnessed _) => true
  | Some (VSensitiveNotDiagnostic _) => true
  | Some (VFirstSuccess _) => true
  | _ => false
  end.

(* no stale audit entries: every audited site still exists in the inventory *)
Definition audit_live (inventory : list site) : bool :=
  forallb (fun e => existsb (site_eqb (fst e)) inventory) (audit ++ audit_extra)%list.
