(* Det/Memo.v — a memo cache whose key is a PROJECTION of the input (C10).
   An input is (name, node); the cached function may depend on both.  The cache of
   FunctionScope._resolve_value is keyed by _LookupContext(varname, node, state): a key
   function that forgets the node turns the process-global sentinel cache into a
   history-dependent answer.  No proofs here. *)
From Coq Require Import List Bool NArith.
Import ListNotations.

Definition input := (N * N)%type.            (* (variable name, use node) *)
Definition ckey := (N * N)%type.            (* a key has two components, like (varname, node) *)
Definition ckey_eqb (a b : ckey) : bool := N.eqb (fst a) (fst b) && N.eqb (snd a) (snd b).
Definition kcache := list (ckey * N).       (* key -> cached value *)

Fixpoint kcache_get (c : kcache) (k : ckey) : option N :=
  match c with
  | [] => None
  | (k', v) :: t => if ckey_eqb k k' then Some v else kcache_get t k
  end.

Definition kmemo_call (key : input -> ckey) (f : input -> N) (c : kcache) (x : input) : kcache * N :=
  match kcache_get c (key x) with
  | Some v => (c, v)
  | None => ((key x, f x) :: c, f x)
  end.

Fixpoint kreplay (key : input -> ckey) (f : input -> N) (c : kcache) (h : list input) : kcache :=
  match h with
  | [] => c
  | x :: t => kreplay key f (fst (kmemo_call key f c x)) t
  end.

(* the answer for x after the history h of earlier lookups *)
Definition answer_after (key : input -> ckey) (f : input -> N) (h : list input) (x : input) : N :=
  snd (kmemo_call key f (kreplay key f [] h) x).

(* the key of the current code keeps name and node; the seeded variant forgets the node *)
Definition full_key (x : input) : ckey := x.
Definition name_only_key (x : input) : ckey := (fst x, 0%N).

(* ------------------------------------------------------------------ *)
(* Two-way memo (stacked_scopes._memoized_invert): computing inv x = y stores BOTH x -> y and
   y -> x ("the inverse of the inverse is the constraint we started from"). *)
Definition ncache := list (N * N).
Fixpoint ncache_get (c : ncache) (k : N) : option N :=
  match c with
  | [] => None
  | (k', v) :: t => if N.eqb k k' then Some v else ncache_get t k
  end.
Definition two_way_call (inv : N -> N) (c : ncache) (x : N) : ncache * N :=
  match ncache_get c x with
  | Some v => (c, v)
  | None => let y := inv x in ((x, y) :: (y, x) :: c, y)
  end.
Fixpoint two_way_replay (inv : N -> N) (c : ncache) (h : list N) : ncache :=
  match h with
  | [] => c
  | x :: t => two_way_replay inv (fst (two_way_call inv c x)) t
  end.
Definition two_way_answer (inv : N -> N) (h : list N) (x : N) : N :=
  snd (two_way_call inv (two_way_replay inv [] h) x).
