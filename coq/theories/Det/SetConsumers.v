(* Det/SetConsumers.v — executable models of how pyanalyze consumes collections
   whose iteration order is unspecified (C10).

   A Python `set`/`frozenset` (and the result of a set operation or of a
   dict-keys difference) is modelled as a duplicate-free list of element codes
   (N) whose ORDER IS ARBITRARY: two runs of the checker (other PYTHONHASHSEED,
   other addresses, other history) see two permutations of the same list.
   A dict / dict.fromkeys / OrderedDict / list is an ordinary list: CPython
   guarantees insertion order (trusted).

   No proofs in this file. *)
From Coq Require Import List Bool NArith Arith Permutation.
Import ListNotations.

(* ------------------------------------------------------------------ *)
(* results of consumers: ordered data, or again a set (order irrelevant) *)
Inductive res :=
| RBool (b : bool)
| RNat (n : nat)
| ROpt (o : option N)
| RList (l : list N)      (* order is observable: list, tuple, joined text *)
| RSet (l : list N).      (* again a set: only membership is observable *)

Definition mem (x : N) (s : list N) : bool := existsb (N.eqb x) s.

(* sorted(s) — insertion sort on the element order (strings / names compare
   totally; the codes stand for them) *)
Fixpoint insert_sorted (x : N) (l : list N) : list N :=
  match l with
  | [] => [x]
  | y :: t => if (x <=? y)%N then x :: l else y :: insert_sorted x t
  end.
Definition sorted_list (s : list N) : list N := fold_right insert_sorted [] s.

(* min(s, key=...) over a total order: the minimal code (get_boolability,
   `min` over enum values) *)
Definition min_list (s : list N) : option N :=
  match s with
  | [] => None
  | x :: t => Some (fold_left N.min t x)
  end.

(* `if len(s) == 1: return next(iter(s))` — CanAssignError.get_error_code,
   intersect_bounds_maps (len == 1 branch), _constraint_from_compare_op *)
Definition only (s : list N) : option N :=
  match s with
  | [x] => Some x
  | _ => None
  end.

Definition diff (s t : list N) : list N := filter (fun x => negb (mem x t)) s.
Definition union (s t : list N) : list N := s ++ diff t s.

(* ------------------------------------------------------------------ *)
(* consumer kinds.  The first group never exposes an order. *)
Inductive kind :=
| KMember      (* x in s *)
| KLen         (* len(s) *)
| KTruth       (* if s / not s *)
| KAny         (* any(p(x) for x in s); loops that `return True` on the first hit *)
| KAll         (* all(p(x) for x in s) *)
| KSorted      (* sorted(s) *)
| KMin         (* min(s) over a total order *)
| KOnly        (* next(iter(s)) under len(s) == 1 *)
| KToSet       (* {f(x) for x in s}, set(f(x) for x in s): the result is a set again *)
| KDiff        (* s - t *)
| KUnion       (* s | t, s |= t, s.update(t), s.add(x) *)
(* order-exposing consumers *)
| KList        (* list(s), tuple(s), [f(x) for x in s], *s, ", ".join(map(repr, s)) *)
| KFirst.      (* next(iter(s)) unguarded, s.pop() used as a value, loop that returns on the first success *)

Record params := { p_pred : N -> bool; p_elt : N; p_fun : N -> N; p_other : list N }.

Definition run (k : kind) (a : params) (s : list N) : res :=
  match k with
  | KMember => RBool (mem (p_elt a) s)
  | KLen => RNat (length s)
  | KTruth => RBool (match s with [] => false | _ => true end)
  | KAny => RBool (existsb (p_pred a) s)
  | KAll => RBool (forallb (p_pred a) s)
  | KSorted => RList (sorted_list s)
  | KMin => ROpt (min_list s)
  | KOnly => ROpt (only s)
  | KToSet => RSet (map (p_fun a) s)
  | KDiff => RSet (diff s (p_other a))
  | KUnion => RSet (union s (p_other a))
  | KList => RList (map (p_fun a) s)
  | KFirst => ROpt (hd_error s)
  end.

Definition insensitive (k : kind) : bool :=
  match k with
  | KList | KFirst => false
  | _ => true
  end.

(* ------------------------------------------------------------------ *)
(* Insertion-ordered de-duplication: dict.fromkeys(xs), OrderedDict.fromkeys,
   the `existing`/`hashable_vals` dicts of unite_values and annotate_value,
   uniq_chain.  A function of the LIST xs — no set is involved. *)
Fixpoint dedup (seen xs : list N) : list N :=
  match xs with
  | [] => []
  | x :: t => if mem x seen then dedup seen t else x :: dedup (x :: seen) t
  end.
Definition fromkeys (xs : list N) : list N := dedup [] xs.

(* unite_values( *vals ): every argument is a member list (a union contributes
   its members in order, anything else itself); members are de-duplicated
   keeping the first occurrence. *)
Definition unite (vals : list (list N)) : list N := fromkeys (concat vals).

(* ------------------------------------------------------------------ *)
(* The repaired call sites (written for the repaired code) and what the
   unrepaired code computed.  `arrange` is the unknown iteration order of the
   intermediate set. *)

(* signature.py Signature.bind_arguments: names of unexpected keywords.
   keywords = dict of the call's keyword arguments (call order). *)
Definition extra_kwargs_old (arrange : list N -> list N) (keywords consumed : list N) : list N :=
  arrange (diff keywords consumed).                       (* ", ".join(map(repr, set(kw) - consumed)) *)
Definition extra_kwargs_new (keywords consumed : list N) : list N :=
  filter (fun x => negb (mem x consumed)) keywords.       (* [n for n in kw if n not in consumed] *)

(* stacked_scopes.py OrConstraint.apply: members of the one_of constraint *)
Definition or_apply_old (arrange : list N -> list N) (constraints : list N) : list N :=
  arrange (fromkeys constraints).                         (* list(set(constraints)) *)
Definition or_apply_new (constraints : list N) : list N := fromkeys constraints.   (* list(dict.fromkeys(constraints)) *)

(* stacked_scopes.py suppressing_subscope: definition nodes added by the body *)
Definition new_nodes_old (arrange : list N -> list N) (all_after all_before : list N) : list N :=
  arrange (diff all_after all_before).                    (* list(nodes - old) *)
Definition new_nodes_new (all_after all_before : list N) : list N :=
  filter (fun x => negb (mem x all_before)) all_after.    (* [n for n in nodes if n not in old] *)

(* type_object.py _is_compatible_with_protocol: first failing member is reported *)
Definition first_failing (members : list N) (fails : N -> bool) : option N := find fails members.
Definition protocol_old (arrange : list N -> list N) (members : list N) (fails : N -> bool) : option N :=
  first_failing (arrange members) fails.
Definition protocol_new (members : list N) (fails : N -> bool) : option N :=
  first_failing (sorted_list members) fails.

(* ------------------------------------------------------------------ *)
(* Cross-file caches (Checker.type_object_cache, ArgSpecCache.known_argspecs,
   generic-bases cache, TypeObject._protocol_positive_cache): a memo table in
   front of a function of the key.  A history is the list of keys looked up
   before. *)
Definition cache := list (N * N).
Fixpoint cache_get (c : cache) (k : N) : option N :=
  match c with
  | [] => None
  | (k', v) :: t => if N.eqb k k' then Some v else cache_get t k
  end.
Definition memo_call (f : N -> N) (c : cache) (k : N) : cache * N :=
  match cache_get c k with
  | Some v => (c, v)
  | None => ((k, f k) :: c, f k)
  end.
Fixpoint replay_history (f : N -> N) (c : cache) (h : list N) : cache :=
  match h with
  | [] => c
  | k :: t => replay_history f (fst (memo_call f c k)) t
  end.

(* ------------------------------------------------------------------ *)
(* Worklist closure: FunctionScope._resolve_origin and
   Checker._get_recursive_typeshed_bases.  `pending.pop()` removes an arbitrary
   element: a step may take ANY element x of the pending list (pend is a
   permutation of x :: pend').  Already seen elements are skipped, new ones are
   marked and their successors added. *)
Inductive closure_run (succ : N -> list N) : list N -> list N -> list N -> Prop :=
| cr_done : forall seen, closure_run succ [] seen seen
| cr_skip : forall x pend pend' seen r,
    Permutation pend (x :: pend') -> In x seen ->
    closure_run succ pend' seen r -> closure_run succ pend seen r
| cr_visit : forall x pend pend' seen r,
    Permutation pend (x :: pend') -> ~ In x seen ->
    closure_run succ (succ x ++ pend') (x :: seen) r -> closure_run succ pend seen r.

(* FunctionScope._resolve_origin in full: a definer that is not in
   definition_node_to_value ("maybe from a different scope") aborts the search with
   EMPTY_ORIGIN -- outcome None; otherwise the visited set.  `known x = false` models
   `definer not in self.definition_node_to_value`. *)
Inductive oclosure_run (succ : N -> list N) (known : N -> bool) : list N -> list N -> option (list N) -> Prop :=
| ocr_done : forall seen, oclosure_run succ known [] seen (Some seen)
| ocr_skip : forall x pend pend' seen r,
    Permutation pend (x :: pend') -> In x seen ->
    oclosure_run succ known pend' seen r -> oclosure_run succ known pend seen r
| ocr_unknown : forall x pend pend' seen,
    Permutation pend (x :: pend') -> ~ In x seen -> known x = false ->
    oclosure_run succ known pend seen None
| ocr_visit : forall x pend pend' seen r,
    Permutation pend (x :: pend') -> ~ In x seen -> known x = true ->
    oclosure_run succ known (succ x ++ pend') (x :: seen) r -> oclosure_run succ known pend seen r.

(* ------------------------------------------------------------------ *)
(* Short-circuit evaluation: all(p(x) for x in s) calls p on a PREFIX of the iteration
   order and stops at the first failure.  If p has a side effect (in
   _maybe_show_missing_f_error each lookup marks the name as accessed), the set of
   elements on which the effect happened is observable. *)
Fixpoint all_trace (p : N -> bool) (s : list N) : list N :=
  match s with
  | [] => []
  | x :: t => if p x then x :: all_trace p t else [x]
  end.
