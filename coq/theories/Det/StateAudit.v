(* Det/StateAudit.v — state that outlives one check (C10): classification of the
   inventory Gen/State.v (harness/translate/state.py) and the pinned cache keys.
   No proofs here. *)
From Coq Require Import String List Bool.
Import ListNotations.
Open Scope string_scope.

Record state_item := StateItem { st_file : string; st_scope : string; st_name : string; st_kind : string; st_mutated : bool }.
Record cache_key := CacheKey { ck_file : string; ck_func : string; ck_cache : string; ck_op : string; ck_key : string }.

Definition state_eqb (a b : state_item) : bool :=
  String.eqb (st_file a) (st_file b) && String.eqb (st_scope a) (st_scope b) && String.eqb (st_name a) (st_name b)
  && String.eqb (st_kind a) (st_kind b) && Bool.eqb (st_mutated a) (st_mutated b).
Definition key_eqb (a b : cache_key) : bool :=
  String.eqb (ck_file a) (ck_file b) && String.eqb (ck_func a) (ck_func b) && String.eqb (ck_cache a) (ck_cache b)
  && String.eqb (ck_op a) (ck_op b) && String.eqb (ck_key a) (ck_key b).

Inductive state_verdict :=
| SConstantTable                       (* never stored through in the seven files (decided by the translator) *)
| SImportTimeRegistry (why : string)   (* appended to while the package is imported, read-only afterwards *)
| SSharedReadOnly (why : string)       (* shared object whose mutable fields are not written by checks *)
| SProcessCache (key_determines : string).  (* a cache shared by all checks of the process: sound only while the key
                                               determines the cached result (Proofs/DetMemo.v) -- its key sites are pinned below *)

(* module-level / class-level mutable objects that ARE stored through somewhere *)
Definition state_audit : list (state_item * state_verdict) := [
  (StateItem "stacked_scopes.py" "<module>" "_empty_constrained" "instance:_ConstrainedValue[resolution_cache]" true,
   SProcessCache "every FunctionScope maps _UNINITIALIZED to this sentinel, so its resolution_cache is shared by all functions, visitors and Checkers; the key is _LookupContext(varname, fallback_value=None, node, state): the use node is part of the key and is kept alive by it, so entries of different uses never collide");
  (StateItem "stacked_scopes.py" "StackedScopes" "_builtin_scope" "instance:Scope[declared_types,variables]" true,
   SSharedReadOnly "the builtin scope shared by all StackedScopes; Scope.set is only called on the innermost scope of a stack, never on the builtin scope");
  (StateItem "name_check_visitor.py" "<module>" "SAFE_DECORATORS_FOR_ARGSPEC_TO_RETVAL" "list" true,
   SImportTimeRegistry "asynq decorators appended at import");
  (StateItem "arg_spec.py" "<module>" "_GET_OVERLOADS" "list" true,
   SImportTimeRegistry "typing / typing_extensions get_overloads appended at import");
  (StateItem "arg_spec.py" "<module>" "_BUILTIN_KNOWN_SIGNATURES" "list" true,
   SImportTimeRegistry "providers appended at import")
]%list.

(* phase 4: the same inventory over every other non-test module.  Process-global objects that are
   stored through, and functions memoised with functools.cache / lru_cache. *)
Definition state_audit_extra : list (state_item * state_verdict) := [
  (StateItem "error_code.py" "<module>" "ErrorCode" "instance:ErrorRegistry[errors]" true,
   SImportTimeRegistry "error codes are registered when the package / an extension is imported (register_error_code)");
  (StateItem "find_unused.py" "<module>" "_used_objects" "call:set" true,
   SImportTimeRegistry "filled by the @used decorator at import; membership tests only");
  (StateItem "find_unused.py" "<module>" "_test_helper_objects" "call:set" true,
   SImportTimeRegistry "filled by the @test_helper decorator at import; membership tests only");
  (StateItem "functions.py" "<module>" "_safe_decorators" "list" true,
   SImportTimeRegistry "asyncio.coroutine appended at import when it exists; default of an option");
  (StateItem "importer.py" "<function>" "directory_has_init" "cachedfn:lru_cache" true,
   SProcessCache "lru_cache keyed by the directory path: a fact about the file system, assumed unchanged during a run");
  (StateItem "options.py" "ConfigOption" "registry" "dict" true,
   SImportTimeRegistry "option classes register themselves in __init_subclass__ while modules are imported");
  (StateItem "options.py" "<function>" "get_all_error_codes" "cachedfn:lru_cache" true,
   SProcessCache "no argument: the names in the ErrorCode registry, complete once the package is imported (a code registered later by an extension would be missed)");
  (StateItem "runtime.py" "<function>" "_get_checker" "cachedfn:cache" true,
   SProcessCache "no argument: one Checker shared by the runtime API (is_assignable, get_assignability_error); its own caches are the per-Checker caches audited above, keyed by type / object");
  (StateItem "safe.py" "<module>" "_typing_name_cache" "dict" true,
   SProcessCache "keyed by the attribute name: the objects of that name in typing / typing_extensions / mypy_extensions, fixed after import");
  (StateItem "typeshed.py" "<module>" "PROPERTY_LIKE" "set" true,
   SImportTimeRegistry "enum.property added at import when it exists; membership tests only");
  (StateItem "typeshed.py" "_DummyErrorContext" "all_failures" "list" true,
   SSharedReadOnly "class-level list of the context that discards errors: show_error never appends to it")
]%list.

Fixpoint lookup_state (s : state_item) (t : list (state_item * state_verdict)) : option state_verdict :=
  match t with
  | [] => None
  | (s', v) :: r => if state_eqb s s' then Some v else lookup_state s r
  end%list.

Definition state_classified (s : state_item) : bool :=
  if st_mutated s then match lookup_state s (state_audit ++ state_audit_extra)%list with Some _ => true | None => false end
  else true.   (* SConstantTable *)

Definition state_audit_live (inventory : list state_item) : bool :=
  forallb (fun e => existsb (state_eqb (fst e)) inventory) (state_audit ++ state_audit_extra)%list.

(* Every lookup / store / membership test on a cache of the seven files, with the text of
   its key.  The audit above (and the per-Checker caches: type_object_cache, known_argspecs,
   generic_bases_cache, _protocol_positive_cache; the per-file _argspec_to_retval) was read
   for exactly these keys; a changed key expression or a new cache site changes the list. *)
(* Per-object memos added by /repo 4178e01 (and the older `inverted` of Constraint.invert) appear as
   "attribute <name>" rows: `x.__dict__.get("<name>")` / `object.__setattr__(x, "<name>", v)`.
     _compound_cache  on a one_of/all_of Constraint: apply_to_value per value OBJECT (key id(value), re-checked
                      with `entry[0] is value`; the entry keeps the value alive, so ids are not reused)
     _applied         on a compound constraint: tuple(apply()); depends only on the object's immutable fields
     _inverted        on a compound constraint: invert(); ALSO written on the result (`cached._inverted =
                      constraint`): a two-way memo, see Proofs/DetMemo.v two_way_memo_*
   The memo lives and dies with the object.  Constraint objects are created per visited AST node and per
   value; the only constraint object shared by all checks is NULL_CONSTRAINT, whose invert()/apply() do not
   read a memo (a compound whose inverse collapses to NULL_CONSTRAINT leaves a dangling, never read
   `_inverted` on it).  Hence key = object identity determines the result (C10_keyed_memo_history_independent
   with an injective key). *)
(* "slot <attr>" rows (phase 4, after the round-3 seeded change): every `self.<attr> = ...` outside
   __init__/__post_init__ in the value / type-object / signature classes and in Checker, ArgSpecCache,
   TypeshedFinder -- objects that are shared through Checker-level caches (the return value of a cached
   signature is ONE TypedValue for all call sites of all files) -- with the assigned expression and the
   conditions it sits under.  Classification:
     TypedValue._type_object        write-once, filled only through a context (ctx.make_type_object, itself
                                    memoised per Checker by type): every route computes the same object; the
                                    context-less call returns a throw-away TypeObject and must NOT store it
     TypeAlias.evaluated_value / type_params   write-once, computed by the alias's own evaluator
     Checker._has_used_any_match    a flag that is reset (qcore.override ... False) around every use *)
(* "ReferencingValue scope" rows (round 5): a write through ReferencingValue(scope, name) lands in `scope`;
   the audit of StackedScopes._builtin_scope ("Scope.set is never called on the builtin scope") holds only
   while every ReferencingValue points at the module scope of the checked module (visit_Global) or at an
   enclosing function scope / that module scope (visit_Nonlocal) -- never at whatever scope currently
   resolves the name, which for a builtin is the class-level scope shared by all visitors. *)
Definition pinned_cache_keys : list cache_key := [
  CacheKey "annotations.py" "_DefaultContext.get_type_alias" "cache" "in" "key";
  CacheKey "annotations.py" "_DefaultContext.get_type_alias" "cache" "load" "key";
  CacheKey "annotations.py" "_DefaultContext.get_type_alias" "cache" "store" "key";
  CacheKey "arg_spec.py" "ArgSpecCache.__init__" "self.known_argspecs" "store" "obj";
  CacheKey "arg_spec.py" "ArgSpecCache._cached_get_argspec" "self.known_argspecs" "in" "obj";
  CacheKey "arg_spec.py" "ArgSpecCache._cached_get_argspec" "self.known_argspecs" "load" "obj";
  CacheKey "arg_spec.py" "ArgSpecCache._cached_get_argspec" "self.known_argspecs" "store" "obj";
  CacheKey "arg_spec.py" "ArgSpecCache._get_generic_bases_cached" "self.generic_bases_cache" "load" "typ";
  CacheKey "arg_spec.py" "ArgSpecCache._get_generic_bases_cached" "self.generic_bases_cache" "store" "typ";
  CacheKey "arg_spec.py" "with_implementation" "known_argspecs" "store" "fn";
  CacheKey "checker.py" "Checker.make_type_object" "self.type_object_cache" "in" "typ";
  CacheKey "checker.py" "Checker.make_type_object" "self.type_object_cache" "load" "typ";
  CacheKey "checker.py" "Checker.make_type_object" "self.type_object_cache" "store" "typ";
  CacheKey "checker.py" "Checker.record_any_used" "slot _has_used_any_match" "assign" "True";
  CacheKey "name_check_visitor.py" "NameCheckVisitor._fill_method_cache" "self._method_cache" "store" "typ";
  CacheKey "name_check_visitor.py" "NameCheckVisitor._set_argspec_to_retval" "self._argspec_to_retval" "store" "id(sig)";
  CacheKey "name_check_visitor.py" "NameCheckVisitor.get_local_return_value" "self._argspec_to_retval" "get" "id(sig)";
  CacheKey "name_check_visitor.py" "NameCheckVisitor.visit" "self._method_cache" "load" "node_type := type(node)";
  CacheKey "name_check_visitor.py" "visit_Global" "ReferencingValue scope" "construct" "module_scope := self.scopes.module_scope()";
  CacheKey "name_check_visitor.py" "visit_Nonlocal" "ReferencingValue scope" "construct" "defining_scope := self.scopes.get_nonlocal_scope(name, self.scopes.current_scope()) | self.scopes.module_scope()";
  CacheKey "node_visitor.py" "BaseNodeVisitor.show_error" "self.seen_errors" "in" "key := (node, error_code or e)";
  CacheKey "safe.py" "_fill_typing_name_cache" "_typing_name_cache" "load" "name";
  CacheKey "safe.py" "_fill_typing_name_cache" "_typing_name_cache" "store" "name";
  CacheKey "stacked_scopes.py" "Constraint._apply_compound" "attribute _compound_cache" "get" "object self";
  CacheKey "stacked_scopes.py" "Constraint._apply_compound" "attribute _compound_cache" "store" "object self";
  CacheKey "stacked_scopes.py" "Constraint._apply_compound" "cache" "get" "id(value)";
  CacheKey "stacked_scopes.py" "Constraint._apply_compound" "cache" "store" "id(value)";
  CacheKey "stacked_scopes.py" "Constraint.invert" "attribute inverted" "store" "object self";
  CacheKey "stacked_scopes.py" "_memoized_apply" "attribute _applied" "get" "object constraint";
  CacheKey "stacked_scopes.py" "_memoized_apply" "attribute _applied" "store" "object constraint";
  CacheKey "stacked_scopes.py" "_memoized_invert" "attribute _inverted" "get" "object constraint";
  CacheKey "stacked_scopes.py" "_memoized_invert" "attribute _inverted" "store" "object cached";
  CacheKey "stacked_scopes.py" "_memoized_invert" "attribute _inverted" "store" "object constraint";
  CacheKey "type_object.py" "TypeObject.can_assign" "self._protocol_positive_cache" "get" "cache_key := (self_val, other_val)";
  CacheKey "type_object.py" "TypeObject.can_assign" "self._protocol_positive_cache" "store" "cache_key := (self_val, other_val)";
  CacheKey "typeshed.py" "TypeshedFinder._value_from_info_inner" "self._assignment_cache" "in" "key := (module, info.ast)";
  CacheKey "typeshed.py" "TypeshedFinder._value_from_info_inner" "self._assignment_cache" "load" "key := (module, info.ast)";
  CacheKey "typeshed.py" "TypeshedFinder._value_from_info_inner" "self._assignment_cache" "store" "key := (module, info.ast)";
  CacheKey "typeshed.py" "TypeshedFinder.get_attribute_for_fq_name" "self._attribute_cache" "load" "key := (fq_name, attr, on_class)";
  CacheKey "typeshed.py" "TypeshedFinder.get_attribute_for_fq_name" "self._attribute_cache" "store" "key := (fq_name, attr, on_class)";
  CacheKey "value.py" "TypeAlias.get_type_params" "slot type_params" "assign" "self.evaluate_type_params() WHEN (self.type_params is None)";
  CacheKey "value.py" "TypeAlias.get_value" "slot evaluated_value" "assign" "self.evaluator() WHEN (self.evaluated_value is None)";
  CacheKey "value.py" "TypedValue.get_type_object" "slot _type_object" "assign" "ctx.make_type_object(self.typ) WHEN (self._type_object is None)"
]%list.

Fixpoint keys_eqb (a b : list cache_key) : bool :=
  match a, b with
  | [], [] => true
  | x :: a', y :: b' => key_eqb x y && keys_eqb a' b'
  | _, _ => false
  end%list.

(* The key of the process-global resolution_cache, field by field (regenerated as
   Gen.State.resolution_key_fields): the result of a resolution depends on the variable, the
   use node and the visitor state, so these three must be taken over unchanged; fallback_value
   may be blanked (a value with a fallback is never the shared sentinel's entry). *)
Definition field_status (fs : list (string * string)) (f : string) : string :=
  match find (fun p => String.eqb (fst p) f) fs with
  | Some p => snd p
  | None => "missing"
  end.
Definition resolution_key_ok (fs : list (string * string)) : bool :=
  String.eqb (field_status fs "varname") "kept" && String.eqb (field_status fs "node") "kept"
  && String.eqb (field_status fs "state") "kept".

(* The unchanged tree keys TypeObject._protocol_positive_cache by `other_val` only (known finding
   C10-protocol-positive-cache-key); repo_fixes/C10-protocol-cache-key keys it by (self_val, other_val).
   Both texts are accepted, anything else fires. *)
Definition after_protocol_fix (k : cache_key) : cache_key :=
  if String.eqb (ck_cache k) "self._protocol_positive_cache"
  then CacheKey (ck_file k) (ck_func k) (ck_cache k) (ck_op k) "cache_key := (self_val, other_val)"
  else k.
Definition pinned_cache_keys_after_protocol_fix : list cache_key := map after_protocol_fix pinned_cache_keys.

(* Round 4: what a cache hands out must be immutable or copied on the way out.  The caches above store
   Values / Signatures / TypeObjects (frozen dataclasses) and BoundsMaps -- dicts of lists, returned BY
   REFERENCE (TypeObject.can_assign returns the very dict it keeps in _protocol_positive_cache).  So
   nobody may mutate a BoundsMap or a bounds list he did not create.  The inventory lists, for value.py,
   type_object.py, signature.py, typevar.py, arg_spec.py, checker.py:
     mutate       every in-place mutation (append/extend/update/setdefault/pop/..., x[k] = v, del x[k], x.a += v)
                  whose receiver is not a local that is only ever bound to freshly built objects (and not
                  `self` itself);
     alias-store  every store of a not-obviously-fresh object into a fresh local container (the container then
                  aliases it).
   Audit of the rows below: the `mutate` rows act on the owner's own fields (caches, registries, per-instance
   state) or on objects created in the same expression (`result.setdefault(tv, [])`, `intermediate.setdefault(tv, {})`:
   the default is a new list/dict, bounds are copied INTO it by extend / keyed by tuple(bounds)); the
   `alias-store` rows store immutable objects (Values, SigParameters, names).  In particular no row mutates or
   aliases a list taken from a BoundsMap.  A new row -- e.g. `result[tv] = bounds` followed by
   `result[tv].extend(...)` in unify_bounds_maps -- fires the obligation. *)
Definition pinned_mutation_sites : list cache_key := [
  CacheKey "arg_spec.py" "ArgSpecCache.__init__" "mutate" "self.known_argspecs" "[]=";
  CacheKey "arg_spec.py" "ArgSpecCache._cached_get_argspec" "mutate" "self.known_argspecs" "[]=";
  CacheKey "arg_spec.py" "ArgSpecCache._get_generic_bases_cached" "mutate" "self.generic_bases_cache" "[]=";
  CacheKey "arg_spec.py" "ArgSpecCache.get_generic_bases" "alias-store" "tv_map[tv_value.typevar]" "value";
  CacheKey "arg_spec.py" "with_implementation" "alias-store" "known_argspecs[fn]" "argspec";
  CacheKey "checker.py" "Checker.__post_init__" "mutate" "self.vnv_map" "[]=";
  CacheKey "checker.py" "Checker.assume_compatibility" "mutate" "self.assumed_compatibilities" "append";
  CacheKey "checker.py" "Checker.assume_compatibility" "mutate" "self.assumed_compatibilities" "pop";
  CacheKey "checker.py" "Checker.make_type_object" "mutate" "self.type_object_cache" "[]=";
  CacheKey "signature.py" "Signature.__post_init__" "mutate" "self.all_typevars" "update";
  CacheKey "signature.py" "Signature.__post_init__" "mutate" "self.typevars_of_params" "[]=";
  CacheKey "signature.py" "Signature.check_call_with_bound_args" "alias-store" "varmap[param_name]" "value";
  CacheKey "signature.py" "Signature.make" "alias-store" "param_dict[param.name]" "param";
  CacheKey "signature.py" "Signature.maybe_show_too_many_pos_args_error" "alias-store" "composite_to_name[composite]" "name";
  CacheKey "signature.py" "Signature.maybe_show_too_many_pos_args_error" "alias-store" "node_to_composite[unbound_arg.node]" "unbound_arg";
  CacheKey "signature.py" "_CanAssignBasedContext.on_error" "mutate" "self.errors" "append";
  CacheKey "type_object.py" "TypeObject.__post_init__" "mutate" "self.artificial_bases" "add";
  CacheKey "type_object.py" "TypeObject.__post_init__" "mutate" "self.base_classes" "augassign";
  CacheKey "type_object.py" "TypeObject.can_assign" "mutate" "self._protocol_positive_cache" "[]=";
  CacheKey "typevar.py" "resolve_bounds_map" "alias-store" "tv_map[tv]" "solution";
  CacheKey "value.py" "intersect_bounds_maps" "mutate" "intermediate.setdefault(tv, {})" "[]=";
  CacheKey "value.py" "kv_pairs_from_mapping" "mutate" "pairs" "append";
  CacheKey "value.py" "unify_bounds_maps" "mutate" "result.setdefault(tv, [])" "extend"
]%list.
