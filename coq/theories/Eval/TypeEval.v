(* Eval/TypeEval.v — executable model of type evaluation functions
   (pyanalyze/type_evaluation.py: ConditionEvaluator.visit_Call / visit_is_of_type /
   visit_UnaryOp / visit_Compare / visit_BoolOp, decompose_union, unite_varmaps,
   EvaluateVisitor.visit_block / visit_If (with the fall-through varmaps) / visit_Return / visit_show_error,
   CombinedReturn, _evaluate_ret) and the reference interpreter of
   docs/type_evaluation.md on union-free arguments.  No proofs in this file.

   Abstraction boundary.  A variable's value is the list of the members of its
   (flattened) union; a non-union value is a singleton.  What one type check
   answers is abstract: [acc T m ex] = can_assign_maybe_exclude_any(T, m, ctx, ex)
   succeeded; [narrow T m] = the members of constrain_value(m, IsAssignablePredicate(T))
   (what the positive branch of is_of_type narrows a member to).  How each
   parameter was filled ([posn]) comes from Signature.bind_arguments.  The
   harness instantiates all three from the real code.
   `arg <op> literal` is is_of_type(arg, Literal[literal]) (negated for != / is not);
   version / platform conditions are opaque booleans. *)
From Coq Require Import List Bool Arith PeanoNat.
Import ListNotations.

Definition var := nat.
Definition member := nat.
Definition typ := nat.
Definition rtype := nat.
Definition msg := nat.

Inductive posn := PInt | PStr | PDefault | PArgs | PKwargs | PUnknown.
Inductive kindfn := KProvided | KPositional | KKeyword.

Inductive cond :=
| CKind (f : kindfn) (v : var)
| CType (v : var) (T : typ) (ex : bool)
| CConst (b : bool)
| CNot (c : cond)
| CAnd (cs : conds)
| COr (cs : conds)
with conds :=
| CNil
| CCons (c : cond) (cs : conds).

Inductive stmt :=
| SPass
| SReturn (r : rtype)
| SError (m : msg)
| SIf (c : cond) (body orelse : block)
with block :=
| BNil
| BCons (s : stmt) (b : block).

(* visit_Call: is_provided / is_positional / is_keyword *)
Definition kind_match (f : kindfn) (p : posn) : bool :=
  match f, p with
  | KProvided, (PDefault | PUnknown) => false
  | KProvided, _ => true
  | KPositional, (PArgs | PInt) => true
  | KPositional, _ => false
  | KKeyword, (PKwargs | PStr) => true
  | KKeyword, _ => false
  end.

(* variable maps: association lists, first binding wins ({**old, **new} = new ++ old) *)
Definition varmap := list (var * list member).

Fixpoint lookup (rho : varmap) (v : var) : option (list member) :=
  match rho with
  | [] => None
  | (w, ms) :: rest => if w =? v then Some ms else lookup rest v
  end.

(* a variable that is not bound holds the single member 0 (never exercised by the
   harness: every variable a body mentions is a parameter and is bound); this
   makes "every variable is union-free" a satisfiable property of a finite map *)
Definition get (rho : varmap) (v : var) : list member :=
  match lookup rho v with Some ms => ms | None => [0] end.

Definition has_key (vm : varmap) (v : var) : bool :=
  match lookup vm v with Some _ => true | None => false end.

Definition nodupn := nodup Nat.eq_dec.
Definition is_nil {A : Type} (l : list A) : bool := match l with [] => true | _ => false end.

(* unite_varmaps: keys = intersection of the key sets; values united *)
Definition unite_varmaps (vms : list varmap) : option varmap :=
  match vms with
  | [] => None
  | first :: rest =>
      let keys := filter (fun k => forallb (fun vm => has_key vm k) rest) (nodupn (map fst first)) in
      Some (map (fun k => (k, nodupn (flat_map (fun vm => get vm k) vms))) keys)
  end.

(* repaired visit_BoolOp: members that took the other side at an earlier,
   partially matching operand are united into the early-exit varmap *)
Definition unite_with_remaining (remaining : list varmap) (vm : option varmap) : option varmap :=
  match vm, remaining with
  | None, _ => None
  | Some m, [] => Some m
  | Some m, _ => unite_varmaps (remaining ++ [m])
  end.

Definition cret := (option varmap * option varmap)%type.

Section Model.
  Variable acc : typ -> member -> bool -> bool.
  Variable narrow : typ -> member -> list member.
  Variable posof : var -> posn.
  (* is the member Any (a universally assignable value that a permissive match converts) *)
  Variable isany : member -> bool.

  (* visit_is_of_type + decompose_union *)
  Definition is_of_type (rho : varmap) (v : var) (T : typ) (ex : bool) : cret :=
    let val := get rho v in
    (* the positive branch narrows the members that matched (repaired: not the whole value) *)
    let narrowed := nodupn (flat_map (narrow T) (filter (fun m => acc T m ex) val)) in
    if forallb (fun m => acc T m ex) val then (Some [(v, narrowed)], None)
    else if existsb (fun m => acc T m ex) val
         then (Some [(v, narrowed)], Some [(v, filter (fun m => negb (acc T m ex)) val)])
         else (None, Some []).

  Fixpoint eval_cond (rho : varmap) (c : cond) : cret :=
    match c with
    | CKind f v => if kind_match f (posof v) then (Some [], None) else (None, Some [])
    | CType v T ex => is_of_type rho v T ex
    | CConst b => if b then (Some [], None) else (None, Some [])
    | CNot c' => let (l, r) := eval_cond rho c' in (r, l)
    | CAnd cs => eval_and rho cs [] []
    | COr cs => eval_or rho cs [] []
    end
  with eval_and (rho : varmap) (cs : conds) (narrowed : varmap) (remaining : list varmap) : cret :=
    match cs with
    | CNil => (Some narrowed, unite_varmaps remaining)
    | CCons c cs' =>
        match eval_cond rho c with
        | (None, r) => (None, unite_with_remaining remaining r)
        | (Some l, None) => eval_and (l ++ rho) cs' (l ++ narrowed) remaining
        | (Some l, Some r) => eval_and (l ++ rho) cs' (l ++ narrowed) (remaining ++ [r])
        end
    end
  with eval_or (rho : varmap) (cs : conds) (narrowed : varmap) (remaining : list varmap) : cret :=
    match cs with
    | CNil => (unite_varmaps remaining, Some narrowed)
    | CCons c cs' =>
        match eval_cond rho c with
        | (l, None) => (unite_with_remaining remaining l, None)
        | (None, Some r) => eval_or (r ++ rho) cs' (r ++ narrowed) remaining
        | (Some l, Some r) => eval_or (r ++ rho) cs' (r ++ narrowed) (remaining ++ [l])
        end
    end.

  (* visit_block keeps only the bindings of a fall-through varmap that remove
     members of the variable's current value (no converted values), and none at
     all for a variable whose current value has an Any member *)
  Definition only_removals (rho f : varmap) : varmap :=
    filter (fun b => negb (existsb isany (get rho (fst b)))
                     && forallb (fun m => existsb (Nat.eqb m) (get rho (fst b))) (snd b)) f.

  (* EvalReturn: None = [None], a Value = [Some r], CombinedReturn cs = cs *)
  Definition eret := list (option rtype).
  Definition is_some {A : Type} (o : option A) : bool := match o with Some _ => true | None => false end.
  Fixpoint somes {A : Type} (l : list (option A)) : list A :=
    match l with [] => [] | Some x :: l' => x :: somes l' | None :: l' => somes l' end.

  (* fall-through varmaps (repaired visit_block / visit_If): how the variables
     are narrowed for the code after a statement; None = the statement always
     returns.  {**l, **f} is f ++ l (first binding wins). *)
  Definition ft_join (l : varmap) (ft : option varmap) : option varmap :=
    match ft with Some f => Some (f ++ l) | None => None end.
  Definition ft_unite (a b : option varmap) : option varmap :=
    match a, b with
    | Some u, Some v => unite_varmaps [u; v]
    | Some u, None => Some u
    | None, _ => b
    end.

  Fixpoint eval_stmt (rho : varmap) (s : stmt) : eret * list msg * option varmap :=
    match s with
    | SPass => ([None], [], Some [])
    | SReturn r => ([Some r], [], None)
    | SError m => ([None], [m], Some [])
    | SIf c body orelse =>
        match eval_cond rho c with
        | (Some l, Some r) =>
            let '(r1, e1, f1) := eval_block (l ++ rho) body [] [] in
            let '(r2, e2, f2) := eval_block (r ++ rho) orelse [] [] in
            (r1 ++ r2, e1 ++ e2, ft_unite (ft_join l f1) (ft_join r f2))
        | (Some l, None) =>
            let '(r1, e1, f1) := eval_block (l ++ rho) body [] [] in (r1, e1, ft_join l f1)
        | (None, Some r) =>
            let '(r2, e2, f2) := eval_block (r ++ rho) orelse [] [] in (r2, e2, ft_join r f2)
        | (None, None) => ([None], [], Some [])
        end
    end
  with eval_block (rho : varmap) (b : block) (possible : list rtype) (narrowed : varmap)
       : eret * list msg * option varmap :=
    match b with
    | BNil => (map Some possible ++ [None], [], Some narrowed)
    | BCons s b' =>
        let '(res, e, ft) := eval_stmt rho s in
        if forallb is_some res then (map Some possible ++ res, e, None)
        else
          (* narrow only when some members returned here (result is not None) *)
          let f := match ft with Some f => if is_nil (somes res) then [] else only_removals rho f | None => [] end in
          let '(res', e', ft') := eval_block (f ++ rho) b' (possible ++ somes res) (f ++ narrowed) in
          (res', e ++ e', ft')
    end.

  (* Evaluator.evaluate + _evaluate_ret: the set of returned types (None = the
     declared return annotation [dflt]) and the set of show_error sites *)
  Definition default_to (dflt : rtype) (o : option rtype) : rtype := match o with Some r => r | None => dflt end.

  Definition evaluate (rho : varmap) (body : block) (dflt : rtype) : list rtype * list msg :=
    let '(res, errs, _) := eval_block rho body [] [] in
    (nodupn (map (default_to dflt) res), nodupn errs).

  (* ======================================================================= *)
  (* Reference interpreter of docs/type_evaluation.md on union-free arguments:
     every variable has one member; conditions are booleans; statements are
     executed until the first return. *)

  Fixpoint sem_cond (sigma : var -> member) (c : cond) : bool :=
    match c with
    | CKind f v => kind_match f (posof v)
    | CType v T ex => acc T (sigma v) ex
    | CConst b => b
    | CNot c' => negb (sem_cond sigma c')
    | CAnd cs => sem_all sigma cs
    | COr cs => sem_any sigma cs
    end
  with sem_all (sigma : var -> member) (cs : conds) : bool :=
    match cs with CNil => true | CCons c cs' => sem_cond sigma c && sem_all sigma cs' end
  with sem_any (sigma : var -> member) (cs : conds) : bool :=
    match cs with CNil => false | CCons c cs' => sem_cond sigma c || sem_any sigma cs' end.

  (* result: Some r = a return statement was reached; errors in execution order *)
  Fixpoint sem_stmt (sigma : var -> member) (s : stmt) : option rtype * list msg :=
    match s with
    | SPass => (None, [])
    | SReturn r => (Some r, [])
    | SError m => (None, [m])
    | SIf c body orelse => if sem_cond sigma c then sem_block sigma body else sem_block sigma orelse
    end
  with sem_block (sigma : var -> member) (b : block) : option rtype * list msg :=
    match b with
    | BNil => (None, [])
    | BCons s b' =>
        match sem_stmt sigma s with
        | (Some r, e) => (Some r, e)
        | (None, e) => let (r', e') := sem_block sigma b' in (r', e ++ e')
        end
    end.

  Definition sem_evaluate (sigma : var -> member) (body : block) (dflt : rtype) : list rtype * list msg :=
    let (r, e) := sem_block sigma body in ([default_to dflt r], nodupn e).

End Model.
