(* Extraction of the C05 model (ExtrOcamlBasic only; N/nat stay Coq datatypes). *)
From Coq Require Import ExtrOcamlBasic.
From Coq Require Import List NArith.
Require Import PV.Binder.Kind PV.Binder.Sig PV.Binder.Bind PV.Binder.PyBind.
Extraction "c05model.ml" preprocess preprocess_u bind bind_legacy py_bind_full valid_sig.
