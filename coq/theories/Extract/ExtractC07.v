(* Extraction of the C07 model (ExtrOcamlBasic only; N/nat stay Coq datatypes). *)
From Coq Require Import ExtrOcamlBasic.
From Coq Require Import List NArith.
Require Import PV.Binder.Kind PV.Binder.Sig PV.Binder.SigAssign PV.Binder.PyBind.
Extraction "c07model.ml" sca kinds_ok double_fill py_bind valid_sig.
