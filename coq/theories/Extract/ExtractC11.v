(* Extraction of the C11 model (ExtrOcamlBasic only; N/nat stay Coq datatypes),
   instantiated with the constants regenerated from the source (Gen/Codes.v). *)
From Coq Require Import ExtrOcamlBasic.
From Coq Require Import List NArith.
Require Import PV.Lines.Text PV.Lines.Suppress PV.Gen.Codes.

Definition emit_i (st : N -> bool) (f : file) (raw : list diag) : list diag :=
  emit IGNORE_COMMENT code_name st f unused_ignore_code bare_ignore_code raw.
Definition used_i (st : N -> bool) (f : file) (raw : list diag) : list nat :=
  used (run_raw IGNORE_COMMENT code_name st f raw).
(* every character-level predicate of one line, for the classification stream *)
Definition features_i (l : line) (c : N) :=
  (starts_hash l, own_bare IGNORE_COMMENT l, own_tag IGNORE_COMMENT code_name c l,
   has_bare IGNORE_COMMENT l, has_tag IGNORE_COMMENT code_name c l,
   has_any IGNORE_COMMENT l, has_brk IGNORE_COMMENT l,
   index_of IGNORE_COMMENT l, indentation l, strip l).
Definition file_level_i (f : file) (c : option N) := file_level IGNORE_COMMENT code_name f c.
Extraction "c11model.ml" emit_i used_i features_i file_level_i mem_N is_space.
