(* Extraction of the C16 model (ExtrOcamlBasic only; N/nat stay Coq datatypes),
   instantiated with the constants regenerated from the source. *)
From Coq Require Import ExtrOcamlBasic.
From Coq Require Import List NArith.
Require Import PV.Lines.Text PV.Lines.Suppress PV.Lines.Place PV.Lines.Fixer PV.Gen.Codes PV.Gen.ApplyGen.
Require Import PV.Proofs.LinesFixer.

Definition fix_step_i (st : N -> bool) (f : file) (raw : list diag) :=
  fix_step IGNORE_COMMENT code_name st unused_ignore_code bare_ignore_code f raw.
Definition emit16_i (st : N -> bool) (f : file) (raw : list diag) :=
  emit IGNORE_COMMENT code_name st f unused_ignore_code bare_ignore_code raw.
(* the guard and its clauses, evaluated on the initial state *)
Definition clauses_i (st : N -> bool) (f : file) (raw : list diag) :=
  let M := main IGNORE_COMMENT code_name st f raw in
  (fix_guardb st f raw, base_okb f raw, forallb (pos_okb f) M, forallb (prev_okb f) M, forallb (one_okb M) M).
Definition apply_i := ApplyGen.apply_changes.
Extraction "c16model.ml" fix_step_i emit16_i clauses_i apply_i mem_N.
