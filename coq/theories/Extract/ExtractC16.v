(* Extraction of the C16 model (ExtrOcamlBasic only; N/nat stay Coq datatypes),
   instantiated with the constants regenerated from the source. *)
From Coq Require Import ExtrOcamlBasic.
From Coq Require Import List NArith.
Require Import PV.Lines.Text PV.Lines.Suppress PV.Lines.Place PV.Lines.Fixer PV.Gen.Codes PV.Gen.ApplyGen.
Require Import PV.Proofs.LinesFixer PV.Gen.RangeGen.

Definition fix_step_i (st : N -> bool) (f : file) (raw : list diag) :=
  fix_step IGNORE_COMMENT code_name st unused_ignore_code bare_ignore_code f raw.
Definition emit16_i (st : N -> bool) (f : file) (raw : list diag) :=
  emit IGNORE_COMMENT code_name st f unused_ignore_code bare_ignore_code raw.
(* the guard of C16_add_ignores_terminates, evaluated on the initial state, and whether the step
   for line ln would use a trailing comment *)
Definition clauses_i (st : N -> bool) (f : file) (raw : list diag) :=
  (fix_guardb f raw, forallb (fun d => d_obey d) raw).
Definition apply_i := ApplyGen.apply_changes.
Definition line_range_i := RangeGen.line_range.
Extraction "c16model.ml" fix_step_i emit16_i clauses_i apply_i line_range_i mem_N.
