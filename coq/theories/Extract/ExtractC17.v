(* Extraction of the C17 models (ExtrOcamlBasic only; Z/N/nat stay Coq datatypes).
   The helper definitions below are I/O glue for ocaml/c17_driver.ml (decimal
   conversion of arbitrarily large numbers); they are not part of the model. *)
From Coq Require Import ExtrOcamlBasic.
From Coq Require Import ZArith List NArith.
Import ListNotations.
Require Import PV.Format.Percent PV.Format.PyPercent PV.Format.StrFormat PV.Format.FormatEval PV.Format.Typed.

Definition n_of_digits (ds : list N) : N := fold_left (fun acc d => (acc * 10 + d)%N) ds 0%N.
Definition z_of_digits (neg : bool) (ds : list N) : Z :=
  let z := Z.of_N (n_of_digits ds) in if neg then Z.opp z else z.
Fixpoint n_digits_fuel (fuel : nat) (n : N) (acc : list N) : list N :=
  match fuel with
  | O => acc
  | S f => let (q, r) := N.div_eucl n 10 in
           if N.eqb q 0 then r :: acc else n_digits_fuel f q (r :: acc)
  end.
Definition n_digits (n : N) : list N := n_digits_fuel (S (N.size_nat n)) n [].

Extraction NoInline st_align st_sign st_z st_alt st_zero st_width st_group st_prec st_finish parse_fspec check_spec get_attr get_item lookup.
Extraction "c17model.ml" n_of_digits z_of_digits n_digits
  pa_scan pa_check_chars py_scan py_raises_chars pa_lint pa_accept py_raises
  pa_parse pa_format_check py_parse py_format_verdict mix_clause
  py_tree tree_fields py_format_full tfield_no_path tfield_plain
  accept_tuple_typed.
