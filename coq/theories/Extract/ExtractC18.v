(* Extraction of the C18 model (ExtrOcamlBasic only; Z/N/nat stay Coq datatypes). *)
From Coq Require Import ExtrOcamlBasic.
From Coq Require Import ZArith List NArith.
Require Import PV.Options.Base PV.Options.Parse.
Extraction "c18model.ml" effective effective_concat.
