(* Format/FormatEval.v — specification of template.format(args, kwargs) for
   literal arguments, beyond numbering and lookup: attribute/index paths
   (getattr / getitem on the builtin objects of the literal universe),
   conversions, expansion of nested format specs, and the validation
   `format(obj, spec)` performs for str / int / bool / float / complex / other
   objects (Python/formatter_unicode.c: parse_internal_render_format_spec,
   format_string_internal, format_long_internal, format_float_internal,
   format_complex_internal; object.__format__).

   Only the verdict is modelled: raises / fine / undecided.  `undecided` remains
   for: attributes that are not plain data (methods, __doc__, ...), values whose
   text would be needed inside a nested spec but is not computed here (floats,
   containers, conversions other than !s), explicit widths in the allocation range.
   Validated against the interpreter on every run.  No proofs in this file. *)
From Coq Require Import ZArith NArith List Bool.
Import ListNotations.
Require Import PV.Gen.FormatRe PV.Gen.FormatAttrs PV.Format.Percent PV.Format.PyPercent PV.Format.StrFormat.
Open Scope N_scope.

Inductive fkey := FKStr (s : list N) | FKInt (z : Z).

(* literal objects; FStrU = a str whose text is not tracked; FUnknown = any other object *)
Inductive fobj :=
| FInt (z : Z) | FBool (b : bool) | FFloat | FComplex
| FStr (s : list N) | FStrU | FBytes (s : list N) | FNoneObj
| FSeq (is_list : bool) (l : list fobj)
| FDict (kvs : list (fkey * fobj))
| FUnknown.

Inductive v3 := VR | VF | VU.          (* raises / fine / undecided *)
Inductive res (A : Type) := Raise | Undecided | Ok (x : A).
Arguments Raise {A}. Arguments Undecided {A}. Arguments Ok {A}.

(* ---------------------------------------------------------------- getattr / getitem *)
Definition attrs_of (o : fobj) : option (list (list N)) :=
  match o with
  | FInt _ => Some attrs_int | FBool _ => Some attrs_bool | FFloat => Some attrs_float
  | FComplex => Some attrs_complex | FStr _ | FStrU => Some attrs_str | FBytes _ => Some attrs_bytes
  | FNoneObj => Some attrs_none | FSeq true _ => Some attrs_list | FSeq false _ => Some attrs_tuple
  | FDict _ => Some attrs_dict | FUnknown => None
  end.

Definition a_real : list N := [114; 101; 97; 108].
Definition a_imag : list N := [105; 109; 97; 103].
Definition a_numerator : list N := [110; 117; 109; 101; 114; 97; 116; 111; 114].
Definition a_denominator : list N := [100; 101; 110; 111; 109; 105; 110; 97; 116; 111; 114].

Definition bool_z (b : bool) : Z := if b then 1%Z else 0%Z.

Definition get_attr (o : fobj) (name : list N) : res fobj :=
  match attrs_of o with
  | None => Undecided
  | Some names =>
      if negb (name_in name names) then Raise                     (* AttributeError *)
      else
        match o with
        | FInt z =>
            if list_eqb name a_real || list_eqb name a_numerator then Ok (FInt z)
            else if list_eqb name a_imag then Ok (FInt 0)
            else if list_eqb name a_denominator then Ok (FInt 1)
            else Ok FUnknown
        | FBool b =>
            if list_eqb name a_real || list_eqb name a_numerator then Ok (FInt (bool_z b))
            else if list_eqb name a_imag then Ok (FInt 0)
            else if list_eqb name a_denominator then Ok (FInt 1)
            else Ok FUnknown
        | FFloat | FComplex =>
            if list_eqb name a_real || list_eqb name a_imag then Ok FFloat else Ok FUnknown
        | _ => Ok FUnknown
        end
  end.

(* get_integer on an index text: Some n when it consists of decimal digits only *)
Definition index_int (k : list N) : option N := if all_digits k then Some (digits_value k) else None.

Definition get_item (o : fobj) (k : list N) : res fobj :=
  match o with
  | FSeq _ l =>
      match index_int k with
      | Some i => match nth_error l (N.to_nat i) with Some x => Ok x | None => Raise end   (* IndexError *)
      | None => Raise                                      (* indices must be integers *)
      end
  | FStr s =>
      match index_int k with
      | Some i => match nth_error s (N.to_nat i) with Some c => Ok (FStr [c]) | None => Raise end
      | None => Raise
      end
  | FStrU => match index_int k with Some _ => Undecided | None => Raise end
  | FBytes s =>
      match index_int k with
      | Some i => match nth_error s (N.to_nat i) with Some c => Ok (FInt (Z.of_N c)) | None => Raise end
      | None => Raise
      end
  | FDict kvs =>
      let want := match index_int k with Some i => FKInt (Z.of_N i) | None => FKStr k end in
      match find (fun p => match fst p, want with
                           | FKStr a, FKStr b => list_eqb a b
                           | FKInt a, FKInt b => Z.eqb a b
                           | _, _ => false
                           end) kvs with
      | Some p => Ok (snd p)
      | None => Raise                                      (* KeyError *)
      end
  | FUnknown => Undecided
  | _ => Raise                                             (* not subscriptable *)
  end.

Fixpoint walk_path (o : fobj) (path : list (bool * list N)) : res fobj :=
  match path with
  | [] => Ok o
  | (is_index, name) :: rest =>
      match (if is_index then get_item o name else get_attr o name) with
      | Ok o' => walk_path o' rest
      | Raise => Raise
      | Undecided => Undecided
      end
  end.

(* ---------------------------------------------------------------- text of simple values *)
Fixpoint n_digits_fuel (fuel : nat) (n : N) (acc : list N) : list N :=
  match fuel with
  | O => acc
  | S f => let (q, r) := N.div_eucl n 10 in
           if q =? 0 then (r + 48) :: acc else n_digits_fuel f q ((r + 48) :: acc)
  end.
Definition z_text (z : Z) : list N :=
  let n := Z.abs_N z in
  (if (z <? 0)%Z then [45] else []) ++ n_digits_fuel (S (N.size_nat n)) n [].

(* str(obj) when the model computes it *)
Definition text_of (o : fobj) : option (list N) :=
  match o with
  | FInt z => Some (z_text z)
  | FBool true => Some [84; 114; 117; 101]
  | FBool false => Some [70; 97; 108; 115; 101]
  | FNoneObj => Some [78; 111; 110; 101]
  | FStr s => Some s
  | _ => None
  end.

(* !r / !s / !a *)
Definition apply_conv (o : fobj) (conv : option N) : fobj :=
  match conv with
  | None => o
  | Some c =>
      if c =? 115 then match text_of o with Some s => FStr s | None => FStrU end
      else match o with FInt z => FStr (z_text z) | FBool _ | FNoneObj => match text_of o with Some s => FStr s | None => FStrU end | _ => FStrU end
  end.

(* ---------------------------------------------------------------- format-spec mini-language *)
Record fspec := mk_fspec {
  fs_fill0 : bool;        (* fill character is '0' (explicit fill or the '0' flag) *)
  fs_align : N;           (* 0 = none given / default, else one of < > = ^ *)
  fs_sign : N;            (* 0 or one of + - space *)
  fs_z : bool; fs_alt : bool;
  fs_width_big : bool; fs_width_mid : bool;
  fs_thousands : N;       (* 0, ',' or '_' *)
  fs_prec : bool; fs_prec_big : bool; fs_prec_mid : bool;
  fs_type : N             (* 0 = none *)
}.

Definition is_align (c : N) : bool := mem c [60; 62; 61; 94].

Inductive specparse := SPError | SPOk (f : fspec).

(* digits (Py_UNICODE_TODECIMAL): value, and what is left *)
Definition spec_int (s : list N) : option N * list N :=
  let (ds, rest) := span (is_re_digit false) s in
  match ds with [] => (None, s) | _ => (Some (digits_value ds), rest) end.

Definition too_big (n : N) : bool := (ssize_max <? Z.of_N n)%Z.
(* between "certainly allocatable" and "overflows before allocating": not executed, undecided *)
Definition mid_range (n : N) : bool := (2000 <? n) && negb (too_big n).

(* parser state threaded through the stages of parse_internal_render_format_spec *)
Record pst := mk_pst {
  p_fill0 : bool; p_explicit : bool; p_align : N; p_sign : N; p_z : bool; p_alt : bool;
  p_wbig : bool; p_wmid : bool; p_th : N; p_badth : bool;
  p_prec : bool; p_precerr : bool; p_pbig : bool; p_pmid : bool;
  p_rest : list N
}.

Definition pst0 (s : list N) : pst :=
  mk_pst false false 0 0 false false false false 0 false false false false false s.

Definition set_rest (st : pst) (r : list N) : pst :=
  mk_pst (p_fill0 st) (p_explicit st) (p_align st) (p_sign st) (p_z st) (p_alt st) (p_wbig st) (p_wmid st)
         (p_th st) (p_badth st) (p_prec st) (p_precerr st) (p_pbig st) (p_pmid st) r.

(* [[fill]align] *)
Definition st_align (st : pst) : pst :=
  match p_rest st with
  | f :: a :: r =>
      if is_align a then
        mk_pst (f =? 48) true a 0 false false false false 0 false false false false false r
      else if is_align f then
        mk_pst false false f 0 false false false false 0 false false false false false (a :: r)
      else st
  | [f] => if is_align f then mk_pst false false f 0 false false false false 0 false false false false false [] else st
  | [] => st
  end.

(* [sign][z][#] *)
Definition st_sign (st : pst) : pst :=
  match p_rest st with
  | c :: r => if mem c [43; 45; 32]
              then mk_pst (p_fill0 st) (p_explicit st) (p_align st) c false false false false 0 false false false false false r
              else st
  | [] => st
  end.
Definition st_z (st : pst) : pst :=
  match p_rest st with
  | c :: r => if c =? 122
              then mk_pst (p_fill0 st) (p_explicit st) (p_align st) (p_sign st) true false false false 0 false false false false false r
              else st
  | [] => st
  end.
Definition st_alt (st : pst) : pst :=
  match p_rest st with
  | c :: r => if c =? 35
              then mk_pst (p_fill0 st) (p_explicit st) (p_align st) (p_sign st) (p_z st) true false false 0 false false false false false r
              else st
  | [] => st
  end.

(* [0]: default_align is '<' (60) for str, '>' (62) for numbers *)
Definition st_zero (default_align : N) (st : pst) : pst :=
  match p_rest st with
  | c :: r =>
      if negb (p_explicit st) && (c =? 48)
      then mk_pst true (p_explicit st)
                  (if (p_align st =? 0) && (default_align =? 62) then 61 else p_align st)
                  (p_sign st) (p_z st) (p_alt st) false false 0 false false false false false r
      else st
  | [] => st
  end.

Definition st_width (st : pst) : pst :=
  match spec_int (p_rest st) with
  | (Some n, r) =>
      mk_pst (p_fill0 st) (p_explicit st) (p_align st) (p_sign st) (p_z st) (p_alt st)
             (too_big n) (mid_range n) 0 false false false false false r
  | (None, _) => st
  end.

(* grouping: ',' then '_' then ',' *)
Definition st_group (st : pst) : pst :=
  let '(th1, s7) := match p_rest st with c :: r => if c =? 44 then (44, r) else (0, p_rest st) | [] => (0, []) end in
  let '(bad, th2, s8) :=
    match s7 with
    | c :: r => if c =? 95 then (negb (th1 =? 0), 95, r) else (false, th1, s7)
    | [] => (false, th1, s7)
    end in
  let '(bad', s9) :=
    match s8 with
    | c :: r => if (c =? 44) && (th2 =? 95) then (true, r) else (bad, s8)
    | [] => (bad, s8)
    end in
  mk_pst (p_fill0 st) (p_explicit st) (p_align st) (p_sign st) (p_z st) (p_alt st) (p_wbig st) (p_wmid st)
         th2 bad' false false false false s9.

Definition st_prec (st : pst) : pst :=
  match p_rest st with
  | c :: r =>
      if c =? 46 then
        match spec_int r with
        | (Some n, r') =>
            mk_pst (p_fill0 st) (p_explicit st) (p_align st) (p_sign st) (p_z st) (p_alt st) (p_wbig st) (p_wmid st)
                   (p_th st) (p_badth st) true false (too_big n) (mid_range n) r'
        | (None, r') =>                                        (* Format specifier missing precision *)
            mk_pst (p_fill0 st) (p_explicit st) (p_align st) (p_sign st) (p_z st) (p_alt st) (p_wbig st) (p_wmid st)
                   (p_th st) (p_badth st) true true false false r'
        end
      else st
  | [] => st
  end.

Definition st_finish (default_type : N) (st : pst) : specparse :=
  if p_wbig st || p_badth st || p_precerr st || p_pbig st then SPError
  else
    match p_rest st with
    | _ :: _ :: _ => SPError                                    (* Invalid format specifier *)
    | rest =>
        let ty := match rest with [c] => c | _ => default_type end in
        let th := p_th st in
        let th_ok :=
          if th =? 0 then true
          else if mem ty [100; 101; 102; 103; 69; 71; 37; 70; 0] then true
          else if mem ty [98; 111; 120; 88] then (th =? 95)
          else false in
        if th_ok then SPOk (mk_fspec (p_fill0 st) (p_align st) (p_sign st) (p_z st) (p_alt st) (p_wbig st) (p_wmid st)
                                     th (p_prec st) (p_pbig st) (p_pmid st) ty)
        else SPError
    end.

Definition parse_fspec (default_align default_type : N) (s : list N) : specparse :=
  st_finish default_type (st_prec (st_group (st_width (st_zero default_align (st_alt (st_z (st_sign (st_align (pst0 s))))))))).

Definition v_of_mid (f : fspec) : v3 := if fs_width_mid f || fs_prec_mid f then VU else VF.

(* format(str, spec) *)
Definition check_str_spec (spec : list N) : v3 :=
  match parse_fspec 60 115 spec with
  | SPError => VR
  | SPOk f =>
      if negb (fs_type f =? 115) then VR              (* Unknown format code *)
      else if negb (fs_sign f =? 0) || fs_z f || fs_alt f || (fs_align f =? 61) then VR
      else v_of_mid f
  end.

(* format(int, spec); [z] is the value ('c' needs a code point) *)
Definition check_int_spec (z : Z) (spec : list N) : v3 :=
  match parse_fspec 62 100 spec with
  | SPError => VR
  | SPOk f =>
      let ty := fs_type f in
      if mem ty [98; 99; 100; 111; 120; 88; 110] then
        if fs_prec f || fs_z f then VR
        else if ty =? 99 then
          if negb (fs_sign f =? 0) || fs_alt f then VR
          else if (z <? 0)%Z || (1114111 <? z)%Z then VR
          else v_of_mid f
        else v_of_mid f
      else if mem ty [101; 69; 102; 70; 103; 71; 37] then
        (if (Z.abs z <? float_overflow)%Z then v_of_mid f else VR)
      else VR
  end.

Definition check_float_spec (spec : list N) : v3 :=
  match parse_fspec 62 0 spec with
  | SPError => VR
  | SPOk f => if mem (fs_type f) [0; 101; 69; 102; 70; 103; 71; 110; 37] then v_of_mid f else VR
  end.

Definition check_complex_spec (spec : list N) : v3 :=
  match parse_fspec 62 0 spec with
  | SPError => VR
  | SPOk f =>
      if fs_fill0 f || (fs_align f =? 61) then VR
      else if mem (fs_type f) [0; 101; 69; 102; 70; 103; 71; 110] then v_of_mid f else VR
  end.

(* format(obj, spec) *)
Definition check_spec (o : fobj) (spec : list N) : v3 :=
  match spec with
  | [] => VF
  | _ =>
      match o with
      | FStr _ | FStrU => check_str_spec spec
      | FInt z => check_int_spec z spec
      | FBool b => check_int_spec (bool_z b) spec
      | FFloat => check_float_spec spec
      | FComplex => check_complex_spec spec
      | FUnknown => VU
      | _ => VR                                  (* object.__format__: unsupported format string *)
      end
  end.

(* ---------------------------------------------------------------- evaluation of the field tree *)
Record fargs := mk_fargs { fa_pos : list fobj; fa_kw : list (list N * fobj) }.

(* numbering state + lookup: the object, or the verdict *)
Definition lookup (a : fargs) (name : argname) (st : anstate) (cur : N) : res fobj * anstate * N :=
  match name with
  | ANone =>
      match st with
      | AManual => (Raise, st, cur)
      | _ => (match nth_error (fa_pos a) (N.to_nat cur) with Some o => Ok o | None => Raise end, AAuto, cur + 1)
      end
  | ANum i =>
      match st with
      | AAuto => (Raise, st, cur)
      | _ => (match nth_error (fa_pos a) (N.to_nat i) with Some o => Ok o | None => Raise end, AManual, cur)
      end
  | AName s =>
      (match find (fun p => list_eqb s (fst p)) (fa_kw a) with Some p => Ok (snd p) | None => Raise end, st, cur)
  end.

(* verdict so far, combined with what follows: a raise anywhere is a raise *)
Definition v_and (a b : v3) : v3 :=
  match a, b with
  | VR, _ | _, VR => VR
  | VU, _ | _, VU => VU
  | VF, VF => VF
  end.

Definition res_v {A} (r : res A) : v3 := match r with Raise => VR | Undecided => VU | Ok _ => VF end.

(* the spec text of a field: literal characters and the rendering of nested
   fields; (verdict of the nested fields, text when fully known) *)
Fixpoint eval_spec_items (a : fargs) (items : list sitem) (st : anstate) (cur : N)
  : v3 * option (list N) * anstate * N :=
  match items with
  | [] => (VF, Some [], st, cur)
  | SLit c :: r =>
      let '(v, txt, st', cur') := eval_spec_items a r st cur in
      (v, match txt with Some t => Some (c :: t) | None => None end, st', cur')
  | SFld lf :: r =>
      let '(ro, st1, cur1) := lookup a (lf_name lf) st cur in
      match ro with
      | Raise => (VR, None, st1, cur1)
      | _ =>
          let ro' := match ro with Ok o => walk_path o (lf_path lf) | other => other end in
          let '(v_here, txt_here) :=
            match ro' with
            | Raise => (VR, None)
            | Undecided => (VU, None)
            | Ok o =>
                let o' := apply_conv o (lf_conv lf) in
                (check_spec o' (lf_spec lf),
                 match lf_spec lf with [] => text_of o' | _ => None end)
            end in
          let '(v, txt, st', cur') := eval_spec_items a r st1 cur1 in
          (v_and v_here v,
           match txt_here, txt with Some x, Some y => Some (x ++ y) | _, _ => None end, st', cur')
      end
  end.

Fixpoint eval_fields (a : fargs) (fs : list tfield) (st : anstate) (cur : N) : v3 :=
  match fs with
  | [] => VF
  | f :: r =>
      let '(ro, st1, cur1) := lookup a (tf_name f) st cur in
      match ro with
      | Raise => VR
      | _ =>
          let ro' := match ro with Ok o => walk_path o (tf_path f) | other => other end in
          let '(v_spec, txt, st2, cur2) := eval_spec_items a (tf_spec f) st1 cur1 in
          let v_here :=
            match ro' with
            | Raise => VR
            | Undecided => v_and VU v_spec
            | Ok o =>
                let o' := apply_conv o (tf_conv f) in
                match v_spec with
                | VR => VR
                | _ => match txt with
                       | Some t => v_and v_spec (check_spec o' t)
                       | None => VU
                       end
                end
            end in
          match v_here with
          | VR => VR
          | _ => v_and v_here (eval_fields a r st2 cur2)
          end
      end
  end.

Inductive fullverdict := FVRaises | FVFine | FVUndecided | FVFuel.

Definition py_format_full (t : list N) (a : fargs) : fullverdict :=
  match py_tree t with
  | TRaise => FVRaises
  | TFuel => FVFuel
  | TOk items =>
      match eval_fields a (tree_fields items) AInit 0 with
      | VR => FVRaises | VF => FVFine | VU => FVUndecided
      end
  end.

(* guard clauses of the known findings, on the tree *)
Definition leaf_simple (si : sitem) : bool := match si with SLit _ => true | SFld _ => false end.
Definition tfield_no_path (f : tfield) : bool :=
  match tf_path f with [] => forallb (fun si => match si with SFld lf => match lf_path lf with [] => true | _ => false end | SLit _ => true end) (tf_spec f) | _ => false end.
(* C17-format-spec-not-validated: a conversion or a non-empty format spec somewhere *)
Definition tfield_plain (f : tfield) : bool :=
  match tf_conv f, tf_spec f with None, [] => true | _, _ => false end.
Definition tfield_simple (f : tfield) : bool :=
  match tf_path f, tf_conv f, tf_spec f with [], None, [] => true | _, _, _ => false end.
