(* Format/Guards.v — decidable guard clauses of the C17 theorems.  Each clause
   names one class of inputs on which the unchanged code violates the property
   (known_findings.d/C17.json); the theorems are stated for inputs outside them.
   No proofs in this file. *)
From Coq Require Import ZArith NArith List Bool.
Import ListNotations.
Require Import PV.Format.Percent PV.Format.PyPercent.
Open Scope N_scope.

Definition objs_of (a : args) : list obj :=
  match a with
  | ATuple l => l
  | ADict kvs => map snd kvs
  | AScalar o => [o]
  end.

(* C17-numeric-overflow: numbers CPython cannot convert to the C type *)
Definition obj_big (o : obj) : bool :=
  match o with
  | OInt z => (int_max <? Z.abs z)%Z
  | OFloat fin => negb fin
  | _ => false
  end.
Definition fw_big (f : fw) : bool :=
  match f with FNum n => (int_max <? Z.of_N n)%Z | _ => false end.
Definition overflow_clause (specs : list cspec) (a : args) : bool :=
  existsb (fun cs => fw_big (c_width cs) || fw_big (c_prec cs)) specs
  || existsb obj_big (objs_of a).

(* C17-bytes-mapping-keys *)
Definition bytes_mapping_clause (is_bytes : bool) (specs : list cspec) : bool :=
  is_bytes && needs_mapping specs.

(* C17-nonstr-keys-hide-missing *)
Definition nonstr_keys_clause (specs : list cspec) (a : args) : bool :=
  needs_mapping specs &&
  match a with
  | ADict kvs => negb (forallb (fun p => is_kstr (fst p)) kvs)
  | _ => false
  end.

(* C17-c-range-str: a text template with %c and an int in [256, 0x110000) *)
Definition c_range_obj (is_bytes : bool) (o : obj) : bool :=
  negb is_bytes &&
  match o with OInt z => (256 <=? z)%Z && (z <? 1114112)%Z | _ => false end.
Definition c_range_clause (is_bytes : bool) (specs : list cspec) (a : args) : bool :=
  existsb (fun cs => c_type cs =? ch_c) specs && existsb (c_range_obj is_bytes) (objs_of a).

(* C17-escape-only-mapping-arg: only "%%" specifiers, argument is dict-like *)
Definition escape_only_mapping_clause (is_bytes : bool) (specs : list cspec) (a : args) : bool :=
  dict_flag is_bytes a && nonempty specs && forallb (fun cs => c_type cs =? ch_pct) specs.

(* a dict display with pairwise different keys (always true for a dict object) *)
Definition dict_keys_unique (a : args) : Prop :=
  match a with ADict kvs => NoDup (map fst kvs) | _ => True end.

(* the documented, deliberately stricter lint rules: "use of % on string with no
   conversion specifiers" and "cannot combine specifiers that require a mapping
   with those that do not" *)
Definition is_combine (e : lint_err) : bool := match e with LCombine => true | _ => false end.
Definition lint_only (is_bytes : bool) (specs : list cspec) (a : args) : bool :=
  match specs with
  | [] => negb (args_empty a)
  | _ => existsb is_combine (pa_lint is_bytes specs 0)
  end.

