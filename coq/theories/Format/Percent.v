(* Format/Percent.v — executable model of pyanalyze's %-format checker
   (pyanalyze/format_strings.py: _FORMAT_STRING_REGEX, ConversionSpecifier,
   StarConversionSpecifier, PercentFormatString) for literal arguments.

   Characters are N code points.  The model has two layers:
     * parsed layer: [pa_lint], [pa_accept], [pa_reports] work on a list of
       conversion specifiers [cspec] (what ConversionSpecifier.from_match
       builds) — this is the layer the theorems are about;
     * character layer: [pa_scan] is a deterministic scanner written to be
       equivalent to `finditer` of _FORMAT_STRING_REGEX (lazy prefix, the `$`
       alternative, the empty-match rules of the re module, the trailing
       newline patch).  Its equivalence with the regex is NOT proved; it is
       checked differentially by the harness.
   No proofs in this file. *)
From Coq Require Import ZArith NArith List Bool.
Import ListNotations.
Require Import PV.Gen.FormatRe.
Open Scope N_scope.

(* ---------------------------------------------------------------- chars *)
Definition ch_pct : N := 37.   (* % *)
Definition ch_lpar : N := 40.
Definition ch_rpar : N := 41.
Definition ch_star : N := 42.
Definition ch_dot : N := 46.
Definition ch_nl : N := 10.
Definition ch_b : N := 98.
Definition ch_c : N := 99.
Definition ch_s : N := 115.
Definition ch_r : N := 114.
Definition ch_a : N := 97.

Definition mem (c : N) (l : list N) : bool := existsb (N.eqb c) l.

Fixpoint list_eqb (a b : list N) : bool :=
  match a, b with
  | [], [] => true
  | x :: a', y :: b' => N.eqb x y && list_eqb a' b'
  | _, _ => false
  end.

Definition flag_chars : list N := [35; 48; 45; 32; 43].      (* [#0\- +] *)
Definition len_chars : list N := [104; 108; 76].              (* [hlL] *)
(* [diouxXeEfFgGcrs%ba] *)
Definition conv_chars : list N :=
  [100; 105; 111; 117; 120; 88; 101; 69; 102; 70; 103; 71; 99; 114; 115; 37; 98; 97].

Definition is_ascii_digit (c : N) : bool := (48 <=? c) && (c <=? 57).
(* `\d` of a str pattern also matches the other Unicode decimal digits and
   int() evaluates them; the Arabic-Indic block stands for them here (the
   harness alphabet contains U+0663).  Bytes patterns: ASCII only. *)
Definition is_re_digit (is_bytes : bool) (c : N) : bool :=
  is_ascii_digit c || (negb is_bytes && (1632 <=? c) && (c <=? 1641)).
Definition digit_val (c : N) : N := if is_ascii_digit c then c - 48 else c - 1632.

(* ---------------------------------------------------------------- specifiers *)
Inductive fw := FNone | FStar | FNum (n : N).

Record cspec := mk_cspec {
  c_type : N;
  c_key : option (list N);
  c_flags : option (list N);
  c_width : fw;
  c_prec : fw;
  c_len : option N
}.

Definition bare (c : N) : cspec := mk_cspec c None None FNone FNone None.

Definition is_star (f : fw) : bool := match f with FStar => true | _ => false end.
Definition fw_none (f : fw) : bool := match f with FNone => true | _ => false end.
Definition is_some {A} (o : option A) : bool := match o with Some _ => true | None => false end.

Definition has_options (cs : cspec) : bool :=
  is_some (c_key cs) || is_some (c_flags cs) || negb (fw_none (c_width cs))
  || negb (fw_none (c_prec cs)) || is_some (c_len cs).

(* ---------------------------------------------------------------- literal arguments *)
(* What the checks can distinguish in a literal argument. *)
Inductive obj :=
| OInt (z : Z)            (* int literal *)
| OBool (b : bool)
| OFloat (finite : bool)  (* float literal; 1e999 is the non-finite one *)
| OStr (s : list N)
| OBytes (s : list N)
| OOther (subscriptable : bool).
  (* None, complex, nested tuple (false); list, dict as an element (true) *)

Inductive dkey := KStr (s : list N) | KBytes (s : list N) | KOther.

Inductive args :=
| ATuple (l : list obj)
| ADict (kvs : list (dkey * obj))
| AScalar (o : obj).

(* TypedValue(int).is_assignable(KnownValue(o)) *)
Definition int_like (o : obj) : bool :=
  match o with OInt _ | OBool _ => true | _ => false end.
(* Numeric = TypedValue(float) | TypedValue(SupportsIndex) *)
Definition numeric (o : obj) : bool :=
  match o with OInt _ | OBool _ | OFloat _ => true | _ => false end.
Definition is_bytes_obj (o : obj) : bool := match o with OBytes _ => true | _ => false end.

Definition int_value (o : obj) : Z :=
  match o with OInt z => z | OBool true => 1%Z | _ => 0%Z end.

(* ---------------------------------------------------------------- errors *)
Inductive lint_err := LPctOptions | LBOnText | LCombine | LBadPiece.
Inductive acc_err :=
| ENoSpecifiers | ENeedMapping | EMissingKeys | ETooFew | ETooMany
| EInteger | ENumeric | ECRange | ECLen | ECType | EBytesOnly | EStar | EPct | EUnhandled.

(* range(256) in ConversionSpecifier.accept_no_mvv: applied to text and bytes
   patterns alike (known finding C17-c-range-str) *)
Definition c_limit : Z := 256.

(* ConversionSpecifier.accept_no_mvv for a literal argument *)
Definition type_accept (is_bytes : bool) (t : N) (o : obj) : list acc_err :=
  if mem t integer_conversion_types then (if int_like o then [] else [EInteger])
  else if mem t numeric_conversion_types then (if numeric o then [] else [ENumeric])
  else if (t =? ch_a) || (t =? ch_r) then []
  else if t =? ch_c then
    if int_like o then
      (if (0 <=? int_value o)%Z && (int_value o <? c_limit)%Z then [] else [ECRange])
    else match o with
         | OBytes s => if is_bytes then (if length s =? 1 then [] else [ECLen])%nat else [ECType]
         | OStr s => if is_bytes then [ECType] else (if length s =? 1 then [] else [ECLen])%nat
         | _ => [ECType]
         end
  else if (t =? ch_b) || (is_bytes && (t =? ch_s)) then
    (if is_bytes_obj o then [] else [EBytesOnly])
  else if t =? ch_s then []
  else if t =? ch_pct then [EPct]
  else [EUnhandled].                 (* `assert False`: unreachable for regex-produced types *)

(* What accept_no_mvv asks about an argument Value: the assignability tests it
   performs and, for a KnownValue, the tests on the wrapped object.  The function
   generated from the source (Gen/FormatAccept.v) is written against this view,
   so that it applies to literal and to typed arguments alike. *)
Record argview := mk_view {
  av_known : bool;        (* isinstance(arg, KnownValue) *)
  av_integral : bool;     (* Integral.is_assignable(arg) : SupportsIndex *)
  av_numeric : bool;      (* Numeric.is_assignable(arg)  : float | SupportsIndex *)
  av_int : bool;          (* TypedValue(int).is_assignable(arg) *)
  av_bytes : bool;        (* TypedValue(bytes).is_assignable(arg) *)
  av_str : bool;          (* TypedValue(str).is_assignable(arg) *)
  av_val : Z;             (* arg.val when it is an int *)
  av_strbytes : bool;     (* isinstance(arg.val, (str, bytes)) *)
  av_len : nat            (* len(arg.val) *)
}.

Definition view_of_obj (o : obj) : argview :=
  mk_view true (int_like o) (numeric o) (int_like o) (is_bytes_obj o)
          (match o with OStr _ => true | _ => false end)
          (int_value o)
          (match o with OStr _ | OBytes _ => true | _ => false end)
          (match o with OStr s | OBytes s => length s | _ => 0%nat end).

(* accept_no_mvv written against the view (hand-written mirror of the source;
   Proofs/FormatGen.v proves the translated function equal to it for every view) *)
Definition type_accept_v (is_bytes : bool) (t : N) (v : argview) : list acc_err :=
  if mem t integer_conversion_types then (if av_integral v then [] else [EInteger])
  else if mem t numeric_conversion_types then (if av_numeric v then [] else [ENumeric])
  else if (t =? ch_a) || (t =? ch_r) then []
  else if t =? ch_c then
    if av_int v then
      (if av_known v && negb ((0 <=? av_val v)%Z && (av_val v <? c_limit)%Z) then [ECRange] else [])
    else if (is_bytes && av_bytes v) || (negb is_bytes && av_str v) then
      (if av_known v && av_strbytes v && negb (Nat.eqb (av_len v) 1) then [ECLen] else [])
    else [ECType]
  else if (t =? ch_b) || (is_bytes && (t =? ch_s)) then
    (if av_bytes v then [] else [EBytesOnly])
  else if t =? ch_s then []
  else if t =? ch_pct then [EPct]
  else [EUnhandled].

Definition spec_accept (is_bytes : bool) (cs : cspec) (o : obj) : list acc_err :=
  type_accept is_bytes (c_type cs) o.

(* one entry of get_serial_specifiers.  StarConversionSpecifier carries no data;
   the model remembers whether the '*' stood for the width or the precision
   (the checks ignore it; CPython's integer range differs) *)
Inductive serial := SStar (is_prec : bool) | SSpec (cs : cspec).

Definition serial_accept (is_bytes : bool) (s : serial) (o : obj) : list acc_err :=
  match s with
  | SStar _ => if int_like o then [] else [EStar]
  | SSpec cs => spec_accept is_bytes cs o
  end.

Definition serial_of (cs : cspec) : list serial :=
  (if is_star (c_width cs) then [SStar false] else [])
  ++ (if is_star (c_prec cs) then [SStar true] else [])
  ++ (if c_type cs =? ch_pct then [] else [SSpec cs]).

Definition serial_specifiers (specs : list cspec) : list serial := flat_map serial_of specs.

Definition needs_mapping (specs : list cspec) : bool :=
  existsb (fun cs => is_some (c_key cs)) specs.

(* ConversionSpecifier.lint + the per-specifier part of PercentFormatString.lint *)
Definition spec_lint (is_bytes nm : bool) (cs : cspec) : list lint_err :=
  (if c_type cs =? ch_pct then (if has_options cs then [LPctOptions] else [])
   else if c_type cs =? ch_b then (if is_bytes then [] else [LBOnText])
   else [])
  ++ (if nm && negb (c_type cs =? ch_pct)
         && (negb (is_some (c_key cs)) || is_star (c_prec cs) || is_star (c_width cs))
      then [LCombine] else []).

(* bad_pieces: number of raw pieces containing '%' *)
Definition pa_lint (is_bytes : bool) (specs : list cspec) (bad_pieces : nat) : list lint_err :=
  flat_map (spec_lint is_bytes (needs_mapping specs)) specs ++ repeat LBadPiece bad_pieces.

Fixpoint zip_accept (is_bytes : bool) (ss : list serial) (os : list obj) : list acc_err :=
  match ss, os with
  | s :: ss', o :: os' => serial_accept is_bytes s o ++ zip_accept is_bytes ss' os'
  | _, _ => []
  end.

(* accept_tuple_args_no_mvv *)
Definition accept_tuple (is_bytes : bool) (specs : list cspec) (a : args) : list acc_err :=
  let all_args := match a with
                  | ATuple l => l
                  | ADict _ => [OOther true]
                  | AScalar o => [o]
                  end in
  let ss := serial_specifiers specs in
  if (length all_args <? length ss)%nat then [ETooFew]
  else if (length ss <? length all_args)%nat then [ETooMany]
  else zip_accept is_bytes ss all_args.

Definition key_matches (k : list N) (cs : cspec) : bool :=
  negb (c_type cs =? ch_pct) &&
  match c_key cs with Some k' => list_eqb k k' | None => false end.

(* keys of get_specifier_mapping() (after the None-key fix: only real keys) *)
Definition spec_keys (specs : list cspec) : list (list N) :=
  flat_map (fun cs => if c_type cs =? ch_pct then [] else
                      match c_key cs with Some k => [k] | None => [] end) specs.

Definition is_kstr (k : dkey) : bool := match k with KStr _ => true | _ => false end.
Definition dict_has (kvs : list (dkey * obj)) (k : list N) : bool :=
  existsb (fun p => match fst p with KStr k' => list_eqb k k' | _ => false end) kvs.

(* accept_mapping_args_no_mvv: the mapping key of a bytes pattern is decoded,
   so it is always compared with the dict's *str* keys *)
Definition accept_mapping (is_bytes : bool) (specs : list cspec) (a : args) : list acc_err :=
  match a with
  | ADict kvs =>
      flat_map (fun p => match fst p with
                         | KStr k => flat_map (fun cs => if key_matches k cs
                                                         then spec_accept is_bytes cs (snd p) else []) specs
                         | _ => []
                         end) kvs
      ++ (if forallb (fun p => is_kstr (fst p)) kvs
             && negb (forallb (dict_has kvs) (spec_keys specs))
          then [EMissingKeys] else [])
  | _ => [ENeedMapping]
  end.

Definition args_empty (a : args) : bool :=
  match a with ATuple [] => true | ADict [] => true | _ => false end.

(* PercentFormatString.accept *)
Definition pa_accept (is_bytes : bool) (specs : list cspec) (a : args) : list acc_err :=
  match specs with
  | [] => if args_empty a then [] else [ENoSpecifiers]
  | _ => if needs_mapping specs then accept_mapping is_bytes specs a
         else accept_tuple is_bytes specs a
  end.

Definition nonempty {A} (l : list A) : bool := match l with [] => false | _ => true end.

(* check_string_format emits at least one bad_format_string *)
Definition pa_reports (is_bytes : bool) (specs : list cspec) (bad_pieces : nat) (a : args) : bool :=
  nonempty (pa_lint is_bytes specs bad_pieces) || nonempty (pa_accept is_bytes specs a).

(* the inferred type: TypedValue(type(format_str)); true = bytes *)
Definition pa_result_is_bytes (is_bytes : bool) : bool := is_bytes.

(* ================================================================ scanner *)
(* maximal run of characters satisfying p *)
Fixpoint span (p : N -> bool) (s : list N) : list N * list N :=
  match s with
  | c :: s' => if p c then let (a, b) := span p s' in (c :: a, b) else ([], s)
  | [] => ([], [])
  end.

Definition digits_value (ds : list N) : N :=
  fold_left (fun acc d => acc * 10 + digit_val d) ds 0.

(* `(\*|\d+)` *)
Definition scan_int_field (is_bytes : bool) (s : list N) : fw * list N :=
  match s with
  | c :: s' =>
      if c =? ch_star then (FStar, s')
      else let (ds, rest) := span (is_re_digit is_bytes) s in
           match ds with [] => (FNone, s) | _ => (FNum (digits_value ds), rest) end
  | [] => (FNone, s)
  end.

(* flags, width, precision, length modifier and conversion character of one
   specifier, shared by the regex model and by the model of CPython's parser
   (PyPercent.py_parse_spec).  [intf] reads `*` or a number; [dot_empty] is what
   a '.' followed by neither means: nothing for the regex (no match), precision
   0 for CPython. *)
Definition spec_tail (intf : list N -> fw * list N) (dot_empty : option fw)
                     (key : option (list N)) (s2 : list N) : option (cspec * list N) :=
  let (fl, s3) := span (fun x => mem x flag_chars) s2 in
  let flags := match fl with [] => None | _ => Some fl end in
  let (width, s4) := intf s3 in
  let prec_res :=
    match s4 with
    | c :: s5 =>
        if c =? ch_dot then
          match intf s5 with
          | (FNone, r) => match dot_empty with Some p => Some (p, r) | None => None end
          | pr => Some pr
          end
        else Some (FNone, s4)
    | [] => Some (FNone, s4)
    end in
  match prec_res with
  | None => None
  | Some (prec, s6) =>
      let (lm, s7) :=
        match s6 with
        | c :: s' => if mem c len_chars then (Some c, s') else (None, s6)
        | [] => (None, s6)
        end in
      match s7 with
      | c :: s8 => if mem c conv_chars then Some (mk_cspec c key flags width prec lm, s8) else None
      | [] => None
      end
  end.

(* the first alternative of the regex at a position whose first character is
   '%' (already removed): Some (specifier, rest) or None.  The grammar is
   deterministic except for '0' (flag or width), which greedy matching gives to
   the flags; a '(' or a '.' that cannot start a key / a precision cannot be
   anything else, so the alternative fails. *)
Definition try_spec (is_bytes : bool) (s : list N) : option (cspec * list N) :=
  let key_res :=
    match s with
    | c :: s1 =>
        if c =? ch_lpar then
          let (k, rest) := span (fun x => negb (x =? ch_rpar)) s1 in
          match k, rest with
          | _ :: _, _ :: rest' => Some (Some k, rest')
          | _, _ => None
          end
        else Some (None, s)
    | [] => Some (None, s)
    end in
  match key_res with
  | None => None
  | Some (key, s2) => spec_tail (scan_int_field is_bytes) None key s2
  end.

(* `$` without MULTILINE: at the end, or before a final newline *)
Definition at_dollar (s : list N) : bool :=
  match s with [] => true | [c] => c =? ch_nl | _ => false end.

(* one regex match starting at the head of [s] with lazy prefix [pre_rev]:
   returns (prefix, Some spec | None for `$`, rest, match_was_empty).
   [first] = the prefix is still empty; [must_adv] = an empty match at the
   start position is forbidden (it directly follows an empty match). *)
Inductive onematch := OM (pre : list N) (sp : option cspec) (rest : list N) (empty : bool) | NoMatch.

Fixpoint find_match (is_bytes : bool) (fuel : nat) (pre_rev : list N) (s : list N) (first must_adv : bool) : onematch :=
  let try_dollar :=
    if at_dollar s && negb (first && must_adv) then Some (OM (rev pre_rev) None s first) else None in
  let step :=
    match try_dollar with
    | Some m => m
    | None =>
        match fuel, s with
        | S fuel', c :: s' => find_match is_bytes fuel' (c :: pre_rev) s' false must_adv
        | _, _ => NoMatch
        end
    end in
  match s with
  | c :: s' =>
      if c =? ch_pct then
        match try_spec is_bytes s' with
        | Some (cs, rest) => OM (rev pre_rev) (Some cs) rest false
        | None => step
        end
      else step
  | [] => step
  end.

(* finditer: the list of (pre_match, specifier-or-$) *)
Fixpoint scan_loop (is_bytes : bool) (fuel : nat) (s : list N) (must_adv : bool) : option (list (list N * option cspec)) :=
  match fuel with
  | O => None
  | S fuel' =>
      match find_match is_bytes (length s) [] s true must_adv with
      | NoMatch => Some []
      | OM pre sp rest empty =>
          match scan_loop is_bytes fuel' rest empty with
          | Some l => Some ((pre, sp) :: l)
          | None => None
          end
      end
  end.

Definition ends_with_nl (s : list N) : bool :=
  match rev s with c :: _ => c =? ch_nl | [] => false end.

Fixpoint add_nl_to_last (ps : list (list N)) : list (list N) :=
  match ps with
  | [] => []
  | [p] => [p ++ [ch_nl]]
  | p :: ps' => p :: add_nl_to_last ps'
  end.

(* PercentFormatString.from_pattern / from_bytes_pattern:
   (specifiers, raw_pieces); None = out of fuel (never with the fuel below) *)
Definition pa_scan (is_bytes : bool) (t : list N) : option (list cspec * list (list N)) :=
  match scan_loop is_bytes (2 * length t + 3) t false with
  | None => None
  | Some ms =>
      let specs := flat_map (fun m => match snd m with Some cs => [cs] | None => [] end) ms in
      let pieces := map fst ms in
      let pieces := if (length pieces =? length specs + 2)%nat then removelast pieces else pieces in
      let pieces := if ends_with_nl t then add_nl_to_last pieces else pieces in
      Some (specs, pieces)
  end.

Definition count_bad_pieces (pieces : list (list N)) : nat :=
  length (filter (fun p => mem ch_pct p) pieces).

(* check_string_format on characters: (lint errors, accept errors) *)
Definition pa_check_chars (is_bytes : bool) (t : list N) (a : args) : option (list lint_err * list acc_err) :=
  match pa_scan is_bytes t with
  | None => None
  | Some (specs, pieces) =>
      Some (pa_lint is_bytes specs (count_bad_pieces pieces), pa_accept is_bytes specs a)
  end.

Definition pa_reports_chars (is_bytes : bool) (t : list N) (a : args) : option bool :=
  match pa_check_chars is_bytes t a with
  | None => None
  | Some (l, e) => Some (nonempty l || nonempty e)
  end.
