(* Format/PyPercent.v — specification: what CPython 3.12 does for
   `template % args` (Objects/unicodeobject.c PyUnicode_Format,
   Objects/bytesobject.c _PyBytes_FormatEx), reduced to the only observable the
   property needs: does formatting raise?

   Parsed layer: [py_run] threads CPython's argument cursor (args / arglen /
   argidx / dict of the C code) through a list of conversion specifiers.
   Character layer: [py_scan] is CPython's own template parser (nested
   parentheses in keys, ASCII digits only, `.` with no digits, one length
   modifier, "incomplete format", "unsupported format character").
   Validated against the running interpreter by the harness on every run.
   No proofs in this file. *)
From Coq Require Import ZArith NArith List Bool.
Import ListNotations.
Require Import PV.Format.Percent.
Open Scope N_scope.

(* the C cursor: a tuple being consumed, or a single non-tuple object *)
Inductive argstate :=
| STuple (rest : list obj)
| SSingle (o : obj) (consumed : bool).

Definition getnext (st : argstate) : option (obj * argstate) :=
  match st with
  | STuple (o :: rest) => Some (o, STuple rest)
  | STuple [] => None                       (* not enough arguments for format string *)
  | SSingle o false => Some (o, SSingle o true)
  | SSingle _ true => None
  end.

Definition leftover (st : argstate) : bool :=
  match st with STuple (_ :: _) => true | SSingle _ false => true | _ => false end.

(* text: PyMapping_Check(args) && !tuple && !str;  bytes: ... && !tuple && !bytes && !str && !bytearray *)
Definition mapping_like (is_bytes : bool) (o : obj) : bool :=
  match o with
  | OOther m => m
  | OStr _ => false
  | OBytes _ => negb is_bytes
  | _ => false
  end.

Definition init_state (a : args) : argstate :=
  match a with
  | ATuple l => STuple l
  | ADict _ => SSingle (OOther true) false
  | AScalar o => SSingle o false
  end.

Definition dict_flag (is_bytes : bool) (a : args) : bool :=
  match a with
  | ATuple _ => false
  | ADict _ => true
  | AScalar o => mapping_like is_bytes o
  end.

(* args[key]: the key of a text template is a str, of a bytes template a bytes *)
Definition key_eqb (is_bytes : bool) (k : list N) (d : dkey) : bool :=
  match d with
  | KStr k' => negb is_bytes && list_eqb k k'
  | KBytes k' => is_bytes && list_eqb k k'
  | KOther => false
  end.

Definition dict_lookup (is_bytes : bool) (a : args) (k : list N) : option obj :=
  match a with
  | ADict kvs => match find (fun p => key_eqb is_bytes k (fst p)) kvs with
                 | Some p => Some (snd p)
                 | None => None              (* KeyError *)
                 end
  | _ => None                                (* list/str/bytes subscripted with a key: TypeError *)
  end.

Definition ssize_max : Z := 9223372036854775807.
Definition int_max : Z := 2147483647.
(* ints >= this round to 2**1024: "int too large to convert to float" *)
Definition float_overflow : Z := (2 ^ 1024 - 2 ^ 970)%Z.

Definition is_idx (c : N) : bool := mem c [111; 120; 88].             (* o x X: PyNumber_Index *)
Definition is_dec (c : N) : bool := mem c [100; 105; 117].            (* d i u: PyNumber_Long *)
Definition is_flt (c : N) : bool := mem c [101; 69; 102; 70; 103; 71]. (* e E f F g G: PyFloat_AsDouble *)

(* the classes are pairwise disjoint, so the order of the tests is immaterial *)
Definition conv_ok (is_bytes : bool) (c : N) (o : obj) : bool :=
  if is_idx c then int_like o
  else if is_dec c then
    match o with OInt _ | OBool _ => true | OFloat fin => fin | _ => false end
  else if is_flt c then
    match o with
    | OInt z => (Z.abs z <? float_overflow)%Z
    | OBool _ | OFloat _ => true
    | _ => false
    end
  else if (c =? ch_a) || (c =? ch_r) then true
  else if c =? ch_c then
    match o with
    | OInt z => (0 <=? z)%Z && (z <? (if is_bytes then 256 else 1114112))%Z
    | OBool _ => true
    | OStr s => negb is_bytes && (length s =? 1)%nat
    | OBytes s => is_bytes && (length s =? 1)%nat
    | _ => false
    end
  else if c =? ch_b then (is_bytes && is_bytes_obj o)   (* 'b' is unsupported in text templates *)
  else if c =? ch_s then (negb is_bytes || is_bytes_obj o)
  else false.                                        (* unsupported format character *)

(* `*`: PyLong_Check, then PyLong_AsSsize_t (width) / PyLong_AsInt (precision) *)
Definition star_ok (is_prec : bool) (o : obj) : bool :=
  int_like o &&
  (if is_prec then (- int_max - 1 <=? int_value o)%Z && (int_value o <=? int_max)%Z
   else (- ssize_max - 1 <=? int_value o)%Z && (int_value o <=? ssize_max)%Z).

Definition num_ok (is_prec : bool) (f : fw) : bool :=
  match f with
  | FNum n => (Z.of_N n <=? (if is_prec then int_max else ssize_max))%Z  (* width/precision too big *)
  | _ => true
  end.

Definition take_star (is_prec : bool) (f : fw) (st : argstate) : option argstate :=
  if is_star f then
    match getnext st with
    | Some (o, st') => if star_ok is_prec o then Some st' else None   (* "* wants int" *)
    | None => None
    end
  else if num_ok is_prec f then Some st else None.

(* one specifier; None = an exception is raised *)
Definition py_step (is_bytes : bool) (a : args) (st : argstate) (cs : cspec) : option argstate :=
  if (c_type cs =? ch_pct) && negb (has_options cs) then Some st      (* "%%" *)
  else
    let st1 :=
      match c_key cs with
      | Some k =>
          if dict_flag is_bytes a then
            match dict_lookup is_bytes a k with
            | Some v => Some (SSingle v false)
            | None => None
            end
          else None                          (* format requires a mapping *)
      | None => Some st
      end in
    match st1 with
    | None => None
    | Some st1 =>
        match take_star false (c_width cs) st1 with
        | None => None
        | Some st2 =>
            match take_star true (c_prec cs) st2 with
            | None => None
            | Some st3 =>
                if c_type cs =? ch_pct then None   (* not enough arguments / unsupported '%' *)
                else match getnext st3 with
                     | Some (o, st4) => if conv_ok is_bytes (c_type cs) o then Some st4 else None
                     | None => None
                     end
            end
        end
    end.

Fixpoint py_steps (is_bytes : bool) (a : args) (st : argstate) (specs : list cspec) : option argstate :=
  match specs with
  | [] => Some st
  | cs :: specs' =>
      match py_step is_bytes a st cs with
      | Some st' => py_steps is_bytes a st' specs'
      | None => None
      end
  end.

(* true = formatting raises *)
Definition py_raises (is_bytes : bool) (specs : list cspec) (a : args) : bool :=
  match py_steps is_bytes a (init_state a) specs with
  | None => true
  | Some st => leftover st && negb (dict_flag is_bytes a)   (* not all arguments converted *)
  end.

(* ================================================================ CPython's template parser *)
(* key with nested parentheses: [depth] open parens so far *)
Fixpoint scan_key (depth : nat) (acc_rev : list N) (s : list N) : option (list N * list N) :=
  match s with
  | [] => None                                           (* incomplete format key *)
  | c :: s' =>
      if c =? ch_rpar then
        match depth with
        | O => Some (rev acc_rev, s')
        | S d => scan_key d (c :: acc_rev) s'
        end
      else if c =? ch_lpar then scan_key (S depth) (c :: acc_rev) s'
      else scan_key depth (c :: acc_rev) s'
  end.

Definition ascii_digits_value (ds : list N) : N := fold_left (fun acc d => acc * 10 + (d - 48)) ds 0.

Definition py_int_field (s : list N) : fw * list N :=
  match s with
  | c :: s' =>
      if c =? ch_star then (FStar, s')
      else let (ds, rest) := span is_ascii_digit s in
           match ds with [] => (FNone, s) | _ => (FNum (ascii_digits_value ds), rest) end
  | [] => (FNone, s)
  end.

(* after a '%': Some (specifier, rest); None = ValueError (incomplete format /
   incomplete format key).  Every character of the regex's conversion class is
   taken as a conversion character here (Percent.spec_tail): CPython rejects any
   other character, and 'b' in a text template, only when it formats the
   argument ("unsupported format character" is raised after the argument was
   fetched) — for 'b' that is what [conv_ok] models; other characters end the
   parse with ValueError, which is a raise in any case. *)
Definition py_parse_spec (is_bytes : bool) (s : list N) : option (cspec * list N) :=
  match s with
  | [] => None                                            (* incomplete format *)
  | c :: s' =>
      if c =? ch_pct then Some (bare ch_pct, s')
      else
        let key_res := if c =? ch_lpar then
                         match scan_key 0 [] s' with
                         | Some (k, rest) => Some (Some k, rest)
                         | None => None
                         end
                       else Some (None, s) in
        match key_res with
        | None => None
        | Some (key, s2) => spec_tail py_int_field (Some (FNum 0)) key s2
        end
  end.

Inductive pyscan := PSOk (specs : list cspec) | PSValueError | PSFuel.

Fixpoint py_scan_loop (is_bytes : bool) (fuel : nat) (s : list N) : pyscan :=
  match fuel with
  | O => PSFuel
  | S fuel' =>
      match s with
      | [] => PSOk []
      | c :: s' =>
          if c =? ch_pct then
            match py_parse_spec is_bytes s' with
            | Some (cs, rest) =>
                match py_scan_loop is_bytes fuel' rest with
                | PSOk l => PSOk (cs :: l)
                | r => r
                end
            | None => PSValueError
            end
          else py_scan_loop is_bytes fuel' s'
      end
  end.

(* fuel = length + 1 always suffices (every iteration consumes a character) *)
Definition py_scan (is_bytes : bool) (t : list N) : pyscan :=
  py_scan_loop is_bytes (S (length t)) t.

(* None = out of fuel *)
Definition py_raises_chars (is_bytes : bool) (t : list N) (a : args) : option bool :=
  match py_scan is_bytes t with
  | PSFuel => None
  | PSValueError => Some true
  | PSOk specs => Some (py_raises is_bytes specs a)
  end.

(* the type of the result when formatting succeeds: true = bytes *)
Definition py_result_is_bytes (is_bytes : bool) : bool := is_bytes.
