(* Format/StrFormat.v — str.format templates.

   Model (pyanalyze):
     [pa_parse]  mirrors format_strings.parse_format_string (_parse_children /
                 _parse_replacement_field, the error list with positions) and
                 returns the replacement fields in iter_replacement_fields order;
     [pa_fields_check] mirrors the field loop of implementation._str_format_impl.
   Specification (CPython 3.12, Objects/stringlib/unicode_format.h):
     [py_parse]  MarkupIterator_next / parse_field / field_name_split /
                 FieldNameIterator — every error that is raised whatever the
                 arguments are, plus the flattened field list;
     [py_fields_raise] automatic/manual numbering and the args/kwargs lookup.
   Characters are N code points; recursion on explicit fuel (None = out of fuel).
   No proofs in this file. *)
From Coq Require Import ZArith NArith List Bool.
Import ListNotations.
Require Import PV.Gen.FormatRe PV.Format.Percent.
Open Scope N_scope.

Definition ch_lbrace : N := 123.
Definition ch_rbrace : N := 125.
Definition ch_lbrack : N := 91.
Definition ch_rbrack : N := 93.
Definition ch_bang : N := 33.
Definition ch_colon : N := 58.
Definition ch_us : N := 95.

Inductive argname := ANone | ANum (n : N) | AName (s : list N).

Record field := mk_field {
  f_name : argname;
  f_path : list (bool * list N);   (* (is_index, text) *)
  f_conv : option N;
  f_has_spec : bool
}.

(* ================================================================ pyanalyze's parser *)
Inductive perr :=
| PExpectedClose          (* expected '}' before end of string *)
| PSingleClose            (* single '}' encountered in format string *)
| PExpectedOneOfAll       (* expected one of '!', '.', ':', '[', '}' *)
| PExpectedOneOfTwo       (* expected one of ':', '}' *)
| PInvalidAttribute
| PExpectedBracket        (* expected ']' before end of string *)
| PUnknownConversion
| PUnexpectedOpen.        (* unexpected '{' in field name *)

Definition specials : list N := [ch_rbrace; ch_dot; ch_lbrack; ch_bang; ch_colon].

Definition is_alpha_us (c : N) : bool :=
  ((65 <=? c) && (c <=? 90)) || ((97 <=? c) && (c <=? 122)) || (c =? ch_us).
(* _IDENTIFIER_REGEX = ^[A-Za-z_][A-Za-z_\d]*$ ; `$` also matches before a final newline *)
Fixpoint ident_tail (s : list N) : bool :=
  match s with
  | [] => true
  | [c] => is_alpha_us c || is_re_digit false c || (c =? ch_nl)
  | c :: s' => (is_alpha_us c || is_re_digit false c) && ident_tail s'
  end.
Definition is_identifier (s : list N) : bool :=
  match s with c :: s' => is_alpha_us c && ident_tail s' | [] => false end.

(* str.isdigit() and int(): ASCII digits and the Arabic-Indic block (see Percent.is_re_digit) *)
Definition all_digits (s : list N) : bool := nonempty s && forallb (is_re_digit false) s.
Definition arg_name_of (cs : list N) : argname :=
  match cs with
  | [] => ANone
  | _ => if all_digits cs then ANum (digits_value cs) else AName cs
  end.

(* parser state: remaining characters, current_index, errors (reversed) *)
Record pstate := mk_ps { ps_rest : list N; ps_pos : N; ps_errs : list (N * perr) }.
Definition ps_next (st : pstate) : option N * pstate :=
  match ps_rest st with
  | c :: r => (Some c, mk_ps r (ps_pos st + 1) (ps_errs st))
  | [] => (None, mk_ps [] (ps_pos st + 1) (ps_errs st))     (* current_index += 1 even at the end *)
  end.
Definition ps_peek (st : pstate) : option N := match ps_rest st with c :: _ => Some c | [] => None end.
Definition ps_err (st : pstate) (e : perr) : pstate := mk_ps (ps_rest st) (ps_pos st) ((ps_pos st, e) :: ps_errs st).

(* attribute characters: peek until a special or the end.  Some (chars, st) | None = hit the end *)
Fixpoint read_attr (fuel : nat) (st : pstate) (acc_rev : list N) : option (list N * pstate) :=
  match fuel with
  | O => None
  | S f =>
      match ps_peek st with
      | None => None
      | Some c => if mem c specials then Some (rev acc_rev, st)
                  else read_attr f (snd (ps_next st)) (c :: acc_rev)
      end
  end.

(* index characters: next() until ']' *)
Fixpoint read_index (fuel : nat) (st : pstate) (acc_rev : list N) : option (list N * pstate) * pstate :=
  match fuel with
  | O => (None, st)
  | S f =>
      match ps_next st with
      | (None, st') => (None, st')
      | (Some c, st') => if c =? ch_rbrack then (Some (rev acc_rev, st'), st')
                         else read_index f st' (c :: acc_rev)
      end
  end.

(* result of a replacement field: the field (None = "" was returned) and the
   fields nested in its format spec *)
Inductive fres := FR (f : option field) (nested : list field) (st : pstate) | FFuel.
Inductive cres := CR (fields : list field) (st : pstate) | CFuel.

Fixpoint pa_children (fuel : nat) (end_at : option N) (st : pstate) : cres :=
  match fuel with
  | O => CFuel
  | S f =>
      match ps_next st with
      | (None, st1) =>
          match end_at with
          | None => CR [] st1
          | Some _ => CR [] (ps_err st1 PExpectedClose)
          end
      | (Some c, st1) =>
          if match end_at with Some e => c =? e | None => false end then CR [] st1
          else if c =? ch_lbrace then
            if match ps_peek st1 with Some d => d =? ch_lbrace | None => false end
            then pa_children f end_at (snd (ps_next st1))
            else match pa_field f st1 [] [] None true with
                 | FFuel => CFuel
                 | FR fo nested st2 =>
                     match pa_children f end_at st2 with
                     | CFuel => CFuel
                     | CR fs st3 => CR ((match fo with Some x => x :: nested | None => [] end) ++ fs) st3
                     end
                 end
          else if c =? ch_rbrace then
            if match ps_peek st1 with Some d => d =? ch_rbrace | None => false end
            then pa_children f end_at (snd (ps_next st1))
            else pa_children f end_at (ps_err st1 PSingleClose)
          else pa_children f end_at st1
      end
  end
(* [all_allowed]: allowed_specials is still the full set *)
with pa_field (fuel : nat) (st : pstate) (name_rev : list N) (path_rev : list (bool * list N))
              (conv : option N) (all_allowed : bool) : fres :=
  match fuel with
  | O => FFuel
  | S f =>
      let finish (has_spec : bool) (nested : list field) (st' : pstate) :=
        FR (Some (mk_field (arg_name_of (rev name_rev)) (rev path_rev) conv has_spec)) nested st' in
      match ps_next st with
      | (None, st1) => FR None [] (ps_err st1 PExpectedClose)
      | (Some c, st1) =>
          if mem c specials then
            if negb (all_allowed || (c =? ch_colon) || (c =? ch_rbrace))
            then FR None [] (ps_err st1 PExpectedOneOfTwo)
            else if c =? ch_rbrace then finish false [] st1
            else if c =? ch_dot then
              match read_attr f st1 [] with
              | None =>
                  (* the end was hit while peeking: every peeked character was consumed *)
                  let n := N.of_nat (length (ps_rest st1)) in
                  FR None [] (ps_err (mk_ps [] (ps_pos st1 + n) (ps_errs st1)) PExpectedClose)
              | Some (attr, st2) =>
                  if is_identifier attr then pa_field f st2 name_rev ((false, attr) :: path_rev) conv all_allowed
                  else FR None [] (ps_err st2 PInvalidAttribute)
              end
            else if c =? ch_lbrack then
              match read_index f st1 [] with
              | (None, st2) => FR None [] (ps_err st2 PExpectedBracket)
              | (Some (idx, st2), _) => pa_field f st2 name_rev ((true, idx) :: path_rev) conv all_allowed
              end
            else if c =? ch_bang then
              match ps_next st1 with
              | (cv, st2) =>
                  if match cv with Some x => mem x format_string_conversions | None => false end then
                    if match ps_peek st2 with Some d => (d =? ch_colon) || (d =? ch_rbrace) | None => false end
                    then pa_field f st2 name_rev path_rev cv false
                    else FR None [] (ps_err st2 PExpectedOneOfTwo)
                  else FR None [] (ps_err st2 PUnknownConversion)
              end
            else (* ':' *)
              match pa_children f (Some ch_rbrace) st1 with
              | CFuel => FFuel
              | CR nested st2 => finish true nested st2
              end
          else if c =? ch_lbrace then FR None [] (ps_err st1 PUnexpectedOpen)
          else pa_field f st1 (c :: name_rev) path_rev conv all_allowed
      end
  end.

(* parse_format_string: (fields in iter_replacement_fields order, errors in order); None = fuel *)
Definition pa_parse (t : list N) : option (list field * list (N * perr)) :=
  match pa_children (2 * length t + 4) None (mk_ps t 0 []) with
  | CFuel => None
  | CR fs st => Some (fs, rev (ps_errs st))
  end.

(* ---------------------------------------------------------------- _str_format_impl *)
Inductive ferr := FTooFew | FOutOfRange | FNotGiven | FUnusedNumbered | FUnusedNamed | FMix.

(* numbering mode: auto_numbering None / True / False in the code, AutoNumber
   (ANS_INIT / ANS_AUTO / ANS_MANUAL) in CPython *)
Inductive anstate := AInit | AAuto | AManual.

Definition name_in (s : list N) (l : list (list N)) : bool := existsb (list_eqb s) l.

(* the loop over parsed.iter_replacement_fields(): (errors, used indices, used names).
   A switch between automatic and manual numbering is reported and the loop goes
   on in the new mode. *)
Fixpoint pa_field_loop (fields : list field) (nargs : N) (kw : list (list N)) (st : anstate) (cur : N)
  : list ferr * list N * list (list N) :=
  match fields with
  | [] => ([], [], [])
  | fd :: fs =>
      match f_name fd with
      | ANone =>
          let '(e, ui, uk) := pa_field_loop fs nargs kw AAuto (cur + 1) in
          ((match st with AManual => [FMix] | _ => [] end)
             ++ (if nargs <=? cur then [FTooFew] else []) ++ e, cur :: ui, uk)
      | ANum i =>
          let '(e, ui, uk) := pa_field_loop fs nargs kw AManual cur in
          ((match st with AAuto => [FMix] | _ => [] end)
             ++ (if nargs <=? i then [FOutOfRange] else []) ++ e, i :: ui, uk)
      | AName s =>
          let '(e, ui, uk) := pa_field_loop fs nargs kw st cur in
          ((if name_in s kw then [] else [FNotGiven]) ++ e, ui, s :: uk)
      end
  end.

Fixpoint range_N (n : nat) : list N :=
  match n with O => [] | S m => range_N m ++ [N.of_nat m] end.

Definition pa_fields_check (fields : list field) (nargs : N) (kw : list (list N)) : list ferr :=
  let '(e, ui, uk) := pa_field_loop fields nargs kw AInit 0 in
  e ++ (if forallb (fun i => mem i ui) (range_N (N.to_nat nargs)) then [] else [FUnusedNumbered])
    ++ (if forallb (fun s => name_in s uk) kw then [] else [FUnusedNamed]).

(* what _str_format_impl shows: the first parse error, else the field errors *)
Inductive freport := RParse (pos : N) (e : perr) | RFields (l : list ferr).
Definition pa_format_check (t : list N) (nargs : N) (kw : list (list N)) : option freport :=
  match pa_parse t with
  | None => None
  | Some (_, (p, e) :: _) => Some (RParse p e)
  | Some (fs, []) => Some (RFields (pa_fields_check fs nargs kw))
  end.

Definition freport_reports (r : freport) : bool :=
  match r with RParse _ _ => true | RFields l => nonempty l end.

(* the documented stricter rule: "... argument(s) were not used" *)
Definition is_unused (e : ferr) : bool :=
  match e with FUnusedNumbered | FUnusedNamed => true | _ => false end.

(* ================================================================ CPython *)

(* automatic/manual numbering + lookup in args / kwargs, field by field; true = raises *)
Fixpoint py_fields_raise (fields : list field) (nargs : N) (kw : list (list N)) (st : anstate) (cur : N) : bool :=
  match fields with
  | [] => false
  | fd :: fs =>
      match f_name fd with
      | ANone =>
          match st with
          | AManual => true                      (* cannot switch from manual to automatic *)
          | _ => (nargs <=? cur) || py_fields_raise fs nargs kw AAuto (cur + 1)
          end
      | ANum i =>
          match st with
          | AAuto => true                        (* cannot switch from automatic to manual *)
          | _ => (nargs <=? i) || py_fields_raise fs nargs kw AManual cur
          end
      | AName s => negb (name_in s kw) || py_fields_raise fs nargs kw st cur
      end
  end.

(* C17-format-auto-manual-mix: both an automatic and a numbered field *)
Definition is_auto (fd : field) : bool := match f_name fd with ANone => true | _ => false end.
Definition is_numbered (fd : field) : bool := match f_name fd with ANum _ => true | _ => false end.
Definition mix_clause (fields : list field) : bool := existsb is_auto fields && existsb is_numbered fields.

(* a field the structural specification fully decides: no attribute/index path,
   no conversion problem, empty format spec *)
Definition simple_field (fd : field) : bool :=
  match f_path fd with [] => negb (f_has_spec fd) | _ => false end.

(* ---- CPython's parser ---- *)
(* first part of a field name: up to the first '.' or '[' *)
Definition py_first_part (s : list N) : list N * list N :=
  span (fun c => negb ((c =? ch_dot) || (c =? ch_lbrack))) s.

(* FieldNameIterator over the rest of the field name: Some path | None = ValueError *)
Fixpoint py_path (fuel : nat) (s : list N) : option (list (bool * list N)) :=
  match fuel with
  | O => None
  | S f =>
      match s with
      | [] => Some []
      | c :: r =>
          if c =? ch_dot then
            let (name, rest) := span (fun x => negb ((x =? ch_dot) || (x =? ch_lbrack))) r in
            match name with
            | [] => None                                   (* Empty attribute in format string *)
            | _ => match py_path f rest with Some p => Some ((false, name) :: p) | None => None end
            end
          else if c =? ch_lbrack then
            let (name, rest) := span (fun x => negb (x =? ch_rbrack)) r in
            match rest with
            | [] => None                                   (* Missing ']' in format string *)
            | _ :: rest' =>
                match name with
                | [] => None                               (* Empty attribute in format string *)
                | _ => match py_path f rest' with Some p => Some ((true, name) :: p) | None => None end
                end
            end
          else None                                        (* Only '.' or '[' may follow ']' *)
      end
  end.

(* parse_field's scan of the field name: stops at '}', ':' or '!' (a '[' skips to
   the next ']').  Some (name, terminator, rest) | None = error *)
Fixpoint py_field_name (fuel : nat) (s : list N) (acc_rev : list N) : option (list N * N * list N) :=
  match fuel with
  | O => None
  | S f =>
      match s with
      | [] => None                                         (* expected '}' before end of string *)
      | c :: r =>
          if c =? ch_lbrace then None                      (* unexpected '{' in field name *)
          else if c =? ch_lbrack then
            let (inside, rest) := span (fun x => negb (x =? ch_rbrack)) r in
            (* the ']' itself is handled by the next iteration (default case) *)
            py_field_name f rest (rev inside ++ c :: acc_rev)
          else if (c =? ch_rbrace) || (c =? ch_colon) || (c =? ch_bang) then Some (rev acc_rev, c, r)
          else py_field_name f r (c :: acc_rev)
      end
  end.

(* the format spec: up to the matching '}' counting nested braces *)
Fixpoint py_spec (fuel : nat) (count : nat) (s : list N) (acc_rev : list N) : option (list N * list N) :=
  match fuel with
  | O => None
  | S f =>
      match s with
      | [] => None                                         (* unmatched '{' in format spec *)
      | c :: r =>
          if c =? ch_lbrace then py_spec f (S count) r (c :: acc_rev)
          else if c =? ch_rbrace then
            match count with
            | O => Some (rev acc_rev, r)
            | S k => py_spec f k r (c :: acc_rev)
            end
          else py_spec f count r (c :: acc_rev)
      end
  end.

Inductive pyres := PYRaise | PYOk (fields : list field) | PYFuel.

(* ---- level 1: MarkupIterator_next + parse_field: split a (sub)template into
   literal characters and raw fields, without looking inside format specs ---- *)
Inductive raw_item :=
| RLit (c : N)
| RFld (name : list N) (conv : option N) (spec : option (list N)).

Inductive rawres := RWRaise | RWOk (items : list raw_item) | RWFuel.

Fixpoint py_lex (fuel : nat) (s : list N) : rawres :=
  match fuel with
  | O => RWFuel
  | S f =>
      let cons_lit (c : N) (r : rawres) :=
        match r with RWOk l => RWOk (RLit c :: l) | other => other end in
      match s with
      | [] => RWOk []
      | c :: r =>
          if c =? ch_rbrace then
            match r with
            | d :: r' => if d =? ch_rbrace then cons_lit c (py_lex f r') else RWRaise
            | [] => RWRaise                                (* Single '}' encountered *)
            end
          else if c =? ch_lbrace then
            match r with
            | [] => RWRaise                                (* Single '{' encountered *)
            | d :: r' =>
                if d =? ch_lbrace then cons_lit c (py_lex f r')
                else
                  match py_field_name f r [] with
                  | None => RWRaise
                  | Some (name, term, rest) =>
                      let after :=
                        if term =? ch_rbrace then Some (None, None, rest)
                        else if term =? ch_colon then
                          match py_spec f 0 rest [] with
                          | Some (sp, rest') => Some (None, Some sp, rest')
                          | None => None
                          end
                        else (* '!' *)
                          match rest with
                          | [] => None                     (* end of string while looking for conversion *)
                          | cv :: rest1 =>
                              match rest1 with
                              | [] => None                 (* unmatched '{' in format spec *)
                              | e :: rest2 =>
                                  if e =? ch_rbrace then Some (Some cv, None, rest2)
                                  else if e =? ch_colon then
                                    match py_spec f 0 rest2 [] with
                                    | Some (sp, rest') => Some (Some cv, Some sp, rest')
                                    | None => None
                                    end
                                  else None                (* expected ':' after conversion specifier *)
                              end
                          end in
                      match after with
                      | None => RWRaise
                      | Some (conv, spec, rest') =>
                          match py_lex f rest' with
                          | RWOk l => RWOk (RFld name conv spec :: l)
                          | other => other
                          end
                      end
                  end
            end
          else cons_lit c (py_lex f r)
      end
  end.

(* ---- level 2: field_name_split, FieldNameIterator, conversion check, and the
   expansion of a format spec that contains '{' (recursion depth 2: a field
   nested in a spec cannot itself have a spec that needs expanding) ---- *)
Record leaf := mk_leaf {
  lf_name : argname; lf_path : list (bool * list N); lf_conv : option N; lf_spec : list N
}.
Inductive sitem := SLit (c : N) | SFld (f : leaf).
Record tfield := mk_tf {
  tf_name : argname; tf_path : list (bool * list N); tf_conv : option N; tf_spec : list sitem
}.
Inductive titem := TLit (c : N) | TFld (f : tfield).

Definition conv_known (conv : option N) : bool :=
  match conv with Some cv => mem cv [114; 115; 97] | None => true end.

(* name part and path of a raw field; None = ValueError *)
Definition split_name (fuel : nat) (name : list N) : option (argname * list (bool * list N)) :=
  let (first, pathtxt) := py_first_part name in
  match py_path fuel pathtxt with
  | Some path => Some (arg_name_of first, path)
  | None => None
  end.

Fixpoint leaf_items (fuel : nat) (items : list raw_item) : option (list sitem) :=
  match items with
  | [] => Some []
  | RLit c :: r => match leaf_items fuel r with Some l => Some (SLit c :: l) | None => None end
  | RFld name conv spec :: r =>
      match split_name fuel name with
      | None => None
      | Some (an, path) =>
          if negb (conv_known conv) then None               (* Unknown conversion specifier *)
          else
            let sp := match spec with Some x => x | None => [] end in
            if mem ch_lbrace sp then None                   (* Max string recursion exceeded *)
            else match leaf_items fuel r with
                 | Some l => Some (SFld (mk_leaf an path conv sp) :: l)
                 | None => None
                 end
      end
  end.

Inductive treeres := TRaise | TOk (items : list titem) | TFuel.
Inductive specres := SRaise | SFuelOut | SOk (items : list sitem).

Definition expand_spec (fuel : nat) (sp : list N) : specres :=
  if mem ch_lbrace sp then
    match py_lex fuel sp with
    | RWOk raw => match leaf_items fuel raw with Some l => SOk l | None => SRaise end
    | RWRaise => SRaise
    | RWFuel => SFuelOut
    end
  else SOk (map SLit sp).

Fixpoint top_items (fuel : nat) (items : list raw_item) : treeres :=
  match items with
  | [] => TOk []
  | RLit c :: r => match top_items fuel r with TOk l => TOk (TLit c :: l) | other => other end
  | RFld name conv spec :: r =>
      match split_name fuel name with
      | None => TRaise
      | Some (an, path) =>
          if negb (conv_known conv) then TRaise
          else
            match expand_spec fuel (match spec with Some x => x | None => [] end) with
            | SRaise => TRaise
            | SFuelOut => TFuel
            | SOk si =>
                match top_items fuel r with
                | TOk l => TOk (TFld (mk_tf an path conv si) :: l)
                | other => other
                end
            end
      end
  end.

Definition py_tree (t : list N) : treeres :=
  let fuel := (2 * length t + 4)%nat in
  match py_lex fuel t with
  | RWRaise => TRaise
  | RWFuel => TFuel
  | RWOk raw => top_items fuel raw
  end.

(* the fields in the order CPython looks them up: a field, then the fields of its spec *)
Definition flatten_tfield (f : tfield) : list field :=
  mk_field (tf_name f) (tf_path f) (tf_conv f) (nonempty (tf_spec f))
  :: flat_map (fun si => match si with
                         | SFld lf => [mk_field (lf_name lf) (lf_path lf) (lf_conv lf) (nonempty (lf_spec lf))]
                         | SLit _ => []
                         end) (tf_spec f).
Definition tree_fields (items : list titem) : list tfield :=
  flat_map (fun it => match it with TFld f => [f] | TLit _ => [] end) items.
Definition flatten_tree (items : list titem) : list field := flat_map flatten_tfield (tree_fields items).

Definition py_parse (t : list N) : pyres :=
  match py_tree t with
  | TRaise => PYRaise
  | TFuel => PYFuel
  | TOk items => PYOk (flatten_tree items)
  end.

(* the verdict of the structural specification *)
Inductive pyverdict := VRaises | VFine | VUndecided | VFuel.
Definition py_format_verdict (t : list N) (nargs : N) (kw : list (list N)) : pyverdict :=
  match py_parse t with
  | PYFuel => VFuel
  | PYRaise => VRaises
  | PYOk fs =>
      if py_fields_raise fs nargs kw AInit 0 then VRaises
      else if forallb simple_field fs then VFine
      else VUndecided         (* attribute/index lookups and __format__ depend on the objects *)
  end.
