(* Format/Typed.v — the %-operator applied to arguments that are statically
   typed but not literal: TypedValue(int|bool|float|str|bytes|other), AnyValue,
   unions of those and of literals, tuples (SequenceValue) of such members, and
   tuples of unknown length.  The per-argument checks are the functions
   translated from the source (Gen/FormatAccept.v) applied to the argument's
   view.  A typed value stands for the set of its run-time members ([conc]).
   Templates with mapping keys are not covered here.  No proofs in this file. *)
From Coq Require Import ZArith NArith List Bool.
Import ListNotations.
Require Import PV.Gen.FormatRe PV.Gen.FormatAccept PV.Format.Percent PV.Format.PyPercent.
Open Scope N_scope.

Inductive ty := TyInt | TyBool | TyFloat | TyStr | TyBytes | TyOther | TyAny.
Inductive aval := AK (o : obj) | AT (t : ty).

(* what is_assignable answers for a TypedValue / AnyValue *)
Definition view_of_ty (t : ty) : argview :=
  let integral := match t with TyInt | TyBool | TyAny => true | _ => false end in
  let numeric := match t with TyInt | TyBool | TyFloat | TyAny => true | _ => false end in
  let bytes := match t with TyBytes | TyAny => true | _ => false end in
  let str := match t with TyStr | TyAny => true | _ => false end in
  mk_view false integral numeric integral bytes str 0%Z false 0%nat.

Definition view_of_aval (a : aval) : argview :=
  match a with AK o => view_of_obj o | AT t => view_of_ty t end.

(* run-time members (isinstance; bool is a subclass of int; TyOther: an object
   that is none of the above and not subscriptable) *)
Definition conc (a : aval) (o : obj) : Prop :=
  match a with
  | AK o' => o = o'
  | AT TyInt => match o with OInt _ | OBool _ => True | _ => False end
  | AT TyBool => match o with OBool _ => True | _ => False end
  | AT TyFloat => match o with OFloat _ => True | _ => False end
  | AT TyStr => match o with OStr _ => True | _ => False end
  | AT TyBytes => match o with OBytes _ => True | _ => False end
  | AT TyOther => o = OOther false
  | AT TyAny => True
  end.

(* an argument position: a union (flatten_values) of alternatives *)
Definition uval := list aval.

Definition serial_accept_v (is_bytes : bool) (s : serial) (v : argview) : list acc_err :=
  match s with
  | SStar _ => gen_star_accept v
  | SSpec cs => gen_accept is_bytes (c_type cs) v
  end.

(* a union as one Value: assignable to T iff every member is *)
Definition view_of_union (u : uval) : argview :=
  mk_view false
          (forallb (fun a => av_integral (view_of_aval a)) u)
          (forallb (fun a => av_numeric (view_of_aval a)) u)
          (forallb (fun a => av_int (view_of_aval a)) u)
          (forallb (fun a => av_bytes (view_of_aval a)) u)
          (forallb (fun a => av_str (view_of_aval a)) u)
          0%Z false 0%nat.

(* ConversionSpecifier.accept checks every member of the union (flatten_values),
   one message per failing member; StarConversionSpecifier.accept tests the
   union as a whole, one message *)
Definition serial_accept_u (is_bytes : bool) (s : serial) (u : uval) : list acc_err :=
  match s with
  | SStar _ => gen_star_accept (view_of_union u)
  | SSpec _ => flat_map (fun a => serial_accept_v is_bytes s (view_of_aval a)) u
  end.

Fixpoint zip_accept_u (is_bytes : bool) (ss : list serial) (us : list uval) : list acc_err :=
  match ss, us with
  | s :: ss', u :: us' => serial_accept_u is_bytes s u ++ zip_accept_u is_bytes ss' us'
  | _, _ => []
  end.

Inductive targs :=
| TTuple (l : list uval)      (* a tuple with known members *)
| TOpaque                     (* a tuple whose contents or length are unknown: accepted *)
| TScalar (u : aval).         (* one alternative of a non-tuple argument *)

(* accept_tuple_args_no_mvv *)
Definition accept_tuple_typed (is_bytes : bool) (specs : list cspec) (ta : targs) : list acc_err :=
  match ta with
  | TOpaque => []
  | _ =>
      let all_args := match ta with TTuple l => l | TScalar a => [[a]] | TOpaque => [] end in
      let ss := serial_specifiers specs in
      if (length all_args <? length ss)%nat then [ETooFew]
      else if (length ss <? length all_args)%nat then [ETooMany]
      else zip_accept_u is_bytes ss all_args
  end.

(* concrete argument tuples denoted by a typed one: one member of each union,
   then one run-time object of that member *)
Definition conc_u (u : uval) (o : obj) : Prop := exists a, In a u /\ conc a o.
