(* Infer/Mini.v — C01: a self-contained mini-language with
   (a) a big-step concrete semantics producing a trace of (node label, runtime object), and
   (b) `infer`, an abstract interpreter that composes its pieces the way pyanalyze's visitor does:
       value of a name = value bound by the reaching definitions (joined at control-flow merges),
       narrowed by the active constraints; subscripts with literal index; IfExp; bool ops;
       the C02 condition kinds (truthiness, `is None`, isinstance, `== literal`, not/and/or);
       statements: assignment, if/else, while with a *checked* loop invariant, return.
   No proofs in this file.  Stdlib style only. *)
From Coq Require Import ZArith List Bool Lia.
Import ListNotations.

(* ------------------------------------------------------------------ objects *)

Inductive obj : Type :=
| ONone
| OBool (b : bool)
| OInt (z : Z)
| OStr (s : nat)
| OTuple (l : list obj).

Inductive cls : Type := CObject | CInt | CBool | CStr | CTuple | CNoneT.

Definition cls_eqb (a b : cls) : bool :=
  match a, b with
  | CObject, CObject | CInt, CInt | CBool, CBool | CStr, CStr | CTuple, CTuple | CNoneT, CNoneT => true
  | _, _ => false
  end.

(* nominal subclass relation of the runtime: bool < int < object *)
Definition subcls (a b : cls) : bool :=
  match b with
  | CObject => true
  | _ => cls_eqb a b || (cls_eqb a CBool && cls_eqb b CInt)
  end.

Definition class_of (o : obj) : cls :=
  match o with
  | ONone => CNoneT | OBool _ => CBool | OInt _ => CInt | OStr _ => CStr | OTuple _ => CTuple
  end.

Definition isinst (o : obj) (c : cls) : bool := subcls (class_of o) c.

(* same type and equal: what KnownValue(o) denotes *)
Fixpoint obj_eqb (a b : obj) : bool :=
  match a, b with
  | ONone, ONone => true
  | OBool x, OBool y => Bool.eqb x y
  | OInt x, OInt y => Z.eqb x y
  | OStr x, OStr y => Nat.eqb x y
  | OTuple xs, OTuple ys =>
      (fix go (xs ys : list obj) : bool :=
         match xs, ys with
         | [], [] => true
         | x :: xs', y :: ys' => obj_eqb x y && go xs' ys'
         | _, _ => false
         end) xs ys
  | _, _ => false
  end.

(* Python's == on these objects: bool and int compare numerically *)
Definition num_of (o : obj) : option Z :=
  match o with
  | OBool b => Some (if b then 1%Z else 0%Z)
  | OInt z => Some z
  | _ => None
  end.

Fixpoint py_eq (a b : obj) : bool :=
  match num_of a, num_of b with
  | Some x, Some y => Z.eqb x y
  | _, _ =>
    match a, b with
    | ONone, ONone => true
    | OStr x, OStr y => Nat.eqb x y
    | OTuple xs, OTuple ys =>
        (fix go (xs ys : list obj) : bool :=
           match xs, ys with
           | [], [] => true
           | x :: xs', y :: ys' => py_eq x y && go xs' ys'
           | _, _ => false
           end) xs ys
    | _, _ => false
    end
  end.

Definition truthy (o : obj) : bool :=
  match o with
  | ONone => false
  | OBool b => b
  | OInt z => negb (Z.eqb z 0)
  | OStr s => negb (Nat.eqb s 0)      (* string code 0 is the empty string *)
  | OTuple l => match l with [] => false | _ => true end
  end.

(* ------------------------------------------------------------------ abstract values *)

Inductive val : Type :=
| VAny
| VKnown (o : obj)                (* KnownValue *)
| VTyped (c : cls)                (* TypedValue *)
| VSeq (l : list val)             (* SequenceValue(tuple, members), no unpacked member *)
| VUnion (l : list val).          (* MultiValuedValue; VUnion [] is Never *)

Definition VNever : val := VUnion [].

(* the membership relation (specification side) *)
Fixpoint member (o : obj) (v : val) {struct v} : bool :=
  match v with
  | VAny => true
  | VKnown k => obj_eqb o k
  | VTyped c => isinst o c
  | VSeq vs =>
      match o with
      | OTuple os =>
          (fix go (os : list obj) (vs : list val) {struct vs} : bool :=
             match os, vs with
             | [], [] => true
             | o' :: os', v' :: vs' => member o' v' && go os' vs'
             | _, _ => false
             end) os vs
      | _ => false
      end
  | VUnion vs =>
      (fix ex (vs : list val) : bool :=
         match vs with
         | [] => false
         | v' :: vs' => member o v' || ex vs'
         end) vs
  end.

Definition unite (a b : val) : val :=
  match a, b with
  | VUnion xs, VUnion ys => VUnion (xs ++ ys)
  | VUnion xs, _ => VUnion (xs ++ [b])
  | _, VUnion ys => VUnion (a :: ys)
  | _, _ => VUnion [a; b]
  end.

(* ------------------------------------------------------------------ constraints (C02 kinds) *)

Inductive atomc : Type :=
| KTruthy                 (* is_truthy *)
| KIsNone                 (* x is None     (EqualsPredicate(None, use_is)) *)
| KIsInst (c : cls)       (* isinstance(x, c)   (IsAssignablePredicate) *)
| KEq (o : obj).          (* x == literal  (EqualsPredicate) *)

Inductive constr : Type :=
| CNull
| CAtom (x : nat) (k : atomc) (positive : bool)
| CAnd (a b : constr)
| COr (a b : constr).

Fixpoint cinvert (c : constr) : constr :=
  match c with
  | CNull => CNull
  | CAtom x k p => CAtom x k (negb p)
  | CAnd a b => COr (cinvert a) (cinvert b)
  | COr a b => CAnd (cinvert a) (cinvert b)
  end.

(* does the atomic condition hold of a runtime object? *)
Definition atom_holds (k : atomc) (o : obj) : bool :=
  match k with
  | KTruthy => truthy o
  | KIsNone => match o with ONone => true | _ => false end
  | KIsInst c => isinst o c
  | KEq l => py_eq o l
  end.

Definition overlap (a b : cls) : bool := subcls a b || subcls b a.

(* narrowing of one non-union value; None = the value is excluded *)
Definition narrow1 (k : atomc) (positive : bool) (v : val) : option val :=
  match k with
  | KTruthy =>
      match v with
      | VKnown o => if Bool.eqb (truthy o) positive then Some v else None
      | VSeq [] => if positive then None else Some v
      | VSeq (_ :: _) => if positive then Some v else None
      | _ => Some v
      end
  | KIsNone =>
      if positive then
        match v with
        | VKnown ONone => Some v
        | VKnown _ => None
        | VAny => Some (VKnown ONone)
        | VTyped c => if subcls CNoneT c then Some (VKnown ONone) else None
        | VSeq _ => None
        | VUnion _ => Some v
        end
      else
        match v with
        | VKnown ONone => None
        | _ => Some v
        end
  | KIsInst c =>
      match v with
      | VAny => if positive then Some (VTyped c) else Some v
      | VKnown o => if Bool.eqb (isinst o c) positive then Some v else None
      | VTyped d =>
          if positive then
            (if subcls d c then Some v else if subcls c d then Some (VTyped c) else None)
          else (if subcls d c then None else Some v)
      | VSeq _ =>
          if positive then (if subcls CTuple c then Some v else None)
          else (if subcls CTuple c then None else Some v)
      | VUnion _ => Some v
      end
  | KEq l =>
      match v with
      | VKnown o => if Bool.eqb (py_eq o l) positive then Some v else None
      | VAny => if positive then Some (VKnown l) else Some v
      | VTyped c =>
          if positive then (if isinst l c then Some (VKnown l) else None)
          else
            match l, c with
            | OBool b, CBool => Some (VKnown (OBool (negb b)))
            | _, _ => Some v
            end
      | VSeq _ => if positive then None else Some v    (* only atom literals are compared *)
      | VUnion _ => Some v
      end
  end.

Definition flat (v : val) : list val :=
  match v with
  | VUnion l => l
  | _ => [v]
  end.

Fixpoint filter_map_narrow (k : atomc) (p : bool) (vs : list val) : list val :=
  match vs with
  | [] => []
  | v :: r =>
      match narrow1 k p v with
      | Some w => w :: filter_map_narrow k p r
      | None => filter_map_narrow k p r
      end
  end.

Definition narrow_val (k : atomc) (p : bool) (v : val) : val :=
  match filter_map_narrow k p (flat v) with
  | [w] => w
  | ws => VUnion ws
  end.

(* abstract environments: association lists *)
Definition aenv := list (nat * val).

Fixpoint alookup (s : aenv) (x : nat) : option val :=
  match s with
  | [] => None
  | (y, v) :: r => if Nat.eqb x y then Some v else alookup r x
  end.

Definition aset (s : aenv) (x : nat) (v : val) : aenv := (x, v) :: s.

Fixpoint amap_var (s : aenv) (x : nat) (f : val -> val) : aenv :=
  match s with
  | [] => []
  | (y, v) :: r => if Nat.eqb x y then (y, f v) :: r else (y, v) :: amap_var r x f
  end.

(* join of two environments: a variable survives only if bound in both *)
Fixpoint ajoin (a b : aenv) : aenv :=
  match a with
  | [] => []
  | (x, v) :: r =>
      match alookup b x with
      | Some w => (x, unite v w) :: ajoin r b
      | None => ajoin r b
      end
  end.

(* apply a constraint to an abstract environment.  Or-constraints narrow each variable to
   the union of what either side leaves. *)
Fixpoint apply_constr (c : constr) (s : aenv) : aenv :=
  match c with
  | CNull => s
  | CAtom x k p => amap_var s x (narrow_val k p)
  | CAnd a b => apply_constr b (apply_constr a s)
  | COr a b => ajoin (apply_constr a s) (apply_constr b s)
  end.

(* ------------------------------------------------------------------ expressions *)

Inductive expr : Type :=
| ELit (n : nat) (o : obj)                  (* atom literal *)
| EName (n : nat) (x : nat)
| ETuple (n : nat) (es : list expr)
| ESub (n : nat) (e : expr) (i : Z)         (* e[i], literal index *)
| EIfExp (n : nat) (c a b : expr)
| EIsNone (n : nat) (e : expr)              (* e is None *)
| EIsInst (n : nat) (e : expr) (c : cls)
| EEq (n : nat) (e : expr) (l : obj)        (* e == literal *)
| ENot (n : nat) (e : expr)
| EAnd (n : nat) (a b : expr)
| EOr (n : nat) (a b : expr)
| EAdd (n : nat) (a b : expr)               (* a + b on ints (bool counts as int); anything else raises *)
| ECallId (n : nat) (e : expr)              (* call of a generic identity function  def f(x: T) -> T *)
| ECallInt (n : nat) (e : expr).            (* call of an annotated function  def f(x: int) -> int  (returns x + 1) *)

(* the constraint a condition expression carries (extract_constraints of its value) *)
Definition var_of (e : expr) : option nat :=
  match e with EName _ x => Some x | _ => None end.

Fixpoint constraint_of (e : expr) : constr :=
  match e with
  | EName _ x => CAtom x KTruthy true
  | EIsNone _ e' => match var_of e' with Some x => CAtom x KIsNone true | None => CNull end
  | EIsInst _ e' c => match var_of e' with Some x => CAtom x (KIsInst c) true | None => CNull end
  | EEq _ e' l => match var_of e' with Some x => CAtom x (KEq l) true | None => CNull end
  | ENot _ e' => cinvert (constraint_of e')
  | EAnd _ a b => CAnd (constraint_of a) (constraint_of b)
  | EOr _ a b => COr (constraint_of a) (constraint_of b)
  | _ => CNull
  end.

(* --- concrete semantics: environments, traces *)

Definition env := list (nat * obj).

Fixpoint lookup (r : env) (x : nat) : option obj :=
  match r with
  | [] => None
  | (y, o) :: q => if Nat.eqb x y then Some o else lookup q x
  end.

Definition trace := list (nat * obj).

(* index into a tuple, Python semantics for negative indices *)
Definition tuple_index {A} (l : list A) (i : Z) : option A :=
  let n := Z.of_nat (length l) in
  if (0 <=? i)%Z then (if (i <? n)%Z then nth_error l (Z.to_nat i) else None)
  else (if (0 <=? n + i)%Z then nth_error l (Z.to_nat (n + i)) else None).

(* eval returns the trace of every evaluated node so far, and the value (None = an exception was raised) *)
Fixpoint eval (r : env) (e : expr) : trace * option obj :=
  let ret (n : nat) (t : trace) (o : obj) := (t ++ [(n, o)], Some o) in
  match e with
  | ELit n o => ret n [] o
  | EName n x => match lookup r x with Some o => ret n [] o | None => ([], None) end
  | ETuple n es =>
      let fix go (es : list expr) : trace * option (list obj) :=
        match es with
        | [] => ([], Some [])
        | e' :: q =>
            match eval r e' with
            | (t1, Some o) =>
                match go q with
                | (t2, Some os) => (t1 ++ t2, Some (o :: os))
                | (t2, None) => (t1 ++ t2, None)
                end
            | (t1, None) => (t1, None)
            end
        end in
      match go es with
      | (t, Some os) => ret n t (OTuple os)
      | (t, None) => (t, None)
      end
  | ESub n e' i =>
      match eval r e' with
      | (t, Some (OTuple os)) =>
          match tuple_index os i with Some o => ret n t o | None => (t, None) end
      | (t, _) => (t, None)
      end
  | EIfExp n c a b =>
      match eval r c with
      | (t, Some oc) =>
          match eval r (if truthy oc then a else b) with
          | (t2, Some o) => ret n (t ++ t2) o
          | (t2, None) => (t ++ t2, None)
          end
      | (t, None) => (t, None)
      end
  | EIsNone n e' =>
      match eval r e' with
      | (t, Some o) => ret n t (OBool (atom_holds KIsNone o))
      | (t, None) => (t, None)
      end
  | EIsInst n e' c =>
      match eval r e' with
      | (t, Some o) => ret n t (OBool (isinst o c))
      | (t, None) => (t, None)
      end
  | EEq n e' l =>
      match eval r e' with
      | (t, Some o) => ret n t (OBool (py_eq o l))
      | (t, None) => (t, None)
      end
  | ENot n e' =>
      match eval r e' with
      | (t, Some o) => ret n t (OBool (negb (truthy o)))
      | (t, None) => (t, None)
      end
  | EAnd n a b =>
      match eval r a with
      | (t, Some oa) =>
          if truthy oa then
            match eval r b with
            | (t2, Some ob) => ret n (t ++ t2) ob
            | (t2, None) => (t ++ t2, None)
            end
          else ret n t oa
      | (t, None) => (t, None)
      end
  | EOr n a b =>
      match eval r a with
      | (t, Some oa) =>
          if truthy oa then ret n t oa
          else
            match eval r b with
            | (t2, Some ob) => ret n (t ++ t2) ob
            | (t2, None) => (t ++ t2, None)
            end
      | (t, None) => (t, None)
      end
  | EAdd n a b =>
      match eval r a with
      | (t, Some oa) =>
          match eval r b with
          | (t2, Some ob) =>
              match num_of oa, num_of ob with
              | Some x, Some y => ret n (t ++ t2) (OInt (x + y))
              | _, _ => (t ++ t2, None)
              end
          | (t2, None) => (t ++ t2, None)
          end
      | (t, None) => (t, None)
      end
  | ECallId n e' =>
      match eval r e' with
      | (t, Some o) => ret n t o
      | (t, None) => (t, None)
      end
  | ECallInt n e' =>
      match eval r e' with
      | (t, Some o) =>
          match num_of o with
          | Some x => ret n t (OInt (x + 1))
          | None => (t, None)
          end
      | (t, None) => (t, None)
      end
  end.

(* --- abstract interpretation of expressions: annotations (label -> inferred value) and the value;
   None = outside the fragment (unbound name, subscript of a non-sequence, index out of range) *)

Definition annots := list (nat * val).

Definition seq_getitem (v : val) (i : Z) : option val :=
  let one (w : val) : option val :=
    match w with
    | VSeq vs => tuple_index vs i
    | VKnown (OTuple os) => option_map VKnown (tuple_index os i)
    | VAny => Some VAny
    | _ => None
    end in
  match v with
  | VUnion ws =>
      (fix go (ws : list val) : option val :=
         match ws with
         | [] => Some VNever
         | w :: q =>
             match one w, go q with
             | Some a, Some b => Some (unite a b)
             | _, _ => None
             end
         end) ws
  | _ => one v
  end.

(* every member is an int or bool value (what int.__add__ / an `int` parameter accept) *)
Definition intlike1 (v : val) : bool :=
  match v with
  | VKnown (OInt _) | VKnown (OBool _) => true
  | VTyped CInt | VTyped CBool => true
  | _ => false
  end.

Definition intlike (v : val) : bool :=
  match flat v with
  | [] => false
  | l => forallb intlike1 l
  end.

(* int + int: literal arithmetic on two known values, `int` otherwise *)
Definition add_val (a b : val) : option val :=
  match a, b with
  | VKnown oa, VKnown ob =>
      match num_of oa, num_of ob with
      | Some x, Some y => Some (VKnown (OInt (x + y)))
      | _, _ => None
      end
  | _, _ => if intlike a && intlike b then Some (VTyped CInt) else None
  end.

Fixpoint infer (s : aenv) (e : expr) : option (annots * val) :=
  let ret (n : nat) (a : annots) (v : val) := Some (a ++ [(n, v)], v) in
  match e with
  | ELit n o => ret n [] (VKnown o)
  | EName n x => match alookup s x with Some v => ret n [] v | None => None end
  | ETuple n es =>
      let fix go (es : list expr) : option (annots * list val) :=
        match es with
        | [] => Some ([], [])
        | e' :: q =>
            match infer s e', go q with
            | Some (a1, v), Some (a2, vs) => Some (a1 ++ a2, v :: vs)
            | _, _ => None
            end
        end in
      match go es with
      | Some (a, vs) => ret n a (VSeq vs)
      | None => None
      end
  | ESub n e' i =>
      match infer s e' with
      | Some (a, v) => match seq_getitem v i with Some w => ret n a w | None => None end
      | None => None
      end
  | EIfExp n c a b =>
      match infer s c with
      | Some (ac, _) =>
          let k := constraint_of c in
          match infer (apply_constr k s) a, infer (apply_constr (cinvert k) s) b with
          | Some (aa, va), Some (ab, vb) => ret n (ac ++ aa ++ ab) (unite va vb)
          | _, _ => None
          end
      | None => None
      end
  | EIsNone n e' | EIsInst n e' _ | EEq n e' _ | ENot n e' =>
      match infer s e' with
      | Some (a, _) => ret n a (VTyped CBool)
      | None => None
      end
  | EAnd n a b =>
      match infer s a with
      | Some (aa, va) =>
          match infer (apply_constr (constraint_of a) s) b with
          | Some (ab, vb) => ret n (aa ++ ab) (unite (narrow_val KTruthy false va) vb)
          | None => None
          end
      | None => None
      end
  | EOr n a b =>
      match infer s a with
      | Some (aa, va) =>
          match infer (apply_constr (cinvert (constraint_of a)) s) b with
          | Some (ab, vb) => ret n (aa ++ ab) (unite (narrow_val KTruthy true va) vb)
          | None => None
          end
      | None => None
      end
  | EAdd n a b =>
      match infer s a, infer s b with
      | Some (aa, va), Some (ab, vb) =>
          match add_val va vb with
          | Some w => ret n (aa ++ ab) w
          | None => None
          end
      | _, _ => None
      end
  | ECallId n e' =>
      match infer s e' with
      | Some (a, v) => ret n a v
      | None => None
      end
  | ECallInt n e' =>
      match infer s e' with
      | Some (a, v) => if intlike v then ret n a (VTyped CInt) else None
      | None => None
      end
  end.

(* ------------------------------------------------------------------ statements *)

Inductive stmt : Type :=
| SAssign (x : nat) (e : expr)
| SIf (c : expr) (a b : list stmt)
| SWhile (n : nat) (c : expr) (body : list stmt)     (* n: label of the loop (selects its invariant) *)
| SReturn (e : expr).

(* outcome of running a block *)
Inductive outcome : Type :=
| Normal (r : env)
| Returned (o : obj)
| Raised
| OutOfFuel.

Fixpoint exec (fuel : nat) (r : env) (ss : list stmt) {struct fuel} : trace * outcome :=
  match fuel with
  | O => ([], OutOfFuel)
  | S fuel' =>
      match ss with
      | [] => ([], Normal r)
      | SAssign x e :: q =>
          match eval r e with
          | (t, Some o) => let '(t2, out) := exec fuel' ((x, o) :: r) q in (t ++ t2, out)
          | (t, None) => (t, Raised)
          end
      | SIf c a b :: q =>
          match eval r c with
          | (t, Some oc) =>
              match exec fuel' r (if truthy oc then a else b) with
              | (t2, Normal r') => let '(t3, out) := exec fuel' r' q in (t ++ t2 ++ t3, out)
              | (t2, out) => (t ++ t2, out)
              end
          | (t, None) => (t, Raised)
          end
      | SWhile n c body :: q =>
          match eval r c with
          | (t, Some oc) =>
              if truthy oc then
                match exec fuel' r body with
                | (t2, Normal r') => let '(t3, out) := exec fuel' r' (SWhile n c body :: q) in (t ++ t2 ++ t3, out)
                | (t2, out) => (t ++ t2, out)
                end
              else let '(t3, out) := exec fuel' r q in (t ++ t3, out)
          | (t, None) => (t, Raised)
          end
      | SReturn e :: q =>
          match eval r e with
          | (t, Some o) => (t, Returned o)
          | (t, None) => (t, Raised)
          end
      end
  end.

(* --- a sound, syntactic approximation of "every object of v is an object of w" *)
Fixpoint val_eqb (a b : val) : bool :=
  match a, b with
  | VAny, VAny => true
  | VKnown x, VKnown y => obj_eqb x y
  | VTyped c, VTyped d => cls_eqb c d
  | VSeq xs, VSeq ys | VUnion xs, VUnion ys =>
      (fix go (xs ys : list val) : bool :=
         match xs, ys with
         | [], [] => true
         | x :: xs', y :: ys' => val_eqb x y && go xs' ys'
         | _, _ => false
         end) xs ys
  | _, _ => false
  end.

Definition le1 (v w : val) : bool :=
  match w with
  | VAny => true
  | _ =>
    val_eqb v w ||
    match v, w with
    | VKnown o, VTyped c => isinst o c
    | VTyped c, VTyped d => subcls c d
    | VSeq _, VTyped d => subcls CTuple d
    | _, _ => false
    end
  end.

Definition val_le (v w : val) : bool :=
  forallb (fun v1 => existsb (le1 v1) (flat w)) (flat v).

(* every variable bound in the bigger environment is bound, to a smaller value, in the smaller one *)
Definition aenv_le (a b : aenv) : bool :=
  forallb (fun xw => match alookup a (fst xw) with Some v => val_le v (snd xw) | None => false end) b.

(* abstract execution.  `inv n` is a candidate invariant for the loop labelled n (what the
   reaching-definitions analysis provides); it is *checked* here, so soundness needs no hypothesis
   about it.  Result: annotations, the environment after the block (None = the block always returns),
   None overall = outside the fragment / invariant check failed. *)
Section AbstractExec.
  Variable inv : nat -> aenv.

  Definition join_opt (a b : option aenv) : option aenv :=
    match a, b with
    | Some x, Some y => Some (ajoin x y)
    | Some x, None => Some x
    | None, y => y
    end.

  (* abstract execution of a block, given the abstract execution of one statement *)
  Definition ablock (f : stmt -> aenv -> option (annots * option aenv)) :=
    fix go (ss : list stmt) (s : aenv) {struct ss} : option (annots * option aenv) :=
      match ss with
      | [] => Some ([], Some s)
      | st :: q =>
          match f st s with
          | Some (a1, Some s1) =>
              match go q s1 with
              | Some (a2, out) => Some (a1 ++ a2, out)
              | None => None
              end
          | Some (a1, None) => Some (a1, None)      (* the rest is unreachable: not analysed *)
          | None => None
          end
      end.

  Fixpoint aexec1 (st : stmt) (s : aenv) {struct st} : option (annots * option aenv) :=
    match st with
    | SAssign x e =>
        match infer s e with
        | Some (a, v) => Some (a, Some (aset s x v))
        | None => None
        end
    | SIf c a b =>
        match infer s c with
        | Some (ac, _) =>
            let k := constraint_of c in
            match ablock aexec1 a (apply_constr k s), ablock aexec1 b (apply_constr (cinvert k) s) with
            | Some (aa, sa), Some (ab, sb) => Some (ac ++ aa ++ ab, join_opt sa sb)
            | _, _ => None
            end
        | None => None
        end
    | SWhile n c body =>
        let i := inv n in
        if aenv_le s i then
          match infer i c with
          | Some (ac, _) =>
              let k := constraint_of c in
              match ablock aexec1 body (apply_constr k i) with
              | Some (ab, Some s') =>
                  if aenv_le s' i then Some (ac ++ ab, Some (apply_constr (cinvert k) i)) else None
              | Some (ab, None) => Some (ac ++ ab, Some (apply_constr (cinvert k) i))
              | None => None
              end
          | None => None
          end
        else None
    | SReturn e =>
        match infer s e with
        | Some (a, _) => Some (a, None)
        | None => None
        end
    end.

  Definition aexec (ss : list stmt) (s : aenv) : option (annots * option aenv) := ablock aexec1 ss s.
End AbstractExec.

(* the property on one run: every trace entry is a member of an annotation of its node *)
Definition entry_ok (a : annots) (e : nat * obj) : bool :=
  existsb (fun nv => Nat.eqb (fst nv) (fst e) && member (snd e) (snd nv)) a.

Definition trace_ok (a : annots) (t : trace) : bool := forallb (entry_ok a) t.

(* concrete environment is described by the abstract one *)
Definition env_ok (r : env) (s : aenv) : Prop :=
  forall x v, alookup s x = Some v -> exists o, lookup r x = Some o /\ member o v = true.

(* executable version for argument tuples *)
Definition env_okb (r : env) (s : aenv) : bool :=
  forallb (fun xv => match lookup r (fst xv) with Some o => member o (snd xv) | None => false end) s.

(* whole check of one program on one argument environment (used by the correspondence) *)
Definition run_check (inv : nat -> aenv) (fuel : nat) (params : aenv) (args : env) (body : list stmt) : option bool :=
  match aexec inv body params with
  | Some (a, _) => Some (trace_ok a (fst (exec fuel args body)))
  | None => None
  end.
