(* Lines/Fixer.v — executable model of the automatic-fix machinery of
   node_visitor.BaseNodeVisitor (C16):

     Replacement                               -> replacement
     _apply_changes_to_lines (first change)    -> apply_changes
     show_error lines 687-699 (add_ignores)    -> add_ignore_repl
     one run with add_ignores + apply          -> fix_step
     `while _run_and_apply_changes(...)`       -> iterate  (explicit fuel)

   One run of the checker is `Suppress.emit` on the file and the raw stream;
   the raw stream of the rewritten file is the old one moved down with its
   lines (`shift_diag`) — inserting a comment line changes no ast node.
   Definitions only. *)
From Coq Require Import List Bool NArith Arith.
Import ListNotations.
Require Import PV.Lines.Text PV.Lines.Suppress PV.Lines.Place.

Record replacement := mk_repl {
  r_del : list nat;               (* linenos_to_delete, 1-based *)
  r_add : option (list line)      (* lines_to_add; None: nothing to apply *)
}.

(* del lines[i] *)
Fixpoint del_at {A} (i : nat) (l : list A) : list A :=
  match l, i with
  | [], _ => []
  | _ :: r, 0 => r
  | x :: r, S j => x :: del_at j r
  end.

Fixpoint insert_desc (x : nat) (l : list nat) : list nat :=
  match l with
  | [] => [x]
  | y :: r => if y <? x then x :: y :: r else y :: insert_desc x r
  end.
(* sorted(l, reverse=True) *)
Definition sort_desc (l : list nat) : list nat := fold_right insert_desc [] l.

(* _apply_changes_to_lines *)
Definition apply_changes (changes : list replacement) (lines : file) : file :=
  match changes with
  | [] => lines
  | change :: _ =>
      match r_add change with
      | None => lines
      | Some additions =>
          let max_line := list_max (r_del change) in
          let lines1 := firstn max_line lines ++ additions ++ skipn max_line lines in
          fold_left (fun ls lineno => del_at (lineno - 1) ls) (sort_desc (r_del change)) lines1
      end
  end.

(* a line that holds nothing but a comment: inserting or removing such lines
   does not change the token stream of a file that parsed *)
Definition comment_only (l : line) : bool := starts_hash (lstrip l).
Definition code_lines (f : file) : file := filter (fun l => negb (comment_only l)) f.

Section Fixer.
  Context (IGN : list N) (name : N -> list N).

  (* the stripped line starts with the ignore text: covers own_bare and own_tag c for every c *)
  Definition own_any (l : line) : bool := prefix IGN (strip l).

  (* show_error with add_ignores (after the repair repo_fixes/C16-add-ignore-trailing-fallback):
     a comment line above the reported line, unless that would separate another ignore comment from
     the line, split a backslash continuation, or become a file-level ignore — then a trailing comment *)
  Definition use_trailing (f : file) (ln : nat) : bool :=
    let this_line := line_at f (ln - 1) in
    let prev_line := if 2 <=? ln then line_at f (ln - 2) else [] in
    negb (ends_backslash (rstrip this_line))
    && (own_any prev_line || ends_backslash (rstrip prev_line)
        || (Nat.eqb (indentation this_line) 0 && forallb starts_hash (firstn (ln - 1) f))).

  Definition trail_line (l : line) (c : N) : line := rstrip l ++ [space_char; space_char] ++ tag IGN name c.

  Definition add_ignore_repl (f : file) (ln : nat) (c : N) : replacement :=
    let this_line := line_at f (ln - 1) in
    if use_trailing f ln
    then mk_repl [ln] (Some [trail_line this_line c])
    else mk_repl [ln] (Some [comment_line IGN name (indentation this_line) (Some c); this_line]).

  Definition first_lined (out : list diag) : option diag :=
    find (fun d => match d_line d with Some _ => true | None => false end) out.

  (* one run with add_ignores=True followed by _apply_changes: only the first replacement of the
     file is applied.  None: nothing is applied (no diagnostic with a line; or the first one does not
     obey ignore comments — unused_ignore / bare_ignore reports — whose own replacement, built by
     show_errors_for_unused_ignores, is outside this model) *)
  Definition fix_step (st : settings) (U B : N) (f : file) (raw : list diag) : option (file * list diag) :=
    match first_lined (emit IGN name st f U B raw) with
    | None => None
    | Some d =>
        match d_line d with
        | None => None
        | Some ln =>
            if negb (d_obey d) then None
            else Some (apply_changes [add_ignore_repl f ln (d_code d)] f,
                       if use_trailing f ln then raw else map (shift_diag ln) raw)
        end
    end.

  (* repeat until no replacement is proposed; None: out of fuel *)
  Fixpoint iterate (fuel : nat) (st : settings) (U B : N) (f : file) (raw : list diag)
    : option (file * list diag) :=
    match fix_step st U B f raw with
    | None => Some (f, raw)
    | Some (f', raw') =>
        match fuel with
        | 0 => None
        | S k => iterate k st U B f' raw'
        end
    end.
End Fixer.
