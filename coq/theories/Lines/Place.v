(* Lines/Place.v — vocabulary for "placing a comment" (C11, C16): replacing a
   line, inserting a line, moving diagnostics down with their lines.
   Definitions only. *)
From Coq Require Import List Bool NArith Arith.
Import ListNotations.
Require Import PV.Lines.Text PV.Lines.Suppress.

(* lines[i] = L *)
Definition set_line (i : nat) (L : line) (f : file) : file := firstn i f ++ L :: skipn (S i) f.
(* lines[i:i] = [C]  (C becomes line i+1; the old line i+1 becomes i+2) *)
Definition insert_line (i : nat) (C : line) (f : file) : file := firstn i f ++ C :: skipn i f.

(* the diagnostic is on line n (1-based) and obeys ignore comments *)
Definition targets_line (n : nat) (d : diag) : bool :=
  d_obey d && match d_line d with Some ln => Nat.eqb ln n | None => false end.

(* a line inserted before line n moves every diagnostic of line >= n down by one *)
Definition shift_diag (n : nat) (d : diag) : diag :=
  mk_diag (d_node d) (d_code d)
          (match d_line d with Some ln => Some (if n <=? ln then S ln else ln) | None => None end)
          (d_col d) (d_obey d).

(* number of leading lines that start with '#': has_file_level_ignore looks
   at exactly these *)
Fixpoint leading_len (f : file) : nat :=
  match f with
  | l :: r => if starts_hash l then S (leading_len r) else 0
  | [] => 0
  end.

(* a line inserted at index i does not become part of the leading '#' block,
   and does not cut it either *)
Definition not_leading (f : file) (i : nat) (C : line) : Prop :=
  leading_len f <= i /\ (leading_len f = i -> starts_hash C = false).

(* real ast nodes have lineno >= 1 *)
Definition well_lined (raw : list diag) : Prop := forall d, In d raw -> d_line d <> Some 0.
