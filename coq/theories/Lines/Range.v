(* Lines/Range.v — model of analysis_lib.get_line_range_for_node (the lines a statement occupies, as
   replace_node / remove_node see them): the range starts at the statement's first line (first
   decorator), reaches at least to max(first + 1, end_lineno of every child) exclusive, and is then
   extended line by line while the next line "is part of the same node" (more indented, a closing
   bracket at the same indentation, or the closing delimiter of a multi-line string).
   Definitions only. *)
From Coq Require Import List Bool NArith Arith.
Import ListNotations.
Require Import PV.Lines.Text PV.Lines.Suppress.

Definition closing_bracket (c : N) : bool := (N.eqb c 41 || N.eqb c 93 || N.eqb c 125)%bool.
Definition triple_quotes : list (list N) := [[34%N; 34%N; 34%N]; [39%N; 39%N; 39%N]].

Definition is_part_of_same_node (first_line line : line) : bool :=
  let current_indent := indentation line in
  let first_indent := indentation first_line in
  if first_indent <? current_indent then true
  else
    let line := lstrip line in
    if Nat.eqb (length line) 0 then false
    else if Nat.eqb current_indent first_indent
            && match lstrip line with c :: _ => closing_bracket c | [] => false end
    then true
    else existsb (fun d => substr d first_line && list_N_eqb (strip line) d) triple_quotes.

(* while last_lineno - 1 < len(lines) and is_part_of_same_node(first_line, lines[last_lineno - 1]) *)
Fixpoint extend_last (fuel : nat) (lines : file) (first_line : line) (last : nat) : nat :=
  match fuel with
  | 0 => last
  | S k =>
      if (last - 1 <? length lines) && is_part_of_same_node first_line (line_at lines (last - 1))
      then extend_last k lines first_line (S last)
      else last
  end.

(* list(range(first_lineno, last_lineno)); last0 = max(first + 1, end_lineno of the children) *)
Definition line_range (lines : file) (first last0 : nat) : list nat :=
  let last := extend_last (length lines) lines (line_at lines (first - 1)) last0 in
  seq first (last - first).
