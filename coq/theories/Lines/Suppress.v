(* Lines/Suppress.v — executable model of the suppression pipeline of
   node_visitor.BaseNodeVisitor (C11):

     show_error lines 606-669   -> step
     has_file_level_ignore      -> file_level
     get_unused_ignores /
     show_errors_for_unused_ignores / show_errors_for_bare_ignores -> tail_unused, tail_bare
     NameCheckVisitor.check     -> emit  (raw stream, then unused, then bare)

   The model is for the REPAIRED code (repo_fixes/C11-first-line-prev-ignore):
   the previous line is consulted only when lineno >= 2.  `line_ignore_wrap`
   is the behaviour before the repair (Python's lines[-1]), kept for the
   refutation lemma.

   A raw diagnostic is one call of show_error outside catch_errors:
   (node identity, code, line, column, obey_ignore).  Settings are a function
   code -> bool (is_enabled = Options.is_error_code_enabled, C18).
   No proofs here. *)
From Coq Require Import List Bool NArith Arith.
Import ListNotations.
Require Import PV.Lines.Text.

Record diag := mk_diag {
  d_node : N;            (* identity of the ast node (id()), or of the _FakeNode *)
  d_code : N;            (* index of the error code in the registry *)
  d_line : option nat;   (* node.lineno, 1-based; None: no node / no lineno *)
  d_col : N;
  d_obey : bool          (* obey_ignore *)
}.

Definition settings := N -> bool.

Definition key := (N * N)%type.
Definition dkey (d : diag) : key := (d_node d, d_code d).
Definition key_eqb (a b : key) : bool := N.eqb (fst a) (fst b) && N.eqb (snd a) (snd b).
Definition mem_key (k : key) (l : list key) : bool := existsb (key_eqb k) l.
Definition mem_N (c : N) (l : list N) : bool := existsb (N.eqb c) l.
Definition mem_nat (c : nat) (l : list nat) : bool := existsb (Nat.eqb c) l.

Section Model.
  Context (IGN : list N) (name : N -> list N).

  (* has_file_level_ignore(error_code): index of the comment that is used *)
  Fixpoint fl_scan (c : option N) (ls : file) (i : nat) : option nat :=
    match ls with
    | [] => None
    | l :: r =>
        if negb (starts_hash l) then None
        else if own_bare IGN l || match c with Some c => own_tag IGN name c l | None => false end
        then Some i
        else fl_scan c r (S i)
    end.
  Definition file_level (f : file) (c : option N) : option nat := fl_scan c f 0.

  Definition line_at (f : file) (i : nat) : line := nth i f [].

  (* the per-line part of show_error (lines 653-669 after the repair):
     Some i = suppressed, and lines[i] is recorded in used_ignores *)
  Definition line_ignore (f : file) (ln : nat) (c : N) : option nat :=
    let this_line := line_at f (ln - 1) in
    if has_bare IGN this_line || has_tag IGN name c this_line then Some (ln - 1)
    else
      if (2 <=? ln) && (own_bare IGN (line_at f (ln - 2)) || own_tag IGN name c (line_at f (ln - 2)))
      then Some (ln - 2)
      else None.

  (* before the repair: lines[lineno - 2] with lineno = 1 is lines[-1] *)
  Definition line_ignore_wrap (f : file) (ln : nat) (c : N) : option nat :=
    let this_line := line_at f (ln - 1) in
    if has_bare IGN this_line || has_tag IGN name c this_line then Some (ln - 1)
    else
      let pi := if 2 <=? ln then ln - 2 else length f - 1 in
      if own_bare IGN (line_at f pi) || own_tag IGN name c (line_at f pi)
      then Some pi
      else None.

  Record state := mk_state {
    seen : list key;
    used : list nat;       (* 0-based line indexes in used_ignores *)
    out : list diag        (* all_failures, in order *)
  }.
  Definition init : state := mk_state [] [] [].
  Definition add_used (i : nat) (s : state) := mk_state (seen s) (i :: used s) (out s).
  Definition add_seen (k : key) (s : state) := mk_state (k :: seen s) (used s) (out s).
  Definition push (d : diag) (s : state) := mk_state (seen s) (used s) (out s ++ [d]).

  Section WithSettings.
    Context (st : settings) (f : file).

    (* one call of show_error *)
    Definition step (s : state) (d : diag) : state :=
      if negb (st (d_code d)) then s
      else match file_level f (Some (d_code d)) with
      | Some i => add_used i s
      | None =>
        if mem_key (dkey d) (seen s) then s
        else
          let s := add_seen (dkey d) s in
          match (if d_obey d then d_line d else None) with
          | Some ln =>
              match line_ignore f ln (d_code d) with
              | Some i => add_used i s
              | None => push d s
              end
          | None => push d s
          end
      end.

    Definition run_raw (raw : list diag) : state := fold_left step raw init.
    Definition main (raw : list diag) : list diag := out (run_raw raw).

    (* the final passes.  Their nodes are _FakeNode(lineno, col) objects,
       which are equal to no ast node and pairwise distinct per (line, code),
       so the duplicate filter never fires for them: modelled without it. *)
    Definition fake (code : N) (i : nat) (l : line) : diag :=
      mk_diag 0 code (Some (S i)) (N.of_nat (index_of IGN l)) false.

    Definition tail_step (d : diag) : list diag :=
      if negb (st (d_code d)) then []
      else match file_level f (Some (d_code d)) with
           | Some _ => []
           | None => [d]
           end.

    Fixpoint enum_from {A} (i : nat) (l : list A) : list (nat * A) :=
      match l with [] => [] | x :: r => (i, x) :: enum_from (S i) r end.

    (* get_unused_ignores *)
    Definition unused_lines (usd : list nat) : list (nat * line) :=
      filter (fun il => has_any IGN (snd il) && negb (mem_nat (fst il) usd)) (enum_from 0 f).

    Definition tail_unused (unused_code : N) (usd : list nat) : list diag :=
      flat_map (fun il => tail_step (fake unused_code (fst il) (snd il))) (unused_lines usd).

    Definition bare_lines : list (nat * line) :=
      filter (fun il => has_any IGN (snd il) && negb (has_brk IGN (snd il))) (enum_from 0 f).

    Definition tail_bare (bare_code : N) : list diag :=
      match file_level f None with
      | Some _ => []
      | None => flat_map (fun il => tail_step (fake bare_code (fst il) (snd il))) bare_lines
      end.

    (* NameCheckVisitor.check(): all_failures *)
    Definition emit (unused_code bare_code : N) (raw : list diag) : list diag :=
      let s := run_raw raw in
      out s ++ tail_unused unused_code (used s) ++ tail_bare bare_code.
  End WithSettings.

  (* ---- the declarative reading (what "pure projection" means) ---- *)

  (* first occurrence of every (node, code) key *)
  Fixpoint dedup_from (sn : list key) (l : list diag) : list diag :=
    match l with
    | [] => []
    | d :: r => if mem_key (dkey d) sn then dedup_from sn r else d :: dedup_from (dkey d :: sn) r
    end.
  Definition dedup := dedup_from [].

  (* enabled and not covered by a file-level ignore: depends on the code only *)
  Definition live (st : settings) (f : file) (d : diag) : bool :=
    st (d_code d) && match file_level f (Some (d_code d)) with Some _ => false | None => true end.

  (* the comment line that suppresses d, if any: depends on d and the file only *)
  Definition suppressor (f : file) (d : diag) : option nat :=
    if d_obey d then
      match d_line d with Some ln => line_ignore f ln (d_code d) | None => None end
    else None.

  Definition kept (f : file) (d : diag) : bool :=
    match suppressor f d with Some _ => false | None => true end.

  Definition main_spec (st : settings) (f : file) (raw : list diag) : list diag :=
    filter (kept f) (dedup (filter (live st f) raw)).

  (* disabling a set of codes (option, per-module override, command line all
     end in is_error_code_enabled returning False for these codes) *)
  Definition disable (S : list N) (st : settings) : settings :=
    fun c => st c && negb (mem_N c S).
End Model.
