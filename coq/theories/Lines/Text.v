(* Lines/Text.v — the character-level vocabulary of the line/file model
   (C11, C16).  A line is the list of its code points (type N), WITHOUT the
   trailing newline; a file is the list of its lines as the tokenizer numbers
   them, i.e. what node_visitor._split_lines returns for BaseNodeVisitor._lines
   (the "\n" that _lines appends is removed again by every `.strip()`, is
   never part of a searched pattern, and is not a '#').

   Only executable definitions here; no proofs (Proofs/LinesText.v). *)
From Coq Require Import List Bool NArith ZArith Arith.
Import ListNotations.

Definition line := list N.
Definition file := list line.

Fixpoint list_N_eqb (a b : list N) : bool :=
  match a, b with
  | [], [] => true
  | x :: a', y :: b' => N.eqb x y && list_N_eqb a' b'
  | _, _ => false
  end.

(* s.startswith(p) *)
Fixpoint prefix (p s : list N) : bool :=
  match p, s with
  | [], _ => true
  | a :: p', b :: s' => N.eqb a b && prefix p' s'
  | _ :: _, [] => false
  end.

(* p in s *)
Fixpoint substr (p s : list N) : bool :=
  prefix p s || match s with [] => false | _ :: s' => substr p s' end.

(* s.index(p) (0 when absent; callers test substr first) *)
Fixpoint index_of (p s : list N) : nat :=
  if prefix p s then 0 else match s with [] => 0 | _ :: s' => S (index_of p s') end.

(* str.isspace() for one code point: the characters str.strip() removes.
   Checked against CPython for every code point on each run (harness). *)
Definition is_space (c : N) : bool :=
  ((9 <=? c) && (c <=? 13) || (28 <=? c) && (c <=? 32) || (c =? 133) || (c =? 160)
   || (c =? 5760) || (8192 <=? c) && (c <=? 8202) || (c =? 8232) || (c =? 8233)
   || (c =? 8239) || (c =? 8287) || (c =? 12288))%N.

Fixpoint lstrip (s : list N) : list N :=
  match s with
  | [] => []
  | c :: s' => if is_space c then lstrip s' else s
  end.

Definition strip (s : list N) : list N := rev (lstrip (rev (lstrip s))).

(* s.rstrip() *)
Definition rstrip (s : list N) : list N := rev (lstrip (rev s)).

(* s.endswith("\\") *)
Definition ends_backslash (s : list N) : bool :=
  match rev s with c :: _ => N.eqb c 92 | [] => false end.

(* analysis_lib.get_indentation: 0 for a blank line, else
   len(line) - len(line.lstrip()) *)
Definition indentation (s : list N) : nat :=
  match lstrip s with
  | [] => 0
  | _ => length s - length (lstrip s)
  end.

(* lines[z] with Python's negative indexes (IndexError is not modelled: []) *)
Definition py_index (f : file) (z : Z) : line :=
  if (z <? 0)%Z then nth (length f - Z.to_nat (- z)) f [] else nth (Z.to_nat z) f [].

Definition hash_char : N := 35.
Definition lbracket : N := 91.
Definition rbracket : N := 93.
Definition space_char : N := 32.

(* line.startswith("#") *)
Definition starts_hash (l : line) : bool :=
  match l with c :: _ => N.eqb c hash_char | [] => false end.

Section Ignore.
  (* IGNORE_COMMENT, and the name of an error code; both come from
     Gen/Codes.v (translated from node_visitor.py / error_code.py). *)
  Context (IGN : list N) (name : N -> list N).

  (* f"{ignore_comment}[{error_code.name}]" *)
  Definition tag (c : N) : list N := IGN ++ [lbracket] ++ name c ++ [rbracket].

  (* re.search(re.escape(IGNORE) + "(?!\[)", l): some occurrence of IGNORE is
     not followed by '['.  (IGNORE contains no regex-special behaviour after
     re.escape: the pattern is the literal text.) *)
  Fixpoint has_bare (l : line) : bool :=
    (prefix IGN l && negb (prefix (IGN ++ [lbracket]) l))
    || match l with [] => false | _ :: l' => has_bare l' end.

  (* f"{IGNORE}[{code.name}]" in l *)
  Definition has_tag (c : N) (l : line) : bool := substr (tag c) l.

  (* IGNORE in l ;  IGNORE + "[" in l *)
  Definition has_any (l : line) : bool := substr IGN l.
  Definition has_brk (l : line) : bool := substr (IGN ++ [lbracket]) l.

  (* l.strip() == IGNORE ; l.strip() == f"{IGNORE}[{code.name}]" *)
  Definition own_bare (l : line) : bool := list_N_eqb (strip l) IGN.
  Definition own_tag (c : N) (l : line) : bool := list_N_eqb (strip l) (tag c).

  (* the line the fixer inserts: " " * indentation + ignore  (without "\n") *)
  Definition comment_line (indent : nat) (c : option N) : line :=
    repeat space_char indent ++ match c with Some c => tag c | None => IGN end.
End Ignore.
