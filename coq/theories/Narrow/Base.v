(* Narrow/Base.v — self-contained object / class / value model for C02.

   Classes: a closed universe with a subclass table (the table is re-dumped
   from the running implementation on every run into Gen/NarrowTable.v and
   compared with the one below, see Properties/C02.v).
   Objects: None, bool, int, float (as a number of halves), str, instances of
   the user classes, enum members, class objects, flat tuples.
   Values: the constructors of pyanalyze/value.py that narrowing inspects.
   No proofs in this file. *)
From Coq Require Import ZArith List Bool NArith.
Import ListNotations.

(* ------------------------------------------------------------------ *)
(* classes *)

Inductive cls :=
| CObject | CInt | CBool | CFloat | CComplex | CStr | CTuple | CNone | CType
| CA | CB | CC | CFalsy | CAC | CE | CIE | CEnumMeta
| CList | CDict | CSequence | CMapping.

Definition all_cls : list cls :=
  [CObject; CInt; CBool; CFloat; CComplex; CStr; CTuple; CNone; CType;
   CA; CB; CC; CFalsy; CAC; CE; CIE; CEnumMeta; CList; CDict; CSequence; CMapping].

Definition cls_code (c : cls) : nat :=
  match c with
  | CObject => 0 | CInt => 1 | CBool => 2 | CFloat => 3 | CComplex => 4
  | CStr => 5 | CTuple => 6 | CNone => 7 | CType => 8
  | CA => 9 | CB => 10 | CC => 11 | CFalsy => 12 | CAC => 13 | CE => 14 | CIE => 15
  | CEnumMeta => 16 | CList => 17 | CDict => 18 | CSequence => 19 | CMapping => 20
  end.

Definition cls_eqb (a b : cls) : bool := Nat.eqb (cls_code a) (cls_code b).

Definition mem_cls (c : cls) (l : list cls) : bool := existsb (cls_eqb c) l.

(* all universe classes b with issubclass(c, b) (real issubclass: the ABCs Sequence and
   Mapping count through registration), sorted by code
   (class A: pass; class B(A); class C; class Falsy(A) defines __bool__;
    class AC(A, C); class E(Enum){a,b}; class IE(IntEnum){x=1,y=2}; EnumMeta = type(E)) *)
Definition mro (c : cls) : list cls :=
  match c with
  | CObject => [CObject]
  | CInt => [CObject; CInt]
  | CBool => [CObject; CInt; CBool]
  | CFloat => [CObject; CFloat]
  | CComplex => [CObject; CComplex]
  | CStr => [CObject; CStr; CSequence]
  | CTuple => [CObject; CTuple; CSequence]
  | CNone => [CObject; CNone]
  | CType => [CObject; CType]
  | CA => [CObject; CA]
  | CB => [CObject; CA; CB]
  | CC => [CObject; CC]
  | CFalsy => [CObject; CA; CFalsy]
  | CAC => [CObject; CA; CC; CAC]
  | CE => [CObject; CE]
  | CIE => [CObject; CInt; CIE]
  | CEnumMeta => [CObject; CType; CEnumMeta]
  | CList => [CObject; CList; CSequence]
  | CDict => [CObject; CDict; CMapping]
  | CSequence => [CObject; CSequence]
  | CMapping => [CObject; CMapping]
  end.

(* TypeObject.artificial_bases: int -> float, complex ; float -> complex *)
Definition art_bases (c : cls) : list cls :=
  if mem_cls CInt (mro c) then [CFloat; CComplex]
  else if mem_cls CFloat (mro c) then [CComplex] else [].

(* TypeObject.base_classes (mro plus artificial bases), sorted by code *)
Definition insert_cls (c : cls) (l : list cls) : list cls :=
  (fix ins l := match l with
     | [] => [c]
     | x :: r => if Nat.ltb (cls_code c) (cls_code x) then c :: x :: r
                 else if Nat.eqb (cls_code c) (cls_code x) then x :: r else x :: ins r
     end) l.

Definition base_classes (c : cls) : list cls :=
  fold_right insert_cls (mro c) (art_bases c).

(* real issubclass(a, b) *)
Definition sub (a b : cls) : bool := mem_cls b (mro a).

(* TypeObject.can_assign on two real classes:
   any(base is self.typ or issubclass(base, self.typ) for base in other.base_classes) *)
Definition sub_art (a b : cls) : bool := existsb (fun base => sub base b) (base_classes a).

(* enum classes and their members (indices) *)
Definition enum_size (c : cls) : nat :=
  match c with CE => 2 | CIE => 2 | _ => 0 end.
Definition is_enum (c : cls) : bool := negb (Nat.eqb (enum_size c) 0).
(* type(c): the metaclass of a class object *)
Definition meta (c : cls) : cls := if is_enum c then CEnumMeta else CType.

(* ------------------------------------------------------------------ *)
(* Boolability (names of boolability.py's enum) *)

Inductive boolab :=
| erroring_bool | boolable | value_always_false_mutable | value_always_true_mutable
| value_always_false | value_always_true | type_always_true.

Definition boolab_value (b : boolab) : nat :=
  match b with
  | erroring_bool => 1 | boolable => 2 | value_always_false_mutable => 3
  | value_always_true_mutable => 4 | value_always_false => 5 | value_always_true => 6
  | type_always_true => 7
  end.
Definition boolab_eqb (a b : boolab) : bool := Nat.eqb (boolab_value a) (boolab_value b).

(* _get_type_boolability(typ) for the universe (is_exact=False) *)
Definition type_boolab (c : cls) : boolab :=
  match c with
  | CA | CB | CC | CAC | CType => type_always_true
  | _ => boolable
  end.
(* is_exact=True only differs for object *)
Definition type_boolab_exact (c : cls) : boolab :=
  match c with CObject => type_always_true | _ => type_boolab c end.

(* ------------------------------------------------------------------ *)
(* objects *)

(* tuple elements: a small separate type so that obj is not nested *)
Inductive elt := LNone | LBool (b : bool) | LInt (z : Z) | LStr (s : list N).
Inductive ety := TAnyE | TNoneE | TBoolE | TIntE | TStrE.

Definition elt_member (e : elt) (t : ety) : bool :=
  match t, e with
  | TAnyE, _ => true
  | TNoneE, LNone => true
  | TBoolE, LBool _ => true
  | TIntE, LInt _ => true
  | TIntE, LBool _ => true
  | TStrE, LStr _ => true
  | _, _ => false
  end.

Inductive obj :=
| ONone
| OBool (b : bool)
| OInt (z : Z)
| OFloat (h : Z)            (* the float h/2 *)
| OStr (s : list N)
| OInst (c : cls) (k : N)   (* instance of user class c with identity k *)
| OEnum (c : cls) (i : nat) (* i-th member of enum class c; IE members have int value i+1 *)
| OClass (c : cls)
| OTuple (l : list elt)
| OList (l : list elt)
| ODict (kvs : list (elt * elt)).

Definition class_of (o : obj) : cls :=
  match o with
  | ONone => CNone | OBool _ => CBool | OInt _ => CInt | OFloat _ => CFloat
  | OStr _ => CStr | OInst c _ => c | OEnum c _ => c | OClass c => meta c
  | OTuple _ => CTuple | OList _ => CList | ODict _ => CDict
  end.

(* objects that can exist: instances only of the user classes, enum members in range *)
Definition wf_obj (o : obj) : bool :=
  match o with
  | OInst c _ => mem_cls c [CA; CB; CC; CFalsy; CAC; CObject]
  | OEnum c i => Nat.ltb i (enum_size c)
  | _ => true
  end.

Fixpoint list_eqb {A} (eqb : A -> A -> bool) (a b : list A) : bool :=
  match a, b with
  | [], [] => true
  | x :: a', y :: b' => eqb x y && list_eqb eqb a' b'
  | _, _ => false
  end.

Definition elt_eqb (a b : elt) : bool :=
  match a, b with
  | LNone, LNone => true
  | LBool x, LBool y => Bool.eqb x y
  | LInt x, LInt y => Z.eqb x y
  | LStr x, LStr y => list_eqb N.eqb x y
  | _, _ => false
  end.

(* identity / same-type equality: what KnownValue.__eq__ computes *)
Definition obj_eqb (a b : obj) : bool :=
  match a, b with
  | ONone, ONone => true
  | OBool x, OBool y => Bool.eqb x y
  | OInt x, OInt y => Z.eqb x y
  | OFloat x, OFloat y => Z.eqb x y
  | OStr x, OStr y => list_eqb N.eqb x y
  | OInst c k, OInst c' k' => cls_eqb c c' && N.eqb k k'
  | OEnum c i, OEnum c' i' => cls_eqb c c' && Nat.eqb i i'
  | OClass c, OClass c' => cls_eqb c c'
  | OTuple x, OTuple y => list_eqb elt_eqb x y
  | OList x, OList y => list_eqb elt_eqb x y
  | ODict x, ODict y => list_eqb (fun a b => elt_eqb (fst a) (fst b) && elt_eqb (snd a) (snd b)) x y
  | _, _ => false
  end.

(* numeric value in halves, for Python's cross-type == *)
Definition num_of (o : obj) : option Z :=
  match o with
  | OBool b => Some (if b then 2 else 0)%Z
  | OInt z => Some (2 * z)%Z
  | OFloat h => Some h
  | OEnum CIE i => Some (2 * (Z.of_nat i + 1))%Z
  | _ => None
  end.

Definition elt_num (e : elt) : option Z :=
  match e with
  | LBool b => Some (if b then 1 else 0)%Z
  | LInt z => Some z
  | _ => None
  end.
Definition elt_py_eq (a b : elt) : bool :=
  match elt_num a, elt_num b with
  | Some x, Some y => Z.eqb x y
  | _, _ => elt_eqb a b
  end.

(* Python == (no user __eq__ in the universe) *)
Definition py_eq (a b : obj) : bool :=
  match num_of a, num_of b with
  | Some x, Some y => Z.eqb x y
  | _, _ =>
      match a, b with
      | OTuple x, OTuple y => list_eqb elt_py_eq x y
      | OList x, OList y => list_eqb elt_py_eq x y
      | _, _ => obj_eqb a b
      end
  end.

Definition truthy (o : obj) : bool :=
  match o with
  | ONone => false
  | OBool b => b
  | OInt z => negb (Z.eqb z 0)
  | OFloat h => negb (Z.eqb h 0)
  | OStr s => match s with [] => false | _ => true end
  | OInst c _ => negb (cls_eqb c CFalsy)
  | OEnum _ _ => true
  | OClass _ => true
  | OTuple l => match l with [] => false | _ => true end
  | OList l => match l with [] => false | _ => true end
  | ODict l => match l with [] => false | _ => true end
  end.

Definition len_of (o : obj) : option nat :=
  match o with
  | OStr s => Some (length s)
  | OTuple l => Some (length l)
  | OList l => Some (length l)
  | ODict l => Some (length l)
  | OClass c => if is_enum c then Some (enum_size c) else None   (* EnumMeta.__len__ *)
  | _ => None
  end.

(* ------------------------------------------------------------------ *)
(* values *)

(* the extensions narrowing adds to a value: the len custom checks, and HasAttrExtension
   (says nothing about membership, but an annotated value is no longer a plain literal) *)
Inductive lenext := MinLen (n : Z) | MaxLen (n : Z) | HasAttrExt (name : N).

(* GenericValue(list, [t]), GenericValue(dict, [k, v]), patma.MatchableSequence
   (Annotated[Sequence, Exclude[str | bytes | bytearray]]) and signature.MappingValue
   (Mapping[K, V]) *)
Inductive gen := GList (t : ety) | GDict (k v : ety) | GSeqPat | GMapPat.
Definition gen_cls (g : gen) : cls :=
  match g with GList _ => CList | GDict _ _ => CDict | GSeqPat => CSequence | GMapPat => CMapping end.

Inductive bval :=
| VAny
| VKnown (o : obj)
| VTyped (c : cls)
| VSub (c : cls)                       (* type[c] *)
| VTuple (ms : list (bool * ety))      (* SequenceValue(tuple, [(is_many, member)]) *)
| VGen (g : gen).                      (* a GenericValue / the two patma pattern values *)

(* a non-union value, possibly Annotated with MinLen/MaxLen custom checks *)
Inductive sval := SV (b : bval) (exts : list lenext).
Definition plain (b : bval) : sval := SV b [].
Definition sbase (s : sval) : bval := match s with SV b _ => b end.
Definition sexts (s : sval) : list lenext := match s with SV _ e => e end.

(* a (flattened) union *)
Definition value := list sval.

Definition lenext_eqb (a b : lenext) : bool :=
  match a, b with
  | MinLen x, MinLen y => Z.eqb x y
  | MaxLen x, MaxLen y => Z.eqb x y
  | HasAttrExt x, HasAttrExt y => N.eqb x y
  | _, _ => false
  end.

(* ------------------------------------------------------------------ *)
(* the specification: runtime membership of an object in a value.
   int -> float -> complex promotion is part of membership in a declared type
   (sub_art); the nominal runtime check is [isinst]. *)

Definition isinst (o : obj) (c : cls) : bool := sub (class_of o) c.

(* members as a regular expression over the elements *)
Fixpoint match_members (ms : list (bool * ety)) (es : list elt) {struct ms} : bool :=
  match ms with
  | [] => match es with [] => true | _ => false end
  | (false, t) :: ms' =>
      match es with
      | e :: es' => elt_member e t && match_members ms' es'
      | [] => false
      end
  | (true, t) :: ms' =>
      (fix star (es : list elt) : bool :=
         match_members ms' es ||
         match es with
         | e :: es' => elt_member e t && star es'
         | [] => false
         end) es
  end.

Definition member_b (o : obj) (b : bval) : bool :=
  match b with
  | VAny => true
  | VKnown l => obj_eqb o l
  | VTyped c => sub_art (class_of o) c
  | VSub c => match o with OClass c' => sub_art c' c | _ => false end
  | VTuple ms => match o with OTuple es => match_members ms es | _ => false end
  | VGen g =>
      match g with
      | GList t => match o with OList es => forallb (fun e => elt_member e t) es | _ => false end
      | GDict k v => match o with
                     | ODict kvs => forallb (fun kv => elt_member (fst kv) k && elt_member (snd kv) v) kvs
                     | _ => false
                     end
      | GSeqPat => sub_art (class_of o) CSequence && negb (sub_art (class_of o) CStr)
      | GMapPat => sub_art (class_of o) CMapping
      end
  end.

Definition ext_holds (o : obj) (e : lenext) : bool :=
  match e with
  | HasAttrExt _ => true
  | MinLen k => match len_of o with Some n => Z.leb k (Z.of_nat n) | None => false end
  | MaxLen k => match len_of o with Some n => Z.leb (Z.of_nat n) k | None => false end
  end.

Definition member_s (o : obj) (s : sval) : bool :=
  match s with SV b exts => member_b o b && forallb (ext_holds o) exts end.

Definition member (o : obj) (v : value) : bool := existsb (member_s o) v.
