(* Narrow/CoreBridge.v — embedding of the C02 objects / values into the shared Core model
   (Core/Obj.v, Core/Val.v) and the class table of Narrow/Base.v as a Core class_table.
   Definitions only; the agreement of the two membership specs is Proofs/NarrowCoreBridge.v. *)
From Coq Require Import ZArith List Bool NArith.
Import ListNotations.
Require PV.Core.Obj PV.Core.Val PV.Core.Cls PV.Core.Member.
Require Import PV.Narrow.Base PV.Narrow.Model PV.Narrow.Guards.

Module O := PV.Core.Obj.
Module V := PV.Core.Val.
Module C := PV.Core.Cls.
Module M := PV.Core.Member.

(* ---- class codes ---- *)
Definition code (c : cls) : N :=
  match c with
  | CObject => O.c_object | CInt => O.c_int | CBool => O.c_bool | CFloat => O.c_float
  | CComplex => O.c_complex | CStr => O.c_str | CTuple => O.c_tuple | CNone => O.c_NoneType
  | CType => O.c_type | CList => O.c_list | CDict => O.c_dict
  | CSequence => C.c_Sequence | CMapping => C.c_Mapping
  | CA => 40 | CB => 41 | CC => 42 | CFalsy => 43 | CAC => 49 | CE => 45 | CIE => 46 | CEnumMeta => 50
  end%N.

Definition decode (n : N) : option cls := find (fun c => N.eqb (code c) n) all_cls.

Definition narrow_ct : C.class_table :=
  {| C.tassign := fun _ _ => false;
     C.issub := fun c d => match decode c, decode d with Some a, Some b => sub a b | _, _ => false end;
     C.gb_args := fun _ _ => None;
     C.gb_noargs := fun _ _ => None;
     C.nomk := fun _ _ => None |}.

(* ---- embedding of objects ---- *)
Definition emb_elt (e : elt) : O.obj :=
  match e with
  | LNone => O.ONone | LBool b => O.OBool b | LInt z => O.OInt z | LStr s => O.OStr s
  end.

Definition emb (o : obj) : O.obj :=
  match o with
  | ONone => O.ONone
  | OBool b => O.OBool b
  | OInt z => O.OInt z
  | OFloat h => O.OFloat h
  | OStr s => O.OStr s
  | OInst c k => O.OInst (code c) k
  | OEnum CIE i => O.OIntInst (code CIE) (Z.of_nat i + 1)
  | OEnum c i => O.OInst (code c) (N.of_nat i)
  | OClass c => O.OClass (code c)
  | OTuple l => O.OTuple 0 (map emb_elt l)
  | OList l => O.OList 0 (map emb_elt l)
  | ODict kvs => O.ODict 0 (map (fun kv => (emb_elt (fst kv), emb_elt (snd kv))) kvs)
  end.

(* ---- embedding of values ---- *)
Definition ety_val (t : ety) : V.val :=
  match t with
  | TAnyE => V.VLeaf (V.LAny 0)
  | TNoneE => V.VLeaf (V.LKnown O.ONone)
  | TBoolE => V.VLeaf (V.LTyped O.c_bool false)
  | TIntE => V.VLeaf (V.LTyped O.c_int false)
  | TStrE => V.VLeaf (V.LTyped O.c_str false)
  end.

Definition emb_b (b : bval) : V.val :=
  match b with
  | VAny => V.VLeaf (V.LAny 0)
  | VKnown l => V.VLeaf (V.LKnown (emb l))
  | VTyped c => V.VLeaf (V.LTyped (code c) false)
  | VSub c => V.VNode (V.TSubclass false) [V.VLeaf (V.LTyped (code c) false)]
  | VGen (GList t) => V.VNode (V.TGeneric O.c_list) [ety_val t]
  | VGen (GDict k v) => V.VNode (V.TGeneric O.c_dict) [ety_val k; ety_val v]
  | _ => V.VLeaf V.LUninit      (* outside the common fragment *)
  end.

Definition emb_value (v : value) : V.val := V.VUnion (map (fun s => emb_b (sbase s)) v).

(* the common fragment *)
Definition plain_lit (l : obj) : bool :=
  match l with OTuple _ | OList _ | ODict _ => false | _ => true end.
Definition common_b (b : bval) : bool :=
  match b with
  | VAny | VTyped _ | VSub _ => true
  | VKnown l => plain_lit l && wf_obj l
  | VGen (GList _) | VGen (GDict _ _) => true
  | _ => false
  end.
Definition common_value (v : value) : bool :=
  forallb (fun s => common_b (sbase s) && match sexts s with [] => true | _ => false end) v.
Definition common_obj (o : obj) : bool := wf_obj o && negb (enum_class_object o).

