(* Narrow/Guards.v — decidable guards of the C02 theorems.  Each clause that
   excludes a behaviour of the unchanged code is a known finding with a
   `..._refuted` witness in Proofs/NarrowMain.v.  No proofs in this file. *)
From Coq Require Import ZArith List Bool NArith.
Import ListNotations.
Require Import PV.Narrow.Base PV.Narrow.Model.

(* ---- clause multiple_inheritance --------------------------------------
   the class of the object has two ancestors neither of which is assignable to
   the other: pyanalyze has no intersection types, so isinstance(x, C) for
   x: A yields Never although an instance of class AC(A, C) takes the branch *)
Definition diamond_cls (k : cls) : bool :=
  existsb (fun c1 => existsb (fun c2 =>
     sub_art k c1 && sub_art k c2 && negb (sub_art c1 c2 || sub_art c2 c1)) all_cls) all_cls.

Definition multiple_inheritance (o : obj) : bool :=
  match o with
  | OClass c => diamond_cls c
  | _ => diamond_cls (class_of o)
  end.

(* ---- clause subclass_bool ----------------------------------------------
   a falsy object whose class inherits from a class that pyanalyze classifies
   as type_always_true (no __bool__/__len__ on the base, __bool__ on the subclass) *)
Definition subclass_bool (o : obj) : bool :=
  negb (truthy o) &&
  existsb (fun c => sub (class_of o) c && boolab_eqb (type_boolab c) type_always_true) all_cls.

(* ---- clause promotion_negative -----------------------------------------
   the object belongs to a tested class only through int -> float -> complex
   promotion (TypeObject.artificial_bases), not by a real isinstance/issubclass *)
Definition promoted_obj (o : obj) (c : cls) : bool :=
  sub_art (class_of o) c && negb (sub (class_of o) c).
Definition promoted_cls (k c : cls) : bool := sub_art k c && negb (sub k c).

Fixpoint promotion_negative (c : cond) (o : obj) : bool :=
  match c with
  | CIsInstance cs => existsb (promoted_obj o) cs
  | CMatchClass c => promoted_obj o c
  | CIsSubclass cs => match o with OClass k => existsb (promoted_cls k) cs | _ => false end
  | CNot c => promotion_negative c o
  | CPAnd a b => promotion_negative a o || promotion_negative b o
  | CIfExp _ a b => promotion_negative a o || promotion_negative b o
  | CAnd a b => promotion_negative a o || promotion_negative b o
  | COr a b => promotion_negative a o || promotion_negative b o
  | _ => false
  end.

(* ---- clause enum_class_object -----------------------------------------
   the object is an enum class: its metaclass is EnumMeta, and _deliteral turns the
   literal class into TypedValue(EnumMeta), which is_overlapping finds disjoint from
   type[object] / type[int]; so `x = IE; issubclass(x, int)` narrows to Never *)
Definition enum_class_object (o : obj) : bool :=
  match o with OClass c => is_enum c | _ => false end.

(* ---- clause sequence_pattern_str ----------------------------------------
   IsAssignablePredicate(MatchableSequence, positive_only=False) (built for `case [*rest]:`)
   applied negatively to a value typed Sequence drops it, although a str is a Sequence that a
   sequence pattern does not match.  Only observable through constrain_value: in a match
   statement the inverted constraint is an OR with the subpattern constraints (which are not
   about x), so nothing is narrowed. *)
Fixpoint has_seqis_false (c : cond) : bool :=
  match c with
  | CSeqIs po => negb po
  | CNot c => has_seqis_false c
  | CPAnd a b => has_seqis_false a || has_seqis_false b
  | CIfExp _ a b => has_seqis_false a || has_seqis_false b
  | CAnd a b => has_seqis_false a || has_seqis_false b
  | COr a b => has_seqis_false a || has_seqis_false b
  | _ => false
  end.
Definition sequence_pattern_str (c : cond) (o : obj) : bool :=
  has_seqis_false c && sub_art (class_of o) CStr.

(* ---- clause assert_promotion --------------------------------------------
   ConstraintType.is_instance applied negatively drops a declared class that is a subclass of
   the tested one by the real issubclass, without regard to the int -> float -> complex
   promotion that membership in a declared type has: x: float with "not an instance of float"
   leaves Never although 1 (a member of float, not an instance) passes.  (The positive branch
   was repaired: x: float, assert_is_instance(x, int) now gives int.)  Only reachable through
   constrain_value: assert statements use the positive branch only. *)
Definition numeric_cls (k : cls) : bool := sub k CInt || sub k CFloat.
Definition numeric_like (o : obj) : bool :=
  match o with OClass k => numeric_cls k | _ => numeric_cls (class_of o) end.
Fixpoint assert_promotion (c : cond) (o : obj) : bool :=
  match c with
  | CAssertInst c1 => negb (isinst o c1) && numeric_like o
  | CNot c => assert_promotion c o
  | CPAnd a b => assert_promotion a o || assert_promotion b o
  | CIfExp _ a b => assert_promotion a o || assert_promotion b o
  | CAnd a b => assert_promotion a o || assert_promotion b o
  | COr a b => assert_promotion a o || assert_promotion b o
  | _ => false
  end.

(* ---- clause generic_pattern_negative ------------------------------------
   TypeIs[list[int]] in the negative branch drops every list type that is assignable to list[int],
   including list[Any] and the bare list (assignable only because the argument is unknown): a list
   that is not a list[int] takes that branch and is lost.  (The positive branch is fine since the
   C02 repair of _deliteral: list[int] and list[str] overlap in the empty list.) *)
Definition is_generic_pat (p : bval) : bool :=
  match p with VGen (GList _) | VGen (GDict _ _) => true | _ => false end.
Definition is_collection (o : obj) : bool :=
  match o with OList _ | ODict _ => true | _ => false end.
Fixpoint generic_pattern_negative (c : cond) (o : obj) : bool :=
  match c with
  | CTypeIs t => existsb (fun p => is_generic_pat p && negb (member_b o p)) t && is_collection o
  | CNot c => generic_pattern_negative c o
  | CPAnd a b => generic_pattern_negative a o || generic_pattern_negative b o
  | CIfExp _ a b => generic_pattern_negative a o || generic_pattern_negative b o
  | CAnd a b => generic_pattern_negative a o || generic_pattern_negative b o
  | COr a b => generic_pattern_negative a o || generic_pattern_negative b o
  | _ => false
  end.

(* ---- hypotheses that come from the property's quantifier ---------------- *)

(* literals one can compare with: not tuples (kept outside the fragment) *)
Definition atomic (l : obj) : bool := match l with OTuple _ => false | _ => true end.
(* literals whose identity is their value: None, bools, enum members, classes, instances *)
Definition singleton (l : obj) : bool :=
  match l with
  | ONone | OBool _ | OEnum _ _ | OClass _ | OInst _ _ => true
  | _ => false
  end.

(* "equality with the tested literals implies equal type" *)
Definition eq_compatible (o l : obj) : bool := implb (py_eq o l) (obj_eqb o l).

(* well-formed conditions + the quantifier's restriction on ==/in, relative to the object *)
Fixpoint cond_ok (c : cond) (o : obj) : bool :=
  match c with
  | CIs l => singleton l && wf_obj l
  | CAssertIs l => singleton l && wf_obj l
  | CEq l => atomic l && wf_obj l && eq_compatible o l
  | CIn ls => forallb (fun l => atomic l && wf_obj l && eq_compatible o l) ls
  | CIsInstance cs => negb (match cs with [] => true | _ => false end)
  | CIsSubclass cs => negb (match cs with [] => true | _ => false end)
  | CTypeIs t => negb (match t with [] => true | _ => false end)
                 && forallb (fun p => match p with VTuple _ => false | VAny => false | VGen GSeqPat => false | VGen GMapPat => false | _ => true end) t
  | CNot c => cond_ok c o
  | CPAnd a b => cond_ok a o && cond_ok b o
  | CIfExp _ a b => cond_ok a o && cond_ok b o
  | CAnd a b => cond_ok a o && cond_ok b o
  | COr a b => cond_ok a o && cond_ok b o
  | _ => true
  end.

(* the full guard of narrow_keeps_value_partial *)
Definition c02_guard (c : cond) (o : obj) : bool :=
  wf_obj o && cond_ok c o
  && negb (multiple_inheritance o) && negb (subclass_bool o) && negb (promotion_negative c o)
  && negb (enum_class_object o) && negb (sequence_pattern_str c o) && negb (assert_promotion c o)
  && negb (generic_pattern_negative c o).

(* ---- membership modulo the MinLen/MaxLen annotations (for "never widens") ---- *)
Definition bmember_s (o : obj) (s : sval) : bool := member_b o (sbase s).
Definition bmember (o : obj) (v : value) : bool := existsb (bmember_s o) v.
Definition unannotated (v : value) : bool :=
  forallb (fun s => match sexts s with [] => true | _ => false end) v.

(* ---- the property at full strength (refuted by the unchanged code, see
        Proofs/NarrowMain.v and Proofs/NarrowVerdict.v) ---- *)
Definition narrow_keeps_value_full_statement : Prop :=
  forall V c pol o, wf_obj o = true -> cond_ok c o = true ->
    member o V = true -> holds c o = Some pol -> member o (narrow V c pol) = true.

Definition always_true_full_statement : Prop := forall V o,
  wf_obj o = true -> is_safely_true (boolab_of V) = true -> member o V = true -> truthy o = true.

(* ---- clause nonelementwise_container (C02-in-nonelementwise-container, repaired) ----
   the object is in the str container by the container's own test without being one of its iterated elements.
   Needed only by the rule InPredicate followed before the repair (Model.IterateAlways); not part of any statement
   about HEAD *)
Definition nonelementwise_container (s : list N) (o : obj) : bool :=
  match o with OStr t => str_infix t s && negb (Nat.eqb (length t) 1) | _ => false end.
