(* Narrow/Model.v — executable model of pyanalyze's narrowing.

   assignable        : Value.is_assignable on the fragment (TypedValue / KnownValue /
                       SubclassValue / SequenceValue(tuple) / AnyValue), value.py + type_object.py
   overlapping       : value.py is_overlapping
   boolab_of_b/_of   : boolability.py _get_boolability_no_mvv / get_boolability
   pred_*            : predicates.py IsAssignablePredicate / EqualsPredicate / InPredicate,
                       name_check_visitor._constraint_from_predicate_provider with
                       implementation.len_of_value / len_transformer, patma.AlwaysMatching
   apply_constr      : stacked_scopes.Constraint.apply_to_value
   apply_acon/invert : AbstractConstraint.apply / .invert (Null, Constraint, And, Or)
   constrain         : stacked_scopes.constrain_value
   cond_acon         : the constraint name_check_visitor / implementation / signature / patma
                       build for each condition kind
   holds             : the specification: run-time meaning of the condition (None = raises)
   No proofs in this file. *)
From Coq Require Import ZArith List Bool NArith.
Import ListNotations.
Require Import PV.Narrow.Base.

(* ------------------------------------------------------------------ *)
(* is_assignable *)

Fixpoint seq_assign_known (ms : list (bool * ety)) (es : list elt) : bool :=
  match ms, es with
  | [], [] => true
  | (false, t) :: ms', e :: es' => elt_member e t && seq_assign_known ms' es'
  | _, _ => false
  end.

Definition ety_assign (t t' : ety) : bool :=
  match t, t' with
  | TAnyE, _ => true
  | _, TAnyE => true
  | TNoneE, TNoneE => true
  | TBoolE, TBoolE => true
  | TIntE, TIntE => true
  | TIntE, TBoolE => true
  | TStrE, TStrE => true
  | _, _ => false
  end.

(* the class a value is nominally an instance of, for TypeObject.can_assign *)
Definition assignable (p v : bval) : bool :=
  match p with
  | VAny => true
  | VKnown l =>
      match v with
      | VAny => true
      | VKnown o => obj_eqb l o
      | _ => false
      end
  | VTyped c =>
      match v with
      | VAny => true
      | VKnown o => sub_art (class_of o) c
      | VTyped c' => sub_art c' c
      | VSub c' => sub_art (meta c') c
      | VTuple _ => sub_art CTuple c
      | VGen g => sub_art (gen_cls g) c
      end
  | VSub c =>
      match v with
      | VAny => true
      | VKnown (OClass c') => sub_art c' c
      | VKnown _ => false
      | VTyped c' => cls_eqb c' CType || (sub c' CType && isinst (OClass c) c')   (* plain type, or a metaclass of c *)
      | VSub c' => sub_art c' c
      | VTuple _ => false
      | VGen _ => false
      end
  | VTuple ms =>
      match v with
      | VAny => true
      | VKnown (OTuple es) => seq_assign_known ms es
      | _ => false   (* tuple patterns against non-literals are outside the fragment *)
      end
  | VGen GSeqPat =>   (* TypedValue(Sequence).can_assign + the Exclude[str | bytes | bytearray] check *)
      match v with
      | VAny => true
      | VKnown o => sub_art (class_of o) CSequence && negb (sub_art (class_of o) CStr)
      | VTyped c => sub_art c CSequence && negb (sub_art c CStr)
      | VSub _ => false
      | VTuple _ => true
      | VGen g => sub_art (gen_cls g) CSequence
      end
  | VGen GMapPat =>
      match v with
      | VAny => true
      | VKnown o => sub_art (class_of o) CMapping
      | VTyped c => sub_art c CMapping
      | VGen g => sub_art (gen_cls g) CMapping
      | _ => false
      end
  | VGen (GList t) =>
      match v with
      | VAny => true
      | VKnown (OList es) => forallb (fun e => elt_member e t) es
      | VTyped c => sub_art c CList
      | VGen (GList t') => ety_assign t t'
      | _ => false
      end
  | VGen (GDict k w) =>
      match v with
      | VAny => true
      | VKnown (ODict kvs) => forallb (fun kv => elt_member (fst kv) k && elt_member (snd kv) w) kvs
      | VTyped c => sub_art c CDict
      | VGen (GDict k' w') => ety_assign k k' && ety_assign w w'
      | _ => false
      end
  end.

(* value.is_assignable(KnownValue(l)) for a possibly annotated value:
   AnnotatedValue.can_assign = inner can_assign + every custom check's predicate *)
Definition assignable_lit (s : sval) (l : obj) : bool :=
  assignable (sbase s) (VKnown l) && forallb (ext_holds l) (sexts s).

Definition deliteral (b : bval) : bval :=
  match b with
  | VKnown o => VTyped (class_of o)
  | VTuple _ => VTyped CTuple
  | VGen g => VTyped (gen_cls g)   (* unannotate; after the C02 repair every GenericValue is compared by its class *)
  | _ => b
  end.

Definition overlapping (pat : list bval) (s : sval) : bool :=
  let r := deliteral (sbase s) in
  existsb (fun p => let l := deliteral p in assignable l r || assignable r l) pat.

Definition pat_assignable (pat : list bval) (s : sval) : bool :=
  existsb (fun p => assignable p (sbase s)) pat.

Definition is_vsub (p : bval) : bool := match p with VSub _ => true | _ => false end.

(* predicates.is_universally_assignable (after the C02 repair: a union containing
   type[...] patterns, as built for issubclass(x, (A, B)), counts like a single one) *)
Definition univ_assignable (b : bval) (pat : list bval) : bool :=
  match b with
  | VAny => true
  | VTyped CType => existsb is_vsub pat
  | _ => false
  end.

(* ------------------------------------------------------------------ *)
(* boolability *)

Definition true_boolabs : list boolab :=
  [value_always_true_mutable; value_always_true; type_always_true].
Definition false_boolabs : list boolab :=
  [value_always_false_mutable; value_always_false].
Definition mem_boolab (b : boolab) (l : list boolab) : bool := existsb (boolab_eqb b) l.
Definition is_safely_true (b : boolab) : bool := mem_boolab b true_boolabs.
Definition is_safely_false (b : boolab) : bool := boolab_eqb b value_always_false.

(* _get_type_boolability(type(cls_object), is_exact=True): EnumMeta defines __len__ *)
Definition meta_boolab (c : cls) : boolab :=
  if is_enum c then boolable else type_always_true.

Definition known_boolab (tb : boolab) (t : bool) : boolab :=
  if t then (if boolab_eqb tb boolable then value_always_true else type_always_true)
  else value_always_false.

Definition boolab_of_b (b : bval) : boolab :=
  match b with
  | VAny => boolable
  | VTuple ms =>
      match ms with
      | [] => value_always_false
      | _ => if forallb fst ms then boolable else type_always_true
      end
  | VSub _ => type_always_true
  | VKnown o =>
      match o with
      | OTuple es => match es with [] => value_always_false | _ => type_always_true end
      | OClass c => known_boolab (meta_boolab c) true
      | OList es => match es with [] => value_always_false_mutable | _ => value_always_true_mutable end
      | ODict kvs => match kvs with [] => value_always_false_mutable | _ => value_always_true_mutable end
      | _ => known_boolab (type_boolab_exact (class_of o)) (truthy o)
      end
  | VTyped c => type_boolab c
  | VGen g => type_boolab (gen_cls g)
  end.

Definition min_boolab (a b : boolab) : boolab :=
  if Nat.leb (boolab_value a) (boolab_value b) then a else b.

Definition boolab_of (v : value) : boolab :=
  match v with
  | [s] => boolab_of_b (sbase s)
  | _ =>
      let bs := map (fun s => boolab_of_b (sbase s)) v in
      if mem_boolab erroring_bool bs then erroring_bool
      else if mem_boolab boolable bs then boolable
      else if existsb (fun b => mem_boolab b true_boolabs) bs
              && existsb (fun b => mem_boolab b false_boolabs) bs then boolable
      else match bs with
           | [] => boolable
           | b :: r => fold_left min_boolab r b
           end
  end.

(* ------------------------------------------------------------------ *)
(* predicates *)

Inductive cmpop := OpEq | OpNe | OpLt | OpLe | OpGt | OpGe.

Definition eval_op (op : cmpop) (a b : Z) : bool :=
  match op with
  | OpEq => Z.eqb a b | OpNe => negb (Z.eqb a b)
  | OpLt => Z.ltb a b | OpLe => Z.leb a b
  | OpGt => Z.ltb b a | OpGe => Z.leb b a
  end.
(* AST_TO_REVERSE *)
Definition neg_op (op : cmpop) : cmpop :=
  match op with
  | OpEq => OpNe | OpNe => OpEq | OpLt => OpGe | OpLe => OpGt | OpGt => OpLe | OpGe => OpLt
  end.

Inductive pred :=
| PIsAssignable (pat : list bval) (positive_only : bool)
| PEquals (l : obj) (use_is : bool)
| PIn (ls : list obj)
| PLenCmp (op : cmpop) (n : Z)
| PLenPat (n : nat) (has_star : bool)     (* patma.LenPredicate *)
| PAlways.

Definition pred_isassignable (pat : list bval) (positive_only : bool) (s : sval) (positive : bool)
  : list sval :=
  let compatible := overlapping pat s in
  if positive then
    if negb compatible then []
    else if pat_assignable pat s then
           (if univ_assignable (sbase s) pat then map plain pat else [s])
         else map plain pat
  else
    if negb positive_only && pat_assignable pat s && negb (univ_assignable (sbase s) pat)
    then [] else [s].

Fixpoint other_members (c : cls) (n : nat) (excluded : obj -> bool) : list sval :=
  match n with
  | O => []
  | S k => other_members c k excluded ++
           (if excluded (OEnum c k) then [] else [plain (VKnown (OEnum c k))])
  end.

Definition pred_equals (l : obj) (use_is : bool) (s : sval) (positive : bool) : list sval :=
  match sbase s with
  | VKnown o =>
      let r := if use_is then obj_eqb o l else py_eq o l in
      if Bool.eqb r positive then [s] else []
  | b =>
      if positive then
        (if assignable_lit s l then [plain (VKnown l)] else [])
      else
        match l, b with
        | OBool p, VTyped CBool => [plain (VKnown (OBool (negb p)))]
        | OEnum c i, VTyped c' =>
            if cls_eqb c c' then other_members c (enum_size c) (fun m => obj_eqb m l) else [s]
        | _, _ => [s]
        end
  end.

(* the unique type of the pattern values, if any *)
Definition in_pattern_type (ls : list obj) : option cls :=
  match ls with
  | [] => None
  | l :: r => if forallb (fun x => cls_eqb (class_of x) (class_of l)) r then Some (class_of l) else None
  end.

Definition pred_in (ls : list obj) (s : sval) (positive : bool) : list sval :=
  match sbase s with
  | VKnown o =>
      let r := existsb (py_eq o) ls in
      if Bool.eqb r positive then [s] else []
  | b =>
      if positive then
        map (fun l => plain (VKnown l)) (filter (assignable_lit s) ls)
      else
        match in_pattern_type ls, b with
        | Some c, VTyped c' =>
            if is_enum c && cls_eqb c c'
            then other_members c (enum_size c) (fun m => existsb (py_eq m) ls) else [s]
        | _, _ => [s]
        end
  end.

(* implementation.len_of_value: only unannotated tuples of known length and literals *)
Definition len_of_value (s : sval) : option Z :=
  match s with
  | SV (VTuple ms) [] => if existsb fst ms then None else Some (Z.of_nat (length ms))
  | SV (VKnown (OList _)) [] => None    (* KNOWN_MUTABLE_TYPES *)
  | SV (VKnown (ODict _)) [] => None
  | SV (VKnown o) [] => option_map Z.of_nat (len_of o)
  | _ => None
  end.

(* annotate_value: flatten, append, drop repeats keeping the first occurrence *)
Fixpoint add_exts (old new : list lenext) : list lenext :=
  match new with
  | [] => old
  | e :: r => add_exts (if existsb (lenext_eqb e) old then old else old ++ [e]) r
  end.
Definition annotate (s : sval) (new : list lenext) : sval :=
  match s with SV b old => SV b (add_exts old new) end.

(* implementation.len_transformer *)
Definition len_transform (s : sval) (op : cmpop) (n : Z) : sval :=
  match len_of_value s with
  | Some _ => s
  | None =>
      match op with
      | OpEq => annotate s [MinLen n; MaxLen n]
      | OpLt => annotate s [MaxLen (n - 1)]
      | OpLe => annotate s [MaxLen n]
      | OpGt => annotate s [MinLen (n + 1)]
      | OpGe => annotate s [MinLen n]
      | OpNe => s
      end
  end.

(* name_check_visitor._constraint_from_predicate_provider with the len provider *)
Definition pred_lencmp (op : cmpop) (n : Z) (s : sval) (positive : bool) : list sval :=
  let op' := if positive then op else neg_op op in
  match len_of_value s with
  | Some k => if eval_op op' k n then [len_transform s op' n] else []
  | None => [len_transform s op' n]
  end.

(* the generic argument of a tuple-typed value (get_generic_arg_for_type(tuple, ctx, 0)):
   Any for a bare tuple, the common member type of a SequenceValue; a union of different
   member types cannot be written in this fragment (the harness decoder rejects it) *)
Definition ety_eqb (a b : ety) : bool :=
  match a, b with
  | TAnyE, TAnyE | TNoneE, TNoneE | TBoolE, TBoolE | TIntE, TIntE | TStrE, TStrE => true
  | _, _ => false
  end.
Definition tuple_arg (b : bval) : ety :=
  match b with
  | VTuple ((_, t) :: ms) => if forallb (fun m => ety_eqb (snd m) t) ms then t else TAnyE
  | _ => TAnyE
  end.
Definition tuple_typed (b : bval) : bool :=
  match b with VTyped CTuple => true | VTuple _ => true | _ => false end.

(* patma.LenPredicate (after the C02 repair: the exact-length narrowing of a tuple of unknown
   length only in the positive branch) *)
Definition pred_lenpat (n : nat) (has_star : bool) (s : sval) (positive : bool) : list sval :=
  match len_of_value s with
  | Some k =>
      let m := if has_star then Z.leb (Z.of_nat n) k else Z.eqb k (Z.of_nat n) in
      if Bool.eqb m positive then [s] else []
  | None =>
      if positive && negb has_star && tuple_typed (sbase s)
      then [plain (VTuple (repeat (false, tuple_arg (sbase s)) n))]
      else [s]
  end.

Definition apply_pred (p : pred) (s : sval) (positive : bool) : list sval :=
  match p with
  | PIsAssignable pat po => pred_isassignable pat po s positive
  | PEquals l use_is => pred_equals l use_is s positive
  | PIn ls => pred_in ls s positive
  | PLenCmp op n => pred_lencmp op n s positive
  | PLenPat n star => pred_lenpat n star s positive
  | PAlways => if positive then [s] else []
  end.

(* ------------------------------------------------------------------ *)
(* concrete constraints (stacked_scopes.Constraint) on the one variable *)

(* the class a TypedValue-like value carries in `.typ` *)
Definition nominal_cls (b : bval) : cls :=
  match b with
  | VTyped c => c
  | VTuple _ => CTuple
  | VGen g => gen_cls g
  | _ => CObject
  end.

(* stacked_scopes._is_promotable_to (C02 repair): instances of c belong to t through the implicit
   int -> float -> complex promotion *)
Definition promotable (c t : cls) : bool := (cls_eqb t CFloat || cls_eqb t CComplex) && sub_art c t.

(* ConstraintType.is_instance (assert_is_instance): real isinstance / issubclass; since the C02
   repair the positive branch also accepts a class that is promoted to the declared one *)
Definition apply_isinstance (c : cls) (positive : bool) (s : sval) : list sval :=
  match sbase s with
  | VAny => if positive then [plain (VTyped c)] else [plain VAny]
  | VKnown o => if Bool.eqb (isinst o c) positive then [s] else []
  | VSub t => if Bool.eqb (isinst (OClass t) c) positive then [s] else []
  | b =>
      let t := nominal_cls b in
      if positive then (if sub t c then [s] else if sub c t || promotable c t then [plain (VTyped c)] else [])
      else (if sub t c then [] else [s])
  end.

(* ConstraintType.is_value (assert_is / assert_is_not) *)
Definition apply_isvalue (l : obj) (positive : bool) (s : sval) : list sval :=
  if positive then
    match sbase s with
    | VAny => [plain (VKnown l)]
    | VKnown o => if obj_eqb o l then [s] else []
    | VSub t => match l with
                | OClass k => if sub k t || promotable k t then [plain (VKnown l)] else []
                | _ => []
                end
    | b => if isinst l (nominal_cls b) || promotable (class_of l) (nominal_cls b) then [plain (VKnown l)] else []
    end
  else
    match sbase s with
    | VKnown o => if obj_eqb o l then [] else [s]
    | _ => [s]
    end.

Inductive constr :=
| KIsInstance (c : cls) (positive : bool)
| KIsValue (l : obj) (positive : bool)
| KAddAnnot (name : N) (positive : bool)      (* add_annotation (HasAttrGuard): membership unchanged *)
| KTruthy (positive : bool)
| KValueObject (t : value) (positive : bool)   (* is_value_object: TypeGuard *)
| KPred (p : pred) (positive : bool)
| KOneOf (cs : list constr)
| KAllOf (cs : list constr).

Fixpoint apply_constr (k : constr) (s : sval) {struct k} : list sval :=
  match k with
  | KIsInstance c positive => apply_isinstance c positive s
  | KIsValue l positive => apply_isvalue l positive s
  | KAddAnnot name positive => if positive then [annotate s [HasAttrExt name]] else [s]
  | KTruthy positive =>
      let b := boolab_of_b (sbase s) in
      if positive then (if is_safely_false b then [] else [s])
      else (if is_safely_true b then [] else [s])
  | KValueObject t positive => if positive then t else [s]
  | KPred p positive => apply_pred p s positive
  | KOneOf cs =>
      (fix one (cs : list constr) : list sval :=
         match cs with
         | [] => []
         | c :: r => apply_constr c s ++ one r
         end) cs
  | KAllOf cs =>
      (fix all (cs : list constr) (vals : list sval) : list sval :=
         match cs with
         | [] => vals
         | c :: r => all r (flat_map (apply_constr c) vals)
         end) cs [s]
  end.

(* abstract constraints *)
Inductive acon :=
| ANull
| ALeaf (k : constr)
| AAnd (a b : acon)
| AOr (a b : acon)
| AAlt (a b : acon).   (* AlternativesConstraint: the constraints carried by the members of a union value;
                         applied like an OR, but its inverse is again a disjunction *)

Definition from_list (l : list constr) : constr :=
  match l with [c] => c | _ => KAllOf l end.

Fixpoint apply_acon (a : acon) : list constr :=
  match a with
  | ANull => []
  | ALeaf k => [k]
  | AAnd a b => apply_acon a ++ apply_acon b
  | AOr a b =>
      match apply_acon a, apply_acon b with
      | [], _ => []
      | _, [] => []
      | ga, gb => [KOneOf [from_list ga; from_list gb]]
      end
  | AAlt a b =>     (* OrConstraint(self.constraints).apply() *)
      match apply_acon a, apply_acon b with
      | [], _ => []
      | _, [] => []
      | ga, gb => [KOneOf [from_list ga; from_list gb]]
      end
  end.

Definition flip (k : constr) : constr :=
  match k with
  | KIsInstance c p => KIsInstance c (negb p)
  | KIsValue l p => KIsValue l (negb p)
  | KAddAnnot n p => KAddAnnot n (negb p)
  | KTruthy p => KTruthy (negb p)
  | KValueObject t p => KValueObject t (negb p)
  | KPred q p => KPred q (negb p)
  | k => k
  end.

Fixpoint invert (a : acon) : acon :=
  match a with
  | ANull => ANull
  | ALeaf k => ALeaf (flip k)
  | AAnd a b => AOr (invert a) (invert b)
  | AOr a b => AAnd (invert a) (invert b)
  | AAlt a b => AAlt (invert a) (invert b)
  end.

Definition apply_all (ks : list constr) (v : value) : value :=
  fold_left (fun vals k => flat_map (apply_constr k) vals) ks v.

(* stacked_scopes.constrain_value (the result is the union of the survivors) *)
Definition constrain (v : value) (a : acon) : value := apply_all (apply_acon a) v.

(* ------------------------------------------------------------------ *)
(* conditions *)

(* subpatterns on the elements of a sequence / the values of a mapping *)
Inductive epat := EWild | ELit (e : elt) | EClass (t : ety).
Definition epat_match (p : epat) (e : elt) : bool :=
  match p with
  | EWild => true
  | ELit l => elt_py_eq e l
  | EClass t => elt_member e t
  end.
Fixpoint epats_match (ps : list epat) (es : list elt) : bool :=
  match ps, es with
  | [], _ => true
  | p :: ps', e :: es' => epat_match p e && epats_match ps' es'
  | _ :: _, [] => false
  end.
Fixpoint lookup_elt (k : elt) (kvs : list (elt * elt)) : option elt :=
  match kvs with
  | [] => None
  | (k', v) :: r => if elt_py_eq k' k then Some v else lookup_elt k r
  end.
Definition seq_elems (o : obj) : option (list elt) :=
  match o with OTuple es => Some es | OList es => Some es | _ => None end.

Inductive cond :=
| CTruthy                                   (* if x *)
| CIsInstance (cs : list cls)               (* isinstance(x, (c1, ...)) *)
| CIsSubclass (cs : list cls)               (* issubclass(x, (c1, ...)) *)
| CIs (l : obj)                             (* x is l ; also case None/True/False *)
| CEq (l : obj)                             (* x == l ; also case <value> *)
| CIn (ls : list obj)                       (* x in (l1, ...) *)
| CLen (op : cmpop) (n : Z)                 (* len(x) <op> n *)
| CTypeIs (t : list bval)                   (* f(x) with f: (object) -> TypeIs[t] *)
| CTypeGuard (t : value)                    (* f(x) with f: (object) -> TypeGuard[t] *)
| CMatchClass (c : cls)                     (* case c(): *)
| CAlways                                   (* case _: *)
| COpaque (b : bool)                        (* a condition that says nothing about x (value b at run time) *)
| CSeqIs (po : bool)                        (* sequence pattern, part 1: x is a Sequence that is not str/bytes *)
| CSeqLen (n : nat) (has_star : bool)       (* sequence pattern, part 2: number of subpatterns *)
| CElems (pre : list epat) (has_star : bool) (post : list epat)
                                            (* sequence pattern, part 3: the subpatterns (constraints on the
                                               elements, none on x) *)
| CMapIs (po : bool)                        (* mapping pattern, part 1: x is a Mapping *)
| CMapKeys (kps : list (elt * epat))        (* mapping pattern, part 2: keys present and value subpatterns *)
| CPAnd (a b : cond)                        (* conjunction of the parts of one pattern (in source order) *)
| CIfExp (flag : bool) (a b : cond)         (* `(a) if f() else (b)`: a union-valued condition; flag = the run-time value of f() *)
| CAssertInst (c : cls)                     (* the statement assert_is_instance(x, c) went through *)
| CAssertIs (l : obj)                       (* assert_is(x, l) went through (assert_is_not: CNot) *)
| CHasAttr (name : N) (b : bool)            (* hasattr(x, "name") (run-time value b) *)
| CNot (c : cond)
| CAnd (a b : cond)
| COr (a b : cond).

(* patma.visit_MatchSequence: `case [p1, ..., *rest, ..., qm]` is the conjunction of
   IsAssignablePredicate(MatchableSequence, positive_only = len(patterns) > 1 or no star),
   LenPredicate(number of non-star subpatterns, has_star) and the subpattern constraints *)
Definition match_seq (pre : list epat) (star : bool) (post : list epat) : cond :=
  let n := length pre + length post in
  let po := orb (Nat.ltb 1 (n + (if star then 1 else 0))) (negb star) in
  CPAnd (CSeqIs po) (CPAnd (CSeqLen n star) (CElems pre star post)).
(* patma.visit_MatchMapping: positive_only = len(keys) > 0 *)
Definition match_map (kps : list (elt * epat)) : cond :=
  CPAnd (CMapIs (negb (Nat.eqb (length kps) 0))) (CMapKeys kps).

Fixpoint cond_acon (c : cond) : acon :=
  match c with
  | CTruthy => ALeaf (KTruthy true)
  | CIsInstance cs => ALeaf (KPred (PIsAssignable (map VTyped cs) false) true)
  | CIsSubclass cs => ALeaf (KPred (PIsAssignable (map VSub cs) false) true)
  | CIs l => ALeaf (KPred (PEquals l true) true)
  | CEq l => ALeaf (KPred (PEquals l false) true)
  | CIn ls => ALeaf (KPred (PIn ls) true)
  | CLen op n => ALeaf (KPred (PLenCmp op n) true)
  | CTypeIs t => ALeaf (KPred (PIsAssignable t false) true)
  | CTypeGuard t => ALeaf (KValueObject t true)
  | CMatchClass c => ALeaf (KPred (PIsAssignable [VTyped c] true) true)
  | CAlways => ALeaf (KPred PAlways true)
  | COpaque _ => ANull
  | CSeqIs po => ALeaf (KPred (PIsAssignable [VGen GSeqPat] po) true)
  | CSeqLen n star => ALeaf (KPred (PLenPat n star) true)
  | CElems _ _ _ => ANull
  | CMapIs po => ALeaf (KPred (PIsAssignable [VGen GMapPat] po) true)
  | CMapKeys _ => ANull
  | CPAnd a b => AAnd (cond_acon a) (cond_acon b)
  | CIfExp _ a b => AAlt (cond_acon a) (cond_acon b)
  | CAssertInst c => ALeaf (KIsInstance c true)
  | CAssertIs l => ALeaf (KIsValue l true)
  | CHasAttr n _ => ALeaf (KAddAnnot n true)
  | CNot c => invert (cond_acon c)
  | CAnd a b => AAnd (cond_acon b) (cond_acon a)   (* AndConstraint.make(reversed(...)) *)
  | COr a b => AOr (cond_acon a) (cond_acon b)
  end.

Definition narrow (v : value) (c : cond) (pol : bool) : value :=
  constrain v (if pol then cond_acon c else invert (cond_acon c)).

(* visit_BoolOp visits its second operand in a sub-scope where x is already narrowed by the
   first one (by its negation for `or`) and then merges the sub-scopes back: the value of x the
   whole condition's constraint is applied to is V plus that narrowed copy *)
Fixpoint boolop_merge (v : value) (c : cond) {struct c} : value :=
  match c with
  | CNot c => boolop_merge v c
  | CAnd a b => boolop_merge v a ++ boolop_merge (narrow v a true) b
  | COr a b => boolop_merge v a ++ boolop_merge (narrow v a false) b
  | _ => v
  end.

(* what `if <c>: ... else: ...` makes of x end to end; nested and/or operands merge their own
   narrowed copies inside the sub-scope they are visited in *)
Definition narrow_e2e (v : value) (c : cond) (pol : bool) : value :=
  constrain (boolop_merge v c) (if pol then cond_acon c else invert (cond_acon c)).

(* the tested type of a condition (for "never widens") *)
Fixpoint tested (c : cond) : value :=
  match c with
  | CTruthy => []
  | CIsInstance cs => map (fun c => plain (VTyped c)) cs
  | CIsSubclass cs => map (fun c => plain (VSub c)) cs
  | CIs l => [plain (VKnown l)]
  | CEq l => [plain (VKnown l)]
  | CIn ls => map (fun l => plain (VKnown l)) ls
  | CLen _ _ => []
  | CTypeIs t => map plain t
  | CTypeGuard t => t
  | CMatchClass c => [plain (VTyped c)]
  | CAlways => []
  | COpaque _ => []
  | CSeqIs _ => [plain (VGen GSeqPat)]
  | CSeqLen _ _ => [plain (VTyped CTuple)]   (* LenPredicate narrows tuple-typed values to tuples *)
  | CElems _ _ _ => []
  | CMapIs _ => [plain (VGen GMapPat)]
  | CMapKeys _ => []
  | CPAnd a b => tested a ++ tested b
  | CIfExp _ a b => tested a ++ tested b
  | CAssertInst c => [plain (VTyped c)]
  | CAssertIs l => [plain (VKnown l)]
  | CHasAttr _ _ => []
  | CNot c => tested c
  | CAnd a b => tested a ++ tested b
  | COr a b => tested a ++ tested b
  end.

(* ------------------------------------------------------------------ *)
(* specification: what the condition means at run time (None: it raises) *)

Fixpoint holds (c : cond) (o : obj) : option bool :=
  match c with
  | CTruthy => Some (truthy o)
  | CIsInstance cs => Some (existsb (isinst o) cs)
  | CIsSubclass cs =>
      match o with
      | OClass c' => Some (existsb (sub c') cs)
      | _ => None
      end
  | CIs l => Some (obj_eqb o l)
  | CEq l => Some (py_eq o l)
  | CIn ls => Some (existsb (py_eq o) ls)
  | CLen op n =>
      match len_of o with
      | Some k => Some (eval_op op (Z.of_nat k) n)
      | None => None
      end
  | CTypeIs t => Some (existsb (member_b o) t)
  | CTypeGuard t => Some (member o t)
  | CMatchClass c => Some (isinst o c)
  | CAlways => Some true
  | COpaque b => Some b
  | CSeqIs _ => Some (match seq_elems o with Some _ => true | None => false end)
  | CSeqLen n star =>
      match len_of o with
      | Some k => Some (if star then Nat.leb n k else Nat.eqb k n)
      | None => None
      end
  | CElems pre star post =>
      match seq_elems o with
      | Some es => Some (epats_match pre es && epats_match (rev post) (rev es))
      | None => Some false
      end
  | CMapIs _ => Some (match o with ODict _ => true | _ => false end)
  | CMapKeys kps =>
      match o with
      | ODict kvs => Some (forallb (fun kp => match lookup_elt (fst kp) kvs with
                                               | Some v => epat_match (snd kp) v
                                               | None => false end) kps)
      | _ => Some false
      end
  | CPAnd a b =>
      match holds a o with
      | Some true => holds b o
      | r => r
      end
  | CIfExp flag a b => if flag then holds a o else holds b o
  | CAssertInst c => Some (isinst o c)
  | CAssertIs l => Some (obj_eqb o l)
  | CHasAttr _ b => Some b
  | CNot c => option_map negb (holds c o)
  | CAnd a b =>
      match holds a o with
      | Some true => holds b o
      | r => r
      end
  | COr a b =>
      match holds a o with
      | Some false => holds b o
      | r => r
      end
  end.

(* ------------------------------------------------------------------ *)
(* decision skeletons: the control flow of the predicate / constraint bodies over abstract
   boolean inputs.  Gen/NarrowPreds.v is translated from the Python source on every run and
   proved equal to these (Properties/C02.v); Proofs/NarrowSkel.v proves that the model's
   predicates above are these skeletons applied to the model's primitive tests. *)
Inductive pres := RDrop | RValue | RPattern.
Inductive ctype := T_is_instance | T_is_value | T_is_value_object | T_is_truthy | T_predicate
                 | T_add_annotation | T_one_of | T_all_of.
Inductive eqop := OIs | OIsNot | OEqual | ONotEqual.

Definition isassignable_skel (ov asg univ po positive : bool) : pres :=
  if positive then
    (if negb ov then RDrop else if asg then (if univ then RPattern else RValue) else RPattern)
  else if negb po && asg && negb univ then RDrop else RValue.

Definition lenpat_skel (known : bool) (k n : Z) (star positive is_typed is_tuple : bool) : pres :=
  if known then
    (let m := if star then Z.geb k n else Z.eqb k n in
     if Bool.eqb m positive then RValue else RDrop)
  else if positive && negb star && is_typed && is_tuple then RPattern else RValue.

Definition truthy_skel (sf st positive : bool) : pres :=
  if positive then (if sf then RDrop else RValue) else (if st then RDrop else RValue).

Definition valueobject_skel (positive : bool) : pres := if positive then RPattern else RValue.

Definition model_operator (positive use_is : bool) : eqop :=
  match positive, use_is with
  | true, true => OIs | false, true => OIsNot | true, false => OEqual | false, false => ONotEqual
  end.

Definition model_dispatch : list ctype :=
  [T_is_instance; T_is_value; T_is_value_object; T_is_truthy; T_predicate; T_add_annotation; T_one_of; T_all_of].

Definition interp (r : pres) (s : sval) (pattern : list sval) : list sval :=
  match r with RDrop => [] | RValue => [s] | RPattern => pattern end.

(* ------------------------------------------------------------------ *)
(* construction sites: how source conditions become constraints.  Gen/NarrowSrc.v reads these
   constants off the ast of name_check_visitor / implementation / signature / patma on every run;
   Proofs/NarrowSrcTie.v proves cond_acon (and invert / apply_acon / pred_equals / pred_in) equal to
   what the generated constants prescribe. *)
Inductive cmpkind := KIs | KIsNot | KEq | KNotEq | KIn | KNotIn.
Inductive pkind := PKEquals (use_is : bool) | PKIn.
Inductive wrapkind := WTyped | WSub.
Inductive ackind := IsAnd | IsOr | IsAlt.
Inductive eres := EDrop | EValue | ELiteral | EBoolCompl | EEnumCompl.
Inductive ires := IDrop | IValue | IAcceptable | IEnumCompl.

(* the constraint a comparison `x <op> literal(s)` yields, from a (predicate kind, positive) row *)
Definition compare_leaf (row : pkind * bool) (ls : list obj) : constr :=
  match fst row with
  | PKEquals use_is => KPred (PEquals (match ls with l :: _ => l | [] => ONone end) use_is) (snd row)
  | PKIn => KPred (PIn ls) (snd row)
  end.
(* the condition a comparison operator stands for *)
Definition compare_cond (k : cmpkind) (ls : list obj) : cond :=
  let l := match ls with l :: _ => l | [] => ONone end in
  match k with
  | KIs => CIs l | KIsNot => CNot (CIs l)
  | KEq => CEq l | KNotEq => CNot (CEq l)
  | KIn => CIn ls | KNotIn => CNot (CIn ls)
  end.

Definition wrap (w : wrapkind) (c : cls) : bval := match w with WTyped => VTyped c | WSub => VSub c end.
Definition isassign_leaf (site : wrapkind * ctype * bool * bool) (cs : list cls) : option constr :=
  match site with
  | (w, T_predicate, positive, po) => Some (KPred (PIsAssignable (map (wrap w) cs) po) positive)
  | _ => None
  end.

Definition equals_skel (is_known opres positive asg pat_bool is_typed typ_bool pat_enum typ_same : bool) : eres :=
  if is_known then (if opres then EValue else EDrop)
  else if positive then (if asg then ELiteral else EDrop)
  else if pat_bool then (if is_typed && typ_bool then EBoolCompl else EValue)
  else if pat_enum then (if is_typed && typ_same then EEnumCompl else EValue)
  else EValue.

(* elementwise: the container is a tuple / list / set / frozenset / dict / range, whose own __contains__ is
   "equals one of the iterated elements"; any other container leaves a non-Literal member alone *)
Definition in_skel (is_known inres positive elementwise acc_nonempty pat_enum is_typed typ_same : bool) : ires :=
  if is_known then (if Bool.eqb inres positive then IValue else IDrop)
  else if positive then (if negb elementwise then IValue else if acc_nonempty then IAcceptable else IDrop)
  else if pat_enum then (if is_typed && typ_same then IEnumCompl else IValue)
  else IValue.

Definition is_known_b (b : bval) : bool := match b with VKnown _ => true | _ => false end.
Definition is_typed_b (b : bval) : bool :=
  match b with VTyped _ | VTuple _ | VGen _ => true | _ => false end.
Definition known_obj (b : bval) : obj := match b with VKnown o => o | _ => ONone end.
Definition is_bool_lit (l : obj) : bool := match l with OBool _ => true | _ => false end.
Definition is_enum_lit (l : obj) : bool := match l with OEnum _ _ => true | _ => false end.
Definition bool_compl (l : obj) : obj := match l with OBool p => OBool (negb p) | _ => l end.

Definition einterp (r : eres) (s : sval) (l : obj) : list sval :=
  match r with
  | EDrop => []
  | EValue => [s]
  | ELiteral => [plain (VKnown l)]
  | EBoolCompl => [plain (VKnown (bool_compl l))]
  | EEnumCompl => other_members (class_of l) (enum_size (class_of l)) (fun m => obj_eqb m l)
  end.

(* ------------------------------------------------------------------ *)
(* stored conditions: FunctionScope._add_single_constraint.  A constraint remembers the definitions
   of x that were current when its condition was evaluated ([cons]); when the program later branches
   on the stored result, the constraint is applied to x only if every definition that can reach the
   branch ([cur]) is one of them — otherwise x may hold an object the condition never saw. *)
Inductive stale_test := StaleIfSomeNew | StaleIfDisjoint.
Definition mem_id (d : nat) (l : list nat) : bool := existsb (Nat.eqb d) l.
Definition stored_applies (t : stale_test) (cur cons : list nat) : bool :=
  match t with
  | StaleIfSomeNew => forallb (fun d => mem_id d cons) cur     (* not (current_set - constraint_set) *)
  | StaleIfDisjoint => existsb (fun d => mem_id d cons) cur    (* not current_set.isdisjoint(constraint_set) *)
  end.
Definition model_stale_test : stale_test := StaleIfSomeNew.
Definition stored_narrow_with (t : stale_test) (cur cons : list nat) (v : value) (c : cond) (pol : bool) : value :=
  if stored_applies t cur cons then narrow v c pol else v.
Definition stored_narrow := stored_narrow_with model_stale_test.

(* the is_instance / is_value branches of Constraint.apply_to_value as decision skeletons *)
Inductive ares := ADrop | AValue | AInner | ANarrowed.
Definition isinstance_apply_skel (is_any positive is_known kinst is_typed is_synth sub_tc sub_ct promo is_sub sub_typed cinst : bool) : ares :=
  if is_any then (if positive then ANarrowed else AInner)
  else if is_known then (if Bool.eqb kinst positive then AValue else ADrop)
  else if is_typed then
    (if is_synth then AValue
     else if positive then (if sub_tc then AValue else if sub_ct || promo then ANarrowed else ADrop)
     else (if sub_tc then ADrop else AValue))
  else if is_sub then
    (if negb sub_typed then AValue else if Bool.eqb cinst positive then AValue else ADrop)
  else ADrop.
Definition isvalue_apply_skel (is_any positive is_known same is_typed vinst promo is_sub sub_typed v_is_type t_is_type sub_vt promo_vt : bool) : ares :=
  if positive then
    (if is_any then ANarrowed
     else if is_known then (if same then AValue else ADrop)
     else if is_typed then (if vinst || promo then ANarrowed else ADrop)
     else if is_sub then (if sub_typed && v_is_type && t_is_type && (sub_vt || promo_vt) then ANarrowed else ADrop)
     else ADrop)
  else if is_known && same then ADrop else AValue.
Definition ainterp (r : ares) (s : sval) (inner narrowed : sval) : list sval :=
  match r with ADrop => [] | AValue => [s] | AInner => [inner] | ANarrowed => [narrowed] end.
Definition is_any_b (b : bval) : bool := match b with VAny => true | _ => false end.
Definition is_sub_b (b : bval) : bool := match b with VSub _ => true | _ => false end.
Definition sub_cls (b : bval) : cls := match b with VSub t => t | _ => CObject end.
Definition is_class_obj (l : obj) : bool := match l with OClass _ => true | _ => false end.
Definition class_obj (l : obj) : cls := match l with OClass k => k | _ => CObject end.

(* ------------------------------------------------------------------ *)
(* `x in "<s>"` / `x not in "<s>"`: a container whose own __contains__ (substring test) is not "equals one of
   the elements obtained by iterating it" (single characters).  _constraint_from_compare_op hands the container
   itself to InPredicate (in_arg = ArgContainer, read off the source: Gen/NarrowSrc.gen_in_arg): a Literal member is
   tested with the container's own __contains__ (a TypeError leaves it alone); every other member is left alone in
   the positive branch, because a str is not an element-wise container (typed_rule = IterateElementwiseOnly, the
   repaired InPredicate; before the repair it was narrowed to the *iterated* elements it accepts: IterateAlways). *)
Fixpoint str_prefix (t s : list N) : bool :=
  match t, s with
  | [], _ => true
  | a :: t', b :: s' => N.eqb a b && str_prefix t' s'
  | _ :: _, [] => false
  end.
Fixpoint str_infix (t s : list N) : bool :=
  str_prefix t s || match s with [] => false | _ :: s' => str_infix t s' end.
Definition str_chars (s : list N) : list obj := map (fun ch => OStr [ch]) s.

Inductive in_arg := ArgContainer | ArgElements.
Definition model_in_arg : in_arg := ArgContainer.

Inductive typed_rule := IterateAlways | IterateElementwiseOnly.
Definition model_typed_rule : typed_rule := IterateElementwiseOnly.

Definition pred_instr_with (arg : in_arg) (tr : typed_rule) (s : list N) (sv : sval) (positive : bool) : list sval :=
  match arg, sbase sv with
  | ArgContainer, VKnown (OStr t) => if Bool.eqb (str_infix t s) positive then [sv] else []
  | ArgContainer, VKnown _ => [sv]
  | ArgContainer, _ =>
      match tr, positive with
      | IterateElementwiseOnly, true => [sv]
      | _, _ => pred_in (str_chars s) sv positive
      end
  | ArgElements, _ => pred_in (str_chars s) sv positive      (* a list is an element-wise container *)
  end.
Definition instr_narrow_with (arg : in_arg) (tr : typed_rule) (v : value) (s : list N) (pol : bool) : value :=
  flat_map (fun sv => pred_instr_with arg tr s sv pol) v.
Definition instr_narrow : value -> list N -> bool -> value := instr_narrow_with model_in_arg model_typed_rule.
(* the run-time value of `x in "<s>"` (None: TypeError) *)
Definition holds_instr (s : list N) (o : obj) : option bool :=
  match o with OStr t => Some (str_infix t s) | _ => None end.
Definition all_known (v : value) : bool := forallb (fun sv => is_known_b (sbase sv)) v.

(* ------------------------------------------------------------------ *)
(* the rule removed by 180079d (NOT the behaviour of HEAD, which leaves the caller's variable alone): a constraint
   applied to a variable other than the one the condition was evaluated on (a helper returning a condition about
   *its* parameter, called from a scope that has a variable of the same name) *)
Definition leak_narrow (v_caller : value) (c : cond) (pol : bool) : value := narrow v_caller c pol.

(* `case <pattern with sub-patterns> as p`: visit_MatchAs applies the whole pattern's constraint, including the
   constraints of the sub-patterns (which are about elements / attributes), to the subject *)
Definition as_bound (v : value) (whole sub : cond) : value := narrow v (CAnd whole sub) true.

(* ------------------------------------------------------------------ *)
(* name_check_visitor.COMPARATOR_TO_OPERATOR: what each of the ten comparison operators computes on ints
   (codes: 0 == 1 != 2 < 3 <= 4 > 5 >= 6 is 7 is-not 8 in 9 not-in; bs = [b], or the container for in / not in);
   the negative operator of every entry has to be the complement of the positive one *)
Definition cmp_sem (code : N) (a : Z) (bs : list Z) : bool :=
  let b := hd 0%Z bs in
  match code with
  | 0%N => Z.eqb a b | 1%N => negb (Z.eqb a b)
  | 2%N => Z.ltb a b | 3%N => Z.leb a b | 4%N => Z.ltb b a | 5%N => Z.leb b a
  | 6%N => Z.eqb a b | 7%N => negb (Z.eqb a b)
  | 8%N => existsb (Z.eqb a) bs
  | _ => negb (existsb (Z.eqb a) bs)
  end.
Definition cmp_row_ok (r : N * Z * list Z * bool * bool) : bool :=
  match r with (code, a, bs, p, n) => Bool.eqb p (cmp_sem code a bs) && Bool.eqb n (negb p) end.

(* `len(x) in C` / `len(x) not in C` (_constraint_from_predicate_provider with the In / NotIn entries; the
   transformer leaves the value alone for these operators): a member of known length is kept iff the positive /
   negative operator says so.  negated_is_complement = false is the rule of the round-5 seed (the negative operator of
   `in` computes the same as the positive one) *)
Definition pred_lenin_with (negated_is_complement : bool) (ns : list Z) (sv : sval) (positive : bool) : list sval :=
  match len_of_value sv with
  | Some k =>
      let r := existsb (Z.eqb k) ns in
      let keep := if positive then r else (if negated_is_complement then negb r else r) in
      if keep then [sv] else []
  | None => [sv]
  end.
Definition lenin_narrow_with (nic : bool) (v : value) (ns : list Z) (pol : bool) : value :=
  flat_map (fun sv => pred_lenin_with nic ns sv pol) v.
Definition lenin_narrow : value -> list Z -> bool -> value := lenin_narrow_with true.
Definition holds_lenin (ns : list Z) (o : obj) : option bool :=
  match len_of o with Some k => Some (existsb (Z.eqb (Z.of_nat k)) ns) | None => None end.
