(* Ops/Attr.v -- executable model of the attribute-access *decision* for a
   statically known object (attributes.py `_get_attribute_from_known` ->
   `_get_attribute_from_mro`, then name_check_visitor.py
   `_get_attribute_fallback`), over observations of the real object and of the
   stubs.  For an instance the checker simply performs getattr on the object;
   for classes, Enum classes and modules it consults stubs / annotations /
   base-class dicts first.  The order of the steps inside the MRO loop and the
   boolean of the fallback come from PV.Gen.Ops (regenerated on every run).
   No proofs in this file. *)
From Coq Require Import List Bool.
Import ListNotations.
Require Import PV.Ops.AttrBase PV.Gen.Ops.

(* result of the lookup *)
Inductive lookup :=
| LKnown        (* KnownValue(getattr(obj, attr)): the real result *)
| LStub         (* a type taken from stubs / annotations: "the attribute exists" *)
| LAnyExists    (* exists, but reading it raised something else: Any *)
| LMissing.     (* UNINITIALIZED_VALUE *)

(* what performing getattr(obj, attr) on the real object gives *)
Definition perform (r : real) : lookup :=
  match r with RHas => LKnown | RRaisesAttr => LMissing | RRaisesOther => LAnyExists end.

(* one step of the MRO loop on one base; None = go on *)
Definition mro_step (r : real) (b : base_obs) (s : step) : option lookup :=
  match s with
  | SStubNonCallable => match b_stub b with StubValue => Some LStub | _ => None end
  | SAnnotations => if b_annot b then Some LStub else None
  | SBaseDict => if b_indict b then Some (match r with RHas => LKnown | _ => LAnyExists end) else None
  | SStubCallable => match b_stub b with StubCallable => Some LStub | _ => None end
  end.

Fixpoint first_some {A B : Type} (f : A -> option B) (l : list A) : option B :=
  match l with
  | [] => None
  | x :: r => match f x with Some y => Some y | None => first_some f r end
  end.

(* for base in mro: the steps in source order *)
Definition mro_loop (order : list step) (r : real) (bases : list base_obs) : option lookup :=
  first_some (fun b => first_some (mro_step r b) order) bases.

(* _get_attribute_from_mro *)
Definition lookup_attr (order : list step) (o : obs) : lookup :=
  match o_kind o with
  | KInstance => perform (o_real o)                       (* not a type: getattr on the object itself *)
  | KModule =>
      if o_module_annot o then LStub else perform (o_real o)
  | KClass =>
      match mro_loop order (o_real o) (o_bases o) with Some l => l | None => perform (o_real o) end
  | KEnumClass =>
      match o_real o with
      | RHas => LKnown                                       (* the special case: a member wins *)
      | RRaisesAttr =>
          if o_enum_dynamic o then LMissing                  (* Color.name: members only *)
          else match mro_loop order (o_real o) (o_bases o) with Some l => l | None => LMissing end
      | RRaisesOther =>
          match mro_loop order (o_real o) (o_bases o) with Some l => l | None => LAnyExists end
      end
  end.

(* _get_attribute_fallback for a KnownValue: is the missing attribute silently accepted? *)
Definition silenced (o : obs) : bool :=
  fallback_ignores (o_only_known o) (o_has_getattr o) (o_ignored_name o).

(* undefined_attribute (or attribute_is_never_set) is reported *)
Definition attr_diag (order : list step) (o : obs) : bool :=
  match lookup_attr order o with
  | LMissing => negb (silenced o)
  | _ => false
  end.

Definition pa_attr (o : obs) : bool := attr_diag mro_step_order o.

(* CPython: performing the access raises AttributeError *)
Definition py_attr_raises (o : obs) : bool := match o_real o with RRaisesAttr => true | _ => false end.

(* ---- guards --------------------------------------------------------------- *)
(* the stubs / annotations / class dicts do not claim an attribute the real object lacks *)
Definition claims (o : obs) : bool :=
  match o_kind o with
  | KInstance => false
  | KModule => o_module_annot o
  | KClass =>
      existsb (fun b => (match b_stub b with NoStub => false | _ => true end) || b_annot b || b_indict b) (o_bases o)
  | KEnumClass =>    (* a DynamicClassAttribute (Color.name) is recognised before the bases are consulted *)
      negb (o_enum_dynamic o) &&
      existsb (fun b => (match b_stub b with NoStub => false | _ => true end) || b_annot b || b_indict b) (o_bases o)
  end.
Definition claim_faithful (o : obs) : bool := negb (claims o && py_attr_raises o).

Definition attr_guard (o : obs) : bool := claim_faithful o && negb (silenced o && py_attr_raises o).
