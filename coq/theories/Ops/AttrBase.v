(* Ops/AttrBase.v -- observations used by the attribute-access model (shared
   with the generated PV.Gen.Ops). No proofs in this file. *)
From Coq Require Import List Bool.
Import ListNotations.

Inductive okind := KInstance | KModule | KClass | KEnumClass.
Inductive real := RHas | RRaisesAttr | RRaisesOther.      (* getattr(obj, attr) performed *)
Inductive stub := NoStub | StubValue | StubCallable.      (* ts_finder.get_attribute(base, attr, on_class) *)

Record base_obs := mkBase { b_stub : stub; b_annot : bool; b_indict : bool }.

Record obs := mkObs {
  o_kind : okind;
  o_real : real;
  o_bases : list base_obs;       (* type.mro(obj), for classes *)
  o_enum_dynamic : bool;         (* the static attribute is a types.DynamicClassAttribute *)
  o_module_annot : bool;         (* the module's __annotations__ declare it *)
  o_only_known : bool;           (* _has_only_known_attributes *)
  o_has_getattr : bool;          (* _static_hasattr(obj, "__getattr__") *)
  o_ignored_name : bool          (* the name is in ignored_end_of_reference / an ignored path *)
}.

(* the steps of the MRO loop *)
Inductive step := SStubNonCallable | SAnnotations | SBaseDict | SStubCallable.
