(* Ops/Dispatch.v -- executable model of how pyanalyze decides a unary / binary
   operator on two statically known operands (name_check_visitor.py
   `_visit_binop_no_mvv`, `_check_dunder_call_no_mvv`, `_check_call_no_mvv`
   with allow_call), and of CPython's operator protocol over the same
   observations of the real objects (the specification side).
   No proofs in this file.

   The decision tree that combines the two dunder attempts (`combine`) comes
   from PV.Gen.Ops, regenerated from the current source on every run. *)
From Coq Require Import List Bool.
Import ListNotations.
Require Import PV.Gen.Ops.

(* What really happens when type(recv).<dunder>(recv, arg) is called. *)
Inductive outcome (O : Type) :=
| OVal (v : O)          (* returns an ordinary object *)
| ONotImpl              (* returns NotImplemented *)
| ORaiseType            (* raises TypeError *)
| ORaiseOther.          (* raises something else (ZeroDivisionError, ValueError, OverflowError ...) *)
Arguments OVal {O} v.
Arguments ONotImpl {O}.
Arguments ORaiseType {O}.
Arguments ORaiseOther {O}.

(* One dunder attempt, as pyanalyze sees it. *)
Record side (O : Type) := mkSide {
  s_exists : bool;        (* _get_dunder found the method on the operand's type *)
  s_sigerr : bool;        (* the stub signature rejected the argument (an error was shown) *)
  s_retany : bool;        (* the stub's return type is Any *)
  s_out : outcome O       (* the real call, performed because every argument is a KnownValue *)
}.
Arguments mkSide {O}.
Arguments s_exists {O}.
Arguments s_sigerr {O}.
Arguments s_retany {O}.
Arguments s_out {O}.

Inductive verdict (O : Type) :=
| VDiag                 (* unsupported_operation (and Any[error]) *)
| VLit (v : O)          (* KnownValue(v) *)
| VLitNotImpl           (* KnownValue(NotImplemented) *)
| VTyped                (* the stub's declared return type *)
| VAny.                 (* Any *)
Arguments VDiag {O}.
Arguments VLit {O} v.
Arguments VLitNotImpl {O}.
Arguments VTyped {O}.
Arguments VAny {O}.

Section Dispatch.
  Context {O : Type}.

  Definition is_notimpl (o : outcome O) : bool := match o with ONotImpl => true | _ => false end.
  Definition is_raisetype (o : outcome O) : bool := match o with ORaiseType => true | _ => false end.
  Definition is_val (o : outcome O) : bool := match o with OVal _ => true | _ => false end.

  (* `with self.catch_errors() as errs: _check_dunder_call(...)` -- errs non-empty *)
  Definition side_errors (s : side O) : bool :=
    negb (s_exists s) || s_sigerr s || is_notimpl (s_out s).

  (* the value _check_dunder_call returns *)
  Definition side_result (s : side O) : verdict O :=
    if s_exists s then
      match s_out s with
      | OVal v => VLit v
      | ONotImpl => VLitNotImpl
      | _ => if s_retany s then VAny else VTyped
      end
    else VAny.

  Definition result_is_any (v : verdict O) : bool := match v with VAny => true | _ => false end.

  Definition pa_binop (l r : side O) : verdict O :=
    combine (side_errors l) (side_errors r) (result_is_any (side_result r))
            (side_result l) (side_result r) VDiag VAny.

  (* unary operators, and binary operators without a reflected method *)
  Definition pa_unop (s : side O) : verdict O :=
    if side_errors s then VDiag else side_result s.

  (* ---------------------------------------------------------------- CPython *)
  Inductive pyres :=
  | PVal (v : O)
  | PTypeError
  | POther.

  Definition try_side (s : side O) (k : pyres) : pyres :=
    if s_exists s then
      match s_out s with
      | OVal v => PVal v
      | ORaiseType => PTypeError
      | ORaiseOther => POther
      | ONotImpl => k
      end
    else k.

  (* Language reference 3.3.8: x.__op__(y) first, then y.__rop__(x) unless both
     operands use the same implementation; if type(y) is a proper subclass of
     type(x) that provides a different reflected method, that one goes first. *)
  Definition py_binop (same_impl r_priority : bool) (l r : side O) : pyres :=
    if r_priority then try_side r (try_side l PTypeError)
    else try_side l (if same_impl then PTypeError else try_side r PTypeError).

  Definition py_unop (s : side O) : pyres :=
    if s_exists s then
      match s_out s with
      | OVal v => PVal v
      | ORaiseType => PTypeError
      | ORaiseOther => POther
      | ONotImpl => POther   (* excluded by hypothesis: a unary dunder returning NotImplemented *)
      end
    else PTypeError.

  (* ---------------------------------------------------------------- guards *)
  (* the stub agrees with the object: it rejects the argument exactly when the
     real method returns NotImplemented or raises TypeError *)
  Definition stub_consistent (s : side O) : bool :=
    negb (s_exists s) || Bool.eqb (s_sigerr s) (is_notimpl (s_out s) || is_raisetype (s_out s)).

  Definition fails (s : side O) : bool :=
    negb (s_exists s) || is_notimpl (s_out s) || is_raisetype (s_out s).

  (* clause raise_then_other_ok: the method tried first raises TypeError itself
     (instead of returning NotImplemented) although the other one would not fail *)
  Definition raise_then_other_ok (r_priority : bool) (l r : side O) : bool :=
    let first := if r_priority then r else l in
    let second := if r_priority then l else r in
    s_exists first && is_raisetype (s_out first) && negb (fails second).

  (* clause same_impl_reflected_ok: both operands share one implementation, the
     forward call fails, the reflected call (which CPython never makes) would not *)
  Definition same_impl_reflected_ok (same_impl r_priority : bool) (l r : side O) : bool :=
    negb r_priority && same_impl && fails l && negb (fails r).

  (* clause subclass_priority: CPython tries the reflected method first and both succeed *)
  Definition subclass_priority (r_priority : bool) (l r : side O) : bool :=
    r_priority && negb (fails l) && negb (fails r).

  Definition binop_guard (same_impl r_priority : bool) (l r : side O) : bool :=
    negb (raise_then_other_ok r_priority l r) && negb (same_impl_reflected_ok same_impl r_priority l r).

  (* ---------------------------------------------------------------- augmented assignment *)
  (* _visit_binop_internal(is_inplace=True): the in-place dunder first; when that attempt shows
     any error, the ordinary binary operator *)
  Definition pa_aug (i l r : side O) : verdict O :=
    if side_errors i then pa_binop l r else side_result i.

  (* CPython: the in-place slot when there is one and it does not return NotImplemented, else x op y *)
  Definition py_aug (same_impl r_priority : bool) (i l r : side O) : pyres :=
    try_side i (py_binop same_impl r_priority l r).

  (* clause inplace_raises_binop_ok: the in-place method raises TypeError itself although the
     binary operator would not end in TypeError *)
  Definition inplace_raises_binop_ok (i l r : side O) : bool :=
    s_exists i && is_raisetype (s_out i) && negb (fails l && fails r).

  Definition aug_guard (same_impl r_priority : bool) (i l r : side O) : bool :=
    binop_guard same_impl r_priority l r && negb (inplace_raises_binop_ok i l r).

  (* ---------------------------------------------------------------- comparison chains *)
  (* a op1 b op2 c: visit_Compare judges every link; CPython performs the second link only when
     the first is true, so "performing the operations" means each link on its own *)
  Definition pa_chain (link1_diag link2_diag : bool) : bool := link1_diag || link2_diag.
  Definition py_chain_raises (link1_raises link2_raises : bool) : bool := link1_raises || link2_raises.
End Dispatch.
