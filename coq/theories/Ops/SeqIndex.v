(* Ops/SeqIndex.v -- executable model of the SequenceValue branches of
   pyanalyze/implementation.py `_sequence_common_getitem_impl` (literal int and
   literal slice keys), and of CPython's indexing / slicing of a concrete
   sequence (the specification side).  No proofs in this file.

   The three arithmetic sub-expressions of the int-key branch (`in_range`,
   `forward_scan`, `index_from_back`) come from PV.Gen.Ops, which is regenerated
   from the current source on every run. *)
From Coq Require Import ZArith List Bool Lia.
Import ListNotations.
Require Import PV.Gen.Ops.
Local Open Scope Z_scope.

(* ---------------------------------------------------------------- CPython *)

(* l[k] for an int k: None = IndexError *)
Definition py_nth {A : Type} (l : list A) (k : Z) : option A :=
  let n := Z.of_nat (length l) in
  if (0 <=? k) then nth_error l (Z.to_nat k)
  else if (- n <=? k) then nth_error l (Z.to_nat (n + k))
  else None.

(* slice(start, stop, step) with optional components; PySlice_Unpack +
   PySlice_AdjustIndices.  step = 0 is ValueError (None). *)
Record pyslice := { sl_start : option Z; sl_stop : option Z; sl_step : option Z }.

Definition adjust (n step : Z) (v : option Z) (is_start : bool) : Z :=
  match v with
  | None => if (step <? 0) then (if is_start then n - 1 else -1) else (if is_start then 0 else n)
  | Some x =>
      if (x <? 0) then
        (let y := x + n in if (y <? 0) then (if (step <? 0) then -1 else 0) else y)
      else if (n <=? x) then (if (step <? 0) then n - 1 else n)
      else x
  end.

Fixpoint walk (fuel : nat) (i stop step : Z) : list Z :=
  match fuel with
  | O => []
  | S f => if (if (0 <? step) then (i <? stop) else (stop <? i)) then i :: walk f (i + step) stop step else []
  end.

Definition slice_indices (n : nat) (s : pyslice) : option (list Z) :=
  let step := match sl_step s with None => 1 | Some x => x end in
  if (step =? 0) then None
  else
    let zn := Z.of_nat n in
    Some (walk n (adjust zn step (sl_start s) true) (adjust zn step (sl_stop s) false) step).

Fixpoint pick {A : Type} (l : list A) (idx : list Z) : list A :=
  match idx with
  | [] => []
  | i :: r => match nth_error l (Z.to_nat i) with Some x => x :: pick l r | None => pick l r end
  end.

Definition py_slice {A : Type} (l : list A) (s : pyslice) : option (list A) :=
  option_map (pick l) (slice_indices (length l) s).

(* ---------------------------------------------------------------- pyanalyze *)

Inductive seqkind := KTuple | KList | KSequence.   (* the `typ` argument *)

Section Model.
  Context {T : Type}.

  (* SequenceValue.members: (is_many, member) *)
  Definition members := list (bool * T).

  Inductive result :=
  | RMember (t : T)        (* one member's value is returned *)
  | RCommon                (* self_value.args[0]: the union of all members *)
  | ROutOfRange.           (* "Tuple index out of range" shown, Any returned *)

  (* SequenceValue.get_member_sequence *)
  Fixpoint member_sequence (ms : members) : option (list T) :=
    match ms with
    | [] => Some []
    | (many, m) :: r => if many then None else option_map (cons m) (member_sequence r)
    end.

  (* for i, (is_many, member) in enumerate(ms): if is_many: break; if i == target: return member *)
  Fixpoint scan (ms : members) (target i : Z) : option T :=
    match ms with
    | [] => None
    | (many, m) :: r => if many then None else if (i =? target) then Some m else scan r target (i + 1)
    end.

  Definition seq_getitem_int (k : seqkind) (ms : members) (key : Z) : result :=
    match member_sequence ms with
    | Some l =>
        if in_range (Z.of_nat (length l)) key then
          match py_nth l key with Some m => RMember m | None => RCommon end
        else match k with KTuple => ROutOfRange | _ => RCommon end
    | None =>
        match (if forward_scan key then scan ms key 0 else scan (rev ms) (index_from_back key) 0) with
        | Some m => RMember m
        | None => RCommon
        end
    end.

  (* slice key: SMembers = SequenceValue.make_or_known(typ, members[key]);
     SGeneric = "GenericValue(typ, args)": no attempt for unpacked members, and the
     fallback when members[key] raises ValueError (step 0) *)
  Inductive slice_result :=
  | SMembers (l : list T)
  | SGeneric.              (* GenericValue(typ, args): unpacked members, or a step of 0 (ValueError at run time) *)

  Definition seq_getitem_slice (ms : members) (s : pyslice) : slice_result :=
    match member_sequence ms with
    | Some l => match py_slice l s with Some r => SMembers r | None => SGeneric end
    | None => SGeneric
    end.

  (* the behaviour of the unrepaired code (index_from_back = -key + 1), kept
     only so that the defect stays visible as a refutation *)
  Definition seq_getitem_int_unrepaired (ms : members) (key : Z) : result :=
    match member_sequence ms with
    | Some l => seq_getitem_int KTuple ms key
    | None =>
        match (if (key >=? 0) then scan ms key 0 else scan (rev ms) (- key + 1) 0) with
        | Some m => RMember m
        | None => RCommon
        end
    end.
End Model.

Arguments members : clear implicits.
Arguments result : clear implicits.
Arguments slice_result : clear implicits.
