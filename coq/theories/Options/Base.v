(* Options/Base.v — vocabulary shared by the generated model (Gen/Options.v),
   the hand-written parser model and the proofs for C18.

   An option instance mirrors the dataclass `ConfigOption` of
   pyanalyze/options.py: value, applicable_to, from_command_line, priority.
   Module path components are `N` codes.  `sorted(..., key=...)` of Python
   is modelled as a stable insertion sort on the key preorder (Python's
   `sorted` is guaranteed stable; for a total preorder the stable sorted
   permutation is unique, so the algorithm chosen does not matter). *)
From Coq Require Import ZArith List Bool NArith.
Import ListNotations.

Record inst (V : Type) := mk_inst {
  value : V;
  applicable_to : list N;
  from_command_line : bool;
  priority : Z
}.
Arguments mk_inst {V}.
Arguments value {V}.
Arguments applicable_to {V}.
Arguments from_command_line {V}.
Arguments priority {V}.

Fixpoint list_N_eqb (a b : list N) : bool :=
  match a, b with
  | [], [] => true
  | x :: a', y :: b' => N.eqb x y && list_N_eqb a' b'
  | _, _ => false
  end.

(* Python tuple comparison on (bool, int, int): lexicographic, False < True *)
Definition key := (bool * Z * Z)%type.

Definition bool_lt (a b : bool) : bool := negb a && b.

Definition key_lt (k1 k2 : key) : bool :=
  let '(a1, b1, c1) := k1 in
  let '(a2, b2, c2) := k2 in
  bool_lt a1 a2
  || (Bool.eqb a1 a2 && (Z.ltb b1 b2 || (Z.eqb b1 b2 && Z.ltb c1 c2))).

Definition key_le (k1 k2 : key) : bool := negb (key_lt k2 k1).

Section Sort.
  Context {A : Type} (kf : A -> key).

  (* put x in front of the first element whose key is not strictly smaller *)
  Fixpoint insert (x : A) (l : list A) : list A :=
    match l with
    | [] => [x]
    | y :: l' => if key_lt (kf y) (kf x) then y :: insert x l' else x :: y :: l'
    end.

  (* sorted(l, key=kf).  Folding from the right, an element that comes
     earlier in the input is inserted later and lands in front of all
     equal-keyed elements that followed it in the input: stable. *)
  Fixpoint sort_by (l : list A) : list A :=
    match l with
    | [] => []
    | x :: l' => insert x (sort_by l')
    end.
End Sort.

(* `for x in l: if p(x): return f(x)` ... `raise NotFound` *)
Definition for_first {A B : Type} (l : list A) (p : A -> bool) (f : A -> B) : option B :=
  match find p l with
  | Some x => Some (f x)
  | None => None
  end.
