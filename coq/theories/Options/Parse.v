(* Options/Parse.v — hand-written executable model of
   parse_config_file / _parse_config_section (pyanalyze/options.py) for ONE
   tracked option name.  `Options.from_option_list` groups instances by option
   name before sorting, so options are independent of one another except
   through `disable_all`, which is modelled (is_code = the tracked option is a
   boolean error-code option).

   A configuration is a list of files (indexed by nat); `extend_config`
   refers to a file index.  Values are Z (booleans are 0/1).

   Errors (InvalidConfigOption) abort the whole parse: the generators are
   consumed by `[*instances, *parse_config_file(path)]`. *)
From Coq Require Import ZArith List Bool NArith.
Import ListNotations.
Require Import PV.Options.Base.
Require PV.Gen.Options.

Inductive ext_target :=
| XNotString            (* extend_config = <non-string>            -> error *)
| XFile (n : nat).      (* extend_config = "file n" (missing file  -> error) *)

Inductive entry (O : Type) :=
| ESet (v : Z)          (* tracked option = well-typed value *)
| EOtherSet             (* some other registered option, well-typed: no instance of ours *)
| EInvalid              (* unknown key, or ill-typed value for a registered option -> error *)
| EModule               (* key "module" *)
| EExtend (t : ext_target)
| EOverrides (o : O)
| EDisableAll (b : bool).
Arguments ESet {O}. Arguments EOtherSet {O}. Arguments EInvalid {O}.
Arguments EModule {O}. Arguments EExtend {O}. Arguments EOverrides {O}.
Arguments EDisableAll {O}.

Inductive override :=
| ONotDict                                           (* -> error *)
| OSec (path : option (list N))                      (* None: "module" missing or not a string -> error *)
       (entries : list (entry unit)).

Inductive overrides :=
| OVNotList                                          (* -> error *)
| OVList (l : list override).

Definition file := list (entry overrides).

Inductive res :=
| Ok (l : list (inst Z))
| Err
| OutOfFuel.

Definition res_app (a b : res) : res :=
  match a, b with
  | Ok x, Ok y => Ok (x ++ y)
  | OutOfFuel, _ => OutOfFuel
  | _, OutOfFuel => OutOfFuel
  | _, _ => Err
  end.

Section Parse.
  Variable is_code : bool.
  Variable files : list file.

  (* priority given to yielded instances: the generated fact says whether the
     code forwards `priority`; when it does not, the dataclass default 0 *)
  Definition inst_prio (prio : Z) : Z :=
    if PV.Gen.Options.yield_passes_priority then prio else 0%Z.

  Definition sec_tail (mp : list N) (prio : Z) (enabled disable : bool) : list (inst Z) :=
    if disable && is_code && negb enabled then [mk_inst 0%Z mp false (inst_prio prio)] else [].

  Section Entries.
    Context {O : Type}.
    Variable on_ov : O -> res.                 (* what an `overrides` key does here *)
    Variable top : bool.
    Variable rec : nat -> Z -> res.            (* parse_config_file on file n with priority p *)

    Fixpoint parse_entries (es : list (entry O)) (mp : list N) (prio : Z)
             (enabled disable : bool) : res :=
      match es with
      | [] => Ok (sec_tail mp prio enabled disable)
      | ESet v :: r =>
          res_app (Ok [mk_inst v mp false (inst_prio prio)])
                  (parse_entries r mp prio (enabled || (is_code && Z.eqb v 1)) disable)
      | EOtherSet :: r => parse_entries r mp prio enabled disable
      | EInvalid :: _ => Err
      | EModule :: r => if top then Err else parse_entries r mp prio enabled disable
      | EExtend XNotString :: _ => Err
      | EExtend (XFile n) :: r =>
          res_app (rec n (prio + PV.Gen.Options.extend_priority_delta)%Z)
                  (parse_entries r mp prio enabled disable)
      | EOverrides o :: r => res_app (on_ov o) (parse_entries r mp prio enabled disable)
      | EDisableAll b :: r => parse_entries r mp prio enabled b
      end.
  End Entries.

  Definition parse_override (rec : nat -> Z -> res) (prio : Z) (o : override) : res :=
    match o with
    | ONotDict => Err
    | OSec None _ => Err
    | OSec (Some mp) es =>
        parse_entries (fun _ : unit => Err) false rec es mp
          (if PV.Gen.Options.override_same_priority then prio else 0%Z) false false
    end.

  Definition parse_overrides (rec : nat -> Z -> res) (prio : Z) (o : overrides) : res :=
    match o with
    | OVNotList => Err
    | OVList l => fold_right (fun ov acc => res_app (parse_override rec prio ov) acc) (Ok []) l
    end.

  Definition mem_nat (n : nat) (l : list nat) : bool := existsb (Nat.eqb n) l.

  (* parse_config_file(path, priority, seen_paths) *)
  Fixpoint parse_file (fuel : nat) (seen : list nat) (n : nat) (prio : Z) : res :=
    match fuel with
    | O => OutOfFuel
    | S fuel' =>
        if mem_nat n seen then Err                       (* recursive inclusion *)
        else match nth_error files n with
             | None => Err                               (* cannot open *)
             | Some sec =>
                 let rec := parse_file fuel' (n :: seen) in
                 parse_entries (parse_overrides rec prio) true rec sec [] prio false false
             end
    end.

  Definition parse_main : res := parse_file (S (length files)) [] 0 0%Z.
End Parse.

(* the whole pipeline for a scalar option: CLI instances + main file -> value *)
Definition effective (is_code : bool) (files : list file) (cli : list Z)
           (default : Z) (mp : list N) : option (option Z) :=
  match parse_main is_code files with
  | Ok l =>
      let cli_insts := map (fun v => mk_inst v [] true 0%Z) cli in
      Some (PV.Gen.Options.get_value_for_no_default default
              (PV.Gen.Options.from_option_list cli_insts l) mp)
  | Err => None
  | OutOfFuel => None
  end.

(* list-valued (concatenated) options: same parser, values are lists; we reuse
   the Z parser by letting each ESet carry an index into a table of lists *)
Definition effective_concat (files : list file) (cli : list Z) (table : Z -> list Z)
           (default : list Z) (mp : list N) : option (list Z) :=
  match parse_main false files with
  | Ok l =>
      let lift (i : inst Z) := mk_inst (table (value i)) (applicable_to i)
                                       (from_command_line i) (priority i) in
      let cli_insts := map (fun v => mk_inst (table v) [] true 0%Z) cli in
      Some (PV.Gen.Options.concat_get_value_from_instances default
              (PV.Gen.Options.from_option_list cli_insts (map lift l)) mp)
  | Err => None
  | OutOfFuel => None
  end.

(* Options.is_error_code_enabled_anywhere over the whole pipeline (an error code's values are 0/1):
   the stored, sorted instances are read as booleans and handed to the translated function *)
Definition inst_to_bool (i : inst Z) : inst bool :=
  mk_inst (negb (Z.eqb (value i) 0)) (applicable_to i) (from_command_line i) (priority i).

Definition effective_anywhere (files : list file) (cli : list Z) (default : Z) : option bool :=
  match parse_main true files with
  | Ok l =>
      let cli_insts := map (fun v => mk_inst v [] true 0%Z) cli in
      Some (PV.Gen.Options.enabled_anywhere (negb (Z.eqb default 0))
              (map inst_to_bool (PV.Gen.Options.from_option_list cli_insts l)))
  | Err => None
  | OutOfFuel => None
  end.
