(* Overload/Concrete.v — the overload model with NO abstract binding inputs:
   [os_binds], [bp_arg] and [bp_dec] are computed by the C05 binder model
   (Binder/Bind.v: bind = Signature.bind_arguments) from a concrete signature
   and the shape of the call.  What stays a parameter is only the per-parameter
   type check [co_acc name member] (can_assign_and_used_any of the parameter's
   annotation; for a star-args / star-star-kwargs parameter: of one collected
   element).  No proofs in this file. *)
From Coq Require Import List Bool NArith PeanoNat.
Import ListNotations.
Require Import PV.Binder.Kind PV.Binder.Sig PV.Binder.Bind.
Require Import PV.Overload.Resolve.

Record coverload := mkCO { co_sig : sig; co_acc : N -> member -> outcome; co_ret : rtype }.

Fixpoint kw_index (n : N) (l : list (N * bool)) : nat :=
  match l with
  | [] => 0
  | (m, _) :: r => if N.eqb n m then 0 else S (kw_index n r)
  end.

(* actual arguments are numbered: positionals, then keywords in call order,
   then the star argument, then the star-star argument *)
Definition bparams_of (a : actuals) (acc : N -> member -> outcome) (b : N * position * payload) : list bparam :=
  let '(name, pos, pl) := b in
  let npos := length (positionals a) in
  let nkw := length (keywords a) in
  match pl with
  | One =>
      match pos with
      | Pos i => [mkBP i true (acc name)]
      | Kw n => [mkBP (npos + kw_index n (keywords a)) true (acc name)]
      | Default => []
      | Args => [mkBP (npos + nkw) false (acc name)]
      | Kwargs => [mkBP (npos + nkw + 1) false (acc name)]
      | Unknown => [mkBP (npos + nkw + (if star_args a then 0 else 1)) false (acc name)]
      end
  | Tuple from count star =>
      map (fun j => mkBP (from + j) false (acc name)) (seq 0 count)
      ++ (if star then [mkBP (npos + nkw) false (acc name)] else [])
  | Dict names star =>
      map (fun n => mkBP (npos + kw_index n (keywords a)) false (acc name)) names
      ++ (if star then [mkBP (npos + nkw + 1) false (acc name)] else [])
  end.

Definition osig_of (a : actuals) (c : coverload) : osig :=
  match bind (co_sig c) a with
  | None => mkSig false [] (co_ret c)
  | Some bd => mkSig true (flat_map (bparams_of a (co_acc c)) bd) (co_ret c)
  end.

Definition resolve_concrete (cs : list coverload) (a : actuals) (args : list arg) : result :=
  resolve (map (osig_of a) cs) args.

(* decidable forms of the guards of the one-union theorems *)
Fixpoint nodup_b (l : list nat) : bool :=
  match l with
  | [] => true
  | x :: r => negb (existsb (Nat.eqb x) r) && nodup_b r
  end.

Definition sig_guard_b (p : nat) (s : osig) : bool :=
  negb (os_binds s) || (nodup_b (map bp_arg (os_params s)) && decomposable_at p s).
