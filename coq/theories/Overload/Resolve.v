(* Overload/Resolve.v — executable model of overload resolution
   (pyanalyze/signature.py: OverloadedSignature.check_call, _unite_rets,
   Signature.check_call_with_bound_args, _check_param_type_compatibility,
   decompose_union) and the reference resolver written from the docstring of
   OverloadedSignature.check_call.  No proofs in this file.

   Abstraction boundary.  What a single type check says is NOT modelled here:
   a bound parameter carries [bp_acc : member -> outcome], the verdict of
   can_assign_and_used_any(param type, member) for every non-union member type
   (Clean = assignable without Any, ViaAny = assignable and the Any flag was
   set, Fail = CanAssignError).  Which parameter an actual argument is bound to
   is not modelled either: a signature carries the list of its bound
   parameters in the iteration order of bound_args.items(), each with the
   index of the actual argument it received ([bp_arg]) and whether that
   argument was passed directly, i.e. its position is an int or a str
   ([bp_dec]; only those can be narrowed by union decomposition).  The harness
   instantiates both from the real Signature.bind_arguments / can_assign.

   An actual argument is the list of the members of its (flattened) union; a
   non-union argument is a singleton list. *)
From Coq Require Import List Bool Arith PeanoNat.
Import ListNotations.

Inductive outcome := Clean | ViaAny | Fail.

Definition member := nat.
Definition arg := list member.
Definition rtype := nat.

Record bparam := mkBP { bp_arg : nat; bp_dec : bool; bp_acc : member -> outcome }.
Record osig := mkSig { os_binds : bool; os_params : list bparam; os_ret : rtype }.

Definition is_fail (o : outcome) : bool := match o with Fail => true | _ => false end.
Definition is_any (o : outcome) : bool := match o with ViaAny => true | _ => false end.
Definition passes (o : outcome) : bool := negb (is_fail o).

Fixpoint upd {A : Type} (n : nat) (x : A) (l : list A) : list A :=
  match l, n with
  | [], _ => []
  | _ :: l', O => x :: l'
  | y :: l', S n' => y :: upd n' x l'
  end.

(* ---- _check_param_type_compatibility + decompose_union ------------------ *)

Inductive pres :=
| PClean | PAny | PFail
| PDecomp (used_any : bool) (remaining : arg).

Definition check_param (is_ov : bool) (p : bparam) (a : arg) : pres :=
  if forallb (fun m => passes (bp_acc p m)) a then
    (* Value.can_assign with a union on the right: every member must be
       assignable; the Any flag accumulates over the members *)
    if existsb (fun m => is_any (bp_acc p m)) a then PAny else PClean
  else if is_ov && bp_dec p then
    match filter (fun m => passes (bp_acc p m)) a with
    | [] => PFail                                  (* decompose_union -> None *)
    | matched =>
        PDecomp (existsb (fun m => is_any (bp_acc p m)) matched)
                (filter (fun m => is_fail (bp_acc p m)) a)
    end
  else PFail.

(* ---- the parameter loop of check_call_with_bound_args ------------------- *)
(* state: had_error, used_any, new_args; is_overload is cleared by the first
   decomposition ("You only get to do this once per call") *)
Fixpoint check_params (is_ov : bool) (ps : list bparam) (args : list arg)
         (err any : bool) (new : option (list arg)) : bool * bool * option (list arg) :=
  match ps with
  | [] => (err, any, new)
  | p :: ps' =>
      match check_param is_ov p (nth (bp_arg p) args []) with
      | PClean => check_params is_ov ps' args err any new
      | PAny => check_params is_ov ps' args err true new
      | PFail => check_params is_ov ps' args true any new
      | PDecomp ua rem =>
          check_params false ps' args err (any || ua) (Some (upd (bp_arg p) rem args))
      end
  end.

(* ---- _unite_rets --------------------------------------------------------- *)

Inductive result := RErr | RAnyMulti | RTypes (rs : list rtype).

Definition nodupn := nodup Nat.eq_dec.
Definition is_nil {A : Type} (l : list A) : bool := match l with [] => true | _ => false end.
Definition opt_list {A : Type} (o : option A) : list A := match o with Some x => [x] | None => [] end.

Definition unite_rets (anys uanys unions : list rtype) (clean : option rtype) : result :=
  if is_nil anys && is_nil uanys then
    match unions, clean with
    | [], None => RErr                      (* "assert clean_ret is not None": never reached by [loop] *)
    | _, _ => RTypes (nodupn (unions ++ opt_list clean))
    end
  else if (length (nodupn anys) =? 1) && is_nil unions && is_nil uanys && is_nil (opt_list clean)
       then RTypes (nodupn anys)
       else RAnyMulti.

(* ---- the overload loop of OverloadedSignature.check_call ---------------- *)

Fixpoint loop (sigs : list osig) (args : list arg) (anys uanys unions : list rtype) : result :=
  match sigs with
  | [] => match anys with [] => RErr | _ => unite_rets anys uanys unions None end
  | s :: rest =>
      let is_ov := negb (is_nil rest) || negb (is_nil anys) in   (* is_overload = i != last or bool(any_rets) *)
      match check_params is_ov (os_params s) args false false None with
      | (true, _, _) => loop rest args anys uanys unions                 (* ret.is_error *)
      | (false, ua, Some args') =>                                       (* remaining_arguments *)
          if ua then loop rest args' anys (uanys ++ [os_ret s]) unions
          else loop rest args' anys uanys (unions ++ [os_ret s])
      | (false, true, None) => loop rest args (anys ++ [os_ret s]) uanys unions
      | (false, false, None) => unite_rets anys uanys unions (Some (os_ret s))   (* clean match *)
      end
  end.

(* the same loop, factored the way the source is written: the CallReturn of one
   overload, one step of the loop body, the code after the loop.  The translator
   (harness/translate/overload.py) regenerates gen_is_overload / gen_step /
   gen_after_loop from OverloadedSignature.check_call; Proofs/OverloadPins.v
   proves that the loop built from them is [loop]. *)
Record callret := mkCR { cr_error : bool; cr_any : bool; cr_remaining : option (list arg); cr_ret : rtype }.
Inductive lstep :=
| LContinue (args : list arg) (anys uanys unions : list rtype)
| LReturn (r : result).

Definition call_of (is_ov : bool) (s : osig) (args : list arg) : callret :=
  let '(err, ua, new) := check_params is_ov (os_params s) args false false None in
  mkCR err ua new (os_ret s).

(* the bind pre-filter: only signatures whose bind_arguments succeeded take
   part; none binds -> "Cannot call overloaded function" *)
Definition resolve (sigs : list osig) (args : list arg) : result :=
  loop (filter os_binds sigs) args [] [] [].

(* ========================================================================= *)
(* Specification side: acceptance of a union-free argument tuple, and the
   reference resolver of the docstring stated on whole tuples.               *)

Definition tuple := list member.
Definition singletons (t : tuple) : list arg := map (fun m => [m]) t.

Definition comb (a b : outcome) : outcome :=
  match a, b with
  | Fail, _ | _, Fail => Fail
  | ViaAny, _ | _, ViaAny => ViaAny
  | Clean, Clean => Clean
  end.

(* verdict of one bound parameter on a union-free tuple *)
Definition param_outcome (p : bparam) (t : tuple) : outcome :=
  match nth_error t (bp_arg p) with
  | Some m => bp_acc p m
  | None => Clean
  end.

Fixpoint params_outcome (ps : list bparam) (t : tuple) : outcome :=
  match ps with
  | [] => Clean
  | p :: ps' => comb (param_outcome p t) (params_outcome ps' t)
  end.

(* "the overload's parameters accept the arguments" *)
Definition accepts (s : osig) (t : tuple) : outcome :=
  if os_binds s then params_outcome (os_params s) t else Fail.

(* docstring, union-free part: first match wins; a match due to Any keeps
   looking; several matches -> Any unless all the Any-matches agree *)
Fixpoint ref_unionfree (sigs : list osig) (t : tuple) (anys : list rtype) : result :=
  match sigs with
  | [] => match anys with
          | [] => RErr
          | _ => if length (nodupn anys) =? 1 then RTypes (nodupn anys) else RAnyMulti
          end
  | s :: rest =>
      match accepts s t with
      | Fail => ref_unionfree rest t anys
      | ViaAny => ref_unionfree rest t (anys ++ [os_ret s])
      | Clean => match anys with [] => RTypes [os_ret s] | _ => RAnyMulti end
      end
  end.

Definition first_clean (sigs : list osig) (t : tuple) : option osig :=
  find (fun s => match accepts s t with Clean => true | _ => false end) sigs.

(* docstring, union part, for ONE union argument at index p with members R:
   "If an overload does not match, but one of the arguments passed was a Union,
   we try all the components of the Union separately.  If some of them match,
   we subtract them from the Union and try the remaining overloads with a
   narrower Union.  In this case, we return a Union of the return values of all
   the matching overloads on success."  Stated on whole member tuples. *)
Fixpoint ref_union (sigs : list osig) (t : tuple) (p : nat) (R : list member)
         (anys uanys unions : list rtype) : result :=
  match sigs with
  | [] => match anys with [] => RErr | _ => unite_rets anys uanys unions None end
  | s :: rest =>
      let out := fun m => accepts s (upd p m t) in
      if forallb (fun m => passes (out m)) R then
        if existsb (fun m => is_any (out m)) R
        then ref_union rest t p R (anys ++ [os_ret s]) uanys unions
        else unite_rets anys uanys unions (Some (os_ret s))
      else
        match filter (fun m => passes (out m)) R with
        | [] => ref_union rest t p R anys uanys unions
        | matched =>
            if is_nil rest && is_nil anys
            then ref_union rest t p R anys uanys unions   (* nobody left to take the rest, and no Any match so far *)
            else
              let R' := filter (fun m => is_fail (out m)) R in
              if existsb (fun m => is_any (out m)) matched
              then ref_union rest t p R' anys (uanys ++ [os_ret s]) unions
              else ref_union rest t p R' anys uanys (unions ++ [os_ret s])
        end
  end.

(* guards used by the theorems *)
Definition binds_once (s : osig) : Prop := NoDup (map bp_arg (os_params s)).
Definition decomposable_at (p : nat) (s : osig) : bool :=
  forallb (fun q => negb (bp_arg q =? p) || bp_dec q) (os_params s).
