(* Proofs about Annot/Routes.v and Annot/DefSig.v: outside three named classes
   the routes commute, for annotation expressions of unbounded nesting. *)
From Coq Require Import NArith ZArith List Bool.
Import ListNotations.
Require Import PV.Annot.Forms PV.Gen.Annot PV.Annot.Routes PV.Annot.DefSig.

(* induction principle for the nested inductive *)
Section AexprInd.
  Variable P : aexpr -> Prop.
  Hypothesis HClass : forall c, P (EClass c).
  Hypothesis HNone : P ENone.
  Hypothesis HAny : P EAny.
  Hypothesis HOptional : forall e, P e -> P (EOptional e).
  Hypothesis HUnion : forall es, Forall P es -> P (EUnion es).
  Hypothesis HOr : forall a b, P a -> P b -> P (EOr a b).
  Hypothesis HGeneric : forall c es, Forall P es -> P (EGeneric c es).
  Hypothesis HTupleVar : forall e, P e -> P (ETupleVar e).
  Hypothesis HTupleFixed : forall es, Forall P es -> P (ETupleFixed es).
  Hypothesis HTupleEmpty : P ETupleEmpty.
  Hypothesis HStarTuple : forall pre s, Forall P pre -> P s -> P (EStarTuple pre s).
  Hypothesis HUnpackTuple : forall pre s, Forall P pre -> P s -> P (EUnpackTuple pre s).
  Hypothesis HLiteral : forall ls, P (ELiteral ls).
  Hypothesis HLitNested : forall i ls, P (ELitNested i ls).
  Hypothesis HType : forall e, P e -> P (EType e).
  Hypothesis HCallableAny : forall r, P r -> P (ECallableAny r).
  Hypothesis HCallable : forall ps r, Forall P ps -> P r -> P (ECallable ps r).
  Hypothesis HAnnotated : forall e m, P e -> P (EAnnotated e m).
  Hypothesis HFinal : forall e, P e -> P (EFinal e).
  Hypothesis HClassVar : forall e, P e -> P (EClassVar e).
  Hypothesis HStr : forall e, P e -> P (EStr e).

  Fixpoint aexpr_ind' (e : aexpr) : P e :=
    let go := fix go (l : list aexpr) : Forall P l :=
      match l with
      | [] => Forall_nil P
      | x :: r => Forall_cons x (aexpr_ind' x) (go r)
      end in
    match e with
    | EClass c => HClass c
    | ENone => HNone
    | EAny => HAny
    | EOptional e => HOptional e (aexpr_ind' e)
    | EUnion es => HUnion es (go es)
    | EOr a b => HOr a b (aexpr_ind' a) (aexpr_ind' b)
    | EGeneric c es => HGeneric c es (go es)
    | ETupleVar e => HTupleVar e (aexpr_ind' e)
    | ETupleFixed es => HTupleFixed es (go es)
    | ETupleEmpty => HTupleEmpty
    | EStarTuple pre s => HStarTuple pre s (go pre) (aexpr_ind' s)
    | EUnpackTuple pre s => HUnpackTuple pre s (go pre) (aexpr_ind' s)
    | ELiteral ls => HLiteral ls
    | ELitNested i ls => HLitNested i ls
    | EType e => HType e (aexpr_ind' e)
    | ECallableAny r => HCallableAny r (aexpr_ind' r)
    | ECallable ps r => HCallable ps r (go ps) (aexpr_ind' r)
    | EAnnotated e m => HAnnotated e m (aexpr_ind' e)
    | EFinal e => HFinal e (aexpr_ind' e)
    | EClassVar e => HClassVar e (aexpr_ind' e)
    | EStr e => HStr e (aexpr_ind' e)
    end.
End AexprInd.

Lemma unite_optional_comm : forall v, unite [TNone; v] = unite [v; TNone].
Proof.
  intros v. unfold unite. cbn [existsb has_none_v flat_map nonnone_members].
  rewrite !orb_false_r, orb_true_r. cbn [orb app]. rewrite !app_nil_r. reflexivity.
Qed.

Lemma map_eq_Forall : forall (A B : Type) (f g : A -> B) l,
  Forall (fun x => f x = g x) l -> map f l = map g l.
Proof.
  intros A B f g l HF. induction HF as [|x l Hx HF IH]; cbn; [reflexivity|]. now f_equal.
Qed.

(* ---- obligations on the generated tables (re-checked on every run) -------- *)

(* both dispatch functions do the same thing for every form they share *)
Lemma tables_agree :
  act ast_table FUnion = act rt_table FUnion /\ act ast_table FLiteral = act rt_table FLiteral /\
  act ast_table FTupleVar = act rt_table FTupleVar /\ act ast_table FTupleEmpty = act rt_table FTupleEmpty /\
  act ast_table FTupleFixed = act rt_table FTupleFixed /\ act ast_table FType = act rt_table FType /\
  act ast_table FAnnotated = act rt_table FAnnotated /\ act ast_table FFinal = act rt_table FFinal /\
  act ast_table FClassVar = act rt_table FClassVar /\ act ast_table FUnpack = act rt_table FUnpack /\
  act ast_table FCallable = act rt_table FCallable /\ act ast_table FGenericClass = act rt_table FGenericClass.
Proof. repeat split; reflexivity. Qed.

(* Optional is a union with None on the AST route; typing makes it a Union for the runtime route *)
Lemma tables_optional :
  (exists b, act ast_table FOptional = Some (ActOptional b)) /\ act rt_table FUnion = Some ActUniteMembers.
Proof. split; [eexists|]; reflexivity. Qed.

(* nested Literal is flattened by the AST route as typing flattens it for the runtime route;
   a starred member is desugared to Unpack on both *)
Lemma tables_literal_star :
  act ast_table FLiteral = Some (ActUniteLiterals true) /\ ast_visit_starred = true /\
  act rt_table FTupleFixed = Some ActSeqMembers /\ act rt_table FUnpack = Some ActUnpacked.
Proof. repeat split; reflexivity. Qed.

Lemma gen_def_kind_order : def_kind_order = [PosOnly; PosOrKw; VarPos; KwOnly; VarKw].
Proof. reflexivity. Qed.

Lemma gen_rt_kind : forall k pr,
  rt_kind k pr = if (match k with PosOrKw => true | _ => false end) && pr then (PosOnly, true) else (k, false).
Proof. intros k pr. destruct k, pr; reflexivity. Qed.

Lemma gen_wrap_spec : forall k v,
  gen_wrap k v = match k with VarPos => TGeneric tuple_c [v] | VarKw => TGeneric dict_c [TTyped str_c; v] | _ => v end.
Proof. intros k v. destruct k; reflexivity. Qed.

(* full strength: every annotation expression of the vocabulary, any nesting *)
Theorem routes_commute : forall e, route_runtime e = route_ast e.
Proof.
  induction e using aexpr_ind'; cbn [route_runtime route_ast]; try reflexivity.
  - (* Optional *) rewrite IHe.
    transitivity (unite [route_ast e; TNone]); [reflexivity|].
    transitivity (unite [TNone; route_ast e]); [symmetry; apply unite_optional_comm|reflexivity].
  - (* Union *) rewrite (map_eq_Forall _ _ _ _ _ H). reflexivity.
  - (* Or *) rewrite IHe1, IHe2. reflexivity.
  - (* Generic *) rewrite (map_eq_Forall _ _ _ _ _ H). reflexivity.
  - (* TupleVar *) rewrite IHe. reflexivity.
  - (* TupleFixed *) rewrite (map_eq_Forall _ _ _ _ _ H). reflexivity.
  - (* StarTuple *) rewrite IHe, (map_eq_Forall _ _ _ _ _ H). reflexivity.
  - (* UnpackTuple *) rewrite IHe, (map_eq_Forall _ _ _ _ _ H). reflexivity.
  - (* Type *) rewrite IHe. reflexivity.
  - (* CallableAny *) rewrite IHe. reflexivity.
  - (* Callable *) rewrite IHe, (map_eq_Forall _ _ _ _ _ H). reflexivity.
  - (* Annotated *) rewrite IHe. reflexivity.
  - (* Final *) rewrite IHe. reflexivity.
  - (* ClassVar *) rewrite IHe. reflexivity.
Qed.

Theorem routes_commute_all : forall e,
  route_runtime e = route_ast e /\ route_ast (EStr e) = route_ast e /\ route_visitor e = route_ast e /\
  route_visitor (EStr e) = route_ast e /\ route_runtime (EStr e) = route_ast e.
Proof. intros e. repeat split; try reflexivity; apply routes_commute. Qed.

(* the forms that used to diverge, on the repaired tree *)
Lemma routes_repaired_forms :
  route_ast (EFinal (EClass 1)) = TTyped 1 /\ route_ast (EClassVar (EOptional (EClass 1))) = TUnion true [TTyped 1] /\
  route_ast (ELitNested [1%Z] [2%Z]) = TUnion false [TLit 1; TLit 2] /\
  route_runtime (ELitNested [1%Z] [2%Z]) = TUnion false [TLit 1; TLit 2] /\
  route_ast (EStarTuple [EClass 1] (EClass 2)) = TSeq [(false, TTyped 1); (true, TTyped 2)] /\
  route_runtime (EStarTuple [EClass 1] (EClass 2)) = TSeq [(false, TTyped 1); (true, TTyped 2)] /\
  route_ast (EStarTuple [EClass 1] (EClass 2)) = route_ast (EUnpackTuple [EClass 1] (EClass 2)).
Proof. repeat split; reflexivity. Qed.

Definition ex_annot : aexpr :=
  EOptional (EGeneric 5 [EUnion [EClass 1; EStr (ETupleFixed [EClass 2; ELiteral [1%Z; 2%Z]])];
                         ECallable [EOr (EClass 1) ENone] (EType (EAnnotated (ETupleVar EAny) 7))]).

Lemma routes_example :
  route_runtime ex_annot = route_ast ex_annot /\
  route_ast ex_annot =
    TUnion true [TGeneric 5 [TUnion false [TTyped 1; TSeq [(false, TTyped 2); (false, TUnion false [TLit 1; TLit 2])]];
                             TCall [TUnion true [TTyped 1]] TAny]].
Proof. split; reflexivity. Qed.

(* ------------------------------------------------------------------------ *)
(* signatures *)

Lemma rt_no_private : forall ps acc,
  (forall p, In p ps -> p_private p = false) ->
  fold_left rt_step ps acc = acc ++ map (fun p => mkSParam (p_name p) (p_kind p) (p_default p) (rt_type p)) ps.
Proof.
  induction ps as [|p ps IH]; intros acc H; cbn.
  - now rewrite app_nil_r.
  - rewrite IH by (intros q Hq; apply H; now right).
    unfold rt_step. rewrite (H p) by now left. rewrite gen_rt_kind, andb_false_r. now rewrite <- app_assoc.
Qed.

Lemma param_norm_eq : forall p, param_ok p = true ->
  norm_sparam (def_param p) = norm_sparam (mkSParam (p_name p) (p_kind p) (p_default p) (rt_type p)).
Proof.
  intros [n k d a pr] H. unfold def_param, rt_type. cbn.
  destruct a as [e|].
  - reflexivity.
  - unfold norm_sparam. cbn. destruct k; reflexivity.
Qed.

Theorem def_sig_eq_runtime_sig_partial : forall ps r,
  forallb param_ok ps = true ->
  map norm_sparam (sig_from_def ps) = map norm_sparam (sig_from_runtime ps) /\
  ret_from_def r = ret_from_runtime r.
Proof.
  intros ps r H. rewrite forallb_forall in H. split.
  - unfold sig_from_def, sig_from_runtime. rewrite rt_no_private.
    + cbn. rewrite !map_map. apply map_ext_in. intros p Hp. apply param_norm_eq. now apply H.
    + intros p Hp. specialize (H p Hp). unfold param_ok in H. now apply negb_true_iff in H.
  - destruct r as [e|]; reflexivity.
Qed.

(* def f(a, __b): the runtime route makes both parameters positional-only *)
Definition ex_private : list param :=
  [mkParam 1 PosOrKw false None false; mkParam 2 PosOrKw false None true].

Lemma def_sig_private_refuted :
  map s_kind (sig_from_def ex_private) = [PosOrKw; PosOrKw] /\
  map s_kind (sig_from_runtime ex_private) = [PosOnly; PosOnly].
Proof. split; reflexivity. Qed.

Definition ex_sig : list param :=
  [mkParam 1 PosOnly false (Some (EClass 1)) false; mkParam 2 PosOrKw true (Some (EOptional (EStr (EClass 2)))) false;
   mkParam 3 VarPos false None false; mkParam 4 KwOnly true None false; mkParam 5 VarKw false (Some (EClass 1)) false].

Lemma def_sig_guard_inhabited :
  forallb param_ok ex_sig = true /\
  map norm_sparam (sig_from_runtime ex_sig) =
    [mkSParam 1 PosOnly false (TTyped 1); mkSParam 2 PosOrKw true (TUnion true [TTyped 2]);
     mkSParam 3 VarPos false (TGeneric tuple_c [TAny]); mkSParam 4 KwOnly true TAny;
     mkSParam 5 VarKw false (TGeneric dict_c [TTyped str_c; TTyped 1])].
Proof. split; reflexivity. Qed.

Lemma def_sig_full_statement_refuted :
  ~ (forall ps, map norm_sparam (sig_from_def ps) = map norm_sparam (sig_from_runtime ps)).
Proof. intros H. specialize (H ex_private). vm_compute in H. discriminate. Qed.

(* ------------------------------------------------------------------------ *)
(* calls: the binder of C05 applied to both signatures *)
Require Import PV.Annot.Calls.
Require PV.Binder.Kind PV.Binder.Sig PV.Binder.Bind.

Lemma type_of_param_norm : forall l1 l2 n,
  map norm_sparam l1 = map norm_sparam l2 -> type_of_param l1 n = type_of_param l2 n.
Proof.
  induction l1 as [|a l1 IH]; intros [|b l2] n H; cbn in H; try discriminate; [reflexivity|].
  inversion H as [[Hab Hr]]. cbn.
  assert (Hn : s_name a = s_name b).
  { assert (E : s_name (norm_sparam a) = s_name (norm_sparam b)) by now rewrite Hab.
    unfold norm_sparam in E. destruct (s_type a), (s_type b); exact E. }
  rewrite Hn, Hab. destruct (N.eqb (s_name b) n); [reflexivity|]. now apply IH.
Qed.

Lemma to_binder_sig_norm : forall l, to_binder_sig (map norm_sparam l) = to_binder_sig l.
Proof.
  intros l. unfold to_binder_sig. rewrite map_map. apply map_ext. intros a.
  unfold norm_sparam. destruct (s_type a); reflexivity.
Qed.

Theorem call_judged_identically_partial : forall ps raw,
  forallb param_ok ps = true ->
  call_in_defining_scope ps raw = call_from_importer ps raw.
Proof.
  intros ps raw H. unfold call_in_defining_scope, call_from_importer, judge.
  destruct (def_sig_eq_runtime_sig_partial ps None H) as [E _].
  rewrite <- (to_binder_sig_norm (sig_from_def ps)), <- (to_binder_sig_norm (sig_from_runtime ps)), E.
  destruct (Bind.preprocess raw) as [a|]; [|reflexivity].
  destruct (Bind.bind _ a) as [b|]; [|reflexivity].
  f_equal. apply map_ext. intros x. f_equal. now apply type_of_param_norm.
Qed.

(* def f(a, __p): f(a=1, __p=2) binds in the defining scope and is rejected from an importer *)
Lemma call_private_refuted :
  call_in_defining_scope ex_private [Bind.RKw 1; Bind.RKw 2] <> None /\
  call_from_importer ex_private [Bind.RKw 1; Bind.RKw 2] = None /\
  call_in_defining_scope ex_private [Bind.RPos; Bind.RPos] = call_from_importer ex_private [Bind.RPos; Bind.RPos].
Proof. vm_compute. repeat split. discriminate. Qed.

Lemma call_example :
  call_from_importer ex_sig [Bind.RPos; Bind.RPos; Bind.RPos; Bind.RKw 4; Bind.RKw 9] <> None /\
  call_from_importer ex_sig [Bind.RKw 1] = None /\
  call_from_importer ex_sig [] = None.
Proof. vm_compute. repeat split. discriminate. Qed.
