(* Proofs about Annot/Routes.v and Annot/DefSig.v: outside three named classes
   the routes commute, for annotation expressions of unbounded nesting. *)
From Coq Require Import NArith ZArith List Bool.
Import ListNotations.
Require Import PV.Annot.Routes PV.Annot.DefSig.

(* induction principle for the nested inductive *)
Section AexprInd.
  Variable P : aexpr -> Prop.
  Hypothesis HClass : forall c, P (EClass c).
  Hypothesis HNone : P ENone.
  Hypothesis HAny : P EAny.
  Hypothesis HOptional : forall e, P e -> P (EOptional e).
  Hypothesis HUnion : forall es, Forall P es -> P (EUnion es).
  Hypothesis HOr : forall a b, P a -> P b -> P (EOr a b).
  Hypothesis HGeneric : forall c es, Forall P es -> P (EGeneric c es).
  Hypothesis HTupleVar : forall e, P e -> P (ETupleVar e).
  Hypothesis HTupleFixed : forall es, Forall P es -> P (ETupleFixed es).
  Hypothesis HTupleEmpty : P ETupleEmpty.
  Hypothesis HStarTuple : forall pre s, Forall P pre -> P s -> P (EStarTuple pre s).
  Hypothesis HUnpackTuple : forall pre s, Forall P pre -> P s -> P (EUnpackTuple pre s).
  Hypothesis HLiteral : forall ls, P (ELiteral ls).
  Hypothesis HLitNested : forall i ls, P (ELitNested i ls).
  Hypothesis HType : forall e, P e -> P (EType e).
  Hypothesis HCallableAny : forall r, P r -> P (ECallableAny r).
  Hypothesis HCallable : forall ps r, Forall P ps -> P r -> P (ECallable ps r).
  Hypothesis HAnnotated : forall e m, P e -> P (EAnnotated e m).
  Hypothesis HFinal : forall e, P e -> P (EFinal e).
  Hypothesis HClassVar : forall e, P e -> P (EClassVar e).
  Hypothesis HStr : forall e, P e -> P (EStr e).

  Fixpoint aexpr_ind' (e : aexpr) : P e :=
    let go := fix go (l : list aexpr) : Forall P l :=
      match l with
      | [] => Forall_nil P
      | x :: r => Forall_cons x (aexpr_ind' x) (go r)
      end in
    match e with
    | EClass c => HClass c
    | ENone => HNone
    | EAny => HAny
    | EOptional e => HOptional e (aexpr_ind' e)
    | EUnion es => HUnion es (go es)
    | EOr a b => HOr a b (aexpr_ind' a) (aexpr_ind' b)
    | EGeneric c es => HGeneric c es (go es)
    | ETupleVar e => HTupleVar e (aexpr_ind' e)
    | ETupleFixed es => HTupleFixed es (go es)
    | ETupleEmpty => HTupleEmpty
    | EStarTuple pre s => HStarTuple pre s (go pre) (aexpr_ind' s)
    | EUnpackTuple pre s => HUnpackTuple pre s (go pre) (aexpr_ind' s)
    | ELiteral ls => HLiteral ls
    | ELitNested i ls => HLitNested i ls
    | EType e => HType e (aexpr_ind' e)
    | ECallableAny r => HCallableAny r (aexpr_ind' r)
    | ECallable ps r => HCallable ps r (go ps) (aexpr_ind' r)
    | EAnnotated e m => HAnnotated e m (aexpr_ind' e)
    | EFinal e => HFinal e (aexpr_ind' e)
    | EClassVar e => HClassVar e (aexpr_ind' e)
    | EStr e => HStr e (aexpr_ind' e)
    end.
End AexprInd.

Lemma unite_optional_comm : forall v, unite [TNone; v] = unite [v; TNone].
Proof.
  intros v. unfold unite. cbn [existsb has_none_v flat_map nonnone_members].
  rewrite !orb_false_r, orb_true_r. cbn [orb app]. rewrite !app_nil_r. reflexivity.
Qed.

Definition clean (e : aexpr) : bool :=
  negb (has_star_unpack e || has_nested_literal e || has_final_classvar e).

Lemma guard_clean : forall e, routes_guard e = clean e.
Proof.
  intros e. unfold routes_guard, clean.
  destruct (has_star_unpack e), (has_nested_literal e), (has_final_classvar e); reflexivity.
Qed.

Lemma clean_list : forall es,
  (existsb has_star_unpack es || existsb has_nested_literal es || existsb has_final_classvar es) = false ->
  forall x, In x es -> clean x = true.
Proof.
  intros es H x Hx. apply orb_false_iff in H. destruct H as [H H3]. apply orb_false_iff in H. destruct H as [H1 H2].
  unfold clean. apply negb_true_iff. apply orb_false_iff. split; [apply orb_false_iff; split|].
  - destruct (has_star_unpack x) eqn:E; [|reflexivity].
    rewrite <- H1. symmetry. apply existsb_exists. eauto.
  - destruct (has_nested_literal x) eqn:E; [|reflexivity].
    rewrite <- H2. symmetry. apply existsb_exists. eauto.
  - destruct (has_final_classvar x) eqn:E; [|reflexivity].
    rewrite <- H3. symmetry. apply existsb_exists. eauto.
Qed.

Lemma map_eq_Forall : forall (A B : Type) (f g : A -> B) (P : A -> Prop) l,
  Forall (fun x => P x -> f x = g x) l -> (forall x, In x l -> P x) -> map f l = map g l.
Proof.
  intros A B f g P l HF HP. induction HF as [|x l Hx HF IH]; cbn; [reflexivity|].
  f_equal; [apply Hx, HP; now left|apply IH; intros y Hy; apply HP; now right].
Qed.

Ltac split3 H := apply negb_true_iff in H; apply orb_false_iff in H; destruct H as [H ?H3];
  apply orb_false_iff in H; destruct H as [?H1 ?H2].

Lemma clean_of : forall a b c, a = false -> b = false -> c = false -> negb (a || b || c) = true.
Proof. intros; subst; reflexivity. Qed.

Lemma routes_commute_clean : forall star e, clean e = true -> route_rt star e = route_ast e.
Proof.
  intros star. induction e using aexpr_ind'; intros G; cbn [route_rt route_ast]; try reflexivity.
  - (* Optional *) rewrite IHe by exact G. symmetry. apply unite_optional_comm.
  - (* Union *) f_equal. unfold clean in G. cbn in G. apply negb_true_iff in G.
    eapply map_eq_Forall; [exact H|]. now apply clean_list.
  - (* Or *) unfold clean in *. cbn in G. split3 G.
    apply orb_false_iff in H1, H2, H3. destruct H1, H2, H3.
    rewrite IHe1, IHe2; [reflexivity| |]; apply clean_of; assumption.
  - (* Generic *) f_equal. unfold clean in G. cbn in G. apply negb_true_iff in G.
    eapply map_eq_Forall; [exact H|]. now apply clean_list.
  - (* TupleVar *) rewrite IHe by exact G. reflexivity.
  - (* TupleFixed *) do 2 f_equal. unfold clean in G. cbn in G. apply negb_true_iff in G.
    eapply map_eq_Forall; [exact H|]. now apply clean_list.
  - (* StarTuple *) unfold clean in G. cbn in G. discriminate.
  - (* UnpackTuple *) unfold clean in *. cbn in G. split3 G.
    apply orb_false_iff in H1, H2, H3. destruct H1 as [A1 B1], H2 as [A2 B2], H3 as [A3 B3].
    rewrite IHe by (apply clean_of; assumption). do 3 f_equal.
    eapply map_eq_Forall; [exact H|]. apply clean_list. now rewrite A1, A2, A3.
  - (* LitNested *) unfold clean in G. cbn in G. rewrite ?orb_true_r in G. discriminate.
  - (* Type *) rewrite IHe by exact G. reflexivity.
  - (* CallableAny *) rewrite IHe by exact G. reflexivity.
  - (* Callable *) unfold clean in *. cbn in G. split3 G.
    apply orb_false_iff in H1, H2, H3. destruct H1 as [A1 B1], H2 as [A2 B2], H3 as [A3 B3].
    rewrite IHe by (apply clean_of; assumption). f_equal.
    eapply map_eq_Forall; [exact H|]. apply clean_list. now rewrite A1, A2, A3.
  - (* Annotated *) rewrite IHe by exact G. reflexivity.
  - (* Final *) unfold clean in G. cbn in G. rewrite ?orb_true_r in G. discriminate.
  - (* ClassVar *) unfold clean in G. cbn in G. rewrite ?orb_true_r in G. discriminate.
Qed.


Theorem routes_commute_partial : forall e, routes_guard e = true ->
  route_runtime e = route_ast e /\ route_ast (EStr e) = route_ast e /\ route_visitor e = route_ast e /\
  route_visitor (EStr e) = route_ast e /\ route_runtime (EStr e) = route_ast e.
Proof.
  intros e G. rewrite guard_clean in G.
  repeat split; try reflexivity; apply routes_commute_clean; exact G.
Qed.

Definition routes_commute_full_statement : Prop :=
  forall e, route_runtime e = route_ast e /\ route_visitor e = route_ast e.

Lemma routes_refuted_final : route_runtime (EFinal (EClass 1)) = TTyped 1 /\ route_ast (EFinal (EClass 1)) = TErr.
Proof. split; reflexivity. Qed.

Lemma routes_refuted_nested_literal :
  route_runtime (ELitNested [1%Z] [2%Z]) = TUnion false [TLit 1; TLit 2] /\ route_ast (ELitNested [1%Z] [2%Z]) = TErr.
Proof. split; reflexivity. Qed.

Lemma routes_refuted_star :
  route_runtime (EStarTuple [EClass 1] (EClass 2)) = TSeq [(false, TTyped 1); (false, TGeneric tuple_c [TTyped 2])] /\
  route_ast (EStarTuple [EClass 1] (EClass 2)) = TCrash /\
  route_visitor (EStarTuple [EClass 1] (EClass 2)) = TSeq [(false, TAny)].
Proof. repeat split; reflexivity. Qed.

Lemma routes_commute_full_statement_refuted : ~ routes_commute_full_statement.
Proof. intros H. destruct (H (EFinal (EClass 1))) as [H1 _]. vm_compute in H1. discriminate. Qed.

Definition ex_annot : aexpr :=
  EOptional (EGeneric 5 [EUnion [EClass 1; EStr (ETupleFixed [EClass 2; ELiteral [1%Z; 2%Z]])];
                         ECallable [EOr (EClass 1) ENone] (EType (EAnnotated (ETupleVar EAny) 7))]).

Lemma routes_guard_inhabited :
  routes_guard ex_annot = true /\
  route_ast ex_annot =
    TUnion true [TGeneric 5 [TUnion false [TTyped 1; TSeq [(false, TTyped 2); (false, TUnion false [TLit 1; TLit 2])]];
                             TCall [TUnion true [TTyped 1]] TAny]].
Proof. split; reflexivity. Qed.

(* ------------------------------------------------------------------------ *)
(* signatures *)

Lemma rt_no_private : forall ps acc,
  (forall p, In p ps -> p_private p = false) ->
  fold_left rt_step ps acc = acc ++ map (fun p => mkSParam (p_name p) (p_kind p) (p_default p) (rt_type p)) ps.
Proof.
  induction ps as [|p ps IH]; intros acc H; cbn.
  - now rewrite app_nil_r.
  - rewrite IH by (intros q Hq; apply H; now right).
    unfold rt_step. rewrite (H p) by now left. rewrite andb_false_r. now rewrite <- app_assoc.
Qed.

Lemma param_norm_eq : forall p, param_ok p = true ->
  norm_sparam (def_param p) = norm_sparam (mkSParam (p_name p) (p_kind p) (p_default p) (rt_type p)).
Proof.
  intros [n k d a pr] H. unfold param_ok in H. cbn in H. apply andb_true_iff in H. destruct H as [_ H].
  unfold def_param, rt_type. cbn.
  destruct a as [e|].
  - destruct (routes_commute_partial e H) as (H1 & _ & H3 & _). rewrite H3, H1. reflexivity.
  - unfold norm_sparam. cbn. destruct k; reflexivity.
Qed.

Theorem def_sig_eq_runtime_sig_partial : forall ps r,
  forallb param_ok ps = true -> match r with Some e => routes_guard e | None => true end = true ->
  map norm_sparam (sig_from_def ps) = map norm_sparam (sig_from_runtime ps) /\
  ret_from_def r = ret_from_runtime r.
Proof.
  intros ps r H Hr. rewrite forallb_forall in H. split.
  - unfold sig_from_def, sig_from_runtime. rewrite rt_no_private.
    + cbn. rewrite !map_map. apply map_ext_in. intros p Hp. apply param_norm_eq. now apply H.
    + intros p Hp. specialize (H p Hp). unfold param_ok in H. apply andb_true_iff in H.
      destruct H as [H _]. now apply negb_true_iff in H.
  - destruct r as [e|]; [|reflexivity]. cbn.
    destruct (routes_commute_partial e Hr) as (H1 & _ & H3 & _). now rewrite H3, H1.
Qed.

(* def f(a, __b): the runtime route makes both parameters positional-only *)
Definition ex_private : list param :=
  [mkParam 1 PosOrKw false None false; mkParam 2 PosOrKw false None true].

Lemma def_sig_private_refuted :
  map s_kind (sig_from_def ex_private) = [PosOrKw; PosOrKw] /\
  map s_kind (sig_from_runtime ex_private) = [PosOnly; PosOnly].
Proof. split; reflexivity. Qed.

Definition ex_sig : list param :=
  [mkParam 1 PosOnly false (Some (EClass 1)) false; mkParam 2 PosOrKw true (Some (EOptional (EStr (EClass 2)))) false;
   mkParam 3 VarPos false None false; mkParam 4 KwOnly true None false; mkParam 5 VarKw false (Some (EClass 1)) false].

Lemma def_sig_guard_inhabited :
  forallb param_ok ex_sig = true /\
  map norm_sparam (sig_from_runtime ex_sig) =
    [mkSParam 1 PosOnly false (TTyped 1); mkSParam 2 PosOrKw true (TUnion true [TTyped 2]);
     mkSParam 3 VarPos false (TGeneric tuple_c [TAny]); mkSParam 4 KwOnly true TAny;
     mkSParam 5 VarKw false (TGeneric dict_c [TTyped str_c; TTyped 1])].
Proof. split; reflexivity. Qed.
