(* Proofs about Annot/Routes.v and Annot/DefSig.v: outside three named classes
   the routes commute, for annotation expressions of unbounded nesting. *)
From Coq Require Import NArith ZArith List Bool.
Import ListNotations.
Require Import PV.Annot.Forms PV.Gen.Annot PV.Annot.Routes PV.Annot.DefSig.

(* induction principle for the nested inductive *)
Section AexprInd.
  Variable P : aexpr -> Prop.
  Hypothesis HClass : forall c, P (EClass c).
  Hypothesis HNone : P ENone.
  Hypothesis HAny : P EAny.
  Hypothesis HOptional : forall e, P e -> P (EOptional e).
  Hypothesis HUnion : forall es, Forall P es -> P (EUnion es).
  Hypothesis HOr : forall a b, P a -> P b -> P (EOr a b).
  Hypothesis HGeneric : forall c es, Forall P es -> P (EGeneric c es).
  Hypothesis HTupleVar : forall e, P e -> P (ETupleVar e).
  Hypothesis HTupleFixed : forall es, Forall P es -> P (ETupleFixed es).
  Hypothesis HTupleEmpty : P ETupleEmpty.
  Hypothesis HStarTuple : forall pre s, Forall P pre -> P s -> P (EStarTuple pre s).
  Hypothesis HUnpackTuple : forall pre s, Forall P pre -> P s -> P (EUnpackTuple pre s).
  Hypothesis HLiteral : forall ls, P (ELiteral ls).
  Hypothesis HLitNested : forall i ls, P (ELitNested i ls).
  Hypothesis HType : forall e, P e -> P (EType e).
  Hypothesis HCallableAny : forall r, P r -> P (ECallableAny r).
  Hypothesis HCallable : forall ps r, Forall P ps -> P r -> P (ECallable ps r).
  Hypothesis HAnnotated : forall e m, P e -> P (EAnnotated e m).
  Hypothesis HFinal : forall e, P e -> P (EFinal e).
  Hypothesis HClassVar : forall e, P e -> P (EClassVar e).
  Hypothesis HStr : forall e, P e -> P (EStr e).
  Hypothesis HAlias : forall n, P (EAlias n).
  Hypothesis HAliasApp : forall n es, Forall P es -> P (EAliasApp n es).

  Fixpoint aexpr_ind' (e : aexpr) : P e :=
    let go := fix go (l : list aexpr) : Forall P l :=
      match l with
      | [] => Forall_nil P
      | x :: r => Forall_cons x (aexpr_ind' x) (go r)
      end in
    match e with
    | EClass c => HClass c
    | ENone => HNone
    | EAny => HAny
    | EOptional e => HOptional e (aexpr_ind' e)
    | EUnion es => HUnion es (go es)
    | EOr a b => HOr a b (aexpr_ind' a) (aexpr_ind' b)
    | EGeneric c es => HGeneric c es (go es)
    | ETupleVar e => HTupleVar e (aexpr_ind' e)
    | ETupleFixed es => HTupleFixed es (go es)
    | ETupleEmpty => HTupleEmpty
    | EStarTuple pre s => HStarTuple pre s (go pre) (aexpr_ind' s)
    | EUnpackTuple pre s => HUnpackTuple pre s (go pre) (aexpr_ind' s)
    | ELiteral ls => HLiteral ls
    | ELitNested i ls => HLitNested i ls
    | EType e => HType e (aexpr_ind' e)
    | ECallableAny r => HCallableAny r (aexpr_ind' r)
    | ECallable ps r => HCallable ps r (go ps) (aexpr_ind' r)
    | EAnnotated e m => HAnnotated e m (aexpr_ind' e)
    | EFinal e => HFinal e (aexpr_ind' e)
    | EClassVar e => HClassVar e (aexpr_ind' e)
    | EStr e => HStr e (aexpr_ind' e)
    | EAlias n => HAlias n
    | EAliasApp n es => HAliasApp n es (go es)
    end.
End AexprInd.

Lemma unite_optional_comm : forall v, unite [TNone; v] = unite [v; TNone].
Proof.
  intros v. unfold unite. cbn [existsb has_none_v flat_map nonnone_members].
  rewrite !orb_false_r, orb_true_r. cbn [orb app]. rewrite !app_nil_r. reflexivity.
Qed.

Lemma map_eq_Forall : forall (A B : Type) (f g : A -> B) l,
  Forall (fun x => f x = g x) l -> map f l = map g l.
Proof.
  intros A B f g l HF. induction HF as [|x l Hx HF IH]; cbn; [reflexivity|]. now f_equal.
Qed.

(* ---- obligations on the generated tables (re-checked on every run) -------- *)

(* both dispatch functions do the same thing for every form they share *)
Lemma tables_agree :
  act ast_table FUnion = act rt_table FUnion /\ act ast_table FLiteral = act rt_table FLiteral /\
  act ast_table FTupleVar = act rt_table FTupleVar /\ act ast_table FTupleEmpty = act rt_table FTupleEmpty /\
  act ast_table FTupleFixed = act rt_table FTupleFixed /\ act ast_table FType = act rt_table FType /\
  act ast_table FAnnotated = act rt_table FAnnotated /\ act ast_table FFinal = act rt_table FFinal /\
  act ast_table FClassVar = act rt_table FClassVar /\ act ast_table FUnpack = act rt_table FUnpack /\
  act ast_table FCallable = act rt_table FCallable /\ act ast_table FGenericClass = act rt_table FGenericClass /\
  act ast_table FTypeAlias = act rt_table FTypeAlias.
Proof. repeat split; reflexivity. Qed.

(* Optional is a union with None on the AST route; typing makes it a Union for the runtime route *)
Lemma tables_optional :
  (exists b, act ast_table FOptional = Some (ActOptional b)) /\ act rt_table FUnion = Some ActUniteMembers.
Proof. split; [eexists|]; reflexivity. Qed.

(* nested Literal is flattened by the AST route as typing flattens it for the runtime route;
   a starred member is desugared to Unpack on both *)
Lemma tables_literal_star :
  act ast_table FLiteral = Some (ActUniteLiterals true) /\ ast_visit_starred = true /\
  act rt_table FTupleFixed = Some ActSeqMembers /\ act rt_table FUnpack = Some ActUnpacked.
Proof. repeat split; reflexivity. Qed.

Lemma gen_def_kind_order : def_kind_order = [PosOnly; PosOrKw; VarPos; KwOnly; VarKw].
Proof. reflexivity. Qed.

Lemma gen_rt_kind : forall k pr,
  rt_kind k pr = if (match k with PosOrKw => true | _ => false end) && pr then (PosOnly, true) else (k, false).
Proof. intros k pr. destruct k, pr; reflexivity. Qed.

Lemma gen_wrap_spec : forall k v,
  gen_wrap k v = match k with VarPos => TGeneric tuple_c [v] | VarKw => TGeneric dict_c [TTyped str_c; v] | _ => v end.
Proof. intros k v. destruct k; reflexivity. Qed.

(* full strength: every annotation expression of the vocabulary, any nesting *)
Theorem routes_commute : forall e, route_runtime e = route_ast e.
Proof.
  induction e using aexpr_ind'; cbn [route_runtime route_ast]; try reflexivity.
  - (* Optional *) rewrite IHe.
    transitivity (unite [route_ast e; TNone]); [reflexivity|].
    transitivity (unite [TNone; route_ast e]); [symmetry; apply unite_optional_comm|reflexivity].
  - (* Union *) rewrite (map_eq_Forall _ _ _ _ _ H). reflexivity.
  - (* Or *) rewrite IHe1, IHe2. reflexivity.
  - (* Generic *) rewrite (map_eq_Forall _ _ _ _ _ H). reflexivity.
  - (* TupleVar *) rewrite IHe. reflexivity.
  - (* TupleFixed *) rewrite (map_eq_Forall _ _ _ _ _ H). reflexivity.
  - (* StarTuple *) rewrite IHe, (map_eq_Forall _ _ _ _ _ H). reflexivity.
  - (* UnpackTuple *) rewrite IHe, (map_eq_Forall _ _ _ _ _ H). reflexivity.
  - (* Type *) rewrite IHe. reflexivity.
  - (* CallableAny *) rewrite IHe. reflexivity.
  - (* Callable *) rewrite IHe, (map_eq_Forall _ _ _ _ _ H). reflexivity.
  - (* Annotated *) rewrite IHe. reflexivity.
  - (* Final *) rewrite IHe. reflexivity.
  - (* ClassVar *) rewrite IHe. reflexivity.
  - (* AliasApp *) rewrite (map_eq_Forall _ _ _ _ _ H). reflexivity.
Qed.

Theorem routes_commute_all : forall e,
  route_runtime e = route_ast e /\ route_ast (EStr e) = route_ast e /\ route_visitor e = route_ast e /\
  route_visitor (EStr e) = route_ast e /\ route_runtime (EStr e) = route_ast e.
Proof. intros e. repeat split; try reflexivity; apply routes_commute. Qed.

(* the forms that used to diverge, on the repaired tree *)
Lemma routes_repaired_forms :
  route_ast (EFinal (EClass 1)) = TTyped 1 /\ route_ast (EClassVar (EOptional (EClass 1))) = TUnion true [TTyped 1] /\
  route_ast (ELitNested [1%Z] [2%Z]) = TUnion false [TLit 1; TLit 2] /\
  route_runtime (ELitNested [1%Z] [2%Z]) = TUnion false [TLit 1; TLit 2] /\
  route_ast (EStarTuple [EClass 1] (EClass 2)) = TSeq [(false, TTyped 1); (true, TTyped 2)] /\
  route_runtime (EStarTuple [EClass 1] (EClass 2)) = TSeq [(false, TTyped 1); (true, TTyped 2)] /\
  route_ast (EStarTuple [EClass 1] (EClass 2)) = route_ast (EUnpackTuple [EClass 1] (EClass 2)).
Proof. repeat split; reflexivity. Qed.

Definition ex_annot : aexpr :=
  EOptional (EGeneric 5 [EUnion [EClass 1; EStr (ETupleFixed [EClass 2; ELiteral [1%Z; 2%Z]])];
                         ECallable [EOr (EClass 1) ENone] (EType (EAnnotated (ETupleVar EAny) 7))]).

Lemma routes_example :
  route_runtime ex_annot = route_ast ex_annot /\
  route_ast ex_annot =
    TUnion true [TGeneric 5 [TUnion false [TTyped 1; TSeq [(false, TTyped 2); (false, TUnion false [TLit 1; TLit 2])]];
                             TCall [TUnion true [TTyped 1]] TAny]].
Proof. split; reflexivity. Qed.

(* ------------------------------------------------------------------------ *)
(* signatures *)

Lemma gen_def_private_rule : def_private_rule = true.
Proof. reflexivity. Qed.

Definition posonly_e (e : N * pkind * bool) : N * pkind * bool := let '(n, _, d) := e in (n, PosOnly, d).

Lemma erase_posonly : forall acc, map erase (map make_posonly acc) = map posonly_e (map erase acc).
Proof. intros acc. rewrite !map_map. apply map_ext. intros [n k d t]. reflexivity. Qed.

Lemma types_posonly : forall acc, map s_type (map make_posonly acc) = map s_type acc.
Proof. intros acc. rewrite map_map. apply map_ext. intros [n k d t]. reflexivity. Qed.

(* what the binder sees does not depend on the type function *)
Lemma fold_erase : forall ty1 ty2 r ps acc1 acc2,
  map erase acc1 = map erase acc2 ->
  map erase (fold_left (gstep ty1 r) ps acc1) = map erase (fold_left (gstep ty2 r) ps acc2).
Proof.
  intros ty1 ty2 r. induction ps as [|p ps IH]; intros acc1 acc2 H; cbn; [exact H|].
  apply IH. unfold gstep.
  destruct (if r then rt_kind (p_kind p) (p_private p) else (p_kind p, false)) as [k ev].
  rewrite !map_app. cbn. f_equal.
  destruct ev; [rewrite !erase_posonly; now rewrite H|exact H].
Qed.

(* the i-th parameter keeps the type it was created with *)
Lemma fold_types : forall ty r ps acc,
  map s_type (fold_left (gstep ty r) ps acc) = map s_type acc ++ map ty ps.
Proof.
  intros ty r. induction ps as [|p ps IH]; intros acc; cbn; [now rewrite app_nil_r|].
  rewrite IH. unfold gstep.
  destruct (if r then rt_kind (p_kind p) (p_private p) else (p_kind p, false)) as [k ev].
  rewrite map_app. cbn. destruct ev; [rewrite types_posonly|]; now rewrite <- app_assoc.
Qed.

Lemma norm_type_eq : forall p, norm_type (p_kind p) (def_type p) = norm_type (p_kind p) (rt_type p).
Proof.
  intros [n k d a pr]. unfold def_type, rt_type, norm_type. cbn.
  destruct a as [e|].
  - unfold route_visitor. reflexivity.
  - unfold wrap. rewrite gen_wrap_spec. destruct k; reflexivity.
Qed.

(* full strength: any parameter list (any names, kinds, defaults, annotations) *)
Theorem def_sig_eq_runtime_sig : forall ps r,
  map erase (sig_from_def ps) = map erase (sig_from_runtime ps) /\
  map s_type (sig_from_def ps) = map def_type ps /\
  map s_type (sig_from_runtime ps) = map rt_type ps /\
  (forall p, norm_type (p_kind p) (def_type p) = norm_type (p_kind p) (rt_type p)) /\
  ret_from_def r = ret_from_runtime r.
Proof.
  intros ps r. unfold sig_from_def, sig_from_runtime. rewrite gen_def_private_rule.
  split; [now apply fold_erase|].
  split; [apply fold_types|].
  split; [apply fold_types|].
  split; [apply norm_type_eq|].
  destruct r; reflexivity.
Qed.

(* def f(a, __b): the code before the repair kept both positional-or-keyword on the def route *)
Definition ex_private : list param :=
  [mkParam 1 PosOrKw false None false; mkParam 2 PosOrKw false None true].

Lemma def_sig_legacy_refuted :
  map s_kind (sig_from_def_legacy ex_private) = [PosOrKw; PosOrKw] /\
  map s_kind (sig_from_runtime ex_private) = [PosOnly; PosOnly] /\
  map s_kind (sig_from_def ex_private) = [PosOnly; PosOnly].
Proof. repeat split; reflexivity. Qed.

Definition ex_sig : list param :=
  [mkParam 1 PosOnly false (Some (EClass 1)) false; mkParam 2 PosOrKw true (Some (EOptional (EStr (EClass 2)))) false;
   mkParam 3 VarPos false None false; mkParam 4 KwOnly true None false; mkParam 5 VarKw false (Some (EClass 1)) false].

Lemma def_sig_example :
  sig_from_runtime ex_sig =
    [mkSParam 1 PosOnly false (TTyped 1); mkSParam 2 PosOrKw true (TUnion true [TTyped 2]);
     mkSParam 3 VarPos false TAny; mkSParam 4 KwOnly true TAny;
     mkSParam 5 VarKw false (TGeneric dict_c [TTyped str_c; TTyped 1])] /\
  map s_type (sig_from_def ex_sig) =
    [TTyped 1; TUnion true [TTyped 2]; TGeneric tuple_c [TAny]; TAny; TGeneric dict_c [TTyped str_c; TTyped 1]].
Proof. split; reflexivity. Qed.

(* ------------------------------------------------------------------------ *)
(* the owning class of self *)
Lemma gen_self_walk : self_walk_on_previous = true.
Proof. reflexivity. Qed.

Lemma walk_chain : forall names module found,
  names <> [] ->
  exists c, walk_from true module (chain names) names found = Some c /\ cname c = last names 0%N /\ cnested c = [].
Proof.
  induction names as [|n r IH]; intros module found H; [contradiction|].
  cbn [chain walk_from find_cls cname]. rewrite N.eqb_refl. cbn [cnested].
  destruct r as [|n2 r2].
  - cbn. eexists. repeat split.
  - destruct (IH module (Some (Cls n (chain (n2 :: r2)))) ltac:(discriminate)) as (c & Hc & Hn & He).
    exists c. split; [exact Hc|]. split; [|exact He]. cbn [last]. exact Hn.
Qed.

(* any nesting depth: the runtime route finds the innermost class of Outer.Inner....method *)
Theorem owner_resolved_at_any_depth : forall names, names <> [] ->
  exists c, owner_from_qualname (chain names) names = Some c /\ cname c = last names 0%N.
Proof.
  intros names H. unfold owner_from_qualname. rewrite gen_self_walk.
  destruct (walk_chain names (chain names) None H) as (c & Hc & Hn & _). eauto.
Qed.

(* looking every component up on the module (the seeded variant) loses every class nested in a class *)
Theorem owner_on_module_fails_when_nested : forall n1 n2 rest,
  N.eqb n1 n2 = false ->
  owner_from_qualname_on_module (chain (n1 :: n2 :: rest)) (n1 :: n2 :: rest) = None.
Proof.
  intros n1 n2 rest H. unfold owner_from_qualname_on_module. cbn. rewrite N.eqb_refl. cbn. now rewrite H.
Qed.

(* ------------------------------------------------------------------------ *)
(* calls: the binder of C05 and the call checker of C06 applied to both signatures *)
Require Import PV.Annot.Calls.
Require PV.Binder.Kind PV.Binder.Sig PV.Binder.Bind PV.TypeVar.Base PV.Call.Model.

Lemma decl_table_eq : forall ps, decl_table def_type ps = decl_table rt_type ps.
Proof. intros ps. unfold decl_table. apply map_ext. intros p. now rewrite norm_type_eq. Qed.

Lemma binder_sig_eq : forall ps, to_binder_sig (sig_from_def ps) = to_binder_sig (sig_from_runtime ps).
Proof.
  intros ps. unfold to_binder_sig. destruct (def_sig_eq_runtime_sig ps None) as (E & _). now rewrite E.
Qed.

Theorem call_judged_identically : forall ps raw,
  call_in_defining_scope ps raw = call_from_importer ps raw.
Proof.
  intros ps raw. unfold call_in_defining_scope, call_from_importer, judge.
  now rewrite binder_sig_eq, decl_table_eq.
Qed.

(* with argument types: every diagnostic of the call checker and the result type *)
Theorem call_checked_identically : forall O limit ps r c,
  check_in_defining_scope O limit ps r c = check_from_importer O limit ps r c.
Proof.
  intros O limit ps r c. unfold check_in_defining_scope, check_from_importer, to_csig.
  destruct (def_sig_eq_runtime_sig ps r) as (E & _ & _ & _ & R).
  now rewrite E, decl_table_eq, R.
Qed.

(* the code before the repair: f(a=1, __p=2) binds in the defining scope, is rejected from an importer *)
Lemma call_legacy_refuted :
  call_in_defining_scope_legacy ex_private [Bind.RKw 1; Bind.RKw 2] <> None /\
  call_from_importer ex_private [Bind.RKw 1; Bind.RKw 2] = None /\
  call_in_defining_scope ex_private [Bind.RKw 1; Bind.RKw 2] = None.
Proof. vm_compute. repeat split. discriminate. Qed.

Lemma call_example :
  call_from_importer ex_sig [Bind.RPos; Bind.RPos; Bind.RPos; Bind.RKw 4; Bind.RKw 9] <> None /\
  call_from_importer ex_sig [Bind.RKw 1] = None /\
  call_from_importer ex_sig [] = None.
Proof. vm_compute. repeat split. discriminate. Qed.
