(* Proofs/AstCopy.v — the copier behind replace_node is the identity outside the replaced node. *)
From Coq Require Import List Bool NArith Arith Lia.
Import ListNotations.
Require Import PV.Ast.Copy PV.Gen.CopyGen.

(* ---- the generated loop body is the model's -------------------------- *)

Theorem gen_item_body : forall visit value acc,
  CopyGen.item_body visit value acc = Copy.item_body visit value acc.
Proof.
  intros visit value acc. unfold CopyGen.item_body, Copy.item_body.
  destruct value as [n| |a|l]; cbn; try reflexivity.
  destruct (visit n) as [n'| |a|l]; reflexivity.
Qed.

Lemma items_app_assoc : forall a b c, items_app (items_app a b) c = items_app a (items_app b c).
Proof. induction a as [|v r IH]; intros b c; cbn; [reflexivity|now rewrite IH]. Qed.

Lemma items_app_nil : forall a, items_app a INil = a.
Proof. induction a as [|v r IH]; cbn; [reflexivity|now rewrite IH]. Qed.

Section Replace.
  Context (target : N) (replacement : node).
  Notation rn := (rn target replacement).
  Notation rn_fields := (rn_fields target replacement).
  Notation rn_field := (rn_field target replacement).
  Notation rn_items := (rn_items target replacement).

  (* the accumulation loop of generic_visit is an entry-by-entry map: no entry is dropped,
     duplicated or reordered; None and other non-node entries are kept *)
  Lemma fold_is_map : forall l acc,
    fold_items (Copy.item_body (fun n => VAst (rn n))) l acc = items_app acc (rn_items l).
  Proof.
    induction l as [|v r IH]; intros acc; cbn [fold_items Copy.rn_items]; [now rewrite items_app_nil|].
    rewrite IH. destruct v as [n| |a|l]; cbn [Copy.item_body]; unfold append;
      now rewrite items_app_assoc.
  Qed.

  Theorem copy_items_is_map : forall l, copy_items target replacement l = rn_items l.
  Proof. intros l. unfold copy_items. now rewrite fold_is_map. Qed.

  Theorem gen_copy_list_is_map : forall l,
    CopyGen.copy_list (fun n => VAst (rn n)) l = rn_items l.
  Proof.
    intros l. unfold CopyGen.copy_list. rewrite <- copy_items_is_map. unfold copy_items.
    assert (E : forall l acc, fold_items (CopyGen.item_body (fun n => VAst (rn n))) l acc
                            = fold_items (Copy.item_body (fun n => VAst (rn n))) l acc).
    { induction l0 as [|v r IH]; intros acc; cbn [fold_items]; [reflexivity|]. now rewrite gen_item_body, IH. }
    apply E.
  Qed.

  Theorem rn_items_length : forall l, items_length (rn_items l) = items_length l.
  Proof. induction l as [|v r IH]; cbn; [reflexivity|]. destruct v; cbn; now rewrite IH. Qed.

  (* the copier is the identity on every tree that does not contain the node to replace *)
  Theorem copy_id_all :
    (forall n, occ target n = false -> rn n = n) /\
    (forall fs, occ_fields target fs = false -> rn_fields fs = fs) /\
    (forall f, occ_field target f = false -> rn_field f = f) /\
    (forall l, occ_items target l = false -> rn_items l = l) /\
    (forall v, occ_val target v = false -> match v with VAst n => rn n = n | _ => True end) /\
    (forall l : nodes, True).
  Proof.
    apply ast_mutind.
    - intros i k fs IH H. cbn [occ] in H. apply orb_false_iff in H. destruct H as [H1 H2].
      cbn [Copy.rn]. rewrite H1. f_equal. now apply IH.
    - reflexivity.
    - intros f IHf r IHr H. cbn [occ_fields] in H. apply orb_false_iff in H. destruct H as [H1 H2].
      cbn [Copy.rn_fields]. f_equal; [now apply IHf|now apply IHr].
    - intros n IH H. cbn [occ_field] in H. cbn [Copy.rn_field]. f_equal. now apply IH.
    - intros l IH H. cbn [occ_field] in H. cbn [Copy.rn_field]. f_equal. now apply IH.
    - reflexivity.
    - reflexivity.
    - intros v IHv r IHr H. cbn [occ_items] in H. apply orb_false_iff in H. destruct H as [H1 H2].
      specialize (IHv H1). specialize (IHr H2).
      destruct v as [n| |a|l]; cbn [Copy.rn_items]; f_equal; try assumption. now f_equal.
    - intros n IH H. cbn [occ_val] in H. now apply IH.
    - intros; exact I.
    - intros; exact I.
    - intros; exact I.
    - exact I.
    - intros; exact I.
  Qed.

  Corollary copy_id : forall n, occ target n = false -> rn n = n.
  Proof. exact (proj1 copy_id_all). Qed.

  Corollary copy_id_items : forall l, occ_items target l = false -> rn_items l = l.
  Proof. exact (proj1 (proj2 (proj2 (proj2 copy_id_all)))). Qed.

  Theorem rn_root : forall n, node_id n = target -> rn n = replacement.
  Proof. intros [i k fs] H. cbn in *. subst. now rewrite N.eqb_refl. Qed.

  (* a node that is not the target keeps its identity, kind and number of fields; only its
     fields are visited *)
  Theorem rn_keeps_node : forall i k fs, i <> target -> rn (Node i k fs) = Node i k (rn_fields fs).
  Proof. intros i k fs H. cbn. apply N.eqb_neq in H. now rewrite H. Qed.

  (* the target is replaced at most once when identities are unique: the number of maximal
     occurrences of the target is bounded by the number of nodes carrying its identity *)
  Fixpoint ids (n : node) : list N :=
    match n with Node i _ fs => i :: ids_fields fs end
  with ids_fields (fs : fields) : list N :=
    match fs with FNil => [] | FCons f r => ids_field f ++ ids_fields r end
  with ids_field (f : field) : list N :=
    match f with FNode n => ids n | FList l => ids_items l | FAtom _ => [] end
  with ids_items (l : items) : list N :=
    match l with INil => [] | ICons v r => ids_val v ++ ids_items r end
  with ids_val (v : val) : list N :=
    match v with VAst n => ids n | VSeq l => ids_nodes l | _ => [] end
  with ids_nodes (l : nodes) : list N :=
    match l with NNil => [] | NCons n r => ids n ++ ids_nodes r end.

  Fixpoint hits (n : node) : nat :=
    match n with Node i _ fs => if N.eqb i target then 1 else hits_fields fs end
  with hits_fields (fs : fields) : nat :=
    match fs with FNil => 0 | FCons f r => hits_field f + hits_fields r end
  with hits_field (f : field) : nat :=
    match f with FNode n => hits n | FList l => hits_items l | FAtom _ => 0 end
  with hits_items (l : items) : nat :=
    match l with INil => 0 | ICons v r => hits_val v + hits_items r end
  with hits_val (v : val) : nat :=
    match v with VAst n => hits n | VSeq l => hits_nodes l | _ => 0 end
  with hits_nodes (l : nodes) : nat :=
    match l with NNil => 0 | NCons n r => hits n + hits_nodes r end.

  Lemma count_app : forall (a b : list N), count_occ N.eq_dec (a ++ b) target
                                          = count_occ N.eq_dec a target + count_occ N.eq_dec b target.
  Proof. intros. apply count_occ_app. Qed.

  Theorem hits_le_count :
    (forall n, hits n <= count_occ N.eq_dec (ids n) target) /\
    (forall fs, hits_fields fs <= count_occ N.eq_dec (ids_fields fs) target) /\
    (forall f, hits_field f <= count_occ N.eq_dec (ids_field f) target) /\
    (forall l, hits_items l <= count_occ N.eq_dec (ids_items l) target) /\
    (forall v, hits_val v <= count_occ N.eq_dec (ids_val v) target) /\
    (forall l, hits_nodes l <= count_occ N.eq_dec (ids_nodes l) target).
  Proof.
    apply ast_mutind; cbn [hits hits_fields hits_field hits_items hits_val hits_nodes
                           ids ids_fields ids_field ids_items ids_val ids_nodes]; intros;
      rewrite ?count_app; try (cbn; lia); try assumption.
    - (* Node *) cbn [count_occ]. destruct (N.eqb id target) eqn:E.
      + apply N.eqb_eq in E. subst. destruct (N.eq_dec target target); [lia|contradiction].
      + destruct (N.eq_dec id target); lia.
  Qed.

  Theorem replaced_at_most_once : forall n, NoDup (ids n) -> hits n <= 1.
  Proof.
    intros n ND. pose proof (proj1 hits_le_count n) as H.
    pose proof (proj1 (NoDup_count_occ N.eq_dec (ids n)) ND target). lia.
  Qed.

  Theorem replaced_iff_occurs :
    (forall n, hits n = 0 <-> occ target n = false) /\
    (forall fs, hits_fields fs = 0 <-> occ_fields target fs = false) /\
    (forall f, hits_field f = 0 <-> occ_field target f = false) /\
    (forall l, hits_items l = 0 <-> occ_items target l = false) /\
    (forall v, hits_val v = 0 <-> occ_val target v = false) /\
    (forall l, hits_nodes l = 0 <-> occ_nodes target l = false).
  Proof.
    apply ast_mutind; cbn [hits hits_fields hits_field hits_items hits_val hits_nodes
                           occ occ_fields occ_field occ_items occ_val occ_nodes]; intros;
      try tauto; rewrite ?orb_false_iff, ?Nat.eq_add_0; try tauto.
    - destruct (N.eqb id target); cbn; [split; [discriminate|intros [H0 _]; discriminate]|tauto].
  Qed.
End Replace.
