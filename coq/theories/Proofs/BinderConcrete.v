(* Proofs/BinderConcrete.v — concrete call shapes: the parameter-driven model
   of Signature.bind_arguments accepts exactly the calls CPython binds.

   Route: both algorithms are reduced to one closed form over the parameter
   list, indexed by the number `n` of positional arguments still unconsumed
   (`params_ok`, `final_rem`, `consumed`):
     bind_params_closed : the model's loop computes the closed form;
     py_bind_closed     : so does the argument-driven specification, for
                          signatures with distinct names in which no
                          positional parameter follows *args. *)
From Coq Require Import List Bool NArith PeanoNat Lia.
Import ListNotations.
Require Import PV.Binder.Kind PV.Binder.Sig PV.Binder.Bind PV.Binder.PyBind.

Definition concrete (a : actuals) : Prop :=
  star_args a = false /\ star_kwargs a = false /\
  forallb (fun b => b) (positionals a) = true /\
  forallb (fun kv => snd kv) (keywords a) = true.

(* ---------- small facts ---------- *)
Lemma memN_cons : forall k x l, memN k (x :: l) = N.eqb k x || memN k l.
Proof. reflexivity. Qed.

Lemma memN_app : forall k l1 l2, memN k (l1 ++ l2) = memN k l1 || memN k l2.
Proof. intros; unfold memN; apply existsb_app. Qed.

Lemma memN_true_iff : forall k l, memN k l = true <-> In k l.
Proof.
  intros k l; unfold memN; rewrite existsb_exists; split.
  - intros [x [Hin He]]. apply N.eqb_eq in He; subst; assumption.
  - intros Hin; exists k; split; [assumption | apply N.eqb_refl].
Qed.

Lemma kw_lookup_none : forall n l, kw_lookup n l = None <-> memN n (map fst l) = false.
Proof.
  induction l as [|[m b] r IH]; cbn; [tauto|].
  destruct (N.eqb n m); cbn; [split; discriminate | exact IH].
Qed.

Lemma kw_lookup_some_true : forall n l dp,
  forallb (fun kv : N * bool => snd kv) l = true -> kw_lookup n l = Some dp -> dp = true.
Proof.
  induction l as [|[m b] r IH]; cbn; intros dp Hall Hl; [discriminate|].
  apply andb_true_iff in Hall as [Hb Hr].
  destruct (N.eqb n m); [injection Hl as <-; exact Hb | eauto].
Qed.

Lemma nth_all_true : forall l i, forallb (fun b : bool => b) l = true -> nth i l true = true.
Proof.
  induction l as [|b r IH]; intros [|i] H; cbn in *; try reflexivity;
    apply andb_true_iff in H as [Hb Hr]; auto.
Qed.

(* ---------- the closed form ---------- *)
Fixpoint params_ok (n : nat) (kws : list N) (s : sig) : bool :=
  match s with
  | [] => true
  | p :: r =>
      match pkind p, n with
      | PO, S n' => params_ok n' kws r
      | PO, O => pdefault p && params_ok O kws r
      | POK, S n' => negb (memN (pname p) kws) && params_ok n' kws r
      | POK, O => (memN (pname p) kws || pdefault p) && params_ok O kws r
      | KO, _ => (memN (pname p) kws || pdefault p) && params_ok n kws r
      | VP, _ => params_ok O kws r
      | VK, _ => params_ok n kws r
      end
  end.

Fixpoint final_rem (n : nat) (s : sig) : nat :=
  match s with
  | [] => n
  | p :: r =>
      match pkind p with
      | PO | POK => final_rem (pred n) r
      | VP => final_rem O r
      | _ => final_rem n r
      end
  end.

Fixpoint consumed (n : nat) (kws : list N) (s : sig) : list N :=
  match s with
  | [] => []
  | p :: r =>
      match pkind p, n with
      | PO, _ => consumed (pred n) kws r
      | POK, S n' => consumed n' kws r
      | POK, O => if memN (pname p) kws then pname p :: consumed O kws r else consumed O kws r
      | KO, _ => if memN (pname p) kws then pname p :: consumed n kws r else consumed n kws r
      | VP, _ => consumed O kws r
      | VK, _ => consumed n kws r
      end
  end.


Lemma params_ok_VP : forall n kws p r, pkind p = VP -> params_ok n kws (p :: r) = params_ok 0 kws r.
Proof. intros n kws p r E; cbn [params_ok]; rewrite E; destruct n; reflexivity. Qed.
Lemma consumed_VP : forall n kws p r, pkind p = VP -> consumed n kws (p :: r) = consumed 0 kws r.
Proof. intros n kws p r E; cbn [consumed]; rewrite E; destruct n; reflexivity. Qed.

Lemma params_ok_KO : forall n kws p r, pkind p = KO ->
  params_ok n kws (p :: r) = (memN (pname p) kws || pdefault p) && params_ok n kws r.
Proof. intros n kws p r E; cbn [params_ok]; rewrite E; destruct n; reflexivity. Qed.
Lemma consumed_KO : forall n kws p r, pkind p = KO ->
  consumed n kws (p :: r) = if memN (pname p) kws then pname p :: consumed n kws r else consumed n kws r.
Proof. intros n kws p r E; cbn [consumed]; rewrite E; destruct n; reflexivity. Qed.
Lemma params_ok_VK : forall n kws p r, pkind p = VK -> params_ok n kws (p :: r) = params_ok n kws r.
Proof. intros n kws p r E; cbn [params_ok]; rewrite E; destruct n; reflexivity. Qed.
Lemma consumed_VK : forall n kws p r, pkind p = VK -> consumed n kws (p :: r) = consumed n kws r.
Proof. intros n kws p r E; cbn [consumed]; rewrite E; destruct n; reflexivity. Qed.

Definition closed (s : sig) (npos : nat) (kws : list N) : bool :=
  params_ok npos kws s
  && (has_kind VP s || (final_rem npos s =? 0))
  && (has_kind VK s || forallb (fun k => memN k (consumed npos kws s)) kws).

(* ---------- the model computes the closed form ---------- *)
Section Model.
  Context (a : actuals) (Hc : concrete a).
  Let npos := length (positionals a).
  Let kws := map fst (keywords a).

  Lemma bind_params_closed : forall s st,
    pidx st <= npos ->
    match bind_params a st s with
    | None => params_ok (npos - pidx st) kws s = false
    | Some st' =>
        params_ok (npos - pidx st) kws s = true
        /\ pidx st' <= npos
        /\ npos - pidx st' = final_rem (npos - pidx st) s
        /\ (forall k, memN k (kcons st') = memN k (consumed (npos - pidx st) kws s) || memN k (kcons st))
        /\ sac st' = sac st || has_kind VP s
        /\ eka st' = eka st || has_kind VK s
    end.
  Proof.
    destruct Hc as (Hsa & Hsk & Hpos & Hkw).
    induction s as [|p r IH]; intros st Hle; cbn [bind_params].
    - cbn. repeat split; auto; try lia; try (rewrite orb_false_r; reflexivity).
    - unfold step. fold npos.
      destruct (pkind p) eqn:Ek.
      + (* PO *)
        destruct (pidx st <? npos) eqn:Elt.
        * apply Nat.ltb_lt in Elt.
          rewrite (nth_all_true _ _ Hpos). cbn [negb andb].
          specialize (IH (mkB (S (pidx st)) (kcons st) (sac st) (skc st) (eka st)
                              ((pname p, Pos (pidx st), One) :: bound st))).
          cbn [pidx kcons sac eka] in IH. specialize (IH ltac:(lia)).
          destruct (npos - pidx st) as [|n'] eqn:En; [lia|].
          replace (npos - S (pidx st)) with n' in IH by lia.
          cbn [params_ok final_rem consumed has_kind existsb]. rewrite Ek. cbn [kind_eqb orb pred].
          exact IH.
        * apply Nat.ltb_ge in Elt. rewrite Hsa.
          replace (npos - pidx st) with 0 by lia.
          cbn [params_ok final_rem consumed has_kind existsb]. rewrite Ek. cbn [kind_eqb orb pred].
          destruct (pdefault p); cbn [andb].
          -- specialize (IH (bind1 st p Default)). cbn [bind1 pidx kcons sac eka] in IH.
             specialize (IH Hle). replace (npos - pidx st) with 0 in IH by lia. exact IH.
          -- reflexivity.
      + (* POK *)
        destruct (pidx st <? npos) eqn:Elt.
        * apply Nat.ltb_lt in Elt.
          rewrite (nth_all_true _ _ Hpos). cbn [negb andb].
          destruct (npos - pidx st) as [|n'] eqn:En; [lia|].
          cbn [params_ok final_rem consumed has_kind existsb]. rewrite Ek. cbn [kind_eqb orb pred].
          destruct (kw_lookup (pname p) (keywords a)) eqn:El.
          -- assert (memN (pname p) kws = true) as ->.
             { destruct (memN (pname p) kws) eqn:E; [reflexivity|].
               apply kw_lookup_none in E. congruence. }
             reflexivity.
          -- apply kw_lookup_none in El. fold kws in El. rewrite El. cbn [negb andb].
             specialize (IH (mkB (S (pidx st)) (kcons st) (sac st) (skc st) (eka st)
                              ((pname p, Pos (pidx st), One) :: bound st))).
             cbn [pidx kcons sac eka] in IH. specialize (IH ltac:(lia)).
             replace (npos - S (pidx st)) with n' in IH by lia. exact IH.
        * apply Nat.ltb_ge in Elt. rewrite Hsa.
          replace (npos - pidx st) with 0 by lia.
          cbn [params_ok final_rem consumed has_kind existsb]. rewrite Ek. cbn [kind_eqb orb pred].
          destruct (kw_lookup (pname p) (keywords a)) as [dp|] eqn:El.
          -- rewrite (kw_lookup_some_true _ _ _ Hkw El). cbn [negb andb].
             assert (memN (pname p) kws = true) as Hm.
             { destruct (memN (pname p) kws) eqn:E; [reflexivity|].
               apply kw_lookup_none in E. congruence. }
             rewrite Hm. cbn [orb andb].
             specialize (IH (mkB (pidx st) (pname p :: kcons st) (sac st) (skc st) (eka st)
                              ((pname p, Kw (pname p), One) :: bound st))).
             cbn [pidx kcons sac eka] in IH. specialize (IH Hle).
             replace (npos - pidx st) with 0 in IH by lia.
             destruct (bind_params a _ r); [|exact IH].
             destruct IH as (H1 & H2 & H3 & H4 & H5 & H6). repeat split; auto.
             intros k. rewrite H4. rewrite !memN_cons. 
             destruct (N.eqb k (pname p)), (memN k (consumed 0 kws r)); reflexivity.
          -- apply kw_lookup_none in El. fold kws in El. rewrite El, Hsk. cbn [orb].
             destruct (pdefault p); cbn [andb]; [|reflexivity].
             specialize (IH (bind1 st p Default)). cbn [bind1 pidx kcons sac eka] in IH.
             specialize (IH Hle). replace (npos - pidx st) with 0 in IH by lia. exact IH.
      + (* VP *)
        rewrite (params_ok_VP _ _ _ _ Ek), (consumed_VP _ _ _ _ Ek).
        cbn [final_rem has_kind existsb]. rewrite Ek. cbn [kind_eqb orb].
        match goal with |- context [bind_params a ?st0 r] => specialize (IH st0) end.
        cbn [pidx kcons sac eka] in IH. specialize (IH ltac:(lia)).
        replace (npos - Nat.max (pidx st) npos) with 0 in IH by lia.
        destruct (bind_params a _ r); [|exact IH].
        destruct IH as (H1 & H2 & H3 & H4 & H5 & H6). repeat split; auto.
        rewrite H5. cbn [orb]. rewrite orb_true_r. reflexivity.
      + (* KO *)
        rewrite (params_ok_KO _ _ _ _ Ek), (consumed_KO _ _ _ _ Ek).
        cbn [final_rem has_kind existsb]. rewrite Ek. cbn [kind_eqb orb].
        destruct (kw_lookup (pname p) (keywords a)) as [dp|] eqn:El.
        -- rewrite (kw_lookup_some_true _ _ _ Hkw El). cbn [negb andb].
           assert (memN (pname p) kws = true) as Hm.
           { destruct (memN (pname p) kws) eqn:E; [reflexivity|].
             apply kw_lookup_none in E. congruence. }
           rewrite Hm. cbn [orb andb].
           match goal with |- context [bind_params a ?st0 r] => specialize (IH st0) end.
           cbn [pidx kcons sac eka] in IH. specialize (IH Hle).
           destruct (bind_params a _ r); [|exact IH].
           destruct IH as (H1 & H2 & H3 & H4 & H5 & H6). repeat split; auto.
           intros k. rewrite H4. rewrite !memN_cons.
           destruct (N.eqb k (pname p)), (memN k (consumed (npos - pidx st) kws r)); reflexivity.
        -- apply kw_lookup_none in El. fold kws in El. rewrite El, Hsk. cbn [orb].
           destruct (pdefault p); cbn [andb]; [|reflexivity].
           specialize (IH (bind1 st p Default)). cbn [bind1 pidx kcons sac eka] in IH.
           specialize (IH Hle). exact IH.
      + (* VK *)
        rewrite (params_ok_VK _ _ _ _ Ek), (consumed_VK _ _ _ _ Ek).
        cbn [final_rem has_kind existsb]. rewrite Ek. cbn [kind_eqb orb].
        match goal with |- context [bind_params a ?st0 r] => specialize (IH st0) end.
        cbn [pidx kcons sac eka] in IH. specialize (IH Hle).
        destruct (bind_params a _ r); [|exact IH].
        destruct IH as (H1 & H2 & H3 & H4 & H5 & H6). repeat split; auto.
        rewrite H6. cbn [orb]. rewrite orb_true_r. reflexivity.
  Qed.
End Model.

Lemma existsb_negb_forallb : forall (kc C l : list N),
  (forall k, memN k kc = memN k C) ->
  existsb (fun n => negb (memN n kc)) l = negb (forallb (fun k => memN k C) l).
Proof.
  intros kc C l H. induction l as [|k l IH]; [reflexivity|].
  cbn [existsb forallb]. rewrite IH, H, negb_andb. reflexivity.
Qed.

Lemma accepts_closed : forall s a, concrete a ->
  accepts s a = closed s (length (positionals a)) (map fst (keywords a)).
Proof.
  intros s a Hc. unfold accepts, bind, bind_with, closed.
  pose proof (bind_params_closed a Hc s init_state) as H. cbn [pidx init_state] in H.
  specialize (H (Nat.le_0_l _)). rewrite Nat.sub_0_r in H.
  destruct Hc as (Hsa & Hsk & _ & _).
  destruct (bind_params a init_state s) as [st'|].
  - destruct H as (H1 & H2 & H3 & H4 & H5 & H6). cbn [sac eka kcons init_state] in *.
    rewrite H1. cbn [andb].
    unfold finish_with. rewrite Hsa, Hsk, H5, H6. cbn [orb].
    rewrite !andb_false_r. cbn [negb andb]. rewrite !andb_true_r.
    assert (Hrem : (pidx st' =? length (positionals a)) = (final_rem (length (positionals a)) s =? 0)).
    { rewrite <- H3. destruct (Nat.eqb_spec (pidx st') (length (positionals a)));
        destruct (Nat.eqb_spec (length (positionals a) - pidx st') 0); try reflexivity; lia. }
    rewrite Hrem.
    assert (Hex : has_extra_kw a st' = negb (forallb (fun k => memN k (consumed (length (positionals a)) (map fst (keywords a)) s)) (map fst (keywords a)))).
    { unfold has_extra_kw. apply existsb_negb_forallb. intros k. rewrite H4.
      cbn [memN existsb]. apply orb_false_r. }
    rewrite Hex.
    destruct (has_kind VP s), (has_kind VK s), (final_rem _ s =? 0), (forallb _ (map fst (keywords a)));
      reflexivity.
  - rewrite H. reflexivity.
Qed.

(* ---------- the specification computes the closed form ---------- *)
Fixpoint pos_before_vp (s : sig) : bool :=
  match s with
  | [] => true
  | p :: r =>
      (match pkind p with
       | VP => forallb (fun q => negb (is_positional (pkind q))) r
       | _ => true
       end) && pos_before_vp r
  end.

Definition filled_names (n : nat) (s : sig) : list N := map pname (firstn n (pos_params s)).

Lemma assoc_fill_positional : forall pp i n k,
  (match assoc k (fill_positional pp i n) with Some _ => true | None => false end)
  = memN k (map pname (firstn n pp)).
Proof.
  induction pp as [|p r IH]; intros i [|n] k; cbn; try reflexivity.
  destruct (N.eqb k (pname p)); [reflexivity|]. apply IH.
Qed.

Lemma collect_some : forall f s,
  (match collect f s with Some _ => true | None => false end)
  = forallb (fun p => match f p with Some _ => true | None => false end) s.
Proof.
  induction s as [|p r IH]; cbn; [reflexivity|].
  destruct (f p); cbn; [|reflexivity]. rewrite <- IH. destruct (collect f r); reflexivity.
Qed.

Definition per_param (F kws : list N) (p : param) : bool :=
  negb (is_kw_target (pkind p) && memN (pname p) kws && memN (pname p) F)
  && (is_var (pkind p) || memN (pname p) F || (is_kw_target (pkind p) && memN (pname p) kws) || pdefault p).

Lemma In_firstn : forall (A : Type) n (l : list A) x, In x (firstn n l) -> In x l.
Proof.
  induction n as [|n IH]; intros [|y l] x H; cbn in *; try contradiction.
  destruct H as [H|H]; [left; assumption | right; apply IH; assumption].
Qed.

Lemma forallb_ext_in : forall (A : Type) (f g : A -> bool) l,
  (forall x, In x l -> f x = g x) -> forallb f l = forallb g l.
Proof.
  induction l as [|y l IH]; intros H; [reflexivity|]. cbn [forallb].
  rewrite (H y (or_introl eq_refl)), IH; [reflexivity|]. intros x Hx. apply H. right. assumption.
Qed.

Lemma filled_names_sub : forall n s x, memN x (filled_names n s) = true -> memN x (map pname s) = true.
Proof.
  unfold filled_names. intros n s x H. apply memN_true_iff in H. apply memN_true_iff.
  apply in_map_iff in H as [q [Hq Hin]]. apply in_map_iff. exists q. split; [assumption|].
  apply In_firstn in Hin. unfold pos_params in Hin. apply filter_In in Hin. tauto.
Qed.

Lemma per_param_core : forall r n kws,
  names_nodup (map pname r) = true -> pos_before_vp r = true ->
  forallb (per_param (filled_names n r) kws) r = params_ok n kws r.
Proof.
  induction r as [|p r IH]; intros n kws Hnd Hvp; [reflexivity|].
  cbn [map names_nodup] in Hnd. apply andb_true_iff in Hnd as [Hp Hnd].
  apply negb_true_iff in Hp.
  cbn [pos_before_vp] in Hvp. apply andb_true_iff in Hvp as [Hvp1 Hvp].
  cbn [forallb].
  assert (Hfresh : forall m, memN (pname p) (filled_names m r) = false).
  { intros m. destruct (memN (pname p) (filled_names m r)) eqn:E; [|reflexivity].
    apply filled_names_sub in E. congruence. }
  assert (Hext : forall m, forallb (per_param (pname p :: filled_names m r) kws) r
                           = forallb (per_param (filled_names m r) kws) r).
  { intros m. apply forallb_ext_in. intros q Hq. unfold per_param. rewrite !memN_cons.
    assert (N.eqb (pname q) (pname p) = false) as ->; [|reflexivity].
    apply N.eqb_neq. intros E. 
    assert (memN (pname p) (map pname r) = true); [|congruence].
    apply memN_true_iff. rewrite <- E. apply in_map. assumption. }
  unfold per_param at 1.
  destruct (pkind p) eqn:Ek; cbn [is_kw_target is_var andb orb negb].
  - (* PO *)
    destruct n as [|n'].
    + assert (filled_names 0 (p :: r) = filled_names 0 r) as -> by reflexivity.
      cbn [params_ok]. rewrite Ek. rewrite Hfresh. cbn [orb]. rewrite IH by assumption. reflexivity.
    + assert (filled_names (S n') (p :: r) = pname p :: filled_names n' r) as ->.
      { unfold filled_names, pos_params. cbn [filter]. rewrite Ek. reflexivity. }
      cbn [params_ok]. rewrite Ek. rewrite memN_cons, N.eqb_refl. cbn [orb andb].
      rewrite Hext. apply IH; assumption.
  - (* POK *)
    destruct n as [|n'].
    + assert (filled_names 0 (p :: r) = filled_names 0 r) as -> by reflexivity.
      cbn [params_ok]. rewrite Ek. rewrite Hfresh. rewrite andb_false_r. cbn [negb orb andb].
      rewrite IH by assumption. reflexivity.
    + assert (filled_names (S n') (p :: r) = pname p :: filled_names n' r) as ->.
      { unfold filled_names, pos_params. cbn [filter]. rewrite Ek. reflexivity. }
      cbn [params_ok]. rewrite Ek. rewrite memN_cons, N.eqb_refl. cbn [orb andb].
      rewrite !andb_true_r. rewrite Hext. rewrite IH by assumption. reflexivity.
  - (* VP *)
    rewrite (params_ok_VP _ _ _ _ Ek).
    assert (Hnil : pos_params r = []).
    { unfold pos_params. clear - Hvp1. induction r as [|q r IHr]; [reflexivity|].
      cbn [forallb] in Hvp1. apply andb_true_iff in Hvp1 as [H1 H2].
      cbn [filter]. apply negb_true_iff in H1. rewrite H1. auto. }
    assert (filled_names n (p :: r) = filled_names 0 r) as ->.
    { unfold filled_names, pos_params. cbn [filter]. rewrite Ek. cbn [is_positional].
      fold (pos_params r). rewrite Hnil. destruct n; reflexivity. }
    apply IH; assumption.
  - (* KO *)
    rewrite (params_ok_KO _ _ _ _ Ek).
    assert (filled_names n (p :: r) = filled_names n r) as ->.
    { unfold filled_names, pos_params. cbn [filter]. rewrite Ek. reflexivity. }
    rewrite Hfresh. rewrite andb_false_r. cbn [negb orb andb].
    rewrite IH by assumption. reflexivity.
  - (* VK *)
    rewrite (params_ok_VK _ _ _ _ Ek).
    assert (filled_names n (p :: r) = filled_names n r) as ->.
    { unfold filled_names, pos_params. cbn [filter]. rewrite Ek. reflexivity. }
    apply IH; assumption.
Qed.

(* step 2 of the specification, regrouped per parameter *)
Lemma kw_target_true_iff : forall s k,
  kw_target s k = true <-> exists p, In p s /\ is_kw_target (pkind p) = true /\ pname p = k.
Proof.
  intros s k. unfold kw_target. rewrite existsb_exists. split.
  - intros [p [Hin H]]. apply andb_true_iff in H as [H1 H2]. apply N.eqb_eq in H2. eauto.
  - intros [p [Hin [H1 H2]]]. exists p. split; [assumption|]. rewrite H1, H2, N.eqb_refl. reflexivity.
Qed.

Lemma kws_regroup : forall s (F : list N) kws,
  forallb (fun k => if kw_target s k then negb (memN k F) else has_kind VK s) kws
  = forallb (fun p => negb (is_kw_target (pkind p) && memN (pname p) kws && memN (pname p) F)) s
    && (has_kind VK s || forallb (kw_target s) kws).
Proof.
  intros s F kws. apply eq_true_iff_eq.
  rewrite andb_true_iff, orb_true_iff, !forallb_forall. split.
  - intros H. split.
    + intros p Hp. apply negb_true_iff. 
      destruct (is_kw_target (pkind p)) eqn:E1; [|reflexivity].
      destruct (memN (pname p) kws) eqn:E2; [|reflexivity]. cbn [andb].
      apply memN_true_iff in E2. specialize (H _ E2).
      assert (kw_target s (pname p) = true) as Ht by (apply kw_target_true_iff; eauto).
      rewrite Ht in H. apply negb_true_iff in H. exact H.
    + destruct (has_kind VK s) eqn:Evk; [left; reflexivity|right].
      intros k Hk. specialize (H _ Hk). destruct (kw_target s k); [reflexivity|discriminate].
  - intros [H1 H2] k Hk. destruct (kw_target s k) eqn:Et.
    + apply kw_target_true_iff in Et as [p [Hin [Hkt Hn]]]. specialize (H1 _ Hin).
      apply negb_true_iff in H1. rewrite Hkt, Hn in H1.
      apply memN_true_iff in Hk. rewrite Hk in H1. cbn [andb] in H1. rewrite H1. reflexivity.
    + destruct H2 as [H2|H2]; [assumption|]. specialize (H2 _ Hk). congruence.
Qed.

Lemma consumed_kw_target : forall s n kws,
  names_nodup (map pname s) = true -> params_ok n kws s = true ->
  forall k, memN k kws = true -> memN k (consumed n kws s) = kw_target s k.
Proof.
  induction s as [|p r IH]; intros n kws Hnd Hok k Hk; [reflexivity|].
  cbn [map names_nodup] in Hnd. apply andb_true_iff in Hnd as [Hp Hnd].
  unfold kw_target. cbn [existsb]. fold (kw_target r k).
  destruct (pkind p) eqn:Ek; cbn [is_kw_target andb orb].
  - cbn [params_ok consumed] in *. rewrite Ek in *. destruct n as [|n'].
    + apply andb_true_iff in Hok as [_ Hok]. cbn [pred]. eauto.
    + cbn [pred]. eauto.
  - cbn [params_ok consumed] in *. rewrite Ek in *. destruct n as [|n'].
    + apply andb_true_iff in Hok as [_ Hok].
      destruct (N.eqb_spec (pname p) k) as [E|E].
      * subst k. rewrite Hk. rewrite memN_cons, N.eqb_refl. reflexivity.
      * cbn [orb]. destruct (memN (pname p) kws); [|eauto].
        rewrite memN_cons. apply N.eqb_neq in E. rewrite N.eqb_sym, E. cbn [orb]. eauto.
    + apply andb_true_iff in Hok as [Hno Hok]. apply negb_true_iff in Hno.
      destruct (N.eqb_spec (pname p) k) as [E|E]; [subst k; congruence|]. cbn [orb]. eauto.
  - rewrite (params_ok_VP _ _ _ _ Ek) in Hok. rewrite (consumed_VP _ _ _ _ Ek). eauto.
  - rewrite (params_ok_KO _ _ _ _ Ek) in Hok. rewrite (consumed_KO _ _ _ _ Ek).
    apply andb_true_iff in Hok as [_ Hok].
    destruct (N.eqb_spec (pname p) k) as [E|E].
    + subst k. rewrite Hk. rewrite memN_cons, N.eqb_refl. reflexivity.
    + cbn [orb]. destruct (memN (pname p) kws); [|eauto].
      rewrite memN_cons. apply N.eqb_neq in E. rewrite N.eqb_sym, E. cbn [orb]. eauto.
  - rewrite (params_ok_VK _ _ _ _ Ek) in Hok. rewrite (consumed_VK _ _ _ _ Ek). eauto.
Qed.

Lemma final_rem_no_vp : forall s n, has_kind VP s = false -> final_rem n s = n - length (pos_params s).
Proof.
  induction s as [|p r IH]; intros n H; cbn [final_rem pos_params filter length]; [lia|].
  cbn [has_kind existsb] in H. apply orb_false_iff in H as [H1 H2]. fold (has_kind VP r) in H2.
  fold (pos_params r).
  destruct (pkind p); cbn [is_positional length]; try discriminate; rewrite IH by assumption; lia.
Qed.

Lemma forallb_andb : forall (A : Type) (f g : A -> bool) l,
  forallb (fun x => f x && g x) l = forallb f l && forallb g l.
Proof.
  induction l as [|y l IH]; [reflexivity|]. cbn [forallb]. rewrite IH.
  destruct (f y), (g y), (forallb f l), (forallb g l); reflexivity.
Qed.

Lemma py_bind_closed : forall s npos kws,
  names_nodup (map pname s) = true -> pos_before_vp s = true -> names_nodup kws = true ->
  py_bind s npos kws = closed s npos kws.
Proof.
  intros s npos kws Hnd Hvp Hk. unfold py_bind, py_bind_full, closed. rewrite Hk. cbn [negb].
  assert (Hmany : ((length (pos_params s) <? npos) && negb (has_kind VP s))
                  = negb (has_kind VP s || (final_rem npos s =? 0))).
  { destruct (has_kind VP s) eqn:E; cbn [negb orb andb]; [apply andb_false_r|].
    rewrite andb_true_r. rewrite (final_rem_no_vp _ _ E).
    destruct (Nat.ltb_spec (length (pos_params s)) npos);
      destruct (Nat.eqb_spec (npos - length (pos_params s)) 0); try reflexivity; lia. }
  rewrite Hmany.
  destruct (has_kind VP s || (final_rem npos s =? 0)) eqn:E1; cbn [negb];
    [|rewrite andb_false_r; reflexivity].
  rewrite andb_true_r.
  (* step 2 *)
  assert (Hkw : forallb (kw_ok s (fill_positional (pos_params s) 0 npos)) kws
                = forallb (fun k => if kw_target s k then negb (memN k (filled_names npos s)) else has_kind VK s) kws).
  { apply forallb_ext_in. intros k _. unfold kw_ok, filled_names.
    rewrite <- assoc_fill_positional with (i := 0).
    destruct (kw_target s k); [|reflexivity]. destruct (assoc k _); reflexivity. }
  rewrite Hkw, kws_regroup.
  (* step 3 *)
  pose proof (collect_some (source_of s npos kws (fill_positional (pos_params s) 0 npos)) s) as Hc.
  assert (Hsrc : forallb (fun p => match source_of s npos kws (fill_positional (pos_params s) 0 npos) p with Some _ => true | None => false end) s
                 = forallb (fun p => is_var (pkind p) || memN (pname p) (filled_names npos s) || (is_kw_target (pkind p) && memN (pname p) kws) || pdefault p) s).
  { apply forallb_ext_in. intros p _. unfold source_of, filled_names.
    rewrite <- assoc_fill_positional with (i := 0).
    destruct (pkind p); cbn [is_var is_kw_target orb andb]; try reflexivity;
      destruct (assoc (pname p) _); cbn [orb]; try reflexivity;
      destruct (memN (pname p) kws); cbn [orb]; try reflexivity; destruct (pdefault p); reflexivity. }
  rewrite Hsrc in Hc.
  (* assemble *)
  assert (Hcore : forallb (fun p => negb (is_kw_target (pkind p) && memN (pname p) kws && memN (pname p) (filled_names npos s))) s
                  && forallb (fun p => is_var (pkind p) || memN (pname p) (filled_names npos s) || (is_kw_target (pkind p) && memN (pname p) kws) || pdefault p) s
                  = params_ok npos kws s).
  { rewrite <- (per_param_core s npos kws Hnd Hvp). unfold per_param. symmetry. apply forallb_andb. }
  destruct (params_ok npos kws s) eqn:Epo.
  - apply andb_true_iff in Hcore as [Hc1 Hc2]. rewrite Hc1. cbn [andb].
    assert (Hcons : forallb (kw_target s) kws = forallb (fun k => memN k (consumed npos kws s)) kws).
    { apply forallb_ext_in. intros k Hin. symmetry. apply consumed_kw_target; try assumption.
      apply memN_true_iff. assumption. }
    rewrite Hcons.
    destruct (has_kind VK s || forallb (fun k => memN k (consumed npos kws s)) kws); [|reflexivity].
    rewrite Hc2 in Hc. destruct (collect _ s); [reflexivity|discriminate].
  - cbn [andb].
    destruct (forallb (fun p => negb (is_kw_target (pkind p) && memN (pname p) kws && memN (pname p) (filled_names npos s))) s) eqn:Ea;
      [|reflexivity].
    cbn [andb] in Hcore. rewrite Hcore in Hc.
    destruct (has_kind VK s || forallb (kw_target s) kws); [|reflexivity].
    destruct (collect _ s); [discriminate|reflexivity].
Qed.

Theorem bind_concrete_iff_pybind_shape : forall s a,
  names_nodup (map pname s) = true -> pos_before_vp s = true ->
  concrete a -> names_nodup (map fst (keywords a)) = true ->
  accepts s a = py_bind s (length (positionals a)) (map fst (keywords a)).
Proof.
  intros s a Hnd Hvp Hc Hk. rewrite accepts_closed by assumption.
  symmetry. apply py_bind_closed; assumption.
Qed.
