(* Proofs/BinderDef.v — Signature.validate (over the regenerated tables) accepts
   exactly the parameter lists a `def` header can denote. *)
From Coq Require Import List Bool NArith PeanoNat Lia.
Import ListNotations.
Require Import PV.Binder.Kind PV.Gen.Kinds PV.Binder.Sig.

Definition maxphase (seen : list kind) : nat := fold_right (fun k m => Nat.max (phase k) m) 0 seen.

(* table facts (re-checked against the regenerated table on every run) *)
Lemma allowed_is_phase_bound : forall k k', kmem k' (allowed_previous k) = Nat.leb (phase k') (phase_bound k).
Proof. intros [] []; vm_compute; reflexivity. Qed.

Lemma can_have_default_table : forall k,
  can_have_default k = match k with VP | VK => false | _ => true end.
Proof. intros []; vm_compute; reflexivity. Qed.

Lemma seen_check : forall k seen,
  forallb (fun k' => kmem k' (allowed_previous k)) seen = Nat.leb (maxphase seen) (phase_bound k).
Proof.
  intros k. induction seen as [|x r IH]; [reflexivity|].
  cbn [forallb maxphase fold_right]. fold (maxphase r). rewrite IH, allowed_is_phase_bound.
  destruct (Nat.leb_spec (phase x) (phase_bound k)), (Nat.leb_spec (maxphase r) (phase_bound k)),
    (Nat.leb_spec (Nat.max (phase x) (maxphase r)) (phase_bound k)); try reflexivity; lia.
Qed.

Lemma kmem_maxphase : forall k seen, kmem k seen = true -> phase k <= maxphase seen.
Proof.
  intros k. induction seen as [|x r IH]; intros H; [discriminate|].
  cbn [kmem existsb] in H. cbn [maxphase fold_right]. fold (maxphase r).
  apply orb_true_iff in H as [H|H].
  - assert (k = x) as -> by (destruct k, x; try discriminate; reflexivity). apply Nat.le_max_l.
  - specialize (IH H). pose proof (Nat.le_max_r (phase x) (maxphase r)). lia.
Qed.

Lemma validate_is_def_ok : forall s seen sd,
  (forall k, kmem k sd = true -> kmem k seen = true) ->
  validate_from seen sd s = def_ok (maxphase seen) (kmem PO sd || kmem POK sd) s.
Proof.
  induction s as [|p r IH]; intros seen sd Hsub; [reflexivity|].
  cbn [validate_from def_ok]. unfold validate_step. rewrite seen_check, can_have_default_table.
  destruct (Nat.leb_spec (maxphase seen) (phase_bound (pkind p))) as [Hle|Hgt]; [|reflexivity].
  cbn [andb].
  assert (Hmax : maxphase (pkind p :: seen) = phase (pkind p)).
  { cbn [maxphase fold_right]. fold (maxphase seen).
    assert (phase_bound (pkind p) <= phase (pkind p)) by (destruct (pkind p); cbn; lia). lia. }
  assert (Hsub' : forall k, kmem k (if pdefault p then pkind p :: sd else sd) = true ->
                            kmem k (pkind p :: seen) = true).
  { intros k. unfold kmem. destruct (pdefault p); cbn [existsb]; intros H; apply orb_true_iff.
    - apply orb_true_iff in H as [H|H]; [left; exact H|right; apply (Hsub _ H)].
    - right. apply (Hsub _ H). }
  rewrite (IH _ _ Hsub'), Hmax.
  (* POK with a default seen but about to check PO: impossible when the phase check passed *)
  assert (Hpok : pkind p = PO -> kmem POK sd = false).
  { intros Ek. destruct (kmem POK sd) eqn:E; [|reflexivity].
    apply Hsub in E. apply kmem_maxphase in E. rewrite Ek in Hle. cbn in *. lia. }
  destruct (pkind p) eqn:Ek, (pdefault p) eqn:Ed; cbn [negb andb orb];
    rewrite ?orb_false_r, ?orb_true_r, ?andb_true_r; try reflexivity.
  all: try (rewrite (Hpok eq_refl), ?orb_false_r; reflexivity).
Qed.

Theorem valid_sig_matches_def : forall s, valid_sig s = def_header_ok s.
Proof.
  intros s. unfold valid_sig, def_header_ok.
  rewrite (validate_is_def_ok s [] []); [reflexivity|]. intros k H. discriminate.
Qed.
