(* Proofs/BinderGen.v — obligations tying the hand models to the regions of
   signature.py that harness/translate/binder.py translates on every run. *)
From Coq Require Import List Bool NArith PeanoNat.
Import ListNotations.
Require Import PV.Binder.Kind PV.Binder.Sig PV.Binder.Bind PV.Binder.SigAssign.
Require Import PV.Binder.BindCore PV.Gen.BinderShape.

(* the final checks of bind_arguments as the source states them now = the model's *)
Lemma has_extra_kw_unconsumed : forall a st, has_extra_kw a st = negb (is_nil (unconsumed a (kcons st))).
Proof.
  intros a st. unfold has_extra_kw, unconsumed. induction (map fst (keywords a)) as [|k l IH]; [reflexivity|].
  cbn [existsb filter]. destruct (negb (memN k (kcons st))); [reflexivity|exact IH].
Qed.

Lemma gen_finish_is_model : forall a st, gen_finish a (core st) = finish_with eka a st.
Proof.
  intros a st. unfold gen_finish, finish_with, core. cbn [g_pidx g_kc g_sac g_skc g_eka].
  rewrite has_extra_kw_unconsumed, ?andb_assoc. reflexivity.
Qed.

Lemma bind_uses_generated_finish : forall s a,
  bind s a = match bind_params a init_state s with
             | None => None
             | Some st => if gen_finish a (core st) then Some (rev (bound st)) else None
             end.
Proof.
  intros s a. unfold bind, bind_with. destruct (bind_params a init_state s) as [b|]; [|reflexivity].
  rewrite <- (gen_finish_is_model a b). reflexivity.
Qed.

(* the extra-required loop of can_assign as the source states it now = the model's *)
Lemma gen_extra_required_is_model : forall st q, gen_extra_required_ok st q = extra_required_ok st q.
Proof.
  intros st q. unfold gen_extra_required_ok, extra_required_ok.
  destruct (pkind q), (pdefault q), (memN (pname q) (cpos st)), (memN (pname q) (ckw st)); reflexivity.
Qed.

Lemma sca_uses_generated_loop : forall e a,
  sca e a = match sca_loop a 0 (mkC [] [] [] []) e with
            | None => None
            | Some st => if forallb (gen_extra_required_ok st) a then Some (rev (obl st)) else None
            end.
Proof.
  intros e a. unfold sca. destruct (sca_loop a 0 _ e) as [st|]; [|reflexivity].
  assert (forallb (gen_extra_required_ok st) a = forallb (extra_required_ok st) a) as ->; [|reflexivity].
  induction a as [|q r IH]; [reflexivity|]. cbn [forallb]. rewrite IH, gen_extra_required_is_model. reflexivity.
Qed.

(* ---------- the per-kind arms of the loop, as the source states them now ---------- *)
From Coq Require Import Lia.

Theorem gen_step_is_model : forall a st p, gen_step a (core st) p = step_core a st p.
Proof.
  intros a st p. unfold gen_step, step_core, step, core, last_position, kw_mem, kw_dp, unconsumed, bind1.
  cbn [g_pidx g_kc g_sac g_skc g_eka].
  destruct (pkind p).
  - (* PO *)
    destruct (pidx st <? length (positionals a)); [destruct (nth (pidx st) (positionals a) true)|];
      destruct (pdefault p), (star_args a); reflexivity.
  - (* POK *)
    destruct (pidx st <? length (positionals a)); [destruct (nth (pidx st) (positionals a) true)|];
      destruct (kw_lookup (pname p) (keywords a)) as [[|]|];
      destruct (pdefault p), (star_args a), (star_kwargs a), (skc st); reflexivity.
  - (* VP *)
    destruct (star_args a); [reflexivity|].
    destruct (length (positionals a) - pidx st); reflexivity.
  - (* KO *)
    destruct (kw_lookup (pname p) (keywords a)) as [[|]|];
      destruct (pdefault p), (star_kwargs a); reflexivity.
  - (* VK *)
    destruct (star_kwargs a); [reflexivity|].
    destruct (filter (fun n => negb (memN n (kcons st))) (map fst (keywords a))); reflexivity.
Qed.

(* the whole loop, driven by the generated arms, computes the core of the model's loop *)
Fixpoint gen_loop (a : actuals) (g : gstate) (s : sig) : option (gstate * list position) :=
  match s with
  | [] => Some (g, [])
  | p :: r =>
      match gen_step a g p with
      | None => None
      | Some (g', pos) =>
          match gen_loop a g' r with
          | None => None
          | Some (g'', l) => Some (g'', pos :: l)
          end
      end
  end.

Lemma core_determines_step : forall a st1 st2 p,
  core st1 = core st2 -> step_core a st1 p = step_core a st2 p.
Proof. intros a st1 st2 p H. rewrite <- !gen_step_is_model, H. reflexivity. Qed.

Theorem gen_loop_is_model : forall a s st,
  match bind_params a st s with
  | Some st' => exists l, gen_loop a (core st) s = Some (core st', l)
  | None => gen_loop a (core st) s = None
  end.
Proof.
  intros a. induction s as [|p r IH]; intros st; cbn [bind_params gen_loop].
  - eauto.
  - rewrite gen_step_is_model. unfold step_core.
    destruct (step a st p) as [st1|]; [|reflexivity].
    specialize (IH st1). destruct (bind_params a st1 r) as [st'|].
    + destruct IH as [l Hl]. rewrite Hl. eauto.
    + rewrite IH. reflexivity.
Qed.

(* the verdict of the binder, computed entirely by code generated from the source:
   initial state, generated arms, generated final checks *)
Theorem accepts_is_generated : forall s a,
  accepts s a = match gen_loop a (mkG 0 [] false false false) s with
                | Some (g, _) => gen_finish a g
                | None => false
                end.
Proof.
  intros s a. unfold accepts. rewrite bind_uses_generated_finish.
  pose proof (gen_loop_is_model a s init_state) as H.
  change (core init_state) with (mkG 0 [] false false false) in H.
  destruct (bind_params a init_state s) as [st|].
  - destruct H as [l Hl]. rewrite Hl. destruct (gen_finish a (core st)); reflexivity.
  - rewrite H. reflexivity.
Qed.
