(* Proofs/BinderGen.v — obligations tying the hand models to the regions of
   signature.py that harness/translate/binder.py translates on every run. *)
From Coq Require Import List Bool NArith PeanoNat.
Import ListNotations.
Require Import PV.Binder.Kind PV.Binder.Sig PV.Binder.Bind PV.Binder.SigAssign.
Require Import PV.Gen.BinderShape.

(* the final checks of bind_arguments as the source states them now = the model's *)
Lemma gen_finish_is_model : forall a st, gen_finish a st = finish_with eka a st.
Proof. intros a st. unfold gen_finish, finish_with. rewrite ?andb_assoc. reflexivity. Qed.

Lemma bind_uses_generated_finish : forall s a,
  bind s a = match bind_params a init_state s with
             | None => None
             | Some st => if gen_finish a st then Some (rev (bound st)) else None
             end.
Proof.
  intros s a. unfold bind, bind_with. destruct (bind_params a init_state s); [|reflexivity].
  rewrite <- (gen_finish_is_model a b). reflexivity.
Qed.

(* the extra-required loop of can_assign as the source states it now = the model's *)
Lemma gen_extra_required_is_model : forall st q, gen_extra_required_ok st q = extra_required_ok st q.
Proof.
  intros st q. unfold gen_extra_required_ok, extra_required_ok.
  destruct (pkind q), (pdefault q), (memN (pname q) (cpos st)), (memN (pname q) (ckw st)); reflexivity.
Qed.

Lemma sca_uses_generated_loop : forall e a,
  sca e a = match sca_loop a 0 (mkC [] [] [] []) e with
            | None => None
            | Some st => if forallb (gen_extra_required_ok st) a then Some (rev (obl st)) else None
            end.
Proof.
  intros e a. unfold sca. destruct (sca_loop a 0 _ e) as [st|]; [|reflexivity].
  assert (forallb (gen_extra_required_ok st) a = forallb (extra_required_ok st) a) as ->; [|reflexivity].
  induction a as [|q r IH]; [reflexivity|]. cbn [forallb]. rewrite IH, gen_extra_required_is_model. reflexivity.
Qed.
