(* Proofs/BinderGen.v — obligations tying the hand models to the regions of
   signature.py that harness/translate/binder.py translates on every run. *)
From Coq Require Import List Bool NArith PeanoNat.
Import ListNotations.
Require Import PV.Binder.Kind PV.Binder.Sig PV.Binder.Bind PV.Binder.SigAssign.
Require Import PV.Binder.BindCore PV.Gen.BinderShape.

(* the final checks of bind_arguments as the source states them now = the model's *)
Lemma has_extra_kw_unconsumed : forall a st, has_extra_kw a st = negb (is_nil (unconsumed a (kcons st))).
Proof.
  intros a st. unfold has_extra_kw, unconsumed. induction (map fst (keywords a)) as [|k l IH]; [reflexivity|].
  cbn [existsb filter]. destruct (negb (memN k (kcons st))); [reflexivity|exact IH].
Qed.

Lemma gen_finish_is_model : forall a st, gen_finish a (core st) = finish_with eka a st.
Proof.
  intros a st. unfold gen_finish, finish_with, core. cbn [g_pidx g_kc g_sac g_skc g_eka].
  rewrite has_extra_kw_unconsumed, ?andb_assoc. reflexivity.
Qed.

Lemma bind_uses_generated_finish : forall s a,
  bind s a = match bind_params a init_state s with
             | None => None
             | Some st => if gen_finish a (core st) then Some (rev (bound st)) else None
             end.
Proof.
  intros s a. unfold bind, bind_with. destruct (bind_params a init_state s) as [b|]; [|reflexivity].
  rewrite <- (gen_finish_is_model a b). reflexivity.
Qed.

(* the extra-required loop of can_assign as the source states it now = the model's *)
Lemma gen_extra_required_is_model : forall st q, gen_extra_required_ok st q = extra_required_ok st q.
Proof.
  intros st q. unfold gen_extra_required_ok, extra_required_ok.
  destruct (pkind q), (pdefault q), (memN (pname q) (cpos st)), (memN (pname q) (ckw st)); reflexivity.
Qed.

Lemma sca_uses_generated_loop : forall e a,
  sca e a = match sca_loop a 0 (mkC [] [] [] []) e with
            | None => None
            | Some st => if forallb (gen_extra_required_ok st) a then Some (rev (obl st)) else None
            end.
Proof.
  intros e a. unfold sca. destruct (sca_loop a 0 _ e) as [st|]; [|reflexivity].
  assert (forallb (gen_extra_required_ok st) a = forallb (extra_required_ok st) a) as ->; [|reflexivity].
  induction a as [|q r IH]; [reflexivity|]. cbn [forallb]. rewrite IH, gen_extra_required_is_model. reflexivity.
Qed.

(* ---------- the per-kind arms of the loop, as the source states them now ---------- *)
From Coq Require Import Lia.

Theorem gen_step_is_model : forall a st p, gen_step a (core st) p = step_core a st p.
Proof.
  intros a st p. unfold gen_step, step_core, step, core, last_position, kw_mem, kw_dp, unconsumed, bind1.
  cbn [g_pidx g_kc g_sac g_skc g_eka].
  destruct (pkind p).
  - (* PO *)
    destruct (pidx st <? length (positionals a)); [destruct (nth (pidx st) (positionals a) true)|];
      destruct (pdefault p), (star_args a); reflexivity.
  - (* POK *)
    destruct (pidx st <? length (positionals a)); [destruct (nth (pidx st) (positionals a) true)|];
      destruct (kw_lookup (pname p) (keywords a)) as [[|]|];
      destruct (pdefault p), (star_args a), (star_kwargs a), (skc st); reflexivity.
  - (* VP *)
    destruct (star_args a); [reflexivity|].
    destruct (length (positionals a) - pidx st); reflexivity.
  - (* KO *)
    destruct (kw_lookup (pname p) (keywords a)) as [[|]|];
      destruct (pdefault p), (star_kwargs a); reflexivity.
  - (* VK *)
    destruct (star_kwargs a); [reflexivity|].
    destruct (filter (fun n => negb (memN n (kcons st))) (map fst (keywords a))); reflexivity.
Qed.

(* the whole loop, driven by the generated arms, computes the core of the model's loop *)
Fixpoint gen_loop (a : actuals) (g : gstate) (s : sig) : option (gstate * list position) :=
  match s with
  | [] => Some (g, [])
  | p :: r =>
      match gen_step a g p with
      | None => None
      | Some (g', pos) =>
          match gen_loop a g' r with
          | None => None
          | Some (g'', l) => Some (g'', pos :: l)
          end
      end
  end.

Lemma core_determines_step : forall a st1 st2 p,
  core st1 = core st2 -> step_core a st1 p = step_core a st2 p.
Proof. intros a st1 st2 p H. rewrite <- !gen_step_is_model, H. reflexivity. Qed.

Theorem gen_loop_is_model : forall a s st,
  match bind_params a st s with
  | Some st' => exists l, gen_loop a (core st) s = Some (core st', l)
  | None => gen_loop a (core st) s = None
  end.
Proof.
  intros a. induction s as [|p r IH]; intros st; cbn [bind_params gen_loop].
  - eauto.
  - rewrite gen_step_is_model. unfold step_core.
    destruct (step a st p) as [st1|]; [|reflexivity].
    specialize (IH st1). destruct (bind_params a st1 r) as [st'|].
    + destruct IH as [l Hl]. rewrite Hl. eauto.
    + rewrite IH. reflexivity.
Qed.

(* the verdict of the binder, computed entirely by code generated from the source:
   initial state, generated arms, generated final checks *)
Theorem accepts_is_generated : forall s a,
  accepts s a = match gen_loop a (mkG 0 [] false false false) s with
                | Some (g, _) => gen_finish a g
                | None => false
                end.
Proof.
  intros s a. unfold accepts. rewrite bind_uses_generated_finish.
  pose proof (gen_loop_is_model a s init_state) as H.
  change (core init_state) with (mkG 0 [] false false false) in H.
  destruct (bind_params a init_state s) as [st|].
  - destruct H as [l Hl]. rewrite Hl. destruct (gen_finish a (core st)); reflexivity.
  - rewrite H. reflexivity.
Qed.

(* ---------- the per-kind arms of the comparison loop of can_assign, as the source states them now ---------- *)
Require Import PV.Binder.SigAssignCore.

Lemma their_spec : forall a i,
  match nth_error a i with
  | Some t => has_their a i = true /\ their a i = t
  | None => has_their a i = false
  end.
Proof.
  intros a i. unfold has_their, their. destruct (nth_error a i) as [t|] eqn:E.
  - split; [apply Nat.ltb_lt; apply nth_error_Some; congruence|apply nth_error_nth; exact E].
  - apply Nat.ltb_ge. apply nth_error_None. exact E.
Qed.

Lemma cstate_fields_opt_obl : forall x n st,
  cpos (opt_obl x n st) = cpos st /\ crpo (opt_obl x n st) = crpo st /\ ckw (opt_obl x n st) = ckw st.
Proof. intros [q|] n st; repeat split; reflexivity. Qed.

Theorem gen_sca_step_is_model : forall a i st m, gen_sca_step a i st m = sca_step a i st m.
Proof.
  intros a i st m. unfold gen_sca_step, sca_step, has_named, named, hasvp, hasvk, kind_in, default_clash.
  pose proof (their_spec a i) as Ht.
  destruct (pkind m).
  - (* PO *)
    destruct (nth_error a i) as [t|].
    + destruct Ht as [-> ->]. cbn [andb].
      destruct (pkind t); cbn [kmem existsb kind_eqb orb is_positional];
        destruct (pdefault m), (pdefault t), (param_of_kind VP a); destruct st; reflexivity.
    + rewrite Ht. cbn [andb]. destruct (param_of_kind VP a); reflexivity.
  - (* POK *)
    destruct (nth_error a i) as [t|].
    + destruct Ht as [-> ->]. cbn [andb].
      destruct (pkind t); cbn [kind_eqb];
        destruct (N.eqb (pname m) (pname t)), (pdefault m), (pdefault t),
                 (param_of_kind VP a), (param_of_kind VK a); destruct st; reflexivity.
    + rewrite Ht. cbn [andb]. destruct (param_of_kind VP a), (param_of_kind VK a); reflexivity.
  - (* VP *)
    destruct (param_of_kind VP a) as [va|]; [|reflexivity]. cbn [negb]. destruct st. reflexivity.
  - (* KO *)
    destruct (find_param (pname m) a) as [t|].
    + cbn [andb]. destruct (pkind t); cbn [kmem existsb kind_eqb orb is_kw_target];
        destruct (pdefault m), (pdefault t), (param_of_kind VK a); destruct st; reflexivity.
    + cbn [andb]. destruct (param_of_kind VK a); reflexivity.
  - (* VK *)
    destruct (param_of_kind VK a) as [vk|]; [|reflexivity]. cbn [negb]. destruct st. reflexivity.
Qed.

(* the whole comparison, driven by generated code only *)
Fixpoint gen_sca_loop (a : sig) (i : nat) (st : cstate) (e : sig) : option cstate :=
  match e with
  | [] => Some st
  | m :: rest => match gen_sca_step a i st m with None => None | Some st' => gen_sca_loop a (S i) st' rest end
  end.

Lemma gen_sca_loop_is_model : forall a e i st, gen_sca_loop a i st e = sca_loop a i st e.
Proof.
  intros a. induction e as [|m r IH]; intros i st; [reflexivity|].
  cbn [gen_sca_loop sca_loop]. rewrite gen_sca_step_is_model. destruct (sca_step a i st m); [apply IH|reflexivity].
Qed.

Theorem sca_is_generated : forall e a,
  sca e a = match gen_sca_loop a 0 (mkC [] [] [] []) e with
            | None => None
            | Some st => if forallb (gen_extra_required_ok st) a then Some (rev (obl st)) else None
            end.
Proof. intros e a. rewrite gen_sca_loop_is_model. apply sca_uses_generated_loop. Qed.
