(* Proofs/BinderMain.v — C05 theorems at the level of `valid_sig` (the
   generated validity tables) and of `preprocess`. *)
From Coq Require Import List Bool NArith PeanoNat Lia.
Import ListNotations.
Require Import PV.Binder.Kind PV.Gen.Kinds PV.Binder.Sig PV.Binder.Bind PV.Binder.PyBind.
Require Import PV.Proofs.BinderConcrete PV.Proofs.BinderValid PV.Proofs.BinderStar.

Theorem bind_star_accept_sound : forall s a,
  valid_sig s = true -> definite a -> names_nodup (map fst (keywords a)) = true ->
  accepts s a = true ->
  exists npos' kws', expansion a npos' kws' /\ py_bind s npos' kws' = true.
Proof. intros s a Hv. destruct (valid_sig_shape s Hv). apply accept_sound_shape; assumption. Qed.

Definition bind_star_reject_complete_full_statement : Prop := forall s a,
  valid_sig s = true -> definite a -> (star_kwargs a = true -> kwargs_required a = true) ->
  accepts s a = false ->
  forall npos' kws', nonempty_expansion a npos' kws' -> py_bind s npos' kws' = false.

Theorem bind_star_reject_complete_refuted : ~ bind_star_reject_complete_full_statement.
Proof.
  intros H. destruct reject_complete_refuted_witness as (_ & Hv & Hr & He & Hb & _).
  cbv zeta in *.
  unfold bind_star_reject_complete_full_statement in H.
  specialize (H _ (mkActuals [] true [(2%N, true)] false false) Hv).
  assert (Hf : py_bind [mkParam 1 POK false; mkParam 2 POK false] 1 [2%N] = false).
  { eapply H; [split; reflexivity | intros E; discriminate E | exact Hr | exact He]. }
  congruence.
Qed.

Theorem bind_star_reject_complete_partial : forall s a,
  valid_sig s = true -> definite a -> (star_kwargs a = true -> kwargs_required a = true) ->
  kw_after_star_args s a = false ->
  accepts s a = false ->
  forall npos' kws', nonempty_expansion a npos' kws' -> py_bind s npos' kws' = false.
Proof. intros s a Hv. destruct (valid_sig_shape s Hv). apply reject_complete_partial_shape; assumption. Qed.

(* the guard of the partial theorem is met by non-trivial rejected calls:
   def f(a, b, *, c): ...;  f(1, *xs, d=1, **kw) is rejected and no expansion binds *)
Example reject_complete_guard_inhabited :
  let s := [mkParam 1 POK false; mkParam 2 POK false; mkParam 3 KO false] in
  let a := mkActuals [true] true [(4%N, true)] true true in
  valid_sig s = true /\ definite a /\ kw_after_star_args s a = false /\ accepts s a = false.
Proof. vm_compute. repeat split; reflexivity. Qed.

(* every output of preprocess_args (for the raw arguments of the fragment)
   satisfies the side conditions of the theorems above *)
Definition pre_inv (st : pstate) : Prop :=
  forallb (fun b => b) (p_pos st) = true /\
  forallb (fun kv : N * bool => snd kv) (p_kws st) = true /\
  names_nodup (map fst (p_kws st)) = true /\
  (p_skw st = true -> p_req st = true).

Lemma add_kw_inv : forall n st st', pre_inv st -> add_kw n st = Some st' -> pre_inv st'.
Proof.
  intros n st st' (H1 & H2 & H3 & H4) H. unfold add_kw in H.
  destruct (kw_lookup n (p_kws st)) eqn:El; [discriminate|]. injection H as <-.
  apply kw_lookup_none in El.
  unfold pre_inv. cbn [p_pos p_kws p_skw p_req]. repeat split; auto.
  - rewrite forallb_app, H2. reflexivity.
  - rewrite map_app. apply names_nodup_app; auto.
    intros k Hk. cbn in Hk. rewrite orb_false_r in Hk. apply N.eqb_eq in Hk. subst. exact El.
Qed.

Lemma add_kws_inv : forall ns st st', pre_inv st -> add_kws ns st = Some st' -> pre_inv st'.
Proof.
  induction ns as [|n r IH]; intros st st' Hi H; cbn [add_kws] in H.
  - injection H as <-. exact Hi.
  - destruct (add_kw n st) eqn:E; [|discriminate]. eapply IH; [|eassumption]. eapply add_kw_inv; eassumption.
Qed.

Lemma add_pos_inv : forall st st', pre_inv st -> add_pos st = Some st' -> pre_inv st'.
Proof.
  intros st st' (H1 & H2 & H3 & H4) H. unfold add_pos in H.
  destruct (_ || p_skw st); [discriminate|]. destruct (p_star st).
  - injection H as <-. repeat split; auto.
  - injection H as <-. unfold pre_inv. cbn [p_pos p_kws p_skw p_req]. repeat split; auto.
    rewrite forallb_app, H1. reflexivity.
Qed.

Lemma add_poss_inv : forall k st st', pre_inv st -> add_poss k st = Some st' -> pre_inv st'.
Proof.
  induction k as [|k IH]; intros st st' Hi H; cbn [add_poss] in H.
  - injection H as <-. exact Hi.
  - destruct (add_pos st) eqn:E; [|discriminate]. eapply IH; [|eassumption]. eapply add_pos_inv; eassumption.
Qed.

Lemma pre_fold_inv : forall l st st', pre_inv st -> pre_fold st l = Some st' -> pre_inv st'.
Proof.
  induction l as [|r l IH]; intros st st' Hi H; cbn [pre_fold] in H.
  - injection H as <-. exact Hi.
  - destruct (pre_step st r) as [st1|] eqn:E; [|discriminate]. eapply IH; [|eassumption].
    destruct r; cbn [pre_step] in E.
    + eapply add_pos_inv; eassumption.
    + eapply add_kw_inv; eassumption.
    + eapply add_poss_inv; eassumption.
    + revert E. destruct (p_skw st) eqn:Es; intros E; [discriminate|]. injection E as <-.
      destruct Hi as (H1 & H2 & H3 & H4). unfold pre_inv. cbn [p_pos p_kws p_skw p_req].
      repeat split; auto. intros; discriminate.
    + eapply add_kws_inv; eassumption.
    + injection E as <-. destruct Hi as (H1 & H2 & H3 & H4). repeat split; auto.
Qed.

Theorem preprocess_wf : forall l a, preprocess l = Some a ->
  definite a /\ names_nodup (map fst (keywords a)) = true /\
  (star_kwargs a = true -> kwargs_required a = true).
Proof.
  intros l a H. unfold preprocess in H.
  destruct (pre_fold _ l) as [st|] eqn:E; [|discriminate]. injection H as <-.
  apply pre_fold_inv in E.
  - destruct E as (H1 & H2 & H3 & H4). repeat split; assumption.
  - repeat split; auto.
Qed.
