(* Proofs/BinderOnce.v — binds-once for concrete calls: when Bind.bind accepts a call
   without star-arguments, every parameter gets exactly one entry, every positional
   argument is consumed by exactly one parameter (a Pos entry, or the slice collected
   by *args) and every keyword argument by exactly one parameter (a Kw entry, or the
   names collected by **kwargs). *)
From Coq Require Import List Bool NArith PeanoNat Lia Permutation.
Import ListNotations.
Require Import PV.Binder.Kind PV.Gen.Kinds PV.Binder.Sig PV.Binder.Bind PV.Binder.PyBind.
Require Import PV.Proofs.BinderConcrete PV.Proofs.BinderValid PV.Proofs.BinderDef PV.Proofs.BinderStar.
Require Import PV.Proofs.BinderPositions PV.Proofs.BinderRaw.
Close Scope N_scope.
Open Scope nat_scope.

Definition entry := (N * position * payload)%type.

(* the positional arguments / keyword arguments an entry consumes *)
Definition pos_of (e : entry) : list nat :=
  match snd (fst e), snd e with
  | Pos i, _ => [i]
  | _, Tuple f c _ => seq f c
  | _, _ => []
  end.
Definition kw_of (e : entry) : list N :=
  match snd (fst e), snd e with
  | Kw k, _ => [k]
  | _, Dict ns _ => ns
  | _, _ => []
  end.
Definition pos_used (b : list entry) : list nat := flat_map pos_of b.
Definition kw_used (b : list entry) : list N := flat_map kw_of b.

Section Once.
  Context (a : actuals).
  Let npos := length (positionals a).
  Let kws := map fst (keywords a).

  Lemma srcs_names : forall s i kc, map (fun e : entry => fst (fst e)) (srcs a i kc s) = map pname s.
  Proof.
    induction s as [|p r IH]; intros i kc; [reflexivity|]. cbn [srcs map].
    destruct (pkind p); repeat match goal with |- context [if ?c then _ else _] => destruct c end;
      cbn [map fst]; rewrite IH; reflexivity.
  Qed.

  (* positional_index after the loop *)
  Fixpoint pfinal (i : nat) (s : sig) : nat :=
    match s with
    | [] => i
    | p :: r =>
        match pkind p with
        | PO | POK => if i <? npos then pfinal (S i) r else pfinal i r
        | VP => pfinal (Nat.max i npos) r
        | _ => pfinal i r
        end
    end.

  Lemma pfinal_bounds : forall s i, i <= npos ->
    i <= pfinal i s /\ pfinal i s <= npos /\ npos - pfinal i s = final_rem (npos - i) s.
  Proof.
    induction s as [|p r IH]; intros i Hi; cbn [pfinal final_rem]; [lia|].
    destruct (pkind p).
    - destruct (Nat.ltb_spec i npos).
      + destruct (IH (S i) ltac:(lia)) as (H1 & H2 & H3). replace (pred (npos - i)) with (npos - S i) by lia. lia.
      + destruct (IH i Hi) as (H1 & H2 & H3). replace (pred (npos - i)) with (npos - i) by lia. lia.
    - destruct (Nat.ltb_spec i npos).
      + destruct (IH (S i) ltac:(lia)) as (H1 & H2 & H3). replace (pred (npos - i)) with (npos - S i) by lia. lia.
      + destruct (IH i Hi) as (H1 & H2 & H3). replace (pred (npos - i)) with (npos - i) by lia. lia.
    - destruct (IH (Nat.max i npos) ltac:(lia)) as (H1 & H2 & H3).
      replace (npos - Nat.max i npos) with 0 in H3 by lia. lia.
    - apply IH; exact Hi.
    - apply IH; exact Hi.
  Qed.

  Lemma pos_used_srcs : forall s i kc, i <= npos ->
    pos_used (srcs a i kc s) = seq i (pfinal i s - i).
  Proof.
    induction s as [|p r IH]; intros i kc Hi; cbn [srcs pfinal].
    - rewrite Nat.sub_diag. reflexivity.
    - fold npos. destruct (pkind p) eqn:Ek.
      + destruct (Nat.ltb_spec i npos).
        * unfold pos_used. cbn [flat_map pos_of fst snd app]. fold (pos_used (srcs a (S i) kc r)).
          rewrite (IH (S i) kc ltac:(lia)). destruct (pfinal_bounds r (S i) ltac:(lia)) as (H1 & _).
          replace (pfinal (S i) r - i) with (S (pfinal (S i) r - S i)) by lia. reflexivity.
        * unfold pos_used. cbn [flat_map pos_of fst snd app]. apply (IH i kc Hi).
      + destruct (Nat.ltb_spec i npos).
        * unfold pos_used. cbn [flat_map pos_of fst snd app]. fold (pos_used (srcs a (S i) kc r)).
          rewrite (IH (S i) kc ltac:(lia)). destruct (pfinal_bounds r (S i) ltac:(lia)) as (H1 & _).
          replace (pfinal (S i) r - i) with (S (pfinal (S i) r - S i)) by lia. reflexivity.
        * destruct (memN (pname p) (map fst (keywords a))); unfold pos_used; cbn [flat_map pos_of fst snd app];
            [apply (IH i _ Hi)|apply (IH i kc Hi)].
      + unfold pos_used. cbn [flat_map]. fold (pos_used (srcs a (Nat.max i npos) kc r)).
        rewrite (IH (Nat.max i npos) kc ltac:(lia)).
        destruct (pfinal_bounds r (Nat.max i npos) ltac:(lia)) as (H1 & H2 & _).
        assert (Hp : pos_of (pname p, match npos - i with 0 => Default | S _ => Args end, Tuple i (npos - i) false) = seq i (npos - i)).
        { unfold pos_of. cbn [fst snd]. destruct (npos - i); reflexivity. }
        rewrite Hp. replace (Nat.max i npos) with npos in * by lia.
        replace (pfinal npos r) with npos by lia. rewrite Nat.sub_diag. cbn [seq]. rewrite app_nil_r. reflexivity.
      + destruct (memN (pname p) (map fst (keywords a))); unfold pos_used; cbn [flat_map pos_of fst snd app];
          [apply (IH i _ Hi)|apply (IH i kc Hi)].
      + unfold pos_used. cbn [flat_map]. fold (pos_used (srcs a i kc r)).
        assert (Hp : forall l : list N, pos_of (pname p, match l with [] => Default | _ :: _ => Kwargs end, Dict l false) = [])
          by (intros []; reflexivity).
        rewrite Hp. cbn [app]. apply (IH i kc Hi).
  Qed.
End Once.

Fixpoint vk_last (s : sig) : bool :=
  match s with
  | [] => true
  | p :: r => (match pkind p with VK => match r with [] => true | _ :: _ => false end | _ => true end) && vk_last r
  end.

Lemma def_ok_vk_last : forall s ph d, def_ok ph d s = true -> vk_last s = true.
Proof.
  induction s as [|p r IH]; intros ph d H; [reflexivity|]. cbn [def_ok] in H.
  apply andb_true_iff in H as [H Hr]. cbn [vk_last]. rewrite (IH _ _ Hr), andb_true_r.
  destruct (pkind p) eqn:Ek; try reflexivity. cbn [phase] in Hr. apply def_ok_after_vk in Hr. subst r. reflexivity.
Qed.

Section OnceKw.
  Context (a : actuals).
  Let npos := length (positionals a).
  Let kws := map fst (keywords a).

  Lemma kw_used_cons : forall e l, kw_used (e :: l) = kw_of e ++ kw_used l.
  Proof. reflexivity. Qed.

  Lemma kw_used_invariant : forall r i kc,
    vk_last r = true -> names_nodup (map pname r) = true ->
    (forall q, In q r -> memN (pname q) kc = false) -> names_nodup kws = true ->
    NoDup (kw_used (srcs a i kc r)) /\
    (forall k, In k (kw_used (srcs a i kc r)) -> memN k kws = true /\ memN k kc = false).
  Proof.
    induction r as [|p r IH]; intros i kc Hvk Hnd Hkc Hk; [split; [constructor|intros k []]|].
    cbn [vk_last] in Hvk. apply andb_true_iff in Hvk as [Hvk1 Hvk].
    cbn [map names_nodup] in Hnd. apply andb_true_iff in Hnd as [Hp Hnd]. apply negb_true_iff in Hp.
    assert (Hkc' : forall q, In q r -> memN (pname q) kc = false) by (intros q Hq; apply Hkc; right; exact Hq).
    assert (Hkc2 : forall q, In q r -> memN (pname q) (pname p :: kc) = false).
    { intros q Hq. rewrite memN_cons, (Hkc' q Hq), orb_false_r. apply N.eqb_neq. intros E.
      assert (memN (pname p) (map pname r) = true); [|congruence]. apply memN_true_iff. rewrite <- E. apply in_map. exact Hq. }
    assert (Hstep_kw : forall i',
      NoDup (kw_used ((pname p, Kw (pname p), One) :: srcs a i' (pname p :: kc) r)) /\
      (forall k, In k (kw_used ((pname p, Kw (pname p), One) :: srcs a i' (pname p :: kc) r)) ->
                 memN k kws = true /\ memN k kc = false) \/ memN (pname p) kws = false).
    { intros i'. destruct (memN (pname p) kws) eqn:Em; [left|right; reflexivity].
      destruct (IH i' (pname p :: kc) Hvk Hnd Hkc2 Hk) as [N1 M1]. rewrite kw_used_cons. cbn [kw_of fst snd app]. split.
      - constructor; [|exact N1]. intros Hin. destruct (M1 _ Hin) as [_ Hc]. rewrite memN_cons, N.eqb_refl in Hc. discriminate.
      - intros k [<-|Hin]; [split; [exact Em|apply Hkc; left; reflexivity]|].
        destruct (M1 _ Hin) as [H1 H2]. rewrite memN_cons in H2. apply orb_false_iff in H2. tauto. }
    assert (Hskip : forall (e : entry) i', kw_of e = [] ->
      NoDup (kw_used (e :: srcs a i' kc r)) /\
      (forall k, In k (kw_used (e :: srcs a i' kc r)) -> memN k kws = true /\ memN k kc = false)).
    { intros e i' He. rewrite kw_used_cons, He. cbn [app]. apply (IH i' kc Hvk Hnd Hkc' Hk). }
    cbn [srcs]. fold npos. fold kws.
    destruct (pkind p) eqn:Ek.
    - destruct (i <? npos); apply Hskip; reflexivity.
    - destruct (i <? npos); [apply Hskip; reflexivity|].
      destruct (Hstep_kw i) as [H|H]; [rewrite (proj2 (memN_true_iff _ _)) by (destruct H as [_ M]; apply memN_true_iff; apply M; left; reflexivity); exact H|].
      rewrite H. apply Hskip. reflexivity.
    - apply Hskip. unfold kw_of. cbn [fst snd]. destruct (npos - i); reflexivity.
    - destruct (Hstep_kw i) as [H|H]; [rewrite (proj2 (memN_true_iff _ _)) by (destruct H as [_ M]; apply memN_true_iff; apply M; left; reflexivity); exact H|].
      rewrite H. apply Hskip. reflexivity.
    - (* VK: nothing follows *)
      destruct r as [|q r']; [|discriminate]. cbn [srcs]. rewrite kw_used_cons. cbn [kw_used flat_map]. rewrite app_nil_r.
      assert (Hd : forall l : list N, kw_of (pname p, match l with [] => Default | _ :: _ => Kwargs end, Dict l false) = l)
        by (intros []; reflexivity).
      rewrite Hd. split.
      + apply NoDup_filter. apply names_nodup_NoDup. exact Hk.
      + intros k Hin. apply filter_In in Hin as [H1 H2]. apply negb_true_iff in H2. split; [apply memN_true_iff; exact H1|exact H2].
  Qed.
End OnceKw.

Section OnceCover.
  Context (a : actuals).
  Let npos := length (positionals a).
  Let kws := map fst (keywords a).

  (* with a **kwargs parameter every keyword not yet consumed is consumed later *)
  Lemma kw_cover_vk : forall r i kc k,
    has_kind VK r = true -> memN k kws = true -> memN k kc = false ->
    In k (kw_used (srcs a i kc r)).
  Proof.
    induction r as [|p r IH]; intros i kc k Hvk Hk Hkc; [discriminate|].
    cbn [has_kind existsb] in Hvk. fold (has_kind VK r) in Hvk. cbn [srcs]. fold npos. fold kws.
    assert (Hkw : forall i', In k (kw_used ((pname p, Kw (pname p), One) :: srcs a i' (pname p :: kc) r)) \/ has_kind VK r = false).
    { intros i'. destruct (has_kind VK r) eqn:E; [left|right; reflexivity]. rewrite kw_used_cons. cbn [kw_of fst snd app].
      destruct (N.eqb_spec k (pname p)) as [->|Hne]; [left; reflexivity|right].
      apply IH; auto. rewrite memN_cons, Hkc, orb_false_r. apply N.eqb_neq. exact Hne. }
    assert (Hskip : forall (e : entry) i', has_kind VK r = true -> In k (kw_used (e :: srcs a i' kc r))).
    { intros e i' E. rewrite kw_used_cons. apply in_or_app. right. apply IH; auto. }
    destruct (pkind p) eqn:Ek; cbn [kind_eqb orb] in Hvk.
    - destruct (i <? npos); apply Hskip; exact Hvk.
    - destruct (i <? npos); [apply Hskip; exact Hvk|].
      destruct (memN (pname p) kws); [destruct (Hkw i) as [H|H]; [exact H|congruence]|apply Hskip; exact Hvk].
    - apply Hskip; exact Hvk.
    - destruct (memN (pname p) kws); [destruct (Hkw i) as [H|H]; [exact H|congruence]|apply Hskip; exact Hvk].
    - rewrite kw_used_cons. apply in_or_app. left.
      assert (Hd : forall l : list N, kw_of (pname p, match l with [] => Default | _ :: _ => Kwargs end, Dict l false) = l)
        by (intros []; reflexivity).
      rewrite Hd. apply filter_In. split; [apply memN_true_iff; exact Hk|rewrite Hkc; reflexivity].
  Qed.

  (* without one, the keywords the closed form counts as consumed are consumed by Kw entries *)
  Lemma kw_cover_consumed : forall r i kc k, i <= npos ->
    memN k (consumed (npos - i) kws r) = true -> In k (kw_used (srcs a i kc r)).
  Proof.
    induction r as [|p r IH]; intros i kc k Hi Hc; [discriminate|].
    cbn [srcs]. fold npos. fold kws.
    destruct (pkind p) eqn:Ek.
    - cbn [consumed] in Hc. rewrite Ek in Hc. destruct (Nat.ltb_spec i npos).
      + rewrite kw_used_cons. apply in_or_app. right. apply IH; [lia|].
        replace (npos - S i) with (pred (npos - i)) by lia. exact Hc.
      + rewrite kw_used_cons. apply in_or_app. right. apply IH; [lia|].
        replace (npos - i) with 0 in * by lia. exact Hc.
    - cbn [consumed] in Hc. rewrite Ek in Hc. destruct (Nat.ltb_spec i npos).
      + destruct (npos - i) as [|n'] eqn:En; [lia|]. rewrite kw_used_cons. apply in_or_app. right.
        apply IH; [lia|]. replace (npos - S i) with n' by lia. exact Hc.
      + replace (npos - i) with 0 in * by lia. destruct (memN (pname p) kws).
        * rewrite kw_used_cons. cbn [kw_of fst snd app]. rewrite memN_cons in Hc.
          destruct (N.eqb_spec k (pname p)) as [->|Hne]; [left; reflexivity|right]. cbn [orb] in Hc.
          apply IH; [lia|]. replace (npos - i) with 0 by lia. exact Hc.
        * rewrite kw_used_cons. apply in_or_app. right. apply IH; [lia|]. replace (npos - i) with 0 by lia. exact Hc.
    - rewrite (consumed_VP _ _ _ _ Ek) in Hc. rewrite kw_used_cons. apply in_or_app. right.
      apply IH; [lia|]. replace (npos - Nat.max i npos) with 0 by lia. exact Hc.
    - rewrite (consumed_KO _ _ _ _ Ek) in Hc. destruct (memN (pname p) kws).
      + rewrite kw_used_cons. cbn [kw_of fst snd app]. rewrite memN_cons in Hc.
        destruct (N.eqb_spec k (pname p)) as [->|Hne]; [left; reflexivity|right]. cbn [orb] in Hc. apply IH; assumption.
      + rewrite kw_used_cons. apply in_or_app. right. apply IH; assumption.
    - rewrite (consumed_VK _ _ _ _ Ek) in Hc. rewrite kw_used_cons. apply in_or_app. right. apply IH; assumption.
  Qed.
End OnceCover.

Theorem bind_binds_once : forall s a b,
  valid_sig s = true -> concrete a -> names_nodup (map fst (keywords a)) = true ->
  bind s a = Some b ->
  map (fun e : entry => fst (fst e)) b = map pname s
  /\ pos_used b = seq 0 (length (positionals a))
  /\ Permutation (kw_used b) (map fst (keywords a)).
Proof.
  intros s a b Hv Hc Hk Hb.
  pose proof (bind_is_srcs a Hc s b Hb) as Eb. subst b.
  assert (Hacc : accepts s a = true) by (unfold accepts; rewrite Hb; reflexivity).
  rewrite (accepts_closed s a Hc) in Hacc. unfold closed in Hacc.
  apply andb_true_iff in Hacc as [Hacc Hkw]. apply andb_true_iff in Hacc as [Hok Hrem].
  destruct (valid_sig_shape s Hv) as [Hnd _].
  pose proof Hv as Hdef. rewrite valid_sig_matches_def in Hdef. unfold def_header_ok in Hdef.
  apply andb_true_iff in Hdef as [Hdef _].
  split; [apply srcs_names|]. split.
  - rewrite (pos_used_srcs a s 0 [] (Nat.le_0_l _)).
    destruct (pfinal_bounds a s 0 (Nat.le_0_l _)) as (_ & H2 & H3). rewrite Nat.sub_0_r in *.
    assert (Hr : final_rem (length (positionals a)) s = 0).
    { destruct (has_kind VP s) eqn:E.
      - clear - E. revert E. generalize (length (positionals a)). induction s as [|p r IH]; intros n E; [discriminate|].
        cbn [has_kind existsb] in E. cbn [final_rem]. fold (has_kind VP r) in E.
        destruct (pkind p); cbn [kind_eqb orb] in E; try (apply IH; exact E). apply final_rem_0.
      - cbn [orb] in Hrem. apply Nat.eqb_eq in Hrem. exact Hrem. }
    f_equal. lia.
  - apply NoDup_Permutation.
    + apply (kw_used_invariant a s 0 [] (def_ok_vk_last _ _ _ Hdef) Hnd (fun _ _ => eq_refl) Hk).
    + apply names_nodup_NoDup. exact Hk.
    + intros k. split.
      * intros Hin. apply memN_true_iff.
        apply (kw_used_invariant a s 0 [] (def_ok_vk_last _ _ _ Hdef) Hnd (fun _ _ => eq_refl) Hk). exact Hin.
      * intros Hin. apply memN_true_iff in Hin. destruct (has_kind VK s) eqn:E.
        -- apply kw_cover_vk; auto.
        -- cbn [orb] in Hkw. rewrite forallb_forall in Hkw. apply (kw_cover_consumed a s 0 [] k (Nat.le_0_l _)).
           rewrite Nat.sub_0_r. apply Hkw. apply memN_true_iff. exact Hin.
Qed.
