(* Proofs/BinderPositions.v — the position the binder reports for every
   parameter is where CPython takes the parameter's value from.

   `srcs`        : the entries the model's loop appends for concrete actual
                   arguments, as a function of (positional_index, keywords_consumed);
   `bound_srcs`  : Bind.bind_params really produces them;
   `srcs_agree`  : they agree, entry by entry, with the sources computed by the
                   argument-driven specification PyBind.py_bind_full — by one
                   induction along the parameter list, threaded by the `def`
                   grammar automaton (valid_sig = def_header_ok). *)
From Coq Require Import List Bool NArith PeanoNat Lia.
Import ListNotations.
Require Import PV.Binder.Kind PV.Gen.Kinds PV.Binder.Sig PV.Binder.Bind PV.Binder.PyBind.
Require Import PV.Proofs.BinderConcrete PV.Proofs.BinderValid PV.Proofs.BinderDef.

Section Srcs.
  Context (a : actuals).
  Let npos := length (positionals a).
  Let kws := map fst (keywords a).

  Fixpoint srcs (i : nat) (kc : list N) (s : sig) : list (N * position * payload) :=
    match s with
    | [] => []
    | p :: r =>
        match pkind p with
        | PO => if i <? npos then (pname p, Pos i, One) :: srcs (S i) kc r
                else (pname p, Default, One) :: srcs i kc r
        | POK => if i <? npos then (pname p, Pos i, One) :: srcs (S i) kc r
                 else if memN (pname p) kws then (pname p, Kw (pname p), One) :: srcs i (pname p :: kc) r
                 else (pname p, Default, One) :: srcs i kc r
        | KO => if memN (pname p) kws then (pname p, Kw (pname p), One) :: srcs i (pname p :: kc) r
                else (pname p, Default, One) :: srcs i kc r
        | VP => (pname p, match npos - i with 0 => Default | S _ => Args end, Tuple i (npos - i) false)
                  :: srcs (Nat.max i npos) kc r
        | VK => let items := filter (fun n => negb (memN n kc)) kws in
                (pname p, match items with [] => Default | _ :: _ => Kwargs end, Dict items false)
                  :: srcs i kc r
        end
    end.

  Context (Hc : concrete a).

  Lemma bound_srcs : forall s st st',
    bind_params a st s = Some st' ->
    bound st' = rev (srcs (pidx st) (kcons st) s) ++ bound st.
  Proof.
    destruct Hc as (Hsa & Hsk & Hpos & Hkw).
    induction s as [|p r IH]; intros st st' H; cbn [bind_params] in H.
    - injection H as <-. reflexivity.
    - destruct (step a st p) as [st1|] eqn:Es; [|discriminate].
      rewrite (IH _ _ H). clear IH H. cbn [srcs]. unfold step in Es. fold npos in Es.
      rewrite Hsa, Hsk in Es.
      destruct (pkind p) eqn:Ek.
      + (* PO *) destruct (pidx st <? npos) eqn:Elt.
        * rewrite (nth_all_true _ _ Hpos) in Es. cbn [negb andb] in Es. injection Es as <-.
          cbn [pidx kcons bound rev]. rewrite <- app_assoc. reflexivity.
        * destruct (pdefault p); [|discriminate]. injection Es as <-.
          cbn [bind1 pidx kcons bound rev]. rewrite <- app_assoc. reflexivity.
      + (* POK *) destruct (pidx st <? npos) eqn:Elt.
        * rewrite (nth_all_true _ _ Hpos) in Es. cbn [negb andb] in Es.
          destruct (kw_lookup (pname p) (keywords a)); [discriminate|]. injection Es as <-.
          cbn [pidx kcons bound rev]. rewrite <- app_assoc. reflexivity.
        * destruct (kw_lookup (pname p) (keywords a)) as [dp|] eqn:El.
          -- rewrite (kw_lookup_some_true _ _ _ Hkw El) in Es. cbn [negb andb] in Es. injection Es as <-.
             assert (memN (pname p) kws = true) as ->.
             { destruct (memN (pname p) kws) eqn:E; [reflexivity|]. apply kw_lookup_none in E. congruence. }
             cbn [pidx kcons bound rev]. rewrite <- app_assoc. reflexivity.
          -- apply kw_lookup_none in El. fold kws in El. rewrite El.
             destruct (pdefault p); [|discriminate]. injection Es as <-.
             cbn [bind1 pidx kcons bound rev]. rewrite <- app_assoc. reflexivity.
      + (* VP *) injection Es as <-. cbn [pidx kcons bound rev]. rewrite <- app_assoc. reflexivity.
      + (* KO *) destruct (kw_lookup (pname p) (keywords a)) as [dp|] eqn:El.
        * rewrite (kw_lookup_some_true _ _ _ Hkw El) in Es. cbn [negb andb] in Es. injection Es as <-.
          assert (memN (pname p) kws = true) as ->.
          { destruct (memN (pname p) kws) eqn:E; [reflexivity|]. apply kw_lookup_none in E. congruence. }
          cbn [pidx kcons bound rev]. rewrite <- app_assoc. reflexivity.
        * apply kw_lookup_none in El. fold kws in El. rewrite El.
          destruct (pdefault p); [|discriminate]. injection Es as <-.
          cbn [bind1 pidx kcons bound rev]. rewrite <- app_assoc. reflexivity.
      + (* VK *) injection Es as <-. cbn [pidx kcons bound rev]. rewrite <- app_assoc. reflexivity.
  Qed.

  Lemma bind_is_srcs : forall s b, bind s a = Some b -> b = srcs 0 [] s.
  Proof.
    intros s b H. unfold bind, bind_with in H.
    destruct (bind_params a init_state s) as [st|] eqn:E; [|discriminate].
    destruct (finish_with eka a st); [|discriminate]. injection H as <-.
    rewrite (bound_srcs _ _ _ E). cbn [pidx kcons bound init_state].
    rewrite app_nil_r, rev_involutive. reflexivity.
  Qed.
End Srcs.

(* ---------- agreement with the specification's sources ---------- *)
Definition agrees (x : N * position * payload) (y : N * source) : Prop :=
  fst (fst x) = fst y /\
  match snd y with
  | SPos i => snd (fst x) = Pos i /\ snd x = One
  | SKw k => snd (fst x) = Kw k /\ snd x = One
  | SDefault => snd (fst x) = Default /\ snd x = One
  | SVarPos f c =>
      exists f', snd x = Tuple f' c false
                 /\ (c <> 0 -> f' = f /\ snd (fst x) = Args) /\ (c = 0 -> snd (fst x) = Default)
  | SVarKw ns =>
      snd x = Dict ns false /\ snd (fst x) = match ns with [] => Default | _ :: _ => Kwargs end
  end.

Lemma collect_cons_inv : forall f p r l, collect f (p :: r) = Some l ->
  exists v l', f p = Some v /\ collect f r = Some l' /\ l = (pname p, v) :: l'.
Proof.
  intros f p r l H. cbn [collect] in H. destruct (f p) as [v|]; [|discriminate].
  destruct (collect f r) as [l'|]; [|discriminate]. injection H as <-. eauto.
Qed.

Lemma kw_target_app : forall s1 s2 k, kw_target (s1 ++ s2) k = kw_target s1 k || kw_target s2 k.
Proof. intros. unfold kw_target. apply existsb_app. Qed.

Lemma kw_target_snoc : forall pre p k,
  kw_target (pre ++ [p]) k = kw_target pre k || (is_kw_target (pkind p) && N.eqb (pname p) k).
Proof. intros. rewrite kw_target_app. unfold kw_target at 2. cbn [existsb]. rewrite orb_false_r. reflexivity. Qed.

Lemma def_ok_no_pos : forall r ph d, 2 <= ph -> def_ok ph d r = true -> pos_params r = [].
Proof.
  induction r as [|p r IH]; intros ph d Hph H; [reflexivity|].
  cbn [def_ok] in H. apply andb_true_iff in H as [H Hr]. apply andb_true_iff in H as [Hb _].
  apply Nat.leb_le in Hb. cbn [pos_params filter]. fold (pos_params r).
  destruct (pkind p) eqn:Ek; cbn in Hb; try lia; cbn [is_positional]; refine (IH _ _ _ Hr); cbn; lia.
Qed.

Lemma def_ok_after_vk : forall r d, def_ok 4 d r = true -> r = [].
Proof.
  intros [|p r] d H; [reflexivity|]. cbn [def_ok] in H.
  apply andb_true_iff in H as [H _]. apply andb_true_iff in H as [Hb _].
  apply Nat.leb_le in Hb. destruct (pkind p); cbn in Hb; lia.
Qed.

Lemma fill_positional_0 : forall pp i, fill_positional pp i 0 = [].
Proof. intros [|p r] i; reflexivity. Qed.

Lemma assoc_fill_none : forall n pp i m,
  memN n (map pname pp) = false -> assoc n (fill_positional pp i m) = None.
Proof.
  intros n pp i m H. pose proof (assoc_fill_positional pp i m n) as A.
  destruct (assoc n (fill_positional pp i m)); [|reflexivity].
  symmetry in A. apply memN_true_iff in A. apply in_map_iff in A as [q [Hq Hin]].
  apply In_firstn in Hin. assert (memN n (map pname pp) = true); [|congruence].
  apply memN_true_iff. rewrite <- Hq. apply in_map. exact Hin.
Qed.

Lemma notin_pos_params : forall n r, memN n (map pname r) = false -> memN n (map pname (pos_params r)) = false.
Proof.
  intros n r H. destruct (memN n (map pname (pos_params r))) eqn:E; [|reflexivity].
  apply memN_true_iff in E. apply in_map_iff in E as [q [Hq Hin]]. unfold pos_params in Hin.
  apply filter_In in Hin as [Hin _]. assert (memN n (map pname r) = true); [|congruence].
  apply memN_true_iff. rewrite <- Hq. apply in_map. exact Hin.
Qed.

Section Agree.
  Context (a : actuals) (S0 : sig).
  Let npos := length (positionals a).
  Let kws := map fst (keywords a).
  Let F := fill_positional (pos_params S0) 0 npos.
  Let L := length (pos_params S0).

  Lemma srcs_agree : forall r pre ph d c i kc l,
    S0 = pre ++ r ->
    names_nodup (map pname r) = true ->
    def_ok ph d r = true ->
    c + length (pos_params r) = L ->
    (ph <= 1 -> i = Nat.min c npos) ->
    (forall q, In q r -> assoc (pname q) F = assoc (pname q) (fill_positional (pos_params r) c (npos - c))) ->
    (forall k, memN k kws = true -> memN k kc = kw_target pre k) ->
    params_ok (npos - i) kws r = true ->
    collect (source_of S0 npos kws F) r = Some l ->
    Forall2 agrees (srcs a i kc r) l.
  Proof.
    induction r as [|p r IH]; intros pre ph d c i kc l HS Hnd Hdef HL Hi HF Hkc Hok Hcol.
    - cbn in Hcol. injection Hcol as <-. constructor.
    - destruct (collect_cons_inv _ _ _ _ Hcol) as (v & l' & Hv & Hcol' & ->). clear Hcol.
      cbn [map names_nodup] in Hnd. apply andb_true_iff in Hnd as [Hp Hnd]. apply negb_true_iff in Hp.
      cbn [def_ok] in Hdef. apply andb_true_iff in Hdef as [Hdef Hdef'].
      apply andb_true_iff in Hdef as [Hph _]. apply Nat.leb_le in Hph.
      assert (HS' : S0 = (pre ++ [p]) ++ r) by (rewrite <- app_assoc; exact HS).
      assert (Hneq : forall q, In q r -> N.eqb (pname q) (pname p) = false).
      { intros q Hq. apply N.eqb_neq. intros E. assert (memN (pname p) (map pname r) = true); [|congruence].
        apply memN_true_iff. rewrite <- E. apply in_map. exact Hq. }
      pose proof (HF p (or_introl eq_refl)) as HFp.
      unfold source_of in Hv. cbn [srcs]. fold npos. fold kws.
      destruct (pkind p) eqn:Ek.
      + (* PO *)
        cbn in Hph. specialize (Hi ltac:(lia)).
        cbn [pos_params filter] in HL, HFp, HF. rewrite Ek in HL, HFp, HF. cbn [is_positional length] in HL, HFp, HF.
        fold (pos_params r) in HL, HFp, HF.
        assert (Hkc' : forall k, memN k kws = true -> memN k kc = kw_target (pre ++ [p]) k).
        { intros k Hk. rewrite kw_target_snoc, (Hkc k Hk), Ek. cbn. rewrite orb_false_r. reflexivity. }
        destruct (i <? npos) eqn:Elt.
        * apply Nat.ltb_lt in Elt. assert (i = c) as Hic by lia. rewrite Hic in *. clear Hic.
          destruct (npos - c) as [|m] eqn:Em; [lia|].
          cbn [fill_positional assoc] in HFp. rewrite N.eqb_refl in HFp. rewrite HFp in Hv. injection Hv as <-.
          constructor; [split; [reflexivity|split; reflexivity]|].
          cbn [params_ok] in Hok. rewrite Ek in Hok.
          apply (IH (pre ++ [p]) 0 _ (S c) (S c) kc l' HS' Hnd Hdef'); auto; try lia.
          -- intros q Hq. rewrite (HF q (or_intror Hq)). cbn [fill_positional assoc]. rewrite (Hneq q Hq).
             replace (npos - S c) with m by lia. reflexivity.
          -- replace (npos - S c) with m by lia. exact Hok.
        * apply Nat.ltb_ge in Elt. assert (npos - c = 0) as Em by lia. rewrite Em in HFp, HF.
          rewrite fill_positional_0 in HFp. cbn [assoc] in HFp. rewrite HFp in Hv. cbn [is_kw_target andb] in Hv.
          destruct (pdefault p); [|discriminate]. injection Hv as <-.
          constructor; [split; [reflexivity|split; reflexivity]|].
          replace (npos - i) with 0 in Hok by lia. cbn [params_ok] in Hok. rewrite Ek in Hok.
          apply andb_true_iff in Hok as [_ Hok].
          apply (IH (pre ++ [p]) 0 _ (S c) i kc l' HS' Hnd Hdef'); auto; try lia.
          -- intros q Hq. rewrite (HF q (or_intror Hq)). rewrite !fill_positional_0.
             replace (npos - S c) with 0 by lia. rewrite fill_positional_0. reflexivity.
          -- replace (npos - i) with 0 by lia. exact Hok.
      + (* POK *)
        cbn in Hph. specialize (Hi ltac:(lia)).
        cbn [pos_params filter] in HL, HFp, HF. rewrite Ek in HL, HFp, HF. cbn [is_positional length] in HL, HFp, HF.
        fold (pos_params r) in HL, HFp, HF.
        assert (Hkc0 : forall k, memN k kws = true -> N.eqb (pname p) k = false ->
                                 memN k kc = kw_target (pre ++ [p]) k).
        { intros k Hk Hne. rewrite kw_target_snoc, (Hkc k Hk), Ek, Hne. cbn. rewrite orb_false_r. reflexivity. }
        destruct (i <? npos) eqn:Elt.
        * apply Nat.ltb_lt in Elt. assert (i = c) as Hic by lia. rewrite Hic in *. clear Hic.
          destruct (npos - c) as [|m] eqn:Em; [lia|].
          cbn [fill_positional assoc] in HFp. rewrite N.eqb_refl in HFp. rewrite HFp in Hv. injection Hv as <-.
          constructor; [split; [reflexivity|split; reflexivity]|].
          cbn [params_ok] in Hok. rewrite Ek in Hok. apply andb_true_iff in Hok as [Hno Hok].
          apply negb_true_iff in Hno.
          apply (IH (pre ++ [p]) 1 _ (S c) (S c) kc l' HS' Hnd Hdef'); auto; try lia.
          -- intros q Hq. rewrite (HF q (or_intror Hq)). cbn [fill_positional assoc]. rewrite (Hneq q Hq).
             replace (npos - S c) with m by lia. reflexivity.
          -- intros k Hk. apply Hkc0; [exact Hk|]. apply N.eqb_neq. intros E. subst k. congruence.
          -- replace (npos - S c) with m by lia. exact Hok.
        * apply Nat.ltb_ge in Elt. assert (npos - c = 0) as Em by lia. rewrite Em in HFp, HF.
          rewrite fill_positional_0 in HFp. cbn [assoc] in HFp. rewrite HFp in Hv. cbn [is_kw_target andb] in Hv.
          replace (npos - i) with 0 in Hok by lia. cbn [params_ok] in Hok. rewrite Ek in Hok.
          apply andb_true_iff in Hok as [_ Hok].
          assert (HF' : forall q, In q r -> assoc (pname q) F = assoc (pname q) (fill_positional (pos_params r) (S c) (npos - S c))).
          { intros q Hq. rewrite (HF q (or_intror Hq)). rewrite !fill_positional_0.
            replace (npos - S c) with 0 by lia. rewrite fill_positional_0. reflexivity. }
          destruct (memN (pname p) kws) eqn:Em'.
          -- injection Hv as <-. constructor; [split; [reflexivity|split; reflexivity]|].
             apply (IH (pre ++ [p]) 1 _ (S c) i (pname p :: kc) l' HS' Hnd Hdef'); auto; try lia.
             ++ intros k Hk. rewrite memN_cons.
                destruct (N.eqb_spec k (pname p)) as [E|E].
                ** subst k. rewrite kw_target_snoc, Ek, N.eqb_refl. cbn. rewrite orb_true_r. reflexivity.
                ** cbn [orb]. apply Hkc0; [exact Hk|]. apply N.eqb_neq. congruence.
             ++ replace (npos - i) with 0 by lia. exact Hok.
          -- destruct (pdefault p); [|discriminate]. injection Hv as <-.
             constructor; [split; [reflexivity|split; reflexivity]|].
             apply (IH (pre ++ [p]) 1 _ (S c) i kc l' HS' Hnd Hdef'); auto; try lia.
             ++ intros k Hk. apply Hkc0; [exact Hk|]. apply N.eqb_neq. intros E. subst k. congruence.
             ++ replace (npos - i) with 0 by lia. exact Hok.
      + (* VP *)
        cbn in Hph. specialize (Hi ltac:(lia)). injection Hv as <-.
        assert (Hnil : pos_params r = []) by (eapply (def_ok_no_pos r 2); [lia|exact Hdef']).
        cbn [pos_params filter] in HL, HF. rewrite Ek in HL, HF. cbn [is_positional] in HL, HF.
        fold (pos_params r) in HL, HF. rewrite Hnil in HL, HF. cbn [length] in HL.
        assert (c = L) by lia.
        constructor.
        * split; [reflexivity|]. cbn [snd fst]. exists i. split; [f_equal; lia|]. split.
          -- intros Hne. split; [lia|]. destruct (npos - i) eqn:E; [lia|reflexivity].
          -- intros He. destruct (npos - i) eqn:E; [reflexivity|lia].
        * rewrite (params_ok_VP _ _ _ _ Ek) in Hok.
          apply (IH (pre ++ [p]) 2 _ c (Nat.max i npos) kc l' HS' Hnd Hdef'); auto; try lia.
          -- rewrite Hnil. cbn. lia.
          -- intros q Hq. rewrite (HF q (or_intror Hq)). rewrite Hnil. reflexivity.
          -- intros k Hk. rewrite kw_target_snoc, (Hkc k Hk), Ek. cbn. rewrite orb_false_r. reflexivity.
          -- replace (npos - Nat.max i npos) with 0 by lia. exact Hok.
      + (* KO *)
        assert (HFp' : assoc (pname p) F = None).
        { rewrite HFp. apply assoc_fill_none. cbn [pos_params filter]. rewrite Ek. cbn [is_positional].
          apply notin_pos_params. exact Hp. }
        rewrite HFp' in Hv. cbn [is_kw_target andb] in Hv.
        cbn [pos_params filter] in HL, HF. rewrite Ek in HL, HF. cbn [is_positional] in HL, HF.
        fold (pos_params r) in HL, HF.
        rewrite (params_ok_KO _ _ _ _ Ek) in Hok. apply andb_true_iff in Hok as [_ Hok].
        assert (Hkc0 : forall k, memN k kws = true -> N.eqb (pname p) k = false ->
                                 memN k kc = kw_target (pre ++ [p]) k).
        { intros k Hk Hne. rewrite kw_target_snoc, (Hkc k Hk), Ek, Hne. cbn. rewrite orb_false_r. reflexivity. }
        assert (Hi' : 3 <= 1 -> i = Nat.min c npos) by lia.
        destruct (memN (pname p) kws) eqn:Em'.
        * injection Hv as <-. constructor; [split; [reflexivity|split; reflexivity]|].
          refine (IH (pre ++ [p]) 3 _ c i (pname p :: kc) l' HS' Hnd Hdef' HL Hi' (fun q Hq => HF q (or_intror Hq)) _ Hok Hcol').
          intros k Hk. rewrite memN_cons.
          destruct (N.eqb_spec k (pname p)) as [E|E].
          -- subst k. rewrite kw_target_snoc, Ek, N.eqb_refl. cbn. rewrite orb_true_r. reflexivity.
          -- cbn [orb]. apply Hkc0; [exact Hk|]. apply N.eqb_neq. congruence.
        * destruct (pdefault p); [|discriminate]. injection Hv as <-.
          constructor; [split; [reflexivity|split; reflexivity]|].
          refine (IH (pre ++ [p]) 3 _ c i kc l' HS' Hnd Hdef' HL Hi' (fun q Hq => HF q (or_intror Hq)) _ Hok Hcol').
          intros k Hk. apply Hkc0; [exact Hk|]. apply N.eqb_neq. intros E. subst k. congruence.
      + (* VK *)
        injection Hv as <-. cbn [phase] in Hdef'. apply def_ok_after_vk in Hdef'. subst r.
        cbn in Hcol'. injection Hcol' as <-. cbn [srcs].
        assert (Hflt : filter (fun n => negb (memN n kc)) kws = filter (fun k => negb (kw_target S0 k)) kws).
        { apply filter_ext_in. intros k Hk. apply memN_true_iff in Hk. rewrite (Hkc k Hk).
          rewrite HS, kw_target_snoc, Ek. cbn. rewrite orb_false_r. reflexivity. }
        rewrite Hflt. constructor; [|constructor].
        split; [reflexivity|]. cbn [snd fst]. split; reflexivity.
  Qed.
End Agree.

Theorem bind_positions_correct : forall s a b,
  valid_sig s = true -> concrete a -> names_nodup (map fst (keywords a)) = true ->
  bind s a = Some b ->
  exists l, py_bind_full s (length (positionals a)) (map fst (keywords a)) = Some l
            /\ Forall2 agrees b l.
Proof.
  intros s a b Hv Hc Hk Hb.
  pose proof (bind_is_srcs a Hc s b Hb) as Eb. subst b.
  assert (Hacc : accepts s a = true) by (unfold accepts; rewrite Hb; reflexivity).
  pose proof Hacc as Hcl. rewrite (accepts_closed s a Hc) in Hcl.
  rewrite (bind_concrete_iff_pybind s a Hv Hc Hk) in Hacc.
  unfold py_bind in Hacc.
  destruct (py_bind_full s (length (positionals a)) (map fst (keywords a))) as [l|] eqn:Ef; [|discriminate].
  exists l. split; [reflexivity|].
  unfold py_bind_full in Ef. rewrite Hk in Ef. cbn [negb] in Ef.
  destruct (_ && _) in Ef; [discriminate|].
  destruct (forallb _ (map fst (keywords a))) in Ef; [|discriminate].
  unfold closed in Hcl. apply andb_true_iff in Hcl as [Hcl _]. apply andb_true_iff in Hcl as [Hok _].
  destruct (valid_sig_shape s Hv) as [Hnd _].
  rewrite valid_sig_matches_def in Hv. unfold def_header_ok in Hv. apply andb_true_iff in Hv as [Hdef _].
  apply (srcs_agree a s s [] 0 false 0 0 [] l); auto.
  - intros q _. rewrite Nat.sub_0_r. reflexivity.
  - rewrite Nat.sub_0_r. exact Hok.
Qed.

(* non-trivial instance: def f(a, /, b, c=0, *d, e, **g);  f(1, 2, 3, 4, e=5, x=6) *)
Example positions_example :
  let s := [mkParam 1 PO false; mkParam 2 POK false; mkParam 3 POK true; mkParam 4 VP false;
            mkParam 5 KO false; mkParam 6 VK false] in
  let a := mkActuals [true; true; true; true] false [(5%N, true); (7%N, true)] false false in
  bind s a = Some [(1%N, Pos 0, One); (2%N, Pos 1, One); (3%N, Pos 2, One); (4%N, Args, Tuple 3 1 false);
                   (5%N, Kw 5, One); (6%N, Kwargs, Dict [7%N] false)]
  /\ py_bind_full s 4 [5%N; 7%N]
     = Some [(1%N, SPos 0); (2%N, SPos 1); (3%N, SPos 2); (4%N, SVarPos 3 1); (5%N, SKw 5); (6%N, SVarKw [7%N])].
Proof. vm_compute. split; reflexivity. Qed.
