(* Proofs/BinderRaw.v — the star-argument half of C05 at the level of the raw call
   f(p.., *(..), *xs, .., k=.., **{..}, **kw, ..): expansions replace every *xs by some
   positionals and every **kw by some keywords, in place; CPython sees the positionals
   counted and the keywords in call order.  The theorems of BinderMain (about
   ActualArguments) are transported along preprocess, using that CPython's binding
   does not depend on the order of the keywords (`py_bind_perm`). *)
From Coq Require Import List Bool NArith PeanoNat Lia Permutation.
Import ListNotations.
Require Import PV.Binder.Kind PV.Gen.Kinds PV.Binder.Sig PV.Binder.Bind PV.Binder.PyBind.
Require Import PV.Proofs.BinderConcrete PV.Proofs.BinderValid PV.Proofs.BinderStar PV.Proofs.BinderMain.
Require Import PV.Binder.SigAssign PV.Proofs.SigAssignLoop PV.Proofs.SigAssignSound.
Close Scope N_scope.
Open Scope nat_scope.

(* ---------- keyword order does not matter to CPython's binder ---------- *)
Lemma memN_perm : forall l l' k, Permutation l l' -> memN k l = memN k l'.
Proof.
  intros l l' k H. destruct (memN k l) eqn:E, (memN k l') eqn:E'; try reflexivity.
  - apply memN_true_iff in E. apply (Permutation_in _ H) in E. apply memN_true_iff in E. congruence.
  - apply memN_true_iff in E'. apply (Permutation_in _ (Permutation_sym H)) in E'. apply memN_true_iff in E'. congruence.
Qed.

Lemma names_nodup_NoDup : forall l, names_nodup l = true <-> NoDup l.
Proof.
  induction l as [|x r IH]; cbn [names_nodup]; [split; [constructor|reflexivity]|].
  rewrite andb_true_iff, negb_true_iff, IH. split.
  - intros [H1 H2]. constructor; [|assumption]. intros Hin. apply memN_true_iff in Hin. congruence.
  - intros H. inversion H as [|? ? Hn Hd]; subst. split; [|assumption].
    destruct (memN x r) eqn:E; [|reflexivity]. apply memN_true_iff in E. contradiction.
Qed.

Lemma names_nodup_perm : forall l l', Permutation l l' -> names_nodup l = names_nodup l'.
Proof.
  intros l l' H. destruct (names_nodup l) eqn:E, (names_nodup l') eqn:E'; try reflexivity.
  - apply names_nodup_NoDup in E. apply (Permutation_NoDup H) in E. apply names_nodup_NoDup in E. congruence.
  - apply names_nodup_NoDup in E'. apply (Permutation_NoDup (Permutation_sym H)) in E'.
    apply names_nodup_NoDup in E'. congruence.
Qed.

Lemma binds_char_perm : forall s n l l', Permutation l l' -> binds_char s n l -> binds_char s n l'.
Proof.
  intros s n l l' H (H1 & H2 & H3). split; [|split; [exact H2|]].
  - intros j p Hp. specialize (H1 j p Hp). unfold slot_ok in *.
    rewrite <- (memN_perm l l' (pname p) H). exact H1.
  - destruct H3 as [H3|H3]; [left; exact H3|right]. intros k Hk. apply H3. rewrite (memN_perm l l' k H). exact Hk.
Qed.

Theorem py_bind_perm : forall s n l l', valid_sig s = true -> Permutation l l' ->
  py_bind s n l = py_bind s n l'.
Proof.
  intros s n l l' Hv H.
  destruct (names_nodup l) eqn:E.
  - assert (E' : names_nodup l' = true) by (rewrite <- (names_nodup_perm l l' H); exact E).
    destruct (py_bind s n l) eqn:B, (py_bind s n l') eqn:B'; try reflexivity.
    + apply (py_bind_char s n l Hv E) in B. apply (binds_char_perm s n l l' H) in B.
      apply (py_bind_char s n l' Hv E') in B. congruence.
    + apply (py_bind_char s n l' Hv E') in B'. apply (binds_char_perm s n l' l (Permutation_sym H)) in B'.
      apply (py_bind_char s n l Hv E) in B'. congruence.
  - assert (E' : names_nodup l' = false) by (rewrite <- (names_nodup_perm l l' H); exact E).
    unfold py_bind, py_bind_full. rewrite E, E'. reflexivity.
Qed.

(* ---------- raw calls and their expansions ---------- *)
Definition is_pos_item (r : rawarg) : bool :=
  match r with RPos | RStarLit _ | RStarUnknown => true | _ => false end.
Definition is_kw_item (r : rawarg) : bool := negb (is_pos_item r).

(* expansions; `ne` = every star-argument contributes at least one element *)
Inductive raw_expands (ne : bool) : list rawarg -> nat -> list N -> Prop :=
| RE_nil : raw_expands ne [] 0 []
| RE_pos : forall l n k, raw_expands ne l n k -> raw_expands ne (RPos :: l) (S n) k
| RE_starlit : forall l n k m, raw_expands ne l n k -> raw_expands ne (RStarLit m :: l) (m + n) k
| RE_star : forall l n k m, (ne = true -> 1 <= m) -> raw_expands ne l n k ->
    raw_expands ne (RStarUnknown :: l) (m + n) k
| RE_kw : forall l n k x, raw_expands ne l n k -> raw_expands ne (RKw x :: l) n (x :: k)
| RE_kwlit : forall l n k ns, raw_expands ne l n k -> raw_expands ne (RKwLit ns :: l) n (ns ++ k)
| RE_kwunk : forall l n k extra, (ne = true -> extra <> []) -> raw_expands ne l n k ->
    raw_expands ne (RKwUnknown :: l) n (extra ++ k).

Fixpoint tot_def (ps : list rawarg) : nat :=
  match ps with
  | [] => 0
  | RPos :: r => S (tot_def r)
  | RStarLit m :: r => m + tot_def r
  | _ :: r => tot_def r
  end.
Fixpoint cnt_before (ps : list rawarg) : nat :=
  match ps with
  | [] => 0
  | RPos :: r => S (cnt_before r)
  | RStarLit m :: r => m + cnt_before r
  | RStarUnknown :: _ => 0
  | _ :: r => cnt_before r
  end.
Definition has_star (l : list rawarg) : bool := existsb (fun r => match r with RStarUnknown => true | _ => false end) l.
Definition has_ku (l : list rawarg) : bool := existsb (fun r => match r with RKwUnknown => true | _ => false end) l.
Fixpoint flatk (ks : list rawarg) : list N :=
  match ks with
  | [] => []
  | RKw x :: r => x :: flatk r
  | RKwLit ns :: r => rev ns ++ flatk r
  | _ :: r => flatk r
  end.

(* ---------- what preprocess computes on a canonical raw call ---------- *)
Definition mkkw (n : N) : N * bool := (n, true).

Lemma add_poss_spec : forall m pos star,
  add_poss m (mkP pos star [] false false)
  = Some (mkP (pos ++ repeat true (if star then 0 else m)) star [] false false).
Proof.
  induction m as [|m IH]; intros pos star; cbn [add_poss].
  - destruct star; cbn [repeat]; rewrite app_nil_r; reflexivity.
  - unfold add_pos. cbn [p_kws p_skw p_star p_pos p_req orb]. destruct star.
    + rewrite IH. reflexivity.
    + rewrite IH. cbn [repeat]. rewrite <- app_assoc. reflexivity.
Qed.

Lemma pre_fold_pos : forall ps pos star, forallb is_pos_item ps = true ->
  pre_fold (mkP pos star [] false false) ps
  = Some (mkP (pos ++ repeat true (if star then 0 else cnt_before ps)) (star || has_star ps) [] false false).
Proof.
  induction ps as [|r ps IH]; intros pos star H; cbn [pre_fold].
  - cbn. destruct star; rewrite app_nil_r, ?orb_false_r; reflexivity.
  - cbn [forallb] in H. apply andb_true_iff in H as [Hr H].
    destruct r; cbn in Hr; try discriminate; cbn [pre_step].
    + (* RPos *) unfold add_pos. cbn [p_kws p_skw p_star p_pos p_req orb]. destruct star.
      * rewrite (IH _ _ H). reflexivity.
      * rewrite (IH _ _ H). cbn [cnt_before has_star existsb repeat orb]. rewrite <- app_assoc. reflexivity.
    + (* RStarLit *) rewrite add_poss_spec. rewrite (IH _ _ H). cbn [cnt_before has_star existsb orb].
      destruct star; [rewrite app_nil_r; reflexivity|].
      rewrite repeat_app, app_assoc. reflexivity.
    + (* RStarUnknown *) cbn [p_skw p_pos p_kws p_req]. rewrite (IH _ _ H).
      cbn [cnt_before has_star existsb orb repeat]. rewrite orb_true_r.
      destruct star; reflexivity.
Qed.

Lemma dup_not_nodup : forall l1 l2 x, memN x l1 = true -> names_nodup (l1 ++ x :: l2) = false.
Proof.
  induction l1 as [|y l1 IH]; intros l2 x H; [discriminate|].
  cbn [app names_nodup]. rewrite memN_cons in H. destruct (N.eqb_spec x y) as [E|E].
  - subst y. rewrite memN_app, memN_cons, N.eqb_refl, orb_true_r. reflexivity.
  - cbn [orb] in H. rewrite (IH l2 x H). apply andb_false_r.
Qed.

Lemma names_nodup_app_l : forall l1 l2, names_nodup (l1 ++ l2) = true -> names_nodup l1 = true.
Proof.
  induction l1 as [|x l1 IH]; intros l2 H; [reflexivity|]. cbn [app names_nodup] in *.
  apply andb_true_iff in H as [Hx H]. apply negb_true_iff in Hx. rewrite memN_app in Hx.
  apply orb_false_iff in Hx as [Hx _]. rewrite Hx, (IH l2 H). reflexivity.
Qed.

Lemma kw_lookup_mem : forall n l, (match kw_lookup n l with Some _ => true | None => false end) = memN n (map fst l).
Proof.
  induction l as [|[m b] r IH]; [reflexivity|]. cbn [kw_lookup map fst]. rewrite memN_cons.
  destruct (N.eqb n m); [reflexivity|exact IH].
Qed.

Lemma add_kws_spec : forall ns pos star kws skw req,
  match add_kws ns (mkP pos star kws skw req) with
  | Some st' => st' = mkP pos star (kws ++ map mkkw ns) skw req
  | None => names_nodup (map fst kws ++ ns) = false
  end.
Proof.
  induction ns as [|n ns IH]; intros pos star kws skw req; cbn [add_kws].
  - cbn. rewrite app_nil_r. reflexivity.
  - unfold add_kw. cbn [p_kws p_pos p_star p_skw p_req].
    pose proof (kw_lookup_mem n kws) as Hm. destruct (kw_lookup n kws).
    + apply dup_not_nodup. symmetry. exact Hm.
    + specialize (IH pos star (kws ++ [(n, true)]) skw req).
      destruct (add_kws ns _).
      * rewrite IH. cbn [map]. rewrite <- app_assoc. reflexivity.
      * rewrite map_app, <- app_assoc in IH. exact IH.
Qed.

Lemma pre_fold_kw : forall ks pos star kws skw req, forallb is_kw_item ks = true ->
  match pre_fold (mkP pos star kws skw req) ks with
  | Some st' => st' = mkP pos star (kws ++ map mkkw (flatk ks)) (skw || has_ku ks) (req || has_ku ks)
  | None => names_nodup (map fst kws ++ flatk ks) = false
  end.
Proof.
  induction ks as [|r ks IH]; intros pos star kws skw req H; cbn [pre_fold].
  - cbn. rewrite app_nil_r, !orb_false_r. reflexivity.
  - cbn [forallb] in H. apply andb_true_iff in H as [Hr H].
    destruct r; cbn in Hr; try discriminate; cbn [pre_step].
    + (* RKw *)
      pose proof (add_kws_spec [n] pos star kws skw req) as Ha. cbn [add_kws] in Ha.
      destruct (add_kw n (mkP pos star kws skw req)) as [st1|].
      * subst st1. specialize (IH pos star (kws ++ map mkkw [n]) skw req H).
        destruct (pre_fold _ ks).
        -- rewrite IH. cbn [flatk map has_ku existsb orb]. rewrite <- app_assoc. reflexivity.
        -- rewrite map_app, <- app_assoc in IH. exact IH.
      * cbn [flatk]. destruct (names_nodup (map fst kws ++ n :: flatk ks)) eqn:E; [|reflexivity].
        exfalso. clear IH.
        replace (map fst kws ++ n :: flatk ks) with ((map fst kws ++ [n]) ++ flatk ks) in E by (rewrite <- app_assoc; reflexivity).
        apply names_nodup_app_l in E. congruence.
    + (* RKwLit *)
      pose proof (add_kws_spec (rev names) pos star kws skw req) as Ha.
      destruct (add_kws (rev names) (mkP pos star kws skw req)) as [st1|].
      * subst st1. specialize (IH pos star (kws ++ map mkkw (rev names)) skw req H).
        destruct (pre_fold _ ks).
        -- rewrite IH. cbn [flatk has_ku existsb orb]. rewrite map_app, <- app_assoc. reflexivity.
        -- rewrite map_app, <- app_assoc in IH.
           assert (map fst (map mkkw (rev names)) = rev names) as Hm.
           { rewrite map_map. cbn. apply map_id. }
           rewrite Hm in IH. exact IH.
      * cbn [flatk]. destruct (names_nodup (map fst kws ++ rev names ++ flatk ks)) eqn:E; [|reflexivity].
        exfalso. rewrite app_assoc in E. apply names_nodup_app_l in E. congruence.
    + (* RKwUnknown *)
      specialize (IH pos star kws true true H). destruct (pre_fold _ ks).
      * rewrite IH. cbn [flatk has_ku existsb orb]. rewrite !orb_true_r. reflexivity.
      * exact IH.
Qed.

Definition canonical (ps ks : list rawarg) : Prop :=
  forallb is_pos_item ps = true /\ forallb is_kw_item ks = true.

Lemma preprocess_canonical : forall ps ks, canonical ps ks ->
  match preprocess (ps ++ ks) with
  | Some a => a = mkActuals (repeat true (cnt_before ps)) (has_star ps) (map mkkw (flatk ks)) (has_ku ks) (has_ku ks)
  | None => names_nodup (flatk ks) = false
  end.
Proof.
  intros ps ks [Hp Hk]. unfold preprocess.
  assert (Hf : forall st l1 l2, pre_fold st (l1 ++ l2) = match pre_fold st l1 with Some st' => pre_fold st' l2 | None => None end).
  { intros st l1; revert st. induction l1 as [|r l1 IH]; intros st l2; [reflexivity|].
    cbn [app pre_fold]. destruct (pre_step st r); [apply IH|reflexivity]. }
  rewrite Hf, (pre_fold_pos ps [] false Hp). cbn [app orb].
  pose proof (pre_fold_kw ks (repeat true (cnt_before ps)) (has_star ps) [] false false Hk) as H.
  destruct (pre_fold _ ks) as [st|].
  - subst st. reflexivity.
  - exact H.
Qed.

(* ---------- expansions of the two sections ---------- *)
Lemma RE_app : forall ne l1 n1 k1 l2 n2 k2,
  raw_expands ne l1 n1 k1 -> raw_expands ne l2 n2 k2 -> raw_expands ne (l1 ++ l2) (n1 + n2) (k1 ++ k2).
Proof.
  intros ne l1 n1 k1 l2 n2 k2 H1 H2. induction H1; cbn [app Nat.add].
  - exact H2.
  - constructor. exact IHraw_expands.
  - rewrite <- Nat.add_assoc. constructor. exact IHraw_expands.
  - rewrite <- Nat.add_assoc. constructor; assumption.
  - constructor. exact IHraw_expands.
  - rewrite <- app_assoc. constructor. exact IHraw_expands.
  - rewrite <- app_assoc. constructor; assumption.
Qed.

Lemma RE_split : forall ne ps ks n k, forallb is_pos_item ps = true ->
  raw_expands ne (ps ++ ks) n k ->
  exists n1 n2, n = n1 + n2 /\ raw_expands ne ps n1 [] /\ raw_expands ne ks n2 k.
Proof.
  intros ne. induction ps as [|r ps IH]; intros ks n k Hp H.
  - exists 0, n. repeat split; [constructor|exact H].
  - cbn [forallb] in Hp. apply andb_true_iff in Hp as [Hr Hp]. cbn [app] in H.
    destruct r; cbn in Hr; try discriminate; inversion H; subst.
    + match goal with Hx : raw_expands _ (ps ++ ks) _ _ |- _ => destruct (IH _ _ _ Hp Hx) as (n1 & n2 & -> & Ha & Hb) end.
      exists (S n1), n2. repeat split; [constructor; exact Ha|exact Hb].
    + match goal with Hx : raw_expands _ (ps ++ ks) _ _ |- _ => destruct (IH _ _ _ Hp Hx) as (n1 & n2 & -> & Ha & Hb) end.
      exists (len + n1), n2. repeat split; [lia|constructor; exact Ha|exact Hb].
    + match goal with Hx : raw_expands _ (ps ++ ks) _ _ |- _ => destruct (IH _ _ _ Hp Hx) as (n1 & n2 & -> & Ha & Hb) end.
      exists (m + n1), n2. repeat split; [lia|constructor; assumption|exact Hb].
Qed.

Lemma RE_pos_section : forall ne ps n k, forallb is_pos_item ps = true -> raw_expands ne ps n k ->
  k = [] /\ tot_def ps <= n /\ (has_star ps = false -> n = tot_def ps)
  /\ (ne = true -> has_star ps = true -> tot_def ps + 1 <= n).
Proof.
  intros ne. induction ps as [|r ps IH]; intros n k Hp H.
  - inversion H; subst. repeat split; auto; intros; discriminate.
  - cbn [forallb] in Hp. apply andb_true_iff in Hp as [Hr Hp].
    destruct r; cbn in Hr; try discriminate; inversion H; subst; cbn [tot_def has_star existsb orb].
    + match goal with Hx : raw_expands _ ps _ _ |- _ => destruct (IH _ _ Hp Hx) as (-> & G2 & G3 & G4) end.
      fold (has_star ps).
      repeat split; [lia|intros E; rewrite (G3 E); reflexivity|intros E1 E2; specialize (G4 E1 E2); lia].
    + match goal with Hx : raw_expands _ ps _ _ |- _ => destruct (IH _ _ Hp Hx) as (-> & G2 & G3 & G4) end.
      fold (has_star ps).
      repeat split; [lia|intros E; rewrite (G3 E); reflexivity|intros E1 E2; specialize (G4 E1 E2); lia].
    + match goal with Hx : raw_expands _ ps _ _ |- _ => destruct (IH _ _ Hp Hx) as (-> & G2 & G3 & G4) end.
      match goal with Hm : ne = true -> 1 <= _ |- _ =>
        repeat split; [lia|intros; discriminate|intros E1 _; specialize (Hm E1); lia] end.
Qed.

Lemma RE_pos_give : forall ps m, forallb is_pos_item ps = true -> (has_star ps = true \/ m = 0) ->
  raw_expands false ps (tot_def ps + m) [].
Proof.
  induction ps as [|r ps IH]; intros m Hp Hm.
  - destruct Hm as [Hm | ->]; [discriminate|constructor].
  - cbn [forallb] in Hp. apply andb_true_iff in Hp as [Hr Hp].
    destruct r; cbn in Hr; try discriminate; cbn [tot_def has_star existsb orb] in *; fold (has_star ps) in *.
    + cbn [Nat.add]. constructor. apply IH; assumption.
    + rewrite <- Nat.add_assoc. constructor. apply IH; assumption.
    + replace (tot_def ps + m) with (m + (tot_def ps + 0)) by lia.
      constructor; [intros; discriminate|]. apply IH; [assumption|right; reflexivity].
Qed.

Lemma RE_kw_section : forall ne ks n k, forallb is_kw_item ks = true -> raw_expands ne ks n k ->
  n = 0 /\ exists extra, Permutation k (flatk ks ++ extra)
                         /\ (has_ku ks = false -> extra = [])
                         /\ (ne = true -> has_ku ks = true -> extra <> []).
Proof.
  intros ne. induction ks as [|r ks IH]; intros n k Hk H.
  - inversion H; subst. split; [reflexivity|]. exists []. repeat split; auto; intros; discriminate.
  - cbn [forallb] in Hk. apply andb_true_iff in Hk as [Hr Hk].
    destruct r; cbn in Hr; try discriminate; inversion H; subst; cbn [flatk has_ku existsb orb].
    + match goal with Hx : raw_expands _ ks _ _ |- _ => destruct (IH _ _ Hk Hx) as (-> & extra & P & E1 & E2) end.
      split; [reflexivity|]. exists extra.
      repeat split; auto. cbn [app]. apply perm_skip. exact P.
    + match goal with Hx : raw_expands _ ks _ _ |- _ => destruct (IH _ _ Hk Hx) as (-> & extra & P & E1 & E2) end.
      split; [reflexivity|]. exists extra.
      repeat split; auto. rewrite <- app_assoc. apply Permutation_app; [apply Permutation_rev|exact P].
    + match goal with Hx : raw_expands _ ks _ _ |- _ => destruct (IH _ _ Hk Hx) as (-> & extra0 & P & E1 & E2) end.
      split; [reflexivity|]. exists (extra ++ extra0).
      repeat split.
      * eapply Permutation_trans; [apply Permutation_app_head; exact P|]. apply Permutation_app_swap_app.
      * intros; discriminate.
      * intros En _ Habs. apply app_eq_nil in Habs as [Habs _].
        match goal with Hm : ne = true -> extra <> [] |- _ => exact (Hm En Habs) end.
Qed.

Lemma RE_kw_give : forall ks extra, forallb is_kw_item ks = true -> (has_ku ks = true \/ extra = []) ->
  exists k, raw_expands false ks 0 k /\ Permutation k (flatk ks ++ extra).
Proof.
  induction ks as [|r ks IH]; intros extra Hk He.
  - destruct He as [He | ->]; [discriminate|]. exists []. split; [constructor|constructor].
  - cbn [forallb] in Hk. apply andb_true_iff in Hk as [Hr Hk].
    destruct r; cbn in Hr; try discriminate; cbn [flatk has_ku existsb orb] in *; fold (has_ku ks) in *.
    + destruct (IH extra Hk He) as (k & R & P). exists (n :: k). split; [constructor; exact R|].
      cbn [app]. apply perm_skip. exact P.
    + destruct (IH extra Hk He) as (k & R & P). exists (names ++ k). split; [constructor; exact R|].
      rewrite <- app_assoc. apply Permutation_app; [apply Permutation_rev|exact P].
    + destruct (IH [] Hk (or_intror eq_refl)) as (k & R & P). exists (extra ++ k).
      split; [constructor; [intros; discriminate|exact R]|].
      rewrite app_nil_r in P. eapply Permutation_trans; [apply Permutation_app_head; exact P|].
      apply Permutation_app_comm.
Qed.

(* ---------- the raw-level theorems ---------- *)
Lemma cnt_before_le : forall ps, cnt_before ps <= tot_def ps.
Proof. induction ps as [|r ps IH]; [cbn; lia|]. destruct r; cbn [cnt_before tot_def]; lia. Qed.

Lemma cnt_before_no_star : forall ps, has_star ps = false -> cnt_before ps = tot_def ps.
Proof.
  induction ps as [|r ps IH]; intros H; [reflexivity|]. cbn [has_star existsb] in H.
  destruct r; cbn [cnt_before tot_def] in *; try discriminate; rewrite ?IH; auto.
Qed.

Lemma pas_from : forall ps ks seen, forallb is_pos_item ps = true ->
  positional_after_star_from seen (ps ++ ks) = false ->
  (seen = true -> tot_def ps = 0) /\ (seen = false -> tot_def ps = cnt_before ps).
Proof.
  induction ps as [|r ps IH]; intros ks seen Hp H; [split; reflexivity|].
  cbn [forallb] in Hp. apply andb_true_iff in Hp as [Hr Hp]. cbn [app positional_after_star_from] in H.
  destruct r; cbn in Hr; try discriminate; cbn [tot_def cnt_before].
  - apply orb_false_iff in H as [Hs H]. subst seen. destruct (IH ks false Hp H) as [_ H2].
    split; [discriminate|]. intros _. rewrite (H2 eq_refl). reflexivity.
  - destruct len as [|len].
    + destruct (IH ks seen Hp H) as [H1 H2]. split; intros E; cbn; auto.
    + apply orb_false_iff in H as [Hs H]. subst seen. destruct (IH ks false Hp H) as [_ H2].
      split; [discriminate|]. intros _. rewrite (H2 eq_refl). reflexivity.
  - destruct (IH ks true Hp H) as [H1 _]. split; intros _; apply H1; reflexivity.
Qed.

Lemma forallb_repeat_true : forall n, forallb (fun b : bool => b) (repeat true n) = true.
Proof. induction n; cbn; auto. Qed.

Lemma mkkw_facts : forall l, forallb (fun kv : N * bool => snd kv) (map mkkw l) = true /\ map fst (map mkkw l) = l.
Proof. induction l as [|x l [IH1 IH2]]; [split; reflexivity|]. cbn. rewrite IH1, IH2. split; reflexivity. Qed.

Lemma nodup_prefix_false : forall l1 l2, names_nodup l1 = false -> names_nodup (l1 ++ l2) = false.
Proof.
  intros l1 l2 H. destruct (names_nodup (l1 ++ l2)) eqn:E; [|reflexivity].
  apply names_nodup_app_l in E. congruence.
Qed.

Lemma py_bind_dup : forall s n l, names_nodup l = false -> py_bind s n l = false.
Proof. intros s n l H. unfold py_bind, py_bind_full. rewrite H. reflexivity. Qed.

(* acceptance is sound at the raw level, outside the guard positional_after_star *)
Theorem raw_accept_sound : forall s ps ks,
  valid_sig s = true -> canonical ps ks -> positional_after_star (ps ++ ks) = false ->
  call_ok s (ps ++ ks) = true ->
  exists npos kws, raw_expands false (ps ++ ks) npos kws /\ py_bind s npos kws = true.
Proof.
  intros s ps ks Hv Hcan Hpas Hok. unfold call_ok in Hok.
  pose proof (preprocess_canonical ps ks Hcan) as Hpre.
  destruct (preprocess (ps ++ ks)) as [a|] eqn:Ep; [|discriminate].
  destruct (preprocess_wf _ _ Ep) as (Hdef & Hnd & _).
  destruct (bind_star_accept_sound s a Hv Hdef Hnd Hok) as (npos' & kws' & (n & extra & -> & -> & Hn & Hx & HK) & Hb).
  subst a. cbn [positionals keywords star_args star_kwargs] in *.
  rewrite repeat_length in *. destruct (mkkw_facts (flatk ks)) as [_ Hfst]. rewrite Hfst in *.
  destruct Hcan as [Hp Hk].
  destruct (pas_from ps ks false Hp Hpas) as [_ Htot]. specialize (Htot eq_refl).
  assert (R1 : raw_expands false ps (tot_def ps + n) []).
  { apply RE_pos_give; [exact Hp|]. destruct (has_star ps); [left; reflexivity|right; apply Hn; reflexivity]. }
  destruct (RE_kw_give ks extra Hk) as (k & R2 & P).
  { destruct (has_ku ks); [left; reflexivity|right; apply Hx; reflexivity]. }
  exists (tot_def ps + n + 0), ([] ++ k). split; [apply RE_app; assumption|].
  cbn [app]. rewrite Nat.add_0_r, Htot. rewrite (py_bind_perm s _ k (flatk ks ++ extra) Hv P). exact Hb.
Qed.

(* rejection is complete at the raw level, outside the guard kw_after_star_args *)
Theorem raw_reject_complete_partial : forall s ps ks,
  valid_sig s = true -> canonical ps ks ->
  (forall a, preprocess (ps ++ ks) = Some a -> kw_after_star_args s a = false) ->
  call_ok s (ps ++ ks) = false ->
  forall npos kws, raw_expands true (ps ++ ks) npos kws -> py_bind s npos kws = false.
Proof.
  intros s ps ks Hv Hcan Hg Hrej npos kws HR. pose proof Hcan as [Hp Hk].
  destruct (RE_split true ps ks npos kws Hp HR) as (n1 & n2 & -> & R1 & R2).
  destruct (RE_pos_section true ps n1 [] Hp R1) as (_ & G2 & G3 & G4).
  destruct (RE_kw_section true ks n2 kws Hk R2) as (-> & extra & P & E1 & E2).
  rewrite Nat.add_0_r. rewrite (py_bind_perm s n1 kws (flatk ks ++ extra) Hv P).
  unfold call_ok in Hrej. pose proof (preprocess_canonical ps ks Hcan) as Hpre.
  destruct (preprocess (ps ++ ks)) as [a|] eqn:Ep.
  - destruct (names_nodup (flatk ks ++ extra)) eqn:End; [|apply py_bind_dup; exact End].
    destruct (preprocess_wf _ _ Ep) as (Hdef & _ & Hreq).
    apply (bind_star_reject_complete_partial s a Hv Hdef Hreq (Hg a eq_refl) Hrej).
    subst a. unfold nonempty_expansion. cbn [positionals keywords star_args star_kwargs].
    rewrite repeat_length. destruct (mkkw_facts (flatk ks)) as [_ Hfst]. rewrite Hfst.
    pose proof (cnt_before_le ps) as Hle.
    exists (n1 - cnt_before ps), extra. repeat split; [lia| | |exact End].
    + destruct (has_star ps) eqn:Es.
      * specialize (G4 eq_refl eq_refl). lia.
      * rewrite (G3 eq_refl), (cnt_before_no_star ps Es). lia.
    + destruct (has_ku ks) eqn:Eu; [apply E2; reflexivity|apply E1; reflexivity].
  - apply py_bind_dup. apply nodup_prefix_false. exact Hpre.
Qed.
