(* Proofs/BinderStar.v — star-argument half of C05.

   `gok / gsac / gskc / gconsumed` : closed form of the model's loop for
   actual arguments that may carry an unknown-length *args (sa) and/or
   **kwargs (sk); `bind_params_gclosed` ties it to Bind.bind_params. *)
From Coq Require Import List Bool NArith PeanoNat Lia.
Import ListNotations.
Require Import PV.Binder.Kind PV.Binder.Sig PV.Binder.Bind PV.Binder.PyBind.
Require Import PV.Proofs.BinderConcrete.

(* all `definitely_provided` flags are set (no NotRequired TypedDict items etc.) *)
Definition definite (a : actuals) : Prop :=
  forallb (fun b => b) (positionals a) = true /\
  forallb (fun kv => snd kv) (keywords a) = true.

Section Closed.
  Context (sa sk : bool) (kws : list N).

  Fixpoint gok (n : nat) (s : sig) : bool :=
    match s with
    | [] => true
    | p :: r =>
        match pkind p, n with
        | PO, S n' => gok n' r
        | PO, O => (sa || pdefault p) && gok O r
        | POK, S n' => negb (memN (pname p) kws) && gok n' r
        | POK, O =>
            (if sa then negb (memN (pname p) kws) else memN (pname p) kws || sk || pdefault p)
            && gok O r
        | KO, _ => (memN (pname p) kws || sk || pdefault p) && gok n r
        | VP, _ => gok O r
        | VK, _ => gok n r
        end
    end.

  Fixpoint gsac (n : nat) (s : sig) : bool :=
    match s with
    | [] => false
    | p :: r =>
        match pkind p, n with
        | (PO | POK), S n' => gsac n' r
        | (PO | POK), O => sa || gsac O r
        | VP, _ => true
        | _, _ => gsac n r
        end
    end.

  Fixpoint gskc (n : nat) (s : sig) : bool :=
    match s with
    | [] => false
    | p :: r =>
        match pkind p, n with
        | PO, _ => gskc (pred n) r
        | POK, S n' => gskc n' r
        | POK, O => (sk && (sa || negb (memN (pname p) kws))) || gskc O r
        | KO, _ => (sk && negb (memN (pname p) kws)) || gskc n r
        | VP, _ => gskc O r
        | VK, _ => true
        end
    end.

  Fixpoint gconsumed (n : nat) (s : sig) : list N :=
    match s with
    | [] => []
    | p :: r =>
        match pkind p, n with
        | PO, _ => gconsumed (pred n) r
        | POK, S n' => gconsumed n' r
        | POK, O => if negb sa && memN (pname p) kws then pname p :: gconsumed O r else gconsumed O r
        | KO, _ => if memN (pname p) kws then pname p :: gconsumed n r else gconsumed n r
        | VP, _ => gconsumed O r
        | VK, _ => gconsumed n r
        end
    end.
End Closed.

Definition gclosed (s : sig) (a : actuals) : bool :=
  let sa := star_args a in let sk := star_kwargs a in
  let n := length (positionals a) in let kws := map fst (keywords a) in
  gok sa sk kws n s
  && (gsac sa n s || (final_rem n s =? 0))
  && (has_kind VK s || forallb (fun k => memN k (gconsumed sa kws n s)) kws)
  && (gsac sa n s || negb sa)
  && (gskc sa sk kws n s || negb (sk && kwargs_required a)).

Ltac kind_unfold Ek :=
  cbn [gok gsac gskc gconsumed final_rem has_kind existsb]; rewrite ?Ek; cbn [kind_eqb orb pred].

Section Model.
  Context (a : actuals) (Hd : definite a).
  Let npos := length (positionals a).
  Let kws := map fst (keywords a).
  Let sa := star_args a.
  Let sk := star_kwargs a.

  Lemma lookup_mem : forall n, kw_lookup n (keywords a) = None -> memN n kws = false.
  Proof. intros n H. apply kw_lookup_none. exact H. Qed.

  Lemma lookup_mem_some : forall n dp, kw_lookup n (keywords a) = Some dp -> memN n kws = true /\ dp = true.
  Proof.
    intros n dp H. destruct Hd as [_ Hkw]. split; [|eapply kw_lookup_some_true; eassumption].
    destruct (memN n kws) eqn:E; [reflexivity|]. apply kw_lookup_none in E. congruence.
  Qed.

  Lemma bind_params_gclosed : forall s st,
    pidx st <= npos ->
    match bind_params a st s with
    | None => gok sa sk kws (npos - pidx st) s = false
    | Some st' =>
        gok sa sk kws (npos - pidx st) s = true
        /\ pidx st' <= npos
        /\ npos - pidx st' = final_rem (npos - pidx st) s
        /\ (forall k, memN k kws = true ->
              memN k (kcons st') = memN k (gconsumed sa kws (npos - pidx st) s) || memN k (kcons st))
        /\ sac st' = sac st || gsac sa (npos - pidx st) s
        /\ skc st' = skc st || gskc sa sk kws (npos - pidx st) s
        /\ eka st' = eka st || has_kind VK s
    end.
  Proof.
    destruct Hd as (Hpos & Hkw).
    induction s as [|p r IH]; intros st Hle; cbn [bind_params].
    - cbn. repeat split; auto; try lia; rewrite ?orb_false_r; reflexivity.
    - unfold step. fold npos. fold sa. fold sk.
      destruct (pkind p) eqn:Ek.
      + (* PO *)
        destruct (pidx st <? npos) eqn:Elt.
        * apply Nat.ltb_lt in Elt.
          rewrite (nth_all_true _ _ Hpos). cbn [negb andb].
          match goal with |- context [bind_params a ?st0 r] => specialize (IH st0) end.
          cbn [pidx kcons sac skc eka] in IH. specialize (IH ltac:(lia)).
          destruct (npos - pidx st) as [|n'] eqn:En; [lia|].
          replace (npos - S (pidx st)) with n' in IH by lia.
          kind_unfold Ek. exact IH.
        * apply Nat.ltb_ge in Elt.
          replace (npos - pidx st) with 0 by lia. kind_unfold Ek.
          destruct sa eqn:Esa; cbn [orb andb].
          -- match goal with |- context [bind_params a ?st0 r] => specialize (IH st0) end.
             cbn [pidx kcons sac skc eka] in IH. specialize (IH Hle).
             replace (npos - pidx st) with 0 in IH by lia.
             destruct (bind_params a _ r); [|exact IH].
             destruct IH as (H1 & H2 & H3 & H4 & H5 & H6 & H7). repeat split; auto.
             rewrite H5. cbn [orb]. rewrite orb_true_r. reflexivity.
          -- destruct (pdefault p); [|reflexivity].
             specialize (IH (bind1 st p Default)). cbn [bind1 pidx kcons sac skc eka] in IH.
             specialize (IH Hle). replace (npos - pidx st) with 0 in IH by lia. exact IH.
      + (* POK *)
        destruct (pidx st <? npos) eqn:Elt.
        * apply Nat.ltb_lt in Elt.
          rewrite (nth_all_true _ _ Hpos). cbn [negb andb].
          destruct (npos - pidx st) as [|n'] eqn:En; [lia|]. kind_unfold Ek.
          destruct (kw_lookup (pname p) (keywords a)) eqn:El.
          -- apply lookup_mem_some in El as [-> _]. reflexivity.
          -- apply lookup_mem in El. rewrite El. cbn [negb andb].
             match goal with |- context [bind_params a ?st0 r] => specialize (IH st0) end.
             cbn [pidx kcons sac skc eka] in IH. specialize (IH ltac:(lia)).
             replace (npos - S (pidx st)) with n' in IH by lia. exact IH.
        * apply Nat.ltb_ge in Elt.
          replace (npos - pidx st) with 0 by lia. kind_unfold Ek.
          destruct sa eqn:Esa; cbn [orb andb negb].
          -- destruct (kw_lookup (pname p) (keywords a)) eqn:El.
             ++ apply lookup_mem_some in El as [-> _]. reflexivity.
             ++ apply lookup_mem in El. rewrite El. cbn [negb andb].
                match goal with |- context [bind_params a ?st0 r] => specialize (IH st0) end.
                cbn [pidx kcons sac skc eka] in IH. specialize (IH Hle).
                replace (npos - pidx st) with 0 in IH by lia.
                destruct (bind_params a _ r); [|exact IH].
                destruct IH as (H1 & H2 & H3 & H4 & H5 & H6 & H7). repeat split; auto.
                ** rewrite H5. cbn [orb]. rewrite orb_true_r. reflexivity.
                ** rewrite H6. rewrite andb_true_r. rewrite orb_assoc. reflexivity.
          -- destruct (kw_lookup (pname p) (keywords a)) as [dp|] eqn:El.
             ++ apply lookup_mem_some in El as [Hm ->]. rewrite Hm. cbn [negb andb orb].
                match goal with |- context [bind_params a ?st0 r] => specialize (IH st0) end.
                cbn [pidx kcons sac skc eka] in IH. specialize (IH Hle).
                replace (npos - pidx st) with 0 in IH by lia.
                destruct (bind_params a _ r); [|exact IH].
                destruct IH as (H1 & H2 & H3 & H4 & H5 & H6 & H7). repeat split; auto.
                ** intros k Hk. rewrite (H4 k Hk). rewrite !memN_cons.
                   destruct (N.eqb k (pname p)), (memN k (gconsumed false kws 0 r)); reflexivity.
                ** rewrite H6. rewrite andb_false_r. reflexivity.
             ++ apply lookup_mem in El. rewrite El. cbn [negb andb orb].
                destruct sk eqn:Esk; cbn [orb andb].
                ** match goal with |- context [bind_params a ?st0 r] => specialize (IH st0) end.
                   cbn [pidx kcons sac skc eka] in IH. specialize (IH Hle).
                   replace (npos - pidx st) with 0 in IH by lia.
                   destruct (bind_params a _ r); [|exact IH].
                   destruct IH as (H1 & H2 & H3 & H4 & H5 & H6 & H7). repeat split; auto.
                   rewrite H6. cbn [orb]. rewrite orb_true_r. reflexivity.
                ** destruct (pdefault p); [|reflexivity].
                   specialize (IH (bind1 st p Default)). cbn [bind1 pidx kcons sac skc eka] in IH.
                   specialize (IH Hle). replace (npos - pidx st) with 0 in IH by lia. exact IH.
      + (* VP *)
        assert (Hg : gok sa sk kws (npos - pidx st) (p :: r) = gok sa sk kws 0 r)
          by (cbn [gok]; rewrite Ek; destruct (npos - pidx st); reflexivity).
        assert (Hc : gconsumed sa kws (npos - pidx st) (p :: r) = gconsumed sa kws 0 r)
          by (cbn [gconsumed]; rewrite Ek; destruct (npos - pidx st); reflexivity).
        assert (Hs : gsac sa (npos - pidx st) (p :: r) = true)
          by (cbn [gsac]; rewrite Ek; destruct (npos - pidx st); reflexivity).
        assert (Hk : gskc sa sk kws (npos - pidx st) (p :: r) = gskc sa sk kws 0 r)
          by (cbn [gskc]; rewrite Ek; destruct (npos - pidx st); reflexivity).
        rewrite Hg, Hc, Hs, Hk. cbn [final_rem has_kind existsb]. rewrite Ek. cbn [kind_eqb orb].
        match goal with |- context [bind_params a ?st0 r] => specialize (IH st0) end.
        cbn [pidx kcons sac skc eka] in IH. specialize (IH ltac:(lia)).
        replace (npos - Nat.max (pidx st) npos) with 0 in IH by lia.
        destruct (bind_params a _ r); [|exact IH].
        destruct IH as (H1 & H2 & H3 & H4 & H5 & H6 & H7). repeat split; auto.
        rewrite H5. cbn [orb]. rewrite orb_true_r. reflexivity.
      + (* KO *)
        assert (Hg : gok sa sk kws (npos - pidx st) (p :: r)
                     = (memN (pname p) kws || sk || pdefault p) && gok sa sk kws (npos - pidx st) r)
          by (cbn [gok]; rewrite Ek; destruct (npos - pidx st); reflexivity).
        assert (Hc : gconsumed sa kws (npos - pidx st) (p :: r)
                     = if memN (pname p) kws then pname p :: gconsumed sa kws (npos - pidx st) r
                       else gconsumed sa kws (npos - pidx st) r)
          by (cbn [gconsumed]; rewrite Ek; destruct (npos - pidx st); reflexivity).
        assert (Hs : gsac sa (npos - pidx st) (p :: r) = gsac sa (npos - pidx st) r)
          by (cbn [gsac]; rewrite Ek; destruct (npos - pidx st); reflexivity).
        assert (Hk : gskc sa sk kws (npos - pidx st) (p :: r)
                     = (sk && negb (memN (pname p) kws)) || gskc sa sk kws (npos - pidx st) r)
          by (cbn [gskc]; rewrite Ek; destruct (npos - pidx st); reflexivity).
        rewrite Hg, Hc, Hs, Hk. cbn [final_rem has_kind existsb]. rewrite Ek. cbn [kind_eqb orb].
        destruct (kw_lookup (pname p) (keywords a)) as [dp|] eqn:El.
        * apply lookup_mem_some in El as [Hm ->]. rewrite Hm. cbn [negb andb orb].
          match goal with |- context [bind_params a ?st0 r] => specialize (IH st0) end.
          cbn [pidx kcons sac skc eka] in IH. specialize (IH Hle).
          destruct (bind_params a _ r); [|exact IH].
          destruct IH as (H1 & H2 & H3 & H4 & H5 & H6 & H7). repeat split; auto.
          -- intros k Hk'. rewrite (H4 k Hk'). rewrite !memN_cons.
             destruct (N.eqb k (pname p)), (memN k (gconsumed sa kws (npos - pidx st) r)); reflexivity.
          -- rewrite H6. rewrite andb_false_r. reflexivity.
        * apply lookup_mem in El. rewrite El. cbn [negb andb orb].
          destruct sk eqn:Esk; cbn [orb andb].
          -- match goal with |- context [bind_params a ?st0 r] => specialize (IH st0) end.
             cbn [pidx kcons sac skc eka] in IH. specialize (IH Hle).
             destruct (bind_params a _ r); [|exact IH].
             destruct IH as (H1 & H2 & H3 & H4 & H5 & H6 & H7). repeat split; auto.
             ++ intros k Hk'. rewrite (H4 k Hk'). rewrite memN_cons.
                destruct (N.eqb_spec k (pname p)) as [E|E]; [subst k; congruence|reflexivity].
             ++ rewrite H6. cbn [orb]. rewrite orb_true_r. reflexivity.
          -- destruct (pdefault p); [|reflexivity].
             specialize (IH (bind1 st p Default)). cbn [bind1 pidx kcons sac skc eka] in IH.
             specialize (IH Hle). exact IH.
      + (* VK *)
        assert (Hg : gok sa sk kws (npos - pidx st) (p :: r) = gok sa sk kws (npos - pidx st) r)
          by (cbn [gok]; rewrite Ek; destruct (npos - pidx st); reflexivity).
        assert (Hc : gconsumed sa kws (npos - pidx st) (p :: r) = gconsumed sa kws (npos - pidx st) r)
          by (cbn [gconsumed]; rewrite Ek; destruct (npos - pidx st); reflexivity).
        assert (Hs : gsac sa (npos - pidx st) (p :: r) = gsac sa (npos - pidx st) r)
          by (cbn [gsac]; rewrite Ek; destruct (npos - pidx st); reflexivity).
        assert (Hk : gskc sa sk kws (npos - pidx st) (p :: r) = true)
          by (cbn [gskc]; rewrite Ek; destruct (npos - pidx st); reflexivity).
        rewrite Hg, Hc, Hs, Hk. cbn [final_rem has_kind existsb]. rewrite Ek. cbn [kind_eqb orb].
        match goal with |- context [bind_params a ?st0 r] => specialize (IH st0) end.
        cbn [pidx kcons sac skc eka] in IH. specialize (IH Hle).
        destruct (bind_params a _ r); [|exact IH].
        destruct IH as (H1 & H2 & H3 & H4 & H5 & H6 & H7). repeat split; auto.
        -- rewrite H6. cbn [orb]. rewrite !orb_true_r. reflexivity.
        -- rewrite H7. cbn [orb]. rewrite orb_true_r. reflexivity.
  Qed.
End Model.

Lemma existsb_negb_forallb_in : forall (kc C l : list N),
  (forall k, In k l -> memN k kc = memN k C) ->
  existsb (fun n => negb (memN n kc)) l = negb (forallb (fun k => memN k C) l).
Proof.
  intros kc C l H. induction l as [|k l IH]; [reflexivity|].
  cbn [existsb forallb]. rewrite IH, H, negb_andb; [reflexivity|left; reflexivity|].
  intros k' Hk'. apply H. right. assumption.
Qed.

Lemma accepts_gclosed : forall s a, definite a -> accepts s a = gclosed s a.
Proof.
  intros s a Hd. unfold accepts, bind, bind_with, gclosed.
  pose proof (bind_params_gclosed a Hd s init_state) as H. cbn [pidx init_state] in H.
  specialize (H (Nat.le_0_l _)). rewrite Nat.sub_0_r in H.
  destruct (bind_params a init_state s) as [st'|].
  - destruct H as (H1 & H2 & H3 & H4 & H5 & H6 & H7). cbn [sac skc eka kcons init_state orb] in *.
    rewrite H1. cbn [andb]. unfold finish_with. rewrite H5, H6, H7.
    assert (Hrem : (pidx st' =? length (positionals a)) = (final_rem (length (positionals a)) s =? 0)).
    { rewrite <- H3. destruct (Nat.eqb_spec (pidx st') (length (positionals a)));
        destruct (Nat.eqb_spec (length (positionals a) - pidx st') 0); try reflexivity; lia. }
    rewrite Hrem.
    assert (Hex : has_extra_kw a st' = negb (forallb (fun k => memN k (gconsumed (star_args a) (map fst (keywords a)) (length (positionals a)) s)) (map fst (keywords a)))).
    { unfold has_extra_kw. apply existsb_negb_forallb_in. intros k Hk. rewrite H4.
      - cbn [memN existsb]. apply orb_false_r.
      - apply memN_true_iff. assumption. }
    rewrite Hex.
    destruct (gsac _ _ s), (has_kind VK s), (final_rem _ s =? 0), (forallb _ (map fst (keywords a))),
      (star_args a), (gskc _ _ _ _ s), (star_kwargs a), (kwargs_required a); reflexivity.
  - rewrite H. reflexivity.
Qed.

(* ---------- acceptance is sound: a witness expansion ---------- *)
Section Witness.
  Context (sa sk : bool) (kws : list N).

  (* positional parameters that the model fills from *args *)
  Fixpoint absorbed (n : nat) (s : sig) : nat :=
    match s with
    | [] => 0
    | p :: r =>
        match pkind p, n with
        | (PO | POK), S n' => absorbed n' r
        | (PO | POK), O => (if sa then 1 else 0) + absorbed O r
        | VP, _ => 0
        | _, _ => absorbed n r
        end
    end.

  (* parameters that the model fills from **kwargs *)
  Fixpoint extras (n : nat) (s : sig) : list N :=
    match s with
    | [] => []
    | p :: r =>
        match pkind p, n with
        | PO, _ => extras (pred n) r
        | POK, S n' => extras n' r
        | POK, O => if negb sa && sk && negb (memN (pname p) kws) then pname p :: extras O r else extras O r
        | KO, _ => if sk && negb (memN (pname p) kws) then pname p :: extras n r else extras n r
        | VP, _ => extras O r
        | VK, _ => extras n r
        end
    end.
End Witness.

Lemma absorbed_false : forall n s, absorbed false n s = 0.
Proof.
  intros n s; revert n; induction s as [|p r IH]; intros n; [reflexivity|].
  cbn [absorbed]. destruct (pkind p), n; cbn; auto.
Qed.

Lemma extras_false : forall sa kws n s, extras sa false kws n s = [].
Proof.
  intros sa kws n s; revert n; induction s as [|p r IH]; intros n; [reflexivity|].
  cbn [extras]. rewrite andb_false_r. destruct (pkind p), n; cbn; auto.
Qed.

Lemma absorbed_no_pos : forall sa s n,
  forallb (fun q => negb (is_positional (pkind q))) s = true -> absorbed sa n s = 0.
Proof.
  induction s as [|p r IH]; intros n H; [reflexivity|]. cbn [forallb] in H.
  apply andb_true_iff in H as [H1 H2]. cbn [absorbed].
  destruct (pkind p); cbn in H1; try discriminate; destruct n; auto.
Qed.

Lemma extras_sub : forall sa sk kws s n x,
  memN x (extras sa sk kws n s) = true -> memN x (map pname s) = true /\ memN x kws = false.
Proof.
  induction s as [|p r IH]; intros n x H; [discriminate|].
  cbn [map]. rewrite memN_cons. cbn [extras] in H.
  destruct (pkind p), n; cbn [pred] in H;
    try (apply IH in H as [H1 H2]; rewrite H1, orb_true_r; split; [reflexivity|assumption]).
  - destruct (negb sa && sk && negb (memN (pname p) kws)) eqn:E.
    + rewrite memN_cons in H. apply orb_true_iff in H as [H|H].
      * apply N.eqb_eq in H. subst x. rewrite N.eqb_refl. split; [reflexivity|].
        apply andb_true_iff in E as [_ E]. apply negb_true_iff in E. exact E.
      * apply IH in H as [H1 H2]. rewrite H1, orb_true_r. auto.
    + apply IH in H as [H1 H2]. rewrite H1, orb_true_r. auto.
  - destruct (sk && negb (memN (pname p) kws)) eqn:E.
    + rewrite memN_cons in H. apply orb_true_iff in H as [H|H].
      * apply N.eqb_eq in H. subst x. rewrite N.eqb_refl. split; [reflexivity|].
        apply andb_true_iff in E as [_ E]. apply negb_true_iff in E. exact E.
      * apply IH in H as [H1 H2]. rewrite H1, orb_true_r. auto.
    + apply IH in H as [H1 H2]. rewrite H1, orb_true_r. auto.
  - destruct (sk && negb (memN (pname p) kws)) eqn:E.
    + rewrite memN_cons in H. apply orb_true_iff in H as [H|H].
      * apply N.eqb_eq in H. subst x. rewrite N.eqb_refl. split; [reflexivity|].
        apply andb_true_iff in E as [_ E]. apply negb_true_iff in E. exact E.
      * apply IH in H as [H1 H2]. rewrite H1, orb_true_r. auto.
    + apply IH in H as [H1 H2]. rewrite H1, orb_true_r. auto.
Qed.

Lemma params_ok_ext : forall s n K1 K2,
  (forall q, In q s -> memN (pname q) K1 = memN (pname q) K2) ->
  params_ok n K1 s = params_ok n K2 s.
Proof.
  induction s as [|p r IH]; intros n K1 K2 H; [reflexivity|].
  cbn [params_ok]. rewrite (H p (or_introl eq_refl)).
  assert (Hr : forall m, params_ok m K1 r = params_ok m K2 r).
  { intros m. apply IH. intros q Hq. apply H. right. assumption. }
  destruct (pkind p), n; rewrite ?Hr; reflexivity.
Qed.

Lemma memN_false_names : forall x (r : sig) q,
  memN x (map pname r) = false -> In q r -> N.eqb (pname q) x = false.
Proof.
  intros x r q H Hin. apply N.eqb_neq. intros E.
  assert (memN x (map pname r) = true); [|congruence].
  apply memN_true_iff. rewrite <- E. apply in_map. assumption.
Qed.

Lemma witness_params_ok : forall sa sk kws s n,
  names_nodup (map pname s) = true -> pos_before_vp s = true ->
  gok sa sk kws n s = true ->
  params_ok (n + absorbed sa n s) (kws ++ extras sa sk kws n s) s = true.
Proof.
  intros sa sk kws. induction s as [|p r IH]; intros n Hnd Hvp Hok; [reflexivity|].
  cbn [map names_nodup] in Hnd. apply andb_true_iff in Hnd as [Hp Hnd]. apply negb_true_iff in Hp.
  cbn [pos_before_vp] in Hvp. apply andb_true_iff in Hvp as [Hvp1 Hvp].
  assert (HpE : forall m, memN (pname p) (extras sa sk kws m r) = false).
  { intros m. destruct (memN (pname p) (extras sa sk kws m r)) eqn:E; [|reflexivity].
    apply extras_sub in E as [E _]. congruence. }
  assert (Hext : forall m m', params_ok m (kws ++ pname p :: extras sa sk kws m' r) r
                              = params_ok m (kws ++ extras sa sk kws m' r) r).
  { intros m m'. apply params_ok_ext. intros q Hq. rewrite !memN_app, memN_cons.
    rewrite (memN_false_names _ _ _ Hp Hq). reflexivity. }
  destruct (pkind p) eqn:Ek.
  - (* PO *)
    destruct n as [|n'].
    + cbn [gok] in Hok. rewrite Ek in Hok. apply andb_true_iff in Hok as [H1 H2].
      specialize (IH 0 Hnd Hvp H2). cbn [absorbed extras pred]. rewrite Ek.
      destruct sa; cbn [orb] in H1.
      * cbn [Nat.add params_ok]. rewrite Ek. exact IH.
      * rewrite absorbed_false in *. cbn [Nat.add params_ok]. rewrite Ek, H1. exact IH.
    + cbn [gok] in Hok. rewrite Ek in Hok. specialize (IH n' Hnd Hvp Hok).
      cbn [absorbed extras pred Nat.add params_ok]. rewrite Ek. exact IH.
  - (* POK *)
    destruct n as [|n'].
    + cbn [gok] in Hok. rewrite Ek in Hok. apply andb_true_iff in Hok as [H1 H2].
      specialize (IH 0 Hnd Hvp H2). cbn [absorbed extras]. rewrite Ek.
      destruct sa; cbn [negb andb].
      * cbn [Nat.add params_ok]. rewrite Ek. rewrite memN_app, HpE.
        apply negb_true_iff in H1. rewrite H1. exact IH.
      * rewrite absorbed_false in *. cbn [Nat.add params_ok]. rewrite Ek.
        destruct (memN (pname p) kws) eqn:Em; cbn [negb andb orb] in *.
        -- rewrite andb_false_r. rewrite memN_app, Em. exact IH.
        -- destruct sk; cbn [andb orb] in *.
           ++ rewrite memN_app, memN_cons, N.eqb_refl, orb_true_r. cbn [orb andb].
              rewrite Hext. exact IH.
           ++ rewrite memN_app, Em, HpE, H1. exact IH.
    + cbn [gok] in Hok. rewrite Ek in Hok. apply andb_true_iff in Hok as [H1 H2].
      specialize (IH n' Hnd Hvp H2).
      cbn [absorbed extras Nat.add params_ok]. rewrite Ek. rewrite memN_app, HpE.
      apply negb_true_iff in H1. rewrite H1. exact IH.
  - (* VP *)
    assert (Hg : gok sa sk kws n (p :: r) = gok sa sk kws 0 r)
      by (cbn [gok]; rewrite Ek; destruct n; reflexivity).
    rewrite Hg in Hok. specialize (IH 0 Hnd Hvp Hok).
    rewrite (absorbed_no_pos _ _ _ Hvp1) in IH.
    assert (absorbed sa n (p :: r) = 0) as -> by (cbn [absorbed]; rewrite Ek; destruct n; reflexivity).
    assert (extras sa sk kws n (p :: r) = extras sa sk kws 0 r) as ->
      by (cbn [extras]; rewrite Ek; destruct n; reflexivity).
    rewrite (params_ok_VP _ _ _ _ Ek). exact IH.
  - (* KO *)
    assert (Hg : gok sa sk kws n (p :: r) = (memN (pname p) kws || sk || pdefault p) && gok sa sk kws n r)
      by (cbn [gok]; rewrite Ek; destruct n; reflexivity).
    rewrite Hg in Hok. apply andb_true_iff in Hok as [H1 H2]. specialize (IH n Hnd Hvp H2).
    assert (absorbed sa n (p :: r) = absorbed sa n r) as -> by (cbn [absorbed]; rewrite Ek; destruct n; reflexivity).
    assert (extras sa sk kws n (p :: r) = if sk && negb (memN (pname p) kws) then pname p :: extras sa sk kws n r else extras sa sk kws n r) as ->
      by (cbn [extras]; rewrite Ek; destruct n; reflexivity).
    rewrite (params_ok_KO _ _ _ _ Ek).
    destruct (memN (pname p) kws) eqn:Em; cbn [negb andb orb] in *.
    + rewrite andb_false_r. rewrite memN_app, Em. exact IH.
    + destruct sk; cbn [andb orb] in *.
      * rewrite memN_app, memN_cons, N.eqb_refl, orb_true_r. cbn [orb andb]. rewrite Hext. exact IH.
      * rewrite memN_app, Em, HpE, H1. exact IH.
  - (* VK *)
    assert (Hg : gok sa sk kws n (p :: r) = gok sa sk kws n r)
      by (cbn [gok]; rewrite Ek; destruct n; reflexivity).
    rewrite Hg in Hok. specialize (IH n Hnd Hvp Hok).
    assert (absorbed sa n (p :: r) = absorbed sa n r) as -> by (cbn [absorbed]; rewrite Ek; destruct n; reflexivity).
    assert (extras sa sk kws n (p :: r) = extras sa sk kws n r) as ->
      by (cbn [extras]; rewrite Ek; destruct n; reflexivity).
    rewrite (params_ok_VK _ _ _ _ Ek). exact IH.
Qed.

Lemma final_rem_0 : forall s, final_rem 0 s = 0.
Proof. induction s as [|p r IH]; [reflexivity|]. cbn [final_rem pred]. destruct (pkind p); exact IH. Qed.

Lemma witness_final_rem : forall sa s n, has_kind VP s = false ->
  final_rem (n + absorbed sa n s) s = if gsac sa n s then 0 else final_rem n s.
Proof.
  intros sa. induction s as [|p r IH]; intros n H; [cbn; lia|].
  cbn [has_kind existsb] in H. apply orb_false_iff in H as [H1 H2]. fold (has_kind VP r) in H2.
  cbn [absorbed gsac final_rem].
  destruct (pkind p) eqn:Ek; try discriminate.
  - destruct n as [|n']; cbn [pred Nat.add].
    + destruct sa; cbn [Nat.add pred orb].
      * specialize (IH 0 H2). cbn [Nat.add] in IH. rewrite IH, final_rem_0. destruct (gsac true 0 r); reflexivity.
      * rewrite absorbed_false. cbn. rewrite !final_rem_0. destruct (gsac false 0 r); reflexivity.
    + apply IH. assumption.
  - destruct n as [|n']; cbn [pred Nat.add].
    + destruct sa; cbn [Nat.add pred orb].
      * specialize (IH 0 H2). cbn [Nat.add] in IH. rewrite IH, final_rem_0. destruct (gsac true 0 r); reflexivity.
      * rewrite absorbed_false. cbn. rewrite !final_rem_0. destruct (gsac false 0 r); reflexivity.
    + apply IH. assumption.
  - destruct n; apply IH; assumption.
  - destruct n; apply IH; assumption.
Qed.

Lemma gconsumed_kw_target : forall sa kws s n k,
  memN k (gconsumed sa kws n s) = true -> kw_target s k = true.
Proof.
  intros sa kws. induction s as [|p r IH]; intros n k H; [discriminate|].
  unfold kw_target. cbn [existsb]. fold (kw_target r k). cbn [gconsumed] in H.
  destruct (pkind p) eqn:Ek; cbn [is_kw_target andb orb].
  - eauto.
  - destruct n as [|n']; [|rewrite (IH _ _ H); apply orb_true_r].
    destruct (negb sa && memN (pname p) kws); [|rewrite (IH _ _ H); apply orb_true_r].
    rewrite memN_cons in H. apply orb_true_iff in H as [H|H].
    + rewrite N.eqb_sym, H. reflexivity.
    + rewrite (IH _ _ H). apply orb_true_r.
  - destruct n; eauto.
  - assert (H' : memN k (if memN (pname p) kws then pname p :: gconsumed sa kws n r else gconsumed sa kws n r) = true)
      by (destruct n; exact H).
    destruct (memN (pname p) kws); [|rewrite (IH _ _ H'); apply orb_true_r].
    rewrite memN_cons in H'. apply orb_true_iff in H' as [H'|H'].
    + rewrite N.eqb_sym, H'. reflexivity.
    + rewrite (IH _ _ H'). apply orb_true_r.
  - destruct n; eauto.
Qed.

Lemma extras_kw_target : forall sa sk kws s n k,
  memN k (extras sa sk kws n s) = true -> kw_target s k = true.
Proof.
  intros sa sk kws. induction s as [|p r IH]; intros n k H; [discriminate|].
  unfold kw_target. cbn [existsb]. fold (kw_target r k). cbn [extras] in H.
  destruct (pkind p) eqn:Ek; cbn [is_kw_target andb orb].
  - eauto.
  - destruct n as [|n']; [|rewrite (IH _ _ H); apply orb_true_r].
    destruct (negb sa && sk && negb (memN (pname p) kws)); [|rewrite (IH _ _ H); apply orb_true_r].
    rewrite memN_cons in H. apply orb_true_iff in H as [H|H].
    + rewrite N.eqb_sym, H. reflexivity.
    + rewrite (IH _ _ H). apply orb_true_r.
  - destruct n; eauto.
  - assert (H' : memN k (if sk && negb (memN (pname p) kws) then pname p :: extras sa sk kws n r else extras sa sk kws n r) = true)
      by (destruct n; exact H).
    destruct (sk && negb (memN (pname p) kws)); [|rewrite (IH _ _ H'); apply orb_true_r].
    rewrite memN_cons in H'. apply orb_true_iff in H' as [H'|H'].
    + rewrite N.eqb_sym, H'. reflexivity.
    + rewrite (IH _ _ H'). apply orb_true_r.
  - destruct n; eauto.
Qed.

Lemma extras_nodup : forall sa sk kws s n,
  names_nodup (map pname s) = true -> names_nodup (extras sa sk kws n s) = true.
Proof.
  intros sa sk kws. induction s as [|p r IH]; intros n Hnd; [reflexivity|].
  cbn [map names_nodup] in Hnd. apply andb_true_iff in Hnd as [Hp Hnd]. apply negb_true_iff in Hp.
  assert (HpE : forall m, memN (pname p) (extras sa sk kws m r) = false).
  { intros m. destruct (memN (pname p) (extras sa sk kws m r)) eqn:E; [|reflexivity].
    apply extras_sub in E as [E _]. congruence. }
  cbn [extras]. destruct (pkind p), n; cbn [pred]; auto;
    match goal with |- context [if ?c then _ else _] => destruct c end; auto;
    cbn [names_nodup]; rewrite HpE; cbn [negb andb]; auto.
Qed.

Lemma names_nodup_app : forall l1 l2,
  names_nodup l1 = true -> names_nodup l2 = true ->
  (forall k, memN k l2 = true -> memN k l1 = false) ->
  names_nodup (l1 ++ l2) = true.
Proof.
  induction l1 as [|x l1 IH]; intros l2 H1 H2 Hd; [exact H2|].
  cbn [app names_nodup] in *. apply andb_true_iff in H1 as [Hx H1]. apply negb_true_iff in Hx.
  rewrite memN_app, Hx. cbn [orb].
  destruct (memN x l2) eqn:E.
  - specialize (Hd _ E). rewrite memN_cons, N.eqb_refl in Hd. discriminate.
  - cbn [negb andb]. apply IH; auto. intros k Hk. specialize (Hd _ Hk).
    rewrite memN_cons in Hd. apply orb_false_iff in Hd as [_ Hd]. exact Hd.
Qed.

(* expansions of a call with star-arguments of unknown length *)
Definition expansion (a : actuals) (npos' : nat) (kws' : list N) : Prop :=
  exists n extra,
    npos' = length (positionals a) + n /\ kws' = map fst (keywords a) ++ extra
    /\ (star_args a = false -> n = 0) /\ (star_kwargs a = false -> extra = [])
    /\ names_nodup kws' = true.

Definition nonempty_expansion (a : actuals) (npos' : nat) (kws' : list N) : Prop :=
  exists n extra,
    npos' = length (positionals a) + n /\ kws' = map fst (keywords a) ++ extra
    /\ (if star_args a then 1 <= n else n = 0)
    /\ (if star_kwargs a then extra <> [] else extra = [])
    /\ names_nodup kws' = true.

Theorem accept_sound_shape : forall s a,
  names_nodup (map pname s) = true -> pos_before_vp s = true ->
  definite a -> names_nodup (map fst (keywords a)) = true ->
  accepts s a = true ->
  exists npos' kws', expansion a npos' kws' /\ py_bind s npos' kws' = true.
Proof.
  intros s a Hnd Hvp Hd Hk Hacc. rewrite accepts_gclosed in Hacc by assumption.
  unfold gclosed in Hacc.
  set (sa := star_args a) in *. set (sk := star_kwargs a) in *.
  set (n := length (positionals a)) in *. set (kws := map fst (keywords a)) in *.
  apply andb_true_iff in Hacc as [Hacc H5]. apply andb_true_iff in Hacc as [Hacc H4].
  apply andb_true_iff in Hacc as [Hacc H3]. apply andb_true_iff in Hacc as [H1 H2].
  exists (n + absorbed sa n s), (kws ++ extras sa sk kws n s).
  assert (HK : names_nodup (kws ++ extras sa sk kws n s) = true).
  { apply names_nodup_app; auto using extras_nodup. intros k Hk'. apply extras_sub in Hk'. tauto. }
  split.
  - exists (absorbed sa n s), (extras sa sk kws n s). repeat split; auto.
    + intros E. unfold sa. rewrite E. apply absorbed_false.
    + intros E. unfold sk. rewrite E. apply extras_false.
  - rewrite py_bind_closed by assumption. unfold closed.
    pose proof (witness_params_ok sa sk kws s n Hnd Hvp H1) as Hp. rewrite Hp. cbn [andb].
    apply andb_true_iff. split.
    + destruct (has_kind VP s) eqn:Evp; [reflexivity|]. cbn [orb].
      rewrite (witness_final_rem sa s n Evp).
      destruct (gsac sa n s); [reflexivity|]. cbn [orb] in H2. exact H2.
    + destruct (has_kind VK s) eqn:Evk; [reflexivity|]. cbn [orb] in *.
      apply forallb_forall. intros k Hin.
      rewrite (consumed_kw_target s _ _ Hnd Hp k) by (apply memN_true_iff; assumption).
      apply in_app_or in Hin as [Hin|Hin].
      * rewrite forallb_forall in H3. eapply gconsumed_kw_target. apply H3. assumption.
      * eapply extras_kw_target. apply memN_true_iff. eassumption.
Qed.

(* ---------- rejection is complete, outside one guard clause ---------- *)

(* guard: some positional-or-keyword parameter that the explicit positionals
   do not reach is named by an explicit keyword (and *args is passed) *)
Fixpoint pok_named_beyond (kws : list N) (n : nat) (s : sig) : bool :=
  match s with
  | [] => false
  | p :: r =>
      match pkind p, n with
      | PO, _ => pok_named_beyond kws (pred n) r
      | POK, S n' => pok_named_beyond kws n' r
      | POK, O => memN (pname p) kws || pok_named_beyond kws O r
      | VP, _ => pok_named_beyond kws O r
      | _, _ => pok_named_beyond kws n r
      end
  end.

Definition kw_after_star_args (s : sig) (a : actuals) : bool :=
  star_args a && pok_named_beyond (map fst (keywords a)) (length (positionals a)) s.

Section Reject.
  Context (sa sk : bool) (kws extra : list N).
  Let K := kws ++ extra.
  Context (Hsk : sk = false -> extra = []).

  Lemma extra_sk : forall x, memN x kws = false -> memN x K = true -> sk = true.
  Proof.
    intros x H1 H2. unfold K in H2. rewrite memN_app, H1 in H2. cbn [orb] in H2.
    destruct sk; [reflexivity|]. rewrite (Hsk eq_refl) in H2. discriminate.
  Qed.

  Lemma reject_gok : forall s n m,
    (sa = false -> m = 0) -> sa && pok_named_beyond kws n s = false ->
    params_ok (n + m) K s = true -> gok sa sk kws n s = true.
  Proof.
    induction s as [|p r IH]; intros n m Hm Hg Hok; [reflexivity|].
    cbn [pok_named_beyond] in Hg.
    destruct (pkind p) eqn:Ek.
    - destruct n as [|n']; cbn [pred Nat.add] in *.
      + cbn [gok]. rewrite Ek. destruct m as [|m'].
        * cbn [params_ok] in Hok. rewrite Ek in Hok. apply andb_true_iff in Hok as [H1 H2].
          rewrite H1, orb_true_r. cbn [andb]. apply (IH 0 0); auto.
        * cbn [params_ok] in Hok. rewrite Ek in Hok.
          destruct sa; [|specialize (Hm eq_refl); discriminate]. cbn [orb andb].
          apply (IH 0 m'); auto. intros; discriminate.
      + cbn [gok params_ok] in *. rewrite Ek in *. apply (IH n' m); auto.
    - destruct n as [|n']; cbn [Nat.add] in *.
      + cbn [gok]. rewrite Ek. destruct m as [|m'].
        * cbn [params_ok] in Hok. rewrite Ek in Hok. apply andb_true_iff in Hok as [H1 H2].
          destruct sa; cbn [andb] in Hg.
          -- apply orb_false_iff in Hg as [Hg1 Hg2]. rewrite Hg1. cbn [negb andb].
             apply (IH 0 0); auto. 
          -- assert (Hc : memN (pname p) kws || sk || pdefault p = true).
             { destruct (memN (pname p) kws) eqn:E; [reflexivity|]. cbn [orb].
               apply orb_true_iff in H1 as [H1|H1]; [|rewrite H1; apply orb_true_r].
               rewrite (extra_sk _ E H1). reflexivity. }
             rewrite Hc. cbn [andb]. apply (IH 0 0); auto.
        * cbn [params_ok] in Hok. rewrite Ek in Hok. apply andb_true_iff in Hok as [H1 H2].
          destruct sa; [|specialize (Hm eq_refl); discriminate]. cbn [andb] in Hg.
          apply orb_false_iff in Hg as [Hg1 Hg2]. rewrite Hg1. cbn [negb andb].
          apply (IH 0 m'); auto. intros; discriminate.
      + cbn [gok params_ok] in *. rewrite Ek in *. apply andb_true_iff in Hok as [H1 H2].
        apply negb_true_iff in H1. unfold K in H1. rewrite memN_app in H1.
        apply orb_false_iff in H1 as [H1 _]. rewrite H1. cbn [negb andb]. apply (IH n' m); auto.
    - rewrite (params_ok_VP _ _ _ _ Ek) in Hok.
      assert (gok sa sk kws n (p :: r) = gok sa sk kws 0 r) as ->
        by (cbn [gok]; rewrite Ek; destruct n; reflexivity).
      assert (Hg' : sa && pok_named_beyond kws 0 r = false) by (destruct n; exact Hg).
      apply (IH 0 0); auto.
    - rewrite (params_ok_KO _ _ _ _ Ek) in Hok. apply andb_true_iff in Hok as [H1 H2].
      assert (gok sa sk kws n (p :: r) = (memN (pname p) kws || sk || pdefault p) && gok sa sk kws n r) as ->
        by (cbn [gok]; rewrite Ek; destruct n; reflexivity).
      assert (Hg' : sa && pok_named_beyond kws n r = false) by (destruct n; exact Hg).
      assert (Hc : memN (pname p) kws || sk || pdefault p = true).
      { destruct (memN (pname p) kws) eqn:E; [reflexivity|]. cbn [orb].
        apply orb_true_iff in H1 as [H1|H1]; [|rewrite H1; apply orb_true_r].
        rewrite (extra_sk _ E H1). reflexivity. }
      rewrite Hc. cbn [andb]. apply (IH n m); auto.
    - rewrite (params_ok_VK _ _ _ _ Ek) in Hok.
      assert (gok sa sk kws n (p :: r) = gok sa sk kws n r) as ->
        by (cbn [gok]; rewrite Ek; destruct n; reflexivity).
      assert (Hg' : sa && pok_named_beyond kws n r = false) by (destruct n; exact Hg).
      apply (IH n m); auto.
  Qed.

  Lemma reject_consumed : forall s n m k,
    (sa = false -> m = 0) -> sa && pok_named_beyond kws n s = false ->
    memN k kws = true -> memN k (consumed (n + m) K s) = true ->
    memN k (gconsumed sa kws n s) = true.
  Proof.
    induction s as [|p r IH]; intros n m k Hm Hg Hk Hc; [discriminate|].
    cbn [pok_named_beyond] in Hg.
    destruct (pkind p) eqn:Ek.
    - cbn [consumed gconsumed] in *. rewrite Ek in *.
      destruct n as [|n']; cbn [pred Nat.add] in *.
      + destruct m as [|m']; cbn [pred] in Hc.
        * apply (IH 0 0); auto.
        * apply (IH 0 m'); auto. intros E. specialize (Hm E). discriminate.
      + apply (IH n' m); auto.
    - cbn [consumed gconsumed] in *. rewrite Ek in *.
      destruct n as [|n']; cbn [Nat.add] in *.
      + destruct m as [|m'].
        * destruct (memN (pname p) K) eqn:EK.
          -- rewrite memN_cons in Hc.
             destruct (N.eqb_spec k (pname p)) as [E|E].
             ++ subst k. rewrite Hk in *. destruct sa; cbn [andb orb negb] in *; [discriminate|].
                rewrite memN_cons, N.eqb_refl. reflexivity.
             ++ cbn [orb] in Hc.
                assert (Hg' : sa && pok_named_beyond kws 0 r = false).
                { destruct sa; [|reflexivity]. cbn [andb] in *. apply orb_false_iff in Hg. tauto. }
                specialize (IH 0 0 k Hm Hg' Hk Hc).
                destruct (negb sa && memN (pname p) kws); [|exact IH].
                rewrite memN_cons, IH. apply orb_true_r.
          -- assert (Hg' : sa && pok_named_beyond kws 0 r = false).
             { destruct sa; [|reflexivity]. cbn [andb] in *. apply orb_false_iff in Hg. tauto. }
             specialize (IH 0 0 k Hm Hg' Hk Hc).
             destruct (negb sa && memN (pname p) kws); [|exact IH].
             rewrite memN_cons, IH. apply orb_true_r.
        * assert (Hg' : sa && pok_named_beyond kws 0 r = false).
          { destruct sa; [|reflexivity]. cbn [andb] in *. apply orb_false_iff in Hg. tauto. }
          assert (Hm' : sa = false -> m' = 0) by (intros E; specialize (Hm E); discriminate).
          specialize (IH 0 m' k Hm' Hg' Hk Hc).
          destruct (negb sa && memN (pname p) kws); [|exact IH].
          rewrite memN_cons, IH. apply orb_true_r.
      + apply (IH n' m); auto.
    - rewrite (consumed_VP _ _ _ _ Ek) in Hc.
      assert (gconsumed sa kws n (p :: r) = gconsumed sa kws 0 r) as ->
        by (cbn [gconsumed]; rewrite Ek; destruct n; reflexivity).
      assert (Hg' : sa && pok_named_beyond kws 0 r = false) by (destruct n; exact Hg).
      apply (IH 0 0); auto.
    - rewrite (consumed_KO _ _ _ _ Ek) in Hc.
      assert (gconsumed sa kws n (p :: r) = if memN (pname p) kws then pname p :: gconsumed sa kws n r else gconsumed sa kws n r) as ->
        by (cbn [gconsumed]; rewrite Ek; destruct n; reflexivity).
      assert (Hg' : sa && pok_named_beyond kws n r = false) by (destruct n; exact Hg).
      destruct (memN (pname p) K) eqn:EK.
      + rewrite memN_cons in Hc. destruct (N.eqb_spec k (pname p)) as [E|E].
        * subst k. rewrite Hk. rewrite memN_cons, N.eqb_refl. reflexivity.
        * cbn [orb] in Hc. specialize (IH n m k Hm Hg' Hk Hc).
          destruct (memN (pname p) kws); [|exact IH]. rewrite memN_cons, IH. apply orb_true_r.
      + specialize (IH n m k Hm Hg' Hk Hc).
        destruct (memN (pname p) kws); [|exact IH]. rewrite memN_cons, IH. apply orb_true_r.
    - rewrite (consumed_VK _ _ _ _ Ek) in Hc.
      assert (gconsumed sa kws n (p :: r) = gconsumed sa kws n r) as ->
        by (cbn [gconsumed]; rewrite Ek; destruct n; reflexivity).
      assert (Hg' : sa && pok_named_beyond kws n r = false) by (destruct n; exact Hg).
      apply (IH n m); auto.
  Qed.

  Lemma reject_gskc : forall s n m k,
    (sa = false -> m = 0) -> sk = true ->
    memN k kws = false -> memN k (consumed (n + m) K s) = true ->
    gskc sa sk kws n s = true.
  Proof.
    induction s as [|p r IH]; intros n m k Hm Hs Hk Hc; [discriminate|].
    destruct (pkind p) eqn:Ek.
    - cbn [consumed gskc] in *. rewrite Ek in *.
      destruct n as [|n']; cbn [pred Nat.add] in *.
      + destruct m as [|m']; cbn [pred] in Hc.
        * apply (IH 0 0 k); auto.
        * apply (IH 0 m' k); auto. intros E. specialize (Hm E). discriminate.
      + apply (IH n' m k); auto.
    - cbn [consumed gskc] in *. rewrite Ek in *.
      destruct n as [|n']; cbn [Nat.add] in *.
      + destruct m as [|m'].
        * destruct (memN (pname p) K) eqn:EK.
          -- rewrite memN_cons in Hc. destruct (N.eqb_spec k (pname p)) as [E|E].
             ++ subst k. rewrite Hk, Hs. cbn [negb andb]. rewrite orb_true_r. reflexivity.
             ++ cbn [orb] in Hc. rewrite (IH 0 0 k Hm Hs Hk Hc). apply orb_true_r.
          -- rewrite (IH 0 0 k Hm Hs Hk Hc). apply orb_true_r.
        * destruct sa; [|specialize (Hm eq_refl); discriminate]. rewrite Hs. reflexivity.
      + apply (IH n' m k); auto.
    - rewrite (consumed_VP _ _ _ _ Ek) in Hc.
      assert (gskc sa sk kws n (p :: r) = gskc sa sk kws 0 r) as ->
        by (cbn [gskc]; rewrite Ek; destruct n; reflexivity).
      apply (IH 0 0 k); auto.
    - rewrite (consumed_KO _ _ _ _ Ek) in Hc.
      assert (gskc sa sk kws n (p :: r) = (sk && negb (memN (pname p) kws)) || gskc sa sk kws n r) as ->
        by (cbn [gskc]; rewrite Ek; destruct n; reflexivity).
      destruct (memN (pname p) K) eqn:EK.
      + rewrite memN_cons in Hc. destruct (N.eqb_spec k (pname p)) as [E|E].
        * subst k. rewrite Hk, Hs. reflexivity.
        * cbn [orb] in Hc. rewrite (IH n m k Hm Hs Hk Hc). apply orb_true_r.
      + rewrite (IH n m k Hm Hs Hk Hc). apply orb_true_r.
    - cbn [gskc]. rewrite Ek. destruct n; reflexivity.
  Qed.
End Reject.

Lemma gsac_has_vp : forall sa s n, has_kind VP s = true -> gsac sa n s = true.
Proof.
  intros sa. induction s as [|p r IH]; intros n H; [discriminate|].
  cbn [has_kind existsb] in H. cbn [gsac].
  destruct (pkind p) eqn:Ek; cbn [kind_eqb orb] in H; try (destruct n; reflexivity);
    fold (has_kind VP r) in H; destruct n; rewrite ?IH by assumption; rewrite ?orb_true_r; reflexivity.
Qed.

Lemma gskc_has_vk : forall sa sk kws s n, has_kind VK s = true -> gskc sa sk kws n s = true.
Proof.
  intros sa sk kws. induction s as [|p r IH]; intros n H; [discriminate|].
  cbn [has_kind existsb] in H. cbn [gskc].
  destruct (pkind p) eqn:Ek; cbn [kind_eqb orb] in H; try (destruct n; reflexivity);
    fold (has_kind VK r) in H; destruct n; cbn [pred]; rewrite ?IH by assumption; rewrite ?orb_true_r; reflexivity.
Qed.

Lemma gsac_reaches : forall s n, has_kind VP s = false -> n < length (pos_params s) -> gsac true n s = true.
Proof.
  induction s as [|p r IH]; intros n Hvp Hlt; [cbn in Hlt; lia|].
  cbn [has_kind existsb] in Hvp. apply orb_false_iff in Hvp as [H1 H2]. fold (has_kind VP r) in H2.
  cbn [pos_params filter] in Hlt. fold (pos_params r) in Hlt. cbn [gsac].
  destruct (pkind p); cbn [is_positional length] in Hlt; try discriminate.
  - destruct n; [reflexivity|]. apply IH; [assumption|lia].
  - destruct n; [reflexivity|]. apply IH; [assumption|lia].
  - destruct n; apply IH; assumption.
  - destruct n; apply IH; assumption.
Qed.

Lemma nodup_app_notin : forall l1 l2 k,
  names_nodup (l1 ++ l2) = true -> memN k l2 = true -> memN k l1 = false.
Proof.
  induction l1 as [|x l1 IH]; intros l2 k H Hk; [reflexivity|].
  cbn [app names_nodup] in H. apply andb_true_iff in H as [Hx H]. apply negb_true_iff in Hx.
  rewrite memN_app in Hx. apply orb_false_iff in Hx as [_ Hx].
  rewrite memN_cons. rewrite (IH _ _ H Hk), orb_false_r.
  destruct (N.eqb_spec k x) as [E|E]; [subst; congruence|reflexivity].
Qed.

Theorem reject_complete_partial_shape : forall s a,
  names_nodup (map pname s) = true -> pos_before_vp s = true ->
  definite a -> (star_kwargs a = true -> kwargs_required a = true) ->
  kw_after_star_args s a = false ->
  accepts s a = false ->
  forall npos' kws', nonempty_expansion a npos' kws' -> py_bind s npos' kws' = false.
Proof.
  intros s a Hnd Hvp Hd Hreq Hg Hrej npos' kws' (m & extra & -> & -> & Hm & Hx & HK).
  destruct (py_bind s _ _) eqn:Epy; [|reflexivity]. exfalso.
  rewrite py_bind_closed in Epy by assumption.
  rewrite accepts_gclosed in Hrej by assumption.
  unfold closed in Epy. unfold gclosed in Hrej. unfold kw_after_star_args in Hg.
  set (sa := star_args a) in *. set (sk := star_kwargs a) in *.
  set (n := length (positionals a)) in *. set (kws := map fst (keywords a)) in *.
  apply andb_true_iff in Epy as [Epy E3]. apply andb_true_iff in Epy as [E1 E2].
  assert (Hm0 : sa = false -> m = 0) by (intros E; rewrite E in Hm; exact Hm).
  assert (Hx0 : sk = false -> extra = []) by (intros E; rewrite E in Hx; exact Hx).
  pose proof (reject_gok sa sk kws extra Hx0 s n m Hm0 Hg E1) as G1.
  rewrite G1 in Hrej. cbn [andb] in Hrej.
  (* positional count *)
  assert (G2 : gsac sa n s || (final_rem n s =? 0) = true).
  { destruct (has_kind VP s) eqn:Evp; [rewrite gsac_has_vp by assumption; reflexivity|].
    cbn [orb] in E2. rewrite final_rem_no_vp in * by assumption.
    apply Nat.eqb_eq in E2. apply orb_true_iff. right. apply Nat.eqb_eq. lia. }
  assert (G4 : gsac sa n s || negb sa = true).
  { destruct sa eqn:Esa; [|apply orb_true_r]. rewrite orb_false_r.
    destruct (has_kind VP s) eqn:Evp; [apply gsac_has_vp; assumption|].
    cbn [orb] in E2. rewrite final_rem_no_vp in E2 by assumption. apply Nat.eqb_eq in E2.
    apply gsac_reaches; [assumption|lia]. }
  assert (G3 : has_kind VK s || forallb (fun k => memN k (gconsumed sa kws n s)) kws = true).
  { destruct (has_kind VK s) eqn:Evk; [reflexivity|]. cbn [orb] in *.
    apply forallb_forall. intros k Hk. rewrite forallb_forall in E3.
    apply (reject_consumed sa kws extra s n m k Hm0 Hg).
    - apply memN_true_iff. assumption.
    - apply E3. apply in_or_app. left. assumption. }
  assert (G5 : gskc sa sk kws n s || negb (sk && kwargs_required a) = true).
  { destruct sk eqn:Esk; [|apply orb_true_r].
    destruct (has_kind VK s) eqn:Evk; [rewrite gskc_has_vk by assumption; reflexivity|].
    cbn [orb] in E3. destruct extra as [|k extra']; [contradiction|].
    assert (Hk1 : memN k kws = false).
    { apply (nodup_app_notin _ _ _ HK). rewrite memN_cons, N.eqb_refl. reflexivity. }
    rewrite forallb_forall in E3.
    rewrite (reject_gskc sa true kws (k :: extra') s n m k Hm0 eq_refl Hk1); [reflexivity|].
    apply E3. apply in_or_app. right. left. reflexivity. }
  rewrite G2, G3, G4, G5 in Hrej. discriminate.
Qed.

(* ---------- the refutation witnesses ---------- *)
Open Scope N_scope.

(* def g(a, b): ...;  g( *args, b=1)  is rejected, although g( *[1], b=1) binds *)
Lemma reject_complete_refuted_witness :
  let s := [mkParam 1 POK false; mkParam 2 POK false] in
  let a := mkActuals [] true [(2, true)] false false in
  preprocess [RStarUnknown; RKw 2] = Some a /\ valid_sig s = true /\
  accepts s a = false /\ nonempty_expansion a 1 [2] /\ py_bind s 1 [2] = true /\
  kw_after_star_args s a = true.
Proof.
  cbv zeta. repeat split; try (vm_compute; reflexivity).
  exists 1%nat, []. repeat split; vm_compute; auto.
Qed.

(* before the repair: def f(a): ...; f(b=1, **kw) accepted, although no keyword
   set for kw makes it bind (b names no parameter and f takes no **kwargs) *)
Lemma accept_sound_legacy_refuted_witness :
  let s := [mkParam 1 POK false] in
  let a := mkActuals [] false [(2, true)] true true in
  (exists b, bind_legacy s a = Some b) /\ accepts s a = false /\
  forall npos' kws', expansion a npos' kws' -> py_bind s npos' kws' = false.
Proof.
  cbv zeta. split; [eexists; vm_compute; reflexivity|]. split; [vm_compute; reflexivity|].
  intros npos' kws' (n & extra & -> & -> & Hn & _ & HK). rewrite (Hn eq_refl).
  unfold py_bind, py_bind_full. rewrite HK. cbn. reflexivity.
Qed.

(* raw level: positionals after an unknown-length *args are forgotten *)
Lemma accept_sound_raw_refuted_witness :
  let s := [mkParam 1 POK false] in
  call_ok s [RStarUnknown; RPos; RPos] = true /\
  positional_after_star [RStarUnknown; RPos; RPos] = true /\
  forall n, py_bind s (n + 2) [] = false.
Proof.
  cbv zeta. split; [vm_compute; reflexivity|]. split; [reflexivity|]. intros n.
  unfold py_bind, py_bind_full. cbn [names_nodup negb pos_params filter pkind is_positional length].
  replace (1 <? n + 2)%nat with true by (symmetry; apply Nat.ltb_lt; lia).
  reflexivity.
Qed.
