(* Proofs/BinderStar.v — star-argument half of C05: refutation witnesses. *)
From Coq Require Import List Bool NArith PeanoNat.
Import ListNotations.
Require Import PV.Binder.Kind PV.Binder.Sig PV.Binder.Bind PV.Binder.PyBind.
Open Scope N_scope.

(* def g(a, b): ...;  g( *args, b=1)  is rejected, although g( *[1], b=1) binds *)
Lemma reject_complete_refuted_witness :
  let s := [mkParam 1 POK false; mkParam 2 POK false] in
  call_ok s [RStarUnknown; RKw 2] = false /\ py_bind s 1 [2] = true.
Proof. vm_compute. split; reflexivity. Qed.
