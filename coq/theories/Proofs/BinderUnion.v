(* Proofs/BinderUnion.v — keywords that are only POSSIBLY provided (definitely_provided =
   False: a key that some member of a union of closed mappings passed as **x lacks).
   If the binder accepts, then CPython binds the call for EVERY set of keywords between
   the definitely provided ones and all of them — in particular for every member of the
   union. *)
From Coq Require Import List Bool NArith PeanoNat Lia.
Import ListNotations.
Require Import PV.Binder.Kind PV.Gen.Kinds PV.Binder.Sig PV.Binder.Bind PV.Binder.PyBind.
Require Import PV.Proofs.BinderConcrete PV.Proofs.BinderValid PV.Proofs.BinderStar.
Require Import PV.Binder.SigAssign PV.Proofs.SigAssignLoop PV.Proofs.SigAssignSound.
Close Scope N_scope.
Open Scope nat_scope.

(* no star-arguments, positionals definitely provided; keyword flags arbitrary *)
Definition flagged (a : actuals) : Prop :=
  star_args a = false /\ star_kwargs a = false /\ forallb (fun b => b) (positionals a) = true.

Section Flags.
  Context (a : actuals) (Hf : flagged a) (K : list N).
  Let npos := length (positionals a).
  Context (Hdef : forall k, kw_lookup k (keywords a) = Some true -> memN k K = true).
  Context (Hall : forall k, memN k K = true -> kw_lookup k (keywords a) <> None).

  Lemma kw_target_head : forall p r, is_kw_target (pkind p) = true -> kw_target (p :: r) (pname p) = true.
  Proof. intros p r H. unfold kw_target. cbn [existsb]. rewrite H, N.eqb_refl. reflexivity. Qed.

  Lemma kw_target_tail : forall p r k, kw_target r k = true -> kw_target (p :: r) k = true.
  Proof. intros p r k H. unfold kw_target in *. cbn [existsb]. rewrite H. apply orb_true_r. Qed.

  Ltac use_IH IH H :=
    match type of H with
    | bind_params _ ?s1 _ = Some ?s2 =>
        let Hle := fresh "Hle" in
        assert (Hle : pidx s1 <= length (positionals a)) by (cbn [bind1 pidx]; lia);
        destruct (IH s1 s2 Hle H) as (H1 & H2 & H3 & H4 & H5 & H6)
    end.

  Lemma bind_params_flags : forall s st st',
    pidx st <= npos -> bind_params a st s = Some st' ->
    params_ok (npos - pidx st) K s = true
    /\ pidx st' <= npos
    /\ npos - pidx st' = final_rem (npos - pidx st) s
    /\ (forall k, memN k (kcons st') = true -> memN k (kcons st) = true \/ kw_target s k = true)
    /\ sac st' = sac st || has_kind VP s
    /\ eka st' = eka st || has_kind VK s.
  Proof.
    destruct Hf as (Hsa & Hsk & Hpos).
    induction s as [|p r IH]; intros st st' Hle H; cbn [bind_params] in H.
    - injection H as <-. cbn. repeat split; auto; try lia; rewrite ?orb_false_r; reflexivity.
    - destruct (step a st p) as [st1|] eqn:Es; [|discriminate].
      unfold step in Es. fold npos in Es. rewrite Hsa, Hsk in Es.
      assert (Hnone : kw_lookup (pname p) (keywords a) = None -> memN (pname p) K = false).
      { intros E. destruct (memN (pname p) K) eqn:E'; [|reflexivity]. exfalso. exact (Hall _ E' E). }
      destruct (pkind p) eqn:Ek.
      + (* PO *)
        destruct (pidx st <? npos) eqn:Elt.
        * apply Nat.ltb_lt in Elt. rewrite (nth_all_true _ _ Hpos) in Es. cbn [negb andb] in Es. injection Es as <-.
          use_IH IH H. cbn [pidx kcons sac eka] in *.
          destruct (npos - pidx st) as [|n'] eqn:En; [lia|]. replace (npos - S (pidx st)) with n' in * by lia.
          cbn [params_ok final_rem has_kind existsb pred]. rewrite Ek. cbn [kind_eqb orb].
          repeat split; auto. intros k Hk. destruct (H4 k Hk) as [G|G]; [left; exact G|right; apply kw_target_tail; exact G].
        * apply Nat.ltb_ge in Elt. destruct (pdefault p) eqn:Ed; [|discriminate]. injection Es as <-.
          use_IH IH H. cbn [bind1 pidx kcons sac eka] in *.
          replace (npos - pidx st) with 0 in * by lia.
          cbn [params_ok final_rem has_kind existsb pred]. rewrite Ek, Ed. cbn [kind_eqb orb andb].
          repeat split; auto. intros k Hk. destruct (H4 k Hk) as [G|G]; [left; exact G|right; apply kw_target_tail; exact G].
      + (* POK *)
        destruct (pidx st <? npos) eqn:Elt.
        * apply Nat.ltb_lt in Elt. rewrite (nth_all_true _ _ Hpos) in Es. cbn [negb andb] in Es.
          destruct (kw_lookup (pname p) (keywords a)) eqn:El; [discriminate|]. injection Es as <-.
          use_IH IH H. cbn [pidx kcons sac eka] in *.
          destruct (npos - pidx st) as [|n'] eqn:En; [lia|]. replace (npos - S (pidx st)) with n' in * by lia.
          cbn [params_ok final_rem has_kind existsb pred]. rewrite Ek, (Hnone eq_refl). cbn [kind_eqb orb negb andb].
          repeat split; auto. intros k Hk. destruct (H4 k Hk) as [G|G]; [left; exact G|right; apply kw_target_tail; exact G].
        * apply Nat.ltb_ge in Elt. replace (npos - pidx st) with 0 by lia.
          cbn [params_ok final_rem has_kind existsb pred]. rewrite Ek. cbn [kind_eqb orb].
          destruct (kw_lookup (pname p) (keywords a)) as [dp|] eqn:El.
          -- destruct (negb dp && negb (pdefault p)) eqn:Ec; [discriminate|]. injection Es as <-.
             use_IH IH H. cbn [pidx kcons sac eka] in *.
             replace (npos - pidx st) with 0 in * by lia.
             assert (Hc : memN (pname p) K || pdefault p = true).
             { destruct dp; [rewrite (Hdef _ El); reflexivity|]. cbn [negb andb] in Ec.
               apply negb_false_iff in Ec. rewrite Ec. apply orb_true_r. }
             rewrite Hc. cbn [andb]. repeat split; auto.
             intros k Hk. destruct (H4 k Hk) as [G|G]; [|right; apply kw_target_tail; exact G].
             rewrite memN_cons in G. apply orb_true_iff in G as [G|G]; [|left; exact G].
             apply N.eqb_eq in G. subst k. right. apply kw_target_head. rewrite Ek. reflexivity.
          -- destruct (pdefault p) eqn:Ed; [|discriminate]. injection Es as <-.
             use_IH IH H. cbn [bind1 pidx kcons sac eka] in *.
             replace (npos - pidx st) with 0 in * by lia. rewrite orb_true_r. cbn [andb].
             repeat split; auto. intros k Hk. destruct (H4 k Hk) as [G|G]; [left; exact G|right; apply kw_target_tail; exact G].
      + (* VP *)
        injection Es as <-.
        use_IH IH H. cbn [pidx kcons sac eka] in *.
        replace (npos - Nat.max (pidx st) npos) with 0 in * by lia.
        rewrite (params_ok_VP _ _ _ _ Ek). cbn [final_rem has_kind existsb]. rewrite Ek. cbn [kind_eqb orb].
        repeat split; auto.
        * intros k Hk. destruct (H4 k Hk) as [G|G]; [left; exact G|right; apply kw_target_tail; exact G].
        * rewrite H5. cbn [orb]. rewrite orb_true_r. reflexivity.
      + (* KO *)
        rewrite (params_ok_KO _ _ _ _ Ek). cbn [final_rem has_kind existsb]. rewrite Ek. cbn [kind_eqb orb].
        destruct (kw_lookup (pname p) (keywords a)) as [dp|] eqn:El.
        * destruct (negb dp && negb (pdefault p)) eqn:Ec; [discriminate|]. injection Es as <-.
          use_IH IH H. cbn [pidx kcons sac eka] in *.
          assert (Hc : memN (pname p) K || pdefault p = true).
          { destruct dp; [rewrite (Hdef _ El); reflexivity|]. cbn [negb andb] in Ec.
            apply negb_false_iff in Ec. rewrite Ec. apply orb_true_r. }
          rewrite Hc. cbn [andb]. repeat split; auto.
          intros k Hk. destruct (H4 k Hk) as [G|G]; [|right; apply kw_target_tail; exact G].
          rewrite memN_cons in G. apply orb_true_iff in G as [G|G]; [|left; exact G].
          apply N.eqb_eq in G. subst k. right. apply kw_target_head. rewrite Ek. reflexivity.
        * destruct (pdefault p) eqn:Ed; [|discriminate]. injection Es as <-.
          use_IH IH H. cbn [bind1 pidx kcons sac eka] in *.
          rewrite orb_true_r. cbn [andb].
          repeat split; auto. intros k Hk. destruct (H4 k Hk) as [G|G]; [left; exact G|right; apply kw_target_tail; exact G].
      + (* VK *)
        injection Es as <-.
        use_IH IH H. cbn [pidx kcons sac eka] in *.
        rewrite (params_ok_VK _ _ _ _ Ek). cbn [final_rem has_kind existsb]. rewrite Ek. cbn [kind_eqb orb].
        repeat split; auto.
        * intros k Hk. destruct (H4 k Hk) as [G|G]; [left; exact G|right; apply kw_target_tail; exact G].
        * rewrite H6. cbn [orb]. rewrite orb_true_r. reflexivity.
  Qed.
End Flags.

Theorem possible_keywords_sound : forall s a K,
  valid_sig s = true -> flagged a -> names_nodup K = true ->
  (forall k, kw_lookup k (keywords a) = Some true -> memN k K = true) ->
  (forall k, memN k K = true -> kw_lookup k (keywords a) <> None) ->
  accepts s a = true ->
  py_bind s (length (positionals a)) K = true.
Proof.
  intros s a K Hv Hf HK Hdef Hall Hacc.
  apply (py_bind_char s _ K Hv HK).
  unfold accepts, bind, bind_with in Hacc.
  destruct (bind_params a init_state s) as [st'|] eqn:E; [|discriminate].
  destruct (finish_with eka a st') eqn:Efin; [|discriminate]. clear Hacc.
  destruct (bind_params_flags a Hf K Hdef Hall s init_state st' (Nat.le_0_l _) E) as (H1 & H2 & H3 & H4 & H5 & H6).
  cbn [pidx kcons sac eka init_state orb] in *. rewrite Nat.sub_0_r in *.
  destruct (valid_sig_facts s Hv) as (Hnd & _ & Hpre).
  destruct Hf as (Hsa & Hsk & _).
  unfold finish_with in Efin. rewrite Hsa, Hsk, H5, H6 in Efin. rewrite !andb_false_r in Efin. cbn [negb andb] in Efin.
  rewrite !andb_true_r in Efin. apply andb_true_iff in Efin as [Ef1 Ef2].
  split; [|split].
  - apply (params_ok_char s _ K Hpre). exact H1.
  - destruct (has_kind VP s) eqn:Evp; [left; reflexivity|right]. cbn [negb andb] in Ef1.
    apply negb_true_iff, negb_false_iff, Nat.eqb_eq in Ef1.
    rewrite Ef1, Nat.sub_diag in H3. rewrite (final_rem_no_vp _ _ Evp) in H3. lia.
  - destruct (has_kind VK s) eqn:Evk; [left; reflexivity|right]. cbn [negb andb] in Ef2.
    apply negb_true_iff in Ef2. intros k Hk.
    assert (Hin : memN k (map fst (keywords a)) = true).
    { specialize (Hall k Hk). destruct (memN k (map fst (keywords a))) eqn:Em; [reflexivity|].
      apply kw_lookup_none in Em. contradiction. }
    unfold has_extra_kw in Ef2.
    assert (Hc : memN k (kcons st') = true).
    { destruct (memN k (kcons st')) eqn:Ec; [reflexivity|]. exfalso.
      assert (existsb (fun n => negb (memN n (kcons st'))) (map fst (keywords a)) = true); [|congruence].
      apply existsb_exists. exists k. split; [apply memN_true_iff; exact Hin|rewrite Ec; reflexivity]. }
    destruct (H4 k Hc) as [G|G]; [discriminate|exact G].
Qed.

(* def f(a, b=0, **r): ...;  kw = {"a": 1} if c else {"a": 1, "b": 2, "z": 3};  f( **kw) *)
Example union_example :
  let s := [mkParam 1 POK false; mkParam 2 POK true; mkParam 9 VK false] in
  call_ok_u s [UKwUnion [[1%N]; [1%N; 2%N; 7%N]]] = true
  /\ py_bind s 0 [1%N] = true /\ py_bind s 0 [1%N; 2%N; 7%N] = true
  /\ call_ok_u [mkParam 1 POK false; mkParam 2 POK false] [UKwUnion [[1%N]; [1%N; 2%N]]] = false.
Proof. vm_compute. repeat split; reflexivity. Qed.
