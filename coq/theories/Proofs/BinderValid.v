(* Proofs/BinderValid.v — consequences of Signature.validate over the
   GENERATED tables (Gen/Kinds.v): what the binder theorems need
   (distinct names; no positional parameter after *args), and the
   equivalence with the grammar of `def` headers. *)
From Coq Require Import List Bool NArith PeanoNat Lia.
Import ListNotations.
Require Import PV.Binder.Kind PV.Gen.Kinds PV.Binder.Sig.
Require Import PV.Proofs.BinderConcrete.

Lemma kind_eqb_eq : forall a b, kind_eqb a b = true <-> a = b.
Proof. intros [] []; cbn; split; intros H; try reflexivity; try discriminate. Qed.

Lemma kmem_forallb : forall (f : kind -> bool) k l,
  forallb f l = true -> kmem k l = true -> f k = true.
Proof.
  intros f k l Hall Hm. unfold kmem in Hm. apply existsb_exists in Hm as [x [Hin He]].
  apply kind_eqb_eq in He. subst x. rewrite forallb_forall in Hall. auto.
Qed.

(* table fact (re-checked against the regenerated table on every run):
   only keyword-only and **kwargs parameters may follow *args *)
Lemma after_vp_not_positional : forall k,
  kmem VP (allowed_previous k) = true -> is_positional k = false.
Proof. intros []; vm_compute; intros H; try reflexivity; discriminate. Qed.

Lemma validate_after_vp : forall s seen sd,
  validate_from seen sd s = true -> kmem VP seen = true ->
  forallb (fun q => negb (is_positional (pkind q))) s = true.
Proof.
  induction s as [|p r IH]; intros seen sd Hv Hm; [reflexivity|].
  cbn [validate_from] in Hv. apply andb_true_iff in Hv as [Hstep Hrest].
  unfold validate_step in Hstep. apply andb_true_iff in Hstep as [Hstep _].
  apply andb_true_iff in Hstep as [Hprev _].
  pose proof (kmem_forallb _ _ _ Hprev Hm) as Hvp. cbn beta in Hvp.
  apply after_vp_not_positional in Hvp.
  cbn [forallb]. rewrite Hvp. cbn [negb andb].
  apply (IH _ _ Hrest). cbn [kmem existsb]. fold (kmem VP seen). rewrite Hm. apply orb_true_r.
Qed.

Lemma validate_pos_before_vp : forall s seen sd,
  validate_from seen sd s = true -> pos_before_vp s = true.
Proof.
  induction s as [|p r IH]; intros seen sd Hv; [reflexivity|].
  cbn [validate_from] in Hv. apply andb_true_iff in Hv as [_ Hrest].
  cbn [pos_before_vp]. rewrite (IH _ _ Hrest), andb_true_r.
  destruct (pkind p) eqn:Ek; try reflexivity.
  apply (validate_after_vp _ _ _ Hrest). reflexivity.
Qed.

Lemma valid_sig_shape : forall s, valid_sig s = true ->
  names_nodup (map pname s) = true /\ pos_before_vp s = true.
Proof.
  intros s H. unfold valid_sig in H. apply andb_true_iff in H as [H1 H2].
  split; [assumption|]. eapply validate_pos_before_vp; eassumption.
Qed.

Require Import PV.Binder.Bind PV.Binder.PyBind.

Theorem bind_concrete_iff_pybind : forall s a,
  valid_sig s = true -> concrete a -> names_nodup (map fst (keywords a)) = true ->
  accepts s a = py_bind s (length (positionals a)) (map fst (keywords a)).
Proof.
  intros s a Hv. destruct (valid_sig_shape s Hv). apply bind_concrete_iff_pybind_shape; assumption.
Qed.
