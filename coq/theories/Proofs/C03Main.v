(* Proofs/C03Main.v — the model of T.can_assign(KnownValue(o)) agrees with the
   membership spec on every (type, object) pair that is derivable in [ok]: an
   inductively defined guard that follows the structure of the type and carries,
   at each node, the local facts about the class table that the step needs. *)
From Coq Require Import ZArith List Bool NArith Lia.
Import ListNotations.
Require Import PV.Core.Obj PV.Core.Val PV.Core.Cls PV.Core.Member PV.Core.CanAssignK PV.Core.C03Run.
Require Import PV.Proofs.Dedup.

Section Ok.
  Context (ct : class_table).

  Inductive ok : val -> obj -> Prop :=
  | ok_any : forall s o, ok (VLeaf (LAny s)) o
  | ok_known : forall o' o, ok (VLeaf (LKnown o')) o
  | ok_knowntv : forall o' o, ok (VLeaf (LKnownTV o')) o
  | ok_typed : forall d lit o,
      nominal ct (class_of o) d = sub_promo ct (class_of o) d -> ok (VLeaf (LTyped d lit)) o
  | ok_newtype : forall n d o,
      (class_of o = d -> nominal ct d d = true) -> ok (VLeaf (LNewType n d)) o
  | ok_uninit : forall o, ok (VLeaf LUninit) o
  | ok_union : forall vs o, (forall t, In t vs -> ok t o) -> ok (VUnion vs) o
  | ok_annot : forall md t o, ok t o -> ok (VNode (TAnnot md) [t]) o
  | ok_subclass : forall ex d lit o,
      (forall c', o = OClass c' -> tassign ct c' d = sub_promo ct c' d) ->
      ok (VNode (TSubclass ex) [VLeaf (LTyped d lit)]) o
  (* C[X] against a list / tuple / set literal *)
  | ok_gen_seq : forall d X o es,
      seq_elems o = Some es -> gkind_of d = Some GKElems ->
      (issub ct (class_of o) d = true /\ gb_args ct (class_of o) d = Some [GArg 0]) \/
      (issub ct (class_of o) d = false /\ gb_args ct (class_of o) d = None /\ nominal ct (class_of o) d = false) ->
      length (dedup_lits es) = length es ->
      (forall e, In e es -> ok X e) ->
      ok (VNode (TGeneric d) [X]) o
  (* C[X] / M[K, V] against an object that is not iterable at all *)
  | ok_gen_scalar : forall d args o,
      iter_elems o = None ->
      gb_noargs ct (class_of o) d = None -> nominal ct (class_of o) d = false ->
      ok (VNode (TGeneric d) args) o
  (* M[K, V] against a list / tuple / set literal *)
  | ok_gen_seq_mapping : forall d K V o es,
      seq_elems o = Some es -> gkind_of d = Some GKMapping ->
      gb_args ct (class_of o) d = None -> nominal ct (class_of o) d = false ->
      ok (VNode (TGeneric d) [K; V]) o
  (* M[K, V] against a dict literal *)
  | ok_gen_dict : forall d K V i kvs,
      gkind_of d = Some GKMapping ->
      issub ct c_dict d = true -> gb_args ct c_dict d = Some [GArg 0; GArg 1] ->
      length (dedup_lits (map fst kvs)) = length kvs ->
      length (dedup_lits (map snd kvs)) = length kvs ->
      (forall kv, In kv kvs -> ok K (fst kv)) ->
      (forall kv, In kv kvs -> ok V (snd kv)) ->
      ok (VNode (TGeneric d) [K; V]) (ODict i kvs)
  (* C[X] against a dict literal: iteration yields the keys *)
  | ok_gen_dict_keys : forall d X i kvs,
      gkind_of d = Some GKElems ->
      (issub ct c_dict d = true /\ gb_args ct c_dict d = Some [GArg 0]) \/
      (issub ct c_dict d = false /\ gb_args ct c_dict d = None /\ nominal ct c_dict d = false) ->
      length (dedup_lits (map fst kvs)) = length kvs ->
      (forall kv, In kv kvs -> ok X (fst kv)) ->
      ok (VNode (TGeneric d) [X]) (ODict i kvs)
  (* tuple[X1, ..., Xn] without unpacked members *)
  | ok_seq : forall flags a ms o,
      all_false flags = true -> length flags = length ms ->
      tassign ct c_tuple c_tuple = true -> tassign ct c_list c_tuple = false -> tassign ct c_set c_tuple = false ->
      (forall es k X e, seq_elems o = Some es -> nth_error ms k = Some X -> nth_error es k = Some e -> ok X e) ->
      ok (VNode (TSeq c_tuple flags) (a :: ms)) o
  (* TypedDict against anything: a dict literal must have string keys only *)
  | ok_typeddict : forall keys he ro va ts o,
      (forall i kvs, o = ODict i kvs -> forallb (fun kv => is_str (fst kv)) kvs = true) ->
      (forall i kvs t kv, o = ODict i kvs -> In t ts -> In kv kvs -> ok t (snd kv)) ->
      ok (VNode (TTypedDict keys he ro) (va :: ts)) o.

  Lemma dedup_acc_length_le : forall l acc, length (dedup_acc lit_E acc l) <= length acc + length l.
  Proof.
    induction l as [|y l IHl]; intros acc; simpl; [lia|].
    destruct (mem_keys lit_E acc y); [specialize (IHl acc); lia|].
    specialize (IHl (acc ++ [y])). rewrite app_length in IHl. simpl in IHl. lia.
  Qed.

  Lemma dedup_acc_full : forall l acc,
    length (dedup_acc lit_E acc l) = length acc + length l -> dedup_acc lit_E acc l = acc ++ l.
  Proof.
    induction l as [|x l IH]; intros acc HL; simpl in *.
    - now rewrite app_nil_r.
    - destruct (mem_keys lit_E acc x) eqn:M.
      + exfalso. pose proof (dedup_acc_length_le l acc). lia.
      + rewrite IH.
        * now rewrite <- app_assoc.
        * rewrite HL, app_length. simpl. lia.
  Qed.

  Lemma forallb_dedup_safe : forall (f : obj -> bool) es,
    length (dedup_lits es) = length es -> forallb f (dedup_lits es) = forallb f es.
  Proof.
    intros f es H. unfold dedup_lits, dedup in *. rewrite (dedup_acc_full es []); auto.
  Qed.

  Lemma forallb_ext_in2 : forall {A} (f g : A -> bool) l,
    (forall x, In x l -> f x = g x) -> forallb f l = forallb g l.
  Proof. induction l; simpl; intros H; auto. rewrite H by auto. f_equal. apply IHl. auto. Qed.

  Lemma forallb_map_eq : forall {A B} (f : B -> bool) (g : A -> B) l,
    forallb f (map g l) = forallb (fun x => f (g x)) l.
  Proof. induction l; simpl; auto. now rewrite IHl. Qed.

  (* fixed-length tuples: both sides are length check + pairwise *)
  Lemma seq_go_mseq : forall ms flags es,
    all_false flags = true -> length flags = length ms ->
    (forall k X e, nth_error ms k = Some X -> nth_error es k = Some e -> ca ct X e = member ct X e) ->
    Nat.eqb (length ms) (length es) &&
    (fix go (fl : list bool) (ms : list val) (es : list obj) {struct ms} : bool :=
       match ms, fl, es with
       | X :: ms', f :: fl', e :: es' => negb f && ca ct X e && go fl' ms' es'
       | [], _, _ => true
       | _, _, _ => false
       end) flags ms es
    =
    (fix mseq (fl : list bool) (ms : list val) (es : list obj) {struct ms} : bool :=
       match ms, fl with
       | [], _ => match es with [] => true | _ => false end
       | X :: ms', false :: fl' =>
           match es with e :: es' => member ct X e && mseq fl' ms' es' | [] => false end
       | X :: ms', true :: fl' =>
           (fix star (es : list obj) : bool :=
              mseq fl' ms' es ||
              match es with e :: es' => member ct X e && star es' | [] => false end) es
       | _ :: _, [] => false
       end) flags ms es.
  Proof.
    induction ms as [|X ms IH]; intros flags es Hf Hl Hp.
    - destruct es; reflexivity.
    - destruct flags as [|f flags]; [discriminate|]. simpl in Hf, Hl.
      apply andb_true_iff in Hf. destruct Hf as [Hf1 Hf]. destruct f; [discriminate|].
      destruct es as [|e es].
      + reflexivity.
      + assert (Hh : ca ct X e = member ct X e) by (apply (Hp 0 X e); reflexivity).
        specialize (IH flags es Hf (eq_add_S _ _ Hl)
                      (fun k X' e' H1 H2 => Hp (S k) X' e' H1 H2)).
        cbn [length Nat.eqb negb andb]. rewrite Hh.
        destruct (member ct X e); cbn [andb].
        * exact IH.
        * now rewrite andb_false_r.
  Qed.

  Lemma dict_get_in : forall k kvs v, dict_get k kvs = Some v -> exists kv, In kv kvs /\ snd kv = v.
  Proof.
    induction kvs as [|[k' v'] kvs IH]; intros v H; simpl in H; [discriminate|].
    destruct (py_eq k' k).
    - injection H as <-. exists (k', v'). split; [left; reflexivity|reflexivity].
    - destruct (IH v H) as [kv [Hin Hs]]. exists kv. split; [right; exact Hin|exact Hs].
  Qed.

  (* the TypedDict walks of model and spec agree when they agree on (entry type, value) pairs *)
  Lemma tdgo_eq : forall (allkeys : list (N * (bool * bool))) (he : bool) kvs ts ks,
    (forall t kv, In t ts -> In kv kvs -> ca ct t (snd kv) = member ct t (snd kv)) ->
    (fix tdgo (ks : list (N * (bool * bool))) (ts : list val) {struct ts} : bool :=
       match ks, ts with
       | (k, (req, _)) :: ks', t :: ts' =>
           match dict_get (OStr [k]) kvs with
           | Some v => ca ct t v
           | None => negb req
           end && tdgo ks' ts'
       | [], [ext] =>
           if he then forallb (fun kv => key_named allkeys (fst kv) || ca ct ext (snd kv)) kvs else false
       | [], [] => negb he
       | _, _ => false
       end) ks ts
    =
    (fix tdgo (ks : list (N * (bool * bool))) (ts : list val) {struct ts} : bool :=
       match ks, ts with
       | (k, (req, _)) :: ks', t :: ts' =>
           match dict_get (OStr [k]) kvs with
           | Some v => member ct t v
           | None => negb req
           end && tdgo ks' ts'
       | [], [ext] =>
           if he then forallb (fun kv => key_named allkeys (fst kv) || member ct ext (snd kv)) kvs else false
       | [], [] => negb he
       | _, _ => false
       end) ks ts.
  Proof.
    intros allkeys he kvs ts. induction ts as [|t ts IH]; intros ks H.
    - destruct ks as [|[k [req ro]] ks]; reflexivity.
    - destruct ks as [|[k [req ro]] ks].
      + destruct ts; [|reflexivity]. destruct he; [|reflexivity].
        apply forallb_ext_in2. intros kv Hkv. f_equal. apply H; [left; reflexivity|exact Hkv].
      + rewrite (IH ks) by (intros t' kv Ht Hkv; apply H; [right; exact Ht|exact Hkv]).
        f_equal. destruct (dict_get (OStr [k]) kvs) as [v|] eqn:D; [|reflexivity].
        destruct (dict_get_in _ _ _ D) as [kv [Hin Hs]]. rewrite <- Hs. apply H; [left; reflexivity|exact Hin].
  Qed.

  Theorem ok_ca_member : forall T o, ok T o -> ca ct T o = member ct T o.
  Proof.
    intros T o H. induction H as
      [s o|o' o|o' o|d lit o Hn|n d o Hn|o|vs o Hv IHv|md t o Ht IHt|ex d lit o Hc
      |d X o es Hse Hk Htab Hd He IHe|d args o Hit Hgb Hnom|d K V o es Hse Hk Hgb Hnom
      |d K V i kvs Hk Hsub Hgb Hdk Hdv HeK IHeK HeV IHeV|d X i kvs Hk Htab Hdk He IHe
      |flags a ms o Hf Hl Htt Hlt Hst He IHe
      |keys he ro va ts o Hstr Hent IHent].
    - reflexivity.
    - reflexivity.
    - reflexivity.
    - simpl. exact Hn.
    - simpl. destruct (N.eqb (class_of o) d) eqn:E; [|reflexivity].
      apply N.eqb_eq in E. rewrite E. now rewrite Hn.
    - reflexivity.
    - simpl. induction vs as [|t vs IHl]; [reflexivity|].
      rewrite (IHv t (or_introl eq_refl)). f_equal. apply IHl; intros; [apply Hv|apply IHv]; right; auto.
    - simpl. exact IHt.
    - simpl. destruct o; try reflexivity. apply Hc. reflexivity.
    - (* C[X] vs sequence literal *)
      assert (Hit : iter_elems o = Some es) by (destruct o; simpl in Hse |- *; try discriminate; exact Hse).
      assert (Hca : ca ct (VNode (TGeneric d) [X]) o =
                    match gb_args ct (class_of o) d with
                    | Some gs => if Nat.eqb 1 (length gs) then
                                   match gs with
                                   | GCls c' :: _ => ca_typed ct X c' && true
                                   | GAnyv :: _ => true
                                   | GArg _ :: _ => forallb (ca ct X) (dedup_lits es) && true
                                   | [] => true
                                   end
                                 else nominal ct (class_of o) d
                    | None => nominal ct (class_of o) d
                    end).
      { destruct o; simpl in Hse; try discriminate; injection Hse as <-; simpl;
          destruct (gb_args ct _ d) as [gs|]; try reflexivity;
          destruct (Nat.eqb 1 (length gs)); try reflexivity;
          destruct gs as [|[j|c'|] gs']; reflexivity. }
      rewrite Hca. cbn [member]. rewrite Hk, Hit.
      destruct Htab as [[Hs Hg]|[Hs [Hg Hnom]]]; rewrite Hs, Hg.
      + cbn [length Nat.eqb andb]. rewrite andb_true_r.
        rewrite forallb_dedup_safe by exact Hd. apply forallb_ext_in2. exact IHe.
      + rewrite Hnom. reflexivity.
    - (* generic vs non-iterable *)
      assert (Hca : ca ct (VNode (TGeneric d) args) o = nominal ct (class_of o) d).
      { destruct o; simpl in Hit; try discriminate; cbn [ca class_of] in *; rewrite Hgb; reflexivity. }
      rewrite Hca, Hnom. cbn [member].
      destruct (issub ct (class_of o) d); [|reflexivity]. cbn [andb].
      destruct (gkind_of d) as [[|]|]; try reflexivity.
      + destruct args as [|X [|Y r]]; try reflexivity. now rewrite Hit.
      + destruct args as [|K [|V [|Z r]]]; try reflexivity. destruct o; try reflexivity. discriminate.
    - (* mapping vs sequence literal *)
      assert (Hca : ca ct (VNode (TGeneric d) [K; V]) o = nominal ct (class_of o) d).
      { destruct o; simpl in Hse; try discriminate; cbn [ca class_of] in *; rewrite Hgb; reflexivity. }
      rewrite Hca, Hnom. cbn [member]. rewrite Hk.
      destruct o; simpl in Hse; try discriminate; now rewrite andb_false_r.
    - (* mapping vs dict literal *)
      cbn [ca class_of]. rewrite Hgb. cbn [length Nat.eqb andb].
      cbn [member class_of]. rewrite Hk, Hsub. cbn [andb].
      rewrite !forallb_dedup_safe by (rewrite ?map_length; assumption).
      rewrite andb_true_r.
      assert (F1 : forallb (ca ct K) (map fst kvs) = forallb (fun kv => member ct K (fst kv)) kvs).
      { rewrite forallb_map_eq. apply forallb_ext_in2. intros kv Hkv. apply (IHeK kv Hkv). }
      assert (F2 : forallb (ca ct V) (map snd kvs) = forallb (fun kv => member ct V (snd kv)) kvs).
      { rewrite forallb_map_eq. apply forallb_ext_in2. intros kv Hkv. apply (IHeV kv Hkv). }
      rewrite F1, F2. clear. induction kvs as [|kv kvs IH]; [reflexivity|]. simpl. rewrite <- IH.
      destruct (member ct K (fst kv)), (member ct V (snd kv)); simpl; auto.
      now rewrite andb_false_r.
    - (* elements generic vs dict literal *)
      cbn [ca class_of member]. rewrite Hk.
      destruct Htab as [[Hs Hg]|[Hs [Hg Hnom]]]; rewrite Hs, Hg.
      + cbn [length Nat.eqb andb iter_elems]. rewrite andb_true_r.
        rewrite forallb_dedup_safe by (rewrite map_length; assumption).
        rewrite forallb_map_eq. rewrite forallb_map_eq. apply forallb_ext_in2. intros kv Hkv. apply (IHe kv Hkv).
      + rewrite Hnom. reflexivity.
    - (* fixed tuple *)
      cbn [ca member]. rewrite N.eqb_refl. cbn [andb].
      destruct o; try reflexivity.
      + cbn [class_of]. rewrite Htt. cbn [andb].
        apply seq_go_mseq; auto. intros k X e H1 H2. eapply IHe; eauto. reflexivity.
      + cbn [class_of]. rewrite Hlt. reflexivity.
      + cbn [class_of]. rewrite Hst. reflexivity.
    - (* TypedDict *)
      cbn [ca member]. destruct o; try reflexivity.
      rewrite (Hstr id kvs eq_refl). cbn [andb].
      apply tdgo_eq. intros t kv Ht Hkv. eapply IHent; eauto.
  Qed.
End Ok.
