(* Proofs/C03Okb.v — the boolean procedure okb (Core/C03Run.v) decides the guard [ok]
   soundly: okb ct T o = true -> ok ct T o.  Hence okb is an executable guard of
   C03_known_assign_iff_member_partial, evaluated by the harness on every case. *)
From Coq Require Import ZArith List Bool NArith Lia.
Import ListNotations.
Require Import PV.Core.Obj PV.Core.Val PV.Core.Cls PV.Core.Member PV.Core.CanAssignK PV.Core.C03Run.
Require Import PV.Proofs.ValInd PV.Proofs.C03Main.

Lemma garg_list_eqb_eq : forall a b, garg_list_eqb a b = true -> a = b.
Proof.
  induction a as [|x a IH]; destruct b as [|y b]; simpl; intros H; try discriminate; auto.
  - destruct x; discriminate.
  - destruct x, y; try discriminate.
    + apply andb_true_iff in H. destruct H as [H1 H2]. apply Nat.eqb_eq in H1. subst. f_equal. auto.
    + apply andb_true_iff in H. destruct H as [H1 H2]. apply N.eqb_eq in H1. subst. f_equal. auto.
    + f_equal. auto.
Qed.

Lemma opt_gargs_eqb_eq : forall x y, opt_gargs_eqb x y = true -> x = y.
Proof.
  intros [a|] [b|] H; simpl in H; try discriminate; auto. f_equal. now apply garg_list_eqb_eq.
Qed.

Section Sound.
  Context (ct : class_table).

  Lemma elems_table_ok_spec : forall c d, elems_table_ok ct c d = true ->
    (issub ct c d = true /\ gb_args ct c d = Some [GArg 0]) \/
    (issub ct c d = false /\ gb_args ct c d = None /\ nominal ct c d = false).
  Proof.
    intros c d H. unfold elems_table_ok in H. apply orb_true_iff in H. destruct H as [H|H].
    - apply andb_true_iff in H. destruct H as [H1 H2]. left. split; auto. now apply opt_gargs_eqb_eq.
    - apply andb_true_iff in H. destruct H as [H H3]. apply andb_true_iff in H. destruct H as [H1 H2].
      right. repeat split.
      + now apply negb_true_iff.
      + now apply opt_gargs_eqb_eq.
      + now apply negb_true_iff.
  Qed.

  Theorem okb_sound : forall T o, okb ct T o = true -> ok ct T o.
  Proof.
    induction T as [l|t k IH|vs IH] using val_ind'; intros o H.
    - destruct l; cbn [okb] in H.
      + constructor.
      + constructor.
      + constructor.
      + apply ok_typed. now apply eqb_prop.
      + apply ok_newtype. intros E. apply N.eqb_eq in E. rewrite E in H. exact H.
      + constructor.
    - rewrite Forall_forall in IH.
      destruct t; cbn [okb] in H; try discriminate H.
      + (* Generic *)
        destruct (seq_elems o) as [es|] eqn:Se.
        * destruct (gkind_of c) as [[|]|] eqn:Gk; try discriminate H.
          -- destruct k as [|X [|Y r]]; try discriminate H.
             apply andb_true_iff in H. destruct H as [H H3]. apply andb_true_iff in H. destruct H as [H1 H2].
             eapply ok_gen_seq; eauto.
             ++ apply elems_table_ok_spec. exact H1.
             ++ now apply Nat.eqb_eq.
             ++ rewrite forallb_forall in H3. intros e He. apply (IH X (or_introl eq_refl)). apply H3. exact He.
          -- destruct k as [|K [|V [|Z r]]]; try discriminate H.
             apply andb_true_iff in H. destruct H as [H1 H2].
             eapply ok_gen_seq_mapping; eauto.
             ++ now apply opt_gargs_eqb_eq.
             ++ now apply negb_true_iff.
        * destruct o; try discriminate Se;
            try (cbn [iter_elems] in H; apply andb_true_iff in H; destruct H as [H1 H2];
                 apply ok_gen_scalar; [reflexivity|now apply opt_gargs_eqb_eq|now apply negb_true_iff]);
            try discriminate H.
          (* dict literal *)
          destruct (gkind_of c) as [[|]|] eqn:Gk; try discriminate H.
          -- destruct k as [|X [|Y r]]; try discriminate H.
             apply andb_true_iff in H. destruct H as [H H3]. apply andb_true_iff in H. destruct H as [H1 H2].
             apply ok_gen_dict_keys; auto.
             ++ apply elems_table_ok_spec. exact H1.
             ++ now apply Nat.eqb_eq.
             ++ rewrite forallb_forall in H3. intros kv Hkv. apply (IH X (or_introl eq_refl)). apply H3. exact Hkv.
          -- destruct k as [|K [|V [|Z r]]]; try discriminate H.
             repeat (apply andb_true_iff in H; let H' := fresh "Hc" in destruct H as [H H']).
             apply ok_gen_dict; auto.
             ++ now apply opt_gargs_eqb_eq.
             ++ now apply Nat.eqb_eq.
             ++ now apply Nat.eqb_eq.
             ++ rewrite forallb_forall in Hc0. intros kv Hkv. apply (IH K (or_introl eq_refl)). apply Hc0. exact Hkv.
             ++ rewrite forallb_forall in Hc. intros kv Hkv. apply (IH V (or_intror (or_introl eq_refl))). apply Hc. exact Hkv.
      + (* Seq *)
        destruct k as [|a ms]; [discriminate H|].
        repeat (apply andb_true_iff in H; let H' := fresh "Hc" in destruct H as [H H']).
        apply N.eqb_eq in H. subst c.
        apply ok_seq; auto.
        * now apply Nat.eqb_eq.
        * now apply negb_true_iff.
        * now apply negb_true_iff.
        * intros es j X e Hse. rewrite Hse in Hc.
          assert (G : forall ms' es', (forall x, In x ms' -> In x ms) ->
                      (fix go (ms : list val) (es : list obj) {struct ms} : bool :=
                         match ms, es with
                         | X :: ms', e :: es' => okb ct X e && go ms' es'
                         | _, _ => true
                         end) ms' es' = true ->
                      forall j X e, nth_error ms' j = Some X -> nth_error es' j = Some e -> ok ct X e).
          { induction ms' as [|m ms' IHm]; intros es' Hin Hgo j0 X0 e0 H1 H2.
            - destruct j0; discriminate H1.
            - destruct es' as [|e1 es']; [destruct j0; discriminate H2|].
              apply andb_true_iff in Hgo. destruct Hgo as [G1 G2].
              destruct j0 as [|j0]; simpl in H1, H2.
              + injection H1 as <-. injection H2 as <-. apply (IH m); [right; apply Hin; left; reflexivity|exact G1].
              + eapply IHm; eauto. intros x Hx. apply Hin. right; exact Hx. }
          exact (G ms es (fun x Hx => Hx) Hc j X e).
      + (* TypedDict *)
        destruct k as [|va ts]; [discriminate H|].
        apply ok_typeddict.
        * intros i kvs ->. apply andb_true_iff in H. tauto.
        * intros i kvs t kv -> Ht Hkv. apply andb_true_iff in H. destruct H as [_ H].
          assert (G : forall l, (forall x, In x l -> In x ts) ->
                      (fix all (l : list val) : bool :=
                         match l with [] => true | t :: r => forallb (fun kv => okb ct t (snd kv)) kvs && all r end) l = true ->
                      forall t, In t l -> forallb (fun kv => okb ct t (snd kv)) kvs = true).
          { induction l as [|x l IHl]; intros Hin Hall t0 Ht0; [destruct Ht0|].
            apply andb_true_iff in Hall. destruct Hall as [A1 A2]. destruct Ht0 as [<-|Ht0]; [exact A1|].
            apply IHl; auto. intros y Hy. apply Hin. right; exact Hy. }
          specialize (G ts (fun x Hx => Hx) H t Ht). rewrite forallb_forall in G.
          apply (IH t (or_intror Ht)). apply G. exact Hkv.
      + (* Subclass *)
        destruct k as [|t0 [|t1 r]]; try (simpl in H; discriminate H);
          [|destruct t0 as [[]| |]; simpl in H; discriminate H].
        destruct t0 as [l0| |]; try (simpl in H; discriminate H).
        destruct l0; try (simpl in H; discriminate H).
        simpl in H. apply ok_subclass. intros c' ->. now apply eqb_prop.
      + (* Annot *)
        destruct k as [|t0 [|t1 r]]; try (simpl in H; discriminate H).
        cbv iota beta in H. apply ok_annot. apply (IH t0 (or_introl eq_refl)). exact H.
    - (* Union *)
      rewrite Forall_forall in IH. apply ok_union. intros t Ht.
      cbn [okb] in H. induction vs as [|x vs IHvs]; [destruct Ht|].
      apply andb_true_iff in H. destruct H as [H1 H2]. destruct Ht as [<-|Ht].
      + apply (IH x (or_introl eq_refl)). exact H1.
      + apply IHvs; auto. intros y Hy. apply IH. right; exact Hy.
  Qed.

  (* the decidable form of C03's main theorem *)
  Corollary okb_ca_member : forall T o, okb ct T o = true -> ca ct T o = member ct T o.
  Proof. intros T o H. apply ok_ca_member. now apply okb_sound. Qed.
End Sound.
