(* Proofs/C03Witness.v — full statement, refutations on the generated class table,
   table facts and a non-trivial inhabitant of the guard. *)
From Coq Require Import ZArith List Bool NArith Lia.
Import ListNotations.
Require Import PV.Core.Obj PV.Core.Val PV.Core.Cls PV.Core.Member PV.Core.CanAssignK PV.Core.C03Run.
Require Import PV.Proofs.C03Main PV.Proofs.C03Okb PV.Gen.ClassTable.

Definition c03_full_statement : Prop := forall T o, ca table T o = member table T o.

Definition t_int := VLeaf (LTyped c_int false).
Definition t_str := VLeaf (LTyped c_str false).
Definition t_bool := VLeaf (LTyped c_bool false).
Definition tup2 (x y : val) := VNode (TSeq c_tuple [false; false]) [VUnion [x; y]; x; y].

(* tuple[int, *tuple[str, ...]] (as the checker reads it) rejects (1, "a") *)
Lemma variadic_member_refuted : ~ c03_full_statement.
Proof.
  intros H.
  specialize (H (VNode (TSeq c_tuple [false; true]) [VUnion [t_int; t_str]; t_int; t_str])
                (OTuple 0 [OInt 1; OStr [97%N]])).
  vm_compute in H. discriminate.
Qed.

(* repaired (repo_fixes/C14-known-value-eq-nested-types.diff): [(1, True), (1, 1)] is no longer
   accepted as list[tuple[int, bool]] — the two element literals are different KnownValues now *)
Lemma literal_dedup_repaired :
  let T := VNode (TGeneric c_list) [tup2 t_int t_bool] in
  let o := OList 1 [OTuple 0 [OInt 1; OBool true]; OTuple 0 [OInt 1; OInt 1]] in
  ca table T o = false /\ member table T o = false /\ dedup_lits [OTuple 0 [OInt 1; OBool true]; OTuple 0 [OInt 1; OInt 1]] = [OTuple 0 [OInt 1; OBool true]; OTuple 0 [OInt 1; OInt 1]].
Proof. vm_compute. repeat split; reflexivity. Qed.

(* {"a": 1, 5: 6} is accepted as TypedDict({"a": int}) *)
Lemma typeddict_nonstr_key_refuted : ~ c03_full_statement.
Proof.
  intros H.
  specialize (H (VNode (TTypedDict [(97%N, (true, false))] false false) [t_int; t_int])
                (ODict 1 [(OStr [97%N], OInt 1); (OInt 5, OInt 6)])).
  vm_compute in H. discriminate.
Qed.

(* "" is rejected for Collection[bool] although it has no element outside bool *)
Lemma str_by_type_refuted : ~ c03_full_statement.
Proof.
  intros H. specialize (H (VNode (TGeneric c_Collection) [t_bool]) (OStr [])).
  vm_compute in H. discriminate.
Qed.

(* ---- facts about the generated table that discharge the side conditions of [ok] ---- *)
Definition instance_classes : list N :=
  [c_int; c_bool; c_float; c_complex; c_str; c_bytes; c_tuple; c_list; c_set; c_frozenset; c_dict; c_type;
   c_NoneType; 40; 41; 42; 43; 44; 45; 46; 50; 51; 52; 53; 54; 55; 56; 57; 58; 59]%N.

(* for every class that has instances in the universe and every class of the
   universe, the implementation's nominal verdict is subclassing + promotion *)
Lemma table_nominal_ok :
  forallb (fun c => forallb (fun d => Bool.eqb (nominal table c d) (sub_promo table c d)) classes) instance_classes = true.
Proof. vm_compute. reflexivity. Qed.

(* the generic bases of list / tuple / set / dict literals are what the spec's kinds expect *)
Definition seq_table_ok (c d : N) : bool :=
  match gkind_of d with
  | Some GKElems =>
      if issub table c d
      then match gb_args table c d with Some [GArg 0] => true | _ => false end
      else match gb_args table c d with None => negb (nominal table c d) | _ => false end
  | Some GKMapping =>
      if issub table c d
      then match gb_args table c d with Some [GArg 0; GArg 1] => true | _ => false end
      else match gb_args table c d with None => negb (nominal table c d) | _ => false end
  | None => true
  end.

(* Reversible is left out: dict is Reversible at run time but get_generic_bases has no entry,
   so Reversible[X] accepts every dict literal without looking at its keys *)
Definition generic_targets : list N :=
  [c_list; c_set; c_frozenset; c_tuple; c_Iterable; c_Collection; c_Sequence; c_MutableSequence; c_AbstractSet;
   c_Container; c_MutableSet; c_dict; c_Mapping; c_MutableMapping].

Lemma table_generic_ok :
  forallb (fun c => forallb (seq_table_ok c) generic_targets) [c_list; c_tuple; c_set; c_frozenset; c_dict] = true.
Proof. vm_compute. reflexivity. Qed.

(* a non-trivial inhabitant: list[int | None] and [1, True, None] *)
Definition ex_T := VNode (TGeneric c_list) [VUnion [t_int; VLeaf (LKnown ONone)]].
Definition ex_o := OList 1 [OInt 1; OBool true; ONone].

Lemma guard_inhabited : ok table ex_T ex_o /\ ca table ex_T ex_o = true /\ member table ex_T ex_o = true.
Proof.
  split; [|split; vm_compute; reflexivity].
  eapply ok_gen_seq with (es := [OInt 1; OBool true; ONone]).
  - reflexivity.
  - reflexivity.
  - left. split; vm_compute; reflexivity.
  - vm_compute. reflexivity.
  - intros e He. apply ok_union. intros t Ht.
    destruct Ht as [<-|[<-|[]]].
    + apply ok_typed. destruct He as [<-|[<-|[<-|[]]]]; vm_compute; reflexivity.
    + apply ok_known.
Qed.

(* the decision procedure accepts non-trivial pairs on the generated table, incl. a TypedDict *)
Definition ex_td := VNode (TTypedDict [(97%N, (true, false)); (98%N, (false, false))] false false)
                          [VUnion [t_int; t_str]; t_int; t_str].             (* TypedDict({"a": int, "b": NotRequired[str]}) *)
Definition ex_td_obj := ODict 1 [(OStr [97%N], OBool true)].
Definition ex_T2 := VUnion [VNode (TGeneric c_dict) [t_str; tup2 t_int (VLeaf (LKnown ONone))]; ex_td].
Definition ex_o2 := ODict 2 [(OStr [107%N], OTuple 0 [OInt 1; ONone])].

Lemma okb_examples :
  okb table ex_T ex_o = true /\ okb table ex_td ex_td_obj = true /\ ca table ex_td ex_td_obj = true /\
  okb table ex_T2 ex_o2 = true /\ member table ex_T2 ex_o2 = true.
Proof. vm_compute. repeat split; reflexivity. Qed.
