(* Proofs/C04Laws.v — the algebraic laws of the can_assign model, for every class
   table and every fuel (one unfolding step), plus table obligations. *)
From Coq Require Import ZArith List Bool NArith Lia.
Import ListNotations.
Require Import PV.Core.Obj PV.Core.Val PV.Core.Cls PV.Core.Member PV.Core.CanAssignK PV.Core.CanAssign.

(* a value with one of the modelled heads that is not an AnnotatedValue *)
Definition head_ok (A : val) : bool :=
  match A with
  | VLeaf _ => true
  | VUnion _ => true
  | VNode (TSubclass _) [_] => true
  | VNode (TGeneric _) _ => true
  | VNode (TSeq _ _) (_ :: _) => true
  | _ => false
  end.

(* neither a union, an annotated value nor Any *)
Definition plain (B : val) : bool :=
  match B with
  | VUnion _ => false
  | VNode (TAnnot _) _ => false
  | VLeaf (LAny _) => false
  | _ => true
  end.

Section Laws.
  Context (ct : class_table).

  (* a union on the right is accepted exactly when each member is *)
  Lemma union_right_iff_all : forall n e A bs,
    head_ok A = true ->
    can_assign_f ct (S n) e A (VUnion bs) = forallb (can_assign_f ct n e A) bs.
  Proof.
    intros n e A bs H.
    destruct A as [l|t k|vs]; try discriminate.
    - destruct l; reflexivity.
    - destruct t; try discriminate.
      + reflexivity.
      + destruct k as [|a ms]; [discriminate|]. reflexivity.
      + destruct k as [|t0 [|t1 r]]; try discriminate. reflexivity.
    - reflexivity.
  Qed.

  (* Never is accepted by everything *)
  Lemma never_bottom : forall n e A, head_ok A = true -> can_assign_f ct (S n) e A VNever = true.
  Proof. intros n e A H. unfold VNever. rewrite union_right_iff_all by exact H. reflexivity. Qed.

  (* a union accepts whatever one of its members accepts (plain right-hand sides: the
     verdict IS the disjunction) *)
  Lemma union_left_iff_some : forall n e vs B,
    plain B = true ->
    can_assign_f ct (S n) e (VUnion vs) B = existsb (fun a => can_assign_f ct n e a B) vs.
  Proof.
    intros n e vs B H. destruct B as [l|t k|bs]; try discriminate.
    - destruct l; try discriminate; reflexivity.
    - destruct t; try discriminate; try reflexivity.
  Qed.

  (* ... and for a union on the right, through the previous law *)
  Lemma union_left_if_some_union : forall n e vs a bs,
    In a vs -> head_ok a = true -> forallb plain bs = true ->
    can_assign_f ct (S (S n)) e a (VUnion bs) = true ->
    can_assign_f ct (S (S (S n))) e (VUnion vs) (VUnion bs) = true.
  Proof.
    intros n e vs a bs Ha Hh Hp H.
    rewrite union_right_iff_all in H by exact Hh.
    rewrite union_right_iff_all by reflexivity.
    rewrite forallb_forall in *. intros b Hb.
    rewrite union_left_iff_some by (apply Hp; exact Hb).
    apply existsb_exists. exists a. split; auto.
  Qed.

  (* Any is accepted by every value (normal mode) ... *)
  Lemma any_right : forall n A s, head_ok A = true -> can_assign_f ct (S n) false A (VLeaf (LAny s)) = true.
  Proof.
    intros n A s H. destruct A as [l|t k|vs]; try discriminate.
    - destruct l; reflexivity.
    - destruct t; try discriminate.
      + reflexivity.
      + destruct k as [|a ms]; [discriminate|]. reflexivity.
      + destruct k as [|t0 [|t1 r]]; try discriminate. reflexivity.
    - reflexivity.
  Qed.

  (* ... and accepts every plain value, in both modes *)
  Lemma any_left : forall n e s B, plain B = true -> can_assign_f ct (S n) e (VLeaf (LAny s)) B = true.
  Proof.
    intros n e s B H. destruct B as [l|t k|bs]; try discriminate.
    - destruct l; reflexivity.
    - destruct t; try discriminate; reflexivity.
  Qed.

  (* under an AnnotatedValue the verdict is the inner verdict *)
  Lemma annotated_left : forall n e md t B,
    can_assign_f ct (S n) e (VNode (TAnnot md) [t]) B = can_assign_f ct n e t B.
  Proof. reflexivity. Qed.
End Laws.
