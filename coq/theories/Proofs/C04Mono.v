(* Proofs/C04Mono.v — switching on "Any only matches Any" never turns a rejection into
   an acceptance.  Proved per component of the step function (base rule, TypedValue
   path, GenericValue path, dispatch), each monotone in the recursive calls. *)
From Coq Require Import ZArith List Bool NArith Lia.
Import ListNotations.
Require Import PV.Core.Obj PV.Core.Val PV.Core.Cls PV.Core.Member PV.Core.CanAssignK PV.Core.CanAssign.

Lemma forallb_mono : forall {A} (f g : A -> bool) l,
  (forall x, f x = true -> g x = true) -> forallb f l = true -> forallb g l = true.
Proof.
  induction l; simpl; intros H F; auto. apply andb_true_iff in F. destruct F as [F1 F2].
  rewrite (H _ F1). simpl. auto.
Qed.

Lemma existsb_mono : forall {A} (f g : A -> bool) l,
  (forall x, f x = true -> g x = true) -> existsb f l = true -> existsb g l = true.
Proof.
  induction l; simpl; intros H F; auto. apply orb_true_iff in F. destruct F as [F|F].
  - rewrite (H _ F). reflexivity.
  - rewrite IHl by auto. apply orb_true_r.
Qed.

Ltac dm :=
  match goal with
  | H : context [match ?x with _ => _ end] |- _ => destruct x
  | |- context [match ?x with _ => _ end] => destruct x
  end.

(* conversion hint only: keep the kernel from unfolding the fuelled equality test while it
   re-checks the case analyses (no effect on what is proved) *)
Local Strategy opaque [veq veq_f].

Section Mono.
  Context (ct : class_table) (r1 r2 : val -> val -> bool).
  Context (Hr : forall A B, r1 A B = true -> r2 A B = true).
  (* the goal side excludes Any only if the hypothesis side does *)
  Context (e1 e2 : bool) (He : e2 = true -> e1 = true).

  Lemma base_mono : forall A B, base_rule e1 r1 A B = true -> base_rule e2 r2 A B = true.
  Proof.
    intros A B H. unfold base_rule in *.
    destruct B as [l|t k|vs].
    - destruct l; try exact H.
      destruct e2; [rewrite (He eq_refl) in H; exact H|reflexivity].
    - destruct t; try exact H. destruct k as [|b [|c r]]; try exact H. apply Hr; exact H.
    - revert H. apply forallb_mono. intros x. apply Hr.
  Qed.

  Ltac tv := cbv beta iota delta [typed_view] in *.

  Lemma typed_mono : forall A B d lit,
    typed_path ct e1 r1 A B d lit = true -> typed_path ct e2 r2 A B d lit = true.
  Proof.
    intros A B d lit H. unfold typed_path in *.
    destruct B as [l|t k|vs].
    - destruct l; tv.
      + apply base_mono; exact H.
      + exact H.
      + exact H.
      + exact H.
      + exact H.
      + apply base_mono; exact H.
    - destruct t; tv.
      + exact H.
      + destruct k; [apply base_mono; exact H|exact H].
      + destruct k as [|a [|b r]]; [apply base_mono; exact H|apply base_mono; exact H|exact H].
      + apply base_mono; exact H.
      + destruct k as [|t0 [|t1 r]]; [apply base_mono; exact H| |apply base_mono; exact H].
        destruct t0 as [l0|t0' k0|vs0].
        * destruct l0; [reflexivity|apply base_mono; exact H|apply base_mono; exact H|exact H|exact H|apply base_mono; exact H].
        * destruct t0'; [exact H|exact H|apply base_mono; exact H|apply base_mono; exact H|apply base_mono; exact H|apply base_mono; exact H|reflexivity|apply base_mono; exact H].
        * apply base_mono; exact H.
      + apply base_mono; exact H.
      + apply base_mono; exact H.
      + apply base_mono; exact H.
    - tv. apply base_mono; exact H.
  Qed.

  Lemma generic_mono : forall A B d args,
    generic_path ct e1 r1 A B d args = true -> generic_path ct e2 r2 A B d args = true.
  Proof.
    intros A B d args H. unfold generic_path in *.
    destruct (typed_view (expand_known (strip_annot B))) as [[[c bargs] has_args]|]; [|apply typed_mono; exact H].
    destruct (if has_args then gb_args ct c d else gb_noargs ct c d) as [gs|]; [|apply typed_mono; exact H].
    destruct (Nat.eqb (length args) (length gs)); [|apply typed_mono; exact H].
    apply andb_true_iff in H. destruct H as [H1 H2]. apply andb_true_iff. split; auto.
    revert H2. apply forallb_mono. intros p. apply Hr.
  Qed.

  Lemma step_mono : forall A B, ca_step ct e1 r1 A B = true -> ca_step ct e2 r2 A B = true.
  Proof.
    intros A B H. unfold ca_step in *.
    destruct A as [l|t k|vs].
    - destruct l.
      + destruct B as [lb|tb kb|vb]; [reflexivity| |apply base_mono; exact H]. destruct tb; try reflexivity. apply base_mono; exact H.
      + destruct B as [lb|tb kb|vb]; [|apply base_mono; exact H|apply base_mono; exact H].
        destruct lb; try exact H; apply base_mono; exact H.
      + destruct B as [lb|tb kb|vb]; [|apply base_mono; exact H|apply base_mono; exact H].
        destruct lb; try exact H; apply base_mono; exact H.
      + apply typed_mono; exact H.
      + destruct B as [lb|tb kb|vb].
        * destruct lb; tv.
          -- apply typed_mono; exact H.
          -- exact H.
          -- exact H.
          -- apply andb_true_iff in H. destruct H as [H1 H2]. apply andb_true_iff. split; [exact H1|apply typed_mono; exact H2].
          -- exact H.
          -- apply typed_mono; exact H.
        * destruct (typed_view (VNode tb kb)) as [[[c0 x] y]|].
          -- apply andb_true_iff in H. destruct H as [H1 H2]. apply andb_true_iff. split; [exact H1|apply typed_mono; exact H2].
          -- apply typed_mono; exact H.
        * tv. apply typed_mono; exact H.
      + apply base_mono; exact H.
    - destruct t.
      + apply generic_mono; exact H.
      + destruct k as [|a ms]; [exact H|].
        destruct (seq_view (strip_annot B)) as [[c9 bms]|]; [|apply generic_mono; exact H].
        apply andb_true_iff in H. destruct H as [H1 H2]. apply andb_true_iff. split; [exact H1|].
        revert H2. apply forallb_mono. intros p Hp. apply andb_true_iff in Hp. destruct Hp as [P1 P2].
        apply andb_true_iff. split; [exact P1|apply Hr; exact P2].
      + exact H.
      + exact H.
      + destruct k as [|t0 [|t1 r]]; [exact H| |exact H].
        destruct B as [lb|tb kb|vb].
        * destruct lb.
          -- apply base_mono; exact H.
          -- destruct o; try (apply base_mono; exact H). exact H.
          -- apply base_mono; exact H.
          -- apply orb_true_iff in H. apply orb_true_iff. destruct H as [H|H]; [left; exact H|right; apply base_mono; exact H].
          -- apply base_mono; exact H.
          -- apply base_mono; exact H.
        * destruct tb; try (apply base_mono; exact H).
          destruct kb as [|t' [|t'' r']]; try (apply base_mono; exact H). apply Hr; exact H.
        * apply base_mono; exact H.
      + destruct k as [|t0 [|t1 r]]; [exact H|apply Hr; exact H|exact H].
      + exact H.
      + exact H.
    - destruct B as [lb|tb kb|vb].
      + destruct lb; try (revert H; apply existsb_mono; intros a; apply Hr).
        destruct e2; [rewrite (He eq_refl) in H; revert H; apply existsb_mono; intros a; apply Hr|reflexivity].
      + destruct tb; try (revert H; apply existsb_mono; intros a; apply Hr).
        destruct kb as [|b0 [|b1 r]].
        * revert H; apply existsb_mono; intros a; apply Hr.
        * destruct b0 as [lb0|tb0 kb0|vb0]; try (revert H; apply existsb_mono; intros a; apply Hr).
          destruct vb0; [exact H|]. revert H. apply forallb_mono. intros b. apply Hr.
        * destruct b0; (revert H; apply existsb_mono; intros a; apply Hr).
      + revert H. apply forallb_mono. intros b. apply Hr.
  Qed.
End Mono.

Theorem exclude_any_monotone : forall ct n A B,
  can_assign_f ct n true A B = true -> can_assign_f ct n false A B = true.
Proof.
  intros ct. induction n as [|n IH]; intros A B H; [discriminate|].
  cbn [can_assign_f] in *. eapply (step_mono ct _ _ IH true false); [discriminate|exact H].
Qed.

(* more fuel never turns an acceptance into a rejection *)
Theorem fuel_mono_S : forall ct e n A B,
  can_assign_f ct n e A B = true -> can_assign_f ct (S n) e A B = true.
Proof.
  intros ct e. induction n as [|n IH]; intros A B H; [discriminate|].
  cbn [can_assign_f] in *. eapply (step_mono ct _ _ IH e e); [auto|exact H].
Qed.

Theorem fuel_mono : forall ct e n m A B, n <= m ->
  can_assign_f ct n e A B = true -> can_assign_f ct m e A B = true.
Proof.
  intros ct e n m A B Hle H. induction Hle; auto. apply fuel_mono_S. exact IHHle.
Qed.
