(* Proofs/C04Refl.v — every value of the reflexive fragment accepts itself, in both
   exclude-Any modes, for every class table (given the table facts the fragment
   predicate checks: tassign d d, identity generic bases). *)
From Coq Require Import ZArith List Bool NArith Lia.
Import ListNotations.
Require Import PV.Core.Obj PV.Core.Val PV.Core.Cls PV.Core.Member PV.Core.CanAssignK PV.Core.CanAssign.
Require Import PV.Core.C03Run PV.Core.C04Run PV.Proofs.ValInd PV.Proofs.C04Mono.

Local Strategy opaque [veq veq_f].

Section Refl.
  Context (ct : class_table) (e : bool).

  Notation accepts n A B := (can_assign_f ct n e A B = true).

  Lemma accepts_mono : forall n m A B, n <= m -> accepts n A B -> accepts m A B.
  Proof. intros. eapply fuel_mono; eauto. Qed.

  (* a common fuel for a list of acceptances *)
  Lemma common_fuel : forall (l : list val) (f : val -> val),
    (forall x, In x l -> exists n, accepts n x (f x)) -> exists n, forall x, In x l -> accepts n x (f x).
  Proof.
    induction l as [|a l IH]; intros f H.
    - exists 0. intros x [].
    - destruct (H a (or_introl eq_refl)) as [n1 H1].
      destruct (IH f (fun x Hx => H x (or_intror Hx))) as [n2 H2].
      exists (Nat.max n1 n2). intros x [<-|Hx].
      + eapply accepts_mono; [|exact H1]. lia.
      + eapply accepts_mono; [|exact (H2 x Hx)]. lia.
  Qed.

  Lemma strip_annot_annot : forall md b, strip_annot (VNode (TAnnot md) [b]) = strip_annot b.
  Proof. reflexivity. Qed.

  (* A <- b  implies  A <- Annotated[b], for a head that is neither Annotated nor a union *)
  Lemma annot_right : forall n A b md,
    is_annot A = false -> is_vunion A = false ->
    accepts n A b -> accepts (S (S n)) A (VNode (TAnnot md) [b]).
  Proof.
    intros n A b md HA HU H.
    assert (Hb : accepts (S n) A b) by (eapply accepts_mono; [|exact H]; lia).
    destruct n as [|n]; [discriminate|].
    cbn [can_assign_f]. cbn [can_assign_f] in H.
    set (r := can_assign_f ct (S (S n)) e) in *.
    assert (Hr : forall x y, can_assign_f ct n e x y = true -> r x y = true).
    { intros x y Hxy. unfold r. eapply fuel_mono; [|exact Hxy]. lia. }
    assert (Base : base_rule e r A (VNode (TAnnot md) [b]) = true) by exact Hb.
    assert (Typed : forall d lit, typed_path ct e r A (VNode (TAnnot md) [b]) d lit = true).
    { intros d lit. exact Base. }
    assert (Gen : forall d args, generic_path ct e (can_assign_f ct n e) A b d args = true ->
                                 generic_path ct e r A (VNode (TAnnot md) [b]) d args = true).
    { intros d args G. unfold generic_path in *. rewrite strip_annot_annot.
      destruct (typed_view (expand_known (strip_annot b))) as [[[c bargs] ha]|]; [|apply Typed].
      destruct (if ha then gb_args ct c d else gb_noargs ct c d) as [gs|]; [|apply Typed].
      destruct (Nat.eqb (length args) (length gs)); [|apply Typed].
      apply andb_true_iff in G. destruct G as [G1 G2]. apply andb_true_iff. split; [exact G1|].
      revert G2. apply forallb_mono. intros p. apply Hr. }
    unfold ca_step in *.
    destruct A as [l|t k|vs]; [| |discriminate].
    - destruct l; try exact Base; try (apply Typed).
    - destruct t; try discriminate; try exact H.
      + apply Gen. exact H.
      + destruct k as [|a ms]; [exact H|]. rewrite strip_annot_annot.
        destruct (seq_view (strip_annot b)) as [[c9 bms]|]; [|apply Gen; exact H].
        apply andb_true_iff in H. destruct H as [H1 H2]. apply andb_true_iff. split; [exact H1|].
        revert H2. apply forallb_mono. intros p Hp. apply andb_true_iff in Hp. destruct Hp as [P1 P2].
        apply andb_true_iff. split; [exact P1|apply Hr; exact P2].
      + destruct k as [|t0 [|t1 r0]]; try exact H. exact Base.
  Qed.

  Lemma combine_seq_identity : forall (args : list val) gs k0 (f : val -> val -> bool) dflt pre,
    length pre = k0 ->
    Nat.eqb (length gs) (length args) = true ->
    forallb (fun p => match snd p with GArg i => Nat.eqb i (fst p) | _ => false end) (combine (seq k0 (length args)) gs) = true ->
    (forall x, In x args -> f x x = true) ->
    forallb (fun p => f (fst p) (match snd p with GArg i => nth i (pre ++ args) dflt | GCls c => VLeaf (LTyped c false) | GAnyv => dflt end))
            (combine args gs) = true.
  Proof.
    induction args as [|a args IH]; intros gs k0 f dflt pre Hpre Hl Hg Hf; [reflexivity|].
    destruct gs as [|g gs]; [discriminate|].
    simpl in Hl, Hg. apply andb_true_iff in Hg. destruct Hg as [Hg1 Hg2].
    simpl. apply andb_true_iff. split.
    - destruct g; try discriminate. apply Nat.eqb_eq in Hg1. subst i.
      rewrite <- Hpre. rewrite app_nth2 by lia. rewrite Nat.sub_diag. simpl. apply Hf. left; auto.
    - specialize (IH gs (S k0) f dflt (pre ++ [a])).
      rewrite <- app_assoc in IH. simpl in IH. apply IH; auto.
      + rewrite app_length. simpl. lia.
      + intros x Hx. apply Hf. right; auto.
  Qed.

  Theorem refl_exists : forall A, refl_ok ct A = true -> exists n, accepts n A A.
  Proof.
    induction A as [l|t k IH|vs IH] using val_ind'; intros H.
    - (* leaves *)
      exists 1. cbn [can_assign_f]. unfold ca_step.
      destruct l; simpl in H; try reflexivity.
      + unfold same_literal. rewrite N.eqb_refl, H. reflexivity.
      + unfold same_literal. rewrite N.eqb_refl, H. reflexivity.
      + unfold typed_path. rewrite H. destruct lit_only; reflexivity.
      + rewrite N.eqb_refl. reflexivity.
    - destruct t; try discriminate H.
      + (* Generic *)
        cbn [refl_ok] in H. apply andb_true_iff in H. destruct H as [H Hargs].
        apply andb_true_iff in H. destruct H as [Hne Hid].
        rewrite forallb_forall in Hargs. rewrite Forall_forall in IH.
        destruct (common_fuel k (fun x => x) (fun x Hx => IH x Hx (Hargs x Hx))) as [n Hn].
        exists (S n). cbn [can_assign_f]. unfold ca_step, generic_path.
        cbn [strip_annot expand_known typed_view].
        unfold gb_identity in Hid. destruct (gb_args ct c c) as [gs|]; [|discriminate].
        apply andb_true_iff in Hid. destruct Hid as [Hl Hg].
        assert (Hl' : Nat.eqb (length k) (length gs) = true) by (rewrite Nat.eqb_sym; exact Hl).
        rewrite Hl'. apply andb_true_iff. split; [exact Hne|].
        apply (combine_seq_identity k gs 0 (can_assign_f ct n e) (VLeaf (LAny any_generic_argument)) []); auto.
      + (* Seq *)
        destruct k as [|a ms]; [discriminate|].
        cbn [refl_ok] in H. apply andb_true_iff in H. destruct H as [H Hms].
        apply andb_true_iff in H. destruct H as [Ht Hl].
        rewrite forallb_forall in Hms. rewrite Forall_forall in IH.
        destruct (common_fuel ms (fun x => x) (fun x Hx => IH x (or_intror Hx) (Hms x Hx))) as [n Hn].
        exists (S n). cbn [can_assign_f]. unfold ca_step. cbn [strip_annot seq_view].
        rewrite Ht. apply Nat.eqb_eq in Hl.
        rewrite combine_length, Hl, Nat.min_id, Nat.eqb_refl. cbn [andb].
        clear IH Hms Ht. revert flags Hl Hn. induction ms as [|m ms IHm]; intros flags Hl Hn.
        * destruct flags; reflexivity.
        * destruct flags as [|f flags]; [discriminate|]. simpl.
          rewrite eqb_reflx, (Hn m (or_introl eq_refl)). simpl.
          apply IHm; [simpl in Hl; lia|]. intros x Hx. apply Hn. right; auto.
      + (* Subclass *)
        destruct k as [|t0 [|t1 r]]; try discriminate H.
        cbn [refl_ok] in H. inversion IH as [|? ? IH0 _]; subst.
        destruct (IH0 H) as [n Hn]. exists (S n). cbn [can_assign_f]. unfold ca_step. exact Hn.
      + (* Annot *)
        destruct k as [|t0 [|t1 r]]; try discriminate H.
        cbn [refl_ok] in H. apply andb_true_iff in H. destruct H as [H Hr0].
        apply andb_true_iff in H. destruct H as [Ha Hu].
        apply negb_true_iff in Ha. apply negb_true_iff in Hu.
        inversion IH as [|? ? IH0 _]; subst.
        destruct (IH0 Hr0) as [n Hn].
        exists (S (S (S n))). cbn [can_assign_f]. unfold ca_step. fold (can_assign_f ct (S (S n)) e).
        apply annot_right; auto.
    - (* Union *)
      cbn [refl_ok] in H. rewrite forallb_forall in H. rewrite Forall_forall in IH.
      assert (Hm : forall b, In b vs -> exists n, accepts n b b).
      { intros b Hb. specialize (H b Hb). apply andb_true_iff in H. apply IH; tauto. }
      destruct (common_fuel vs (fun x => x) Hm) as [n Hn].
      exists (S (S n)). cbn [can_assign_f]. unfold ca_step at 1.
      apply forallb_forall. intros b Hb.
      specialize (H b Hb). apply andb_true_iff in H. destruct H as [Hnu Hrb]. apply negb_true_iff in Hnu.
      assert (Hex : existsb (fun a => can_assign_f ct n e a b) vs = true).
      { apply existsb_exists. exists b. split; auto. }
      unfold ca_step.
      destruct b as [lb|tb kb|vb]; [| |discriminate].
      + destruct lb; try exact Hex. destruct e; [exact Hex|reflexivity].
      + destruct tb; try exact Hex.
        destruct kb as [|b0 [|b1 r]]; [exact Hex| |destruct b0; exact Hex].
        destruct b0; try exact Hex.
        (* Annotated[union] as a member is outside refl_ok *)
        cbn in Hrb. discriminate Hrb.
  Qed.
End Refl.

Theorem reflexive : forall ct e A, refl_ok ct A = true ->
  exists n, forall m, n <= m -> can_assign_f ct m e A A = true.
Proof.
  intros ct e A H. destruct (refl_exists ct e A H) as [n Hn].
  exists n. intros m Hm. eapply fuel_mono; eauto.
Qed.
