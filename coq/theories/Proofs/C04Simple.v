(* Proofs/C04Simple.v — the acceptance model on the simple fragment (Any, atoms = classes
   and scalar literals, unions of atoms): a closed form that does not depend on the fuel,
   and the preorder laws of the atom relation (reflexive, transitive) from three facts
   about the class table.  This is what C15 (type-variable solving) needs: on this
   fragment `can_assign` is exactly the relation `s_acc` of TypeVar/Simple.v over the
   atom preorder `atom_acc`. *)
From Coq Require Import ZArith List Bool NArith Lia.
Import ListNotations.
Require Import PV.Core.Obj PV.Core.Val PV.Core.Cls PV.Core.Member PV.Core.CanAssignK PV.Core.CanAssign.
Require Import PV.Proofs.C04Laws PV.Proofs.C04Mono.

Definition scalar (o : obj) : bool :=
  match o with
  | OTuple _ _ | OList _ _ | OSet _ _ | OFrozenset _ | ODict _ _ => false
  | _ => true
  end.

Definition is_atom (v : val) : bool :=
  match v with
  | VLeaf (LTyped c false) => negb (protocol_like c)     (* nominally compared classes only *)
  | VLeaf (LKnown o) => scalar o
  | _ => false
  end.

Definition simple (v : val) : bool :=
  match v with
  | VLeaf (LAny _) => true
  | VUnion vs => forallb is_atom vs
  | _ => is_atom v
  end.

Section Simple.
  Context (ct : class_table).

  (* "a accepts b" between atoms *)
  Definition atom_acc (a b : val) : bool :=
    match a, b with
    | VLeaf (LTyped d _), VLeaf (LTyped c _) => tassign ct c d
    | VLeaf (LTyped d _), VLeaf (LKnown o) => nominal ct (class_of o) d
    | VLeaf (LKnown o), VLeaf (LKnown o') => same_literal o o'
    | _, _ => false
    end.

  (* the acceptance relation of the simple fragment in normal mode: TypeVar/Simple.v's s_acc *)
  Definition acc_simple (A B : val) : bool :=
    match A, B with
    | _, VLeaf (LAny _) => true
    | VLeaf (LAny _), _ => true
    | VUnion vs, VUnion bs => forallb (fun b => existsb (fun a => atom_acc a b) vs) bs
    | VUnion vs, b => existsb (fun a => atom_acc a b) vs
    | a, VUnion bs => forallb (atom_acc a) bs
    | a, b => atom_acc a b
    end.

  Lemma atom_step : forall e r a b, is_atom a = true -> is_atom b = true ->
    ca_step ct e r a b = atom_acc a b.
  Proof.
    intros e r a b Ha Hb.
    destruct a as [[ | oa | | ca [|] | | ]| |]; try discriminate Ha;
    destruct b as [[ | ob | | cb [|] | | ]| |]; try discriminate Hb; reflexivity.
  Qed.

  Lemma atom_fuel : forall e n a b, is_atom a = true -> is_atom b = true ->
    can_assign_f ct (S n) e a b = atom_acc a b.
  Proof. intros. cbn [can_assign_f]. now apply atom_step. Qed.

  Lemma atom_head_ok : forall a, is_atom a = true -> head_ok a = true.
  Proof. intros [[]| |] H; try discriminate H; reflexivity. Qed.

  Lemma atom_plain : forall a, is_atom a = true -> plain a = true.
  Proof. intros [[]| |] H; try discriminate H; reflexivity. Qed.

  Lemma forallb_ext_in3 : forall {A} (f g : A -> bool) l,
    (forall x, In x l -> f x = g x) -> forallb f l = forallb g l.
  Proof. induction l; simpl; intros H; auto. rewrite H by auto. f_equal. apply IHl. auto. Qed.

  Lemma existsb_ext_in3 : forall {A} (f g : A -> bool) l,
    (forall x, In x l -> f x = g x) -> existsb f l = existsb g l.
  Proof. induction l; simpl; intros H; auto. rewrite H by auto. f_equal. apply IHl. auto. Qed.

  (* the closed form: with at least three units of fuel the verdict on simple values is acc_simple *)
  Theorem simple_closed_form : forall n A B, simple A = true -> simple B = true ->
    can_assign_f ct (S (S (S n))) false A B = acc_simple A B.
  Proof.
    intros n A B HA HB.
    destruct B as [lb|tb kb|bs].
    - (* B a leaf: Any or an atom *)
      destruct lb as [sb|ob| |cb litb| |]; try discriminate HB.
      + (* B = Any *)
        destruct A as [la|ta ka|vs]; try discriminate HA.
        * destruct la as [|oa| |ca [|]| |]; try discriminate HA; reflexivity.
        * reflexivity.
      + (* B = literal atom *)
        destruct A as [la|ta ka|vs]; try discriminate HA.
        * destruct la as [sa|oa| |ca [|]| |]; try discriminate HA; try reflexivity.
        * rewrite union_left_iff_some by reflexivity. simpl in HA. rewrite forallb_forall in HA.
          cbn [acc_simple]. apply existsb_ext_in3. intros a Ha. apply atom_fuel; auto.
      + (* B = class atom *)
        destruct litb; [discriminate HB|].
        destruct A as [la|ta ka|vs]; try discriminate HA.
        * destruct la as [sa|oa| |ca [|]| |]; try discriminate HA; try reflexivity.
        * rewrite union_left_iff_some by reflexivity. simpl in HA. rewrite forallb_forall in HA.
          cbn [acc_simple]. apply existsb_ext_in3. intros a Ha. apply atom_fuel; auto.
    - discriminate HB.
    - (* B a union of atoms *)
      simpl in HB. rewrite forallb_forall in HB.
      destruct A as [la|ta ka|vs]; try discriminate HA.
      + destruct la as [sa|oa| |ca [|]| |]; try discriminate HA.
        * (* Any <- union *)
          rewrite union_right_iff_all by reflexivity. cbn [acc_simple].
          apply forallb_forall. intros b Hb. specialize (HB b Hb).
          apply any_left. now apply atom_plain.
        * rewrite union_right_iff_all by reflexivity. cbn [acc_simple].
          apply forallb_ext_in3. intros b Hb. apply atom_fuel; auto.
        * rewrite union_right_iff_all by reflexivity. cbn [acc_simple].
          apply forallb_ext_in3. intros b Hb. apply atom_fuel; auto.
      + rewrite union_right_iff_all by reflexivity. cbn [acc_simple].
        simpl in HA. rewrite forallb_forall in HA.
        apply forallb_ext_in3. intros b Hb.
        rewrite union_left_iff_some by (apply atom_plain; auto).
        apply existsb_ext_in3. intros a Ha. apply atom_fuel; auto.
  Qed.

  (* ---- the atom relation is a preorder, given three facts about the class table ---- *)
  Lemma listN_eqb_refl : forall l, listN_eqb l l = true.
  Proof. induction l; simpl; auto. now rewrite N.eqb_refl. Qed.

  Lemma listN_eqb_eq : forall a b, listN_eqb a b = true -> a = b.
  Proof.
    induction a as [|x a IH]; destruct b as [|y b]; simpl; intros H; try discriminate; auto.
    apply andb_true_iff in H. destruct H as [H1 H2]. apply N.eqb_eq in H1. subst. f_equal. auto.
  Qed.

  (* scalars compare by a key: the numeric value, or the non-numeric payload *)
  Inductive skey : Type :=
  | KNum (re im : Z) | KNone | KStr (s : list N) | KBytes (s : list N) | KInst (c k : N) | KClass (c : N) | KOther.

  Definition skey_of (o : obj) : skey :=
    match num o with
    | Some (r, i) => KNum r i
    | None =>
      match o with
      | ONone => KNone | OStr s => KStr s | OBytes s => KBytes s
      | OInst c k => KInst c k | OClass c => KClass c | _ => KOther
      end
    end.

  Ltac eqb_to_eq :=
    repeat match goal with
    | H : _ && _ = true |- _ => apply andb_true_iff in H; destruct H
    | H : (_ =? _)%Z = true |- _ => apply Z.eqb_eq in H
    | H : (_ =? _)%N = true |- _ => apply N.eqb_eq in H
    | H : listN_eqb _ _ = true |- _ => apply listN_eqb_eq in H
    end.

  Lemma py_eq_scalar : forall a b, scalar a = true -> scalar b = true ->
    (py_eq a b = true <-> skey_of a = skey_of b).
  Proof.
    intros a b Ha Hb. unfold skey_of.
    destruct a; try discriminate Ha; destruct b; try discriminate Hb; cbn; unfold zz_eqb; cbn;
      (split; intros H;
       [ try discriminate H; eqb_to_eq; subst; try congruence; try reflexivity;
         repeat match goal with H' : match ?z with _ => _ end = true |- _ => destruct z; try discriminate H' end; try reflexivity
       | try discriminate H; inversion H; subst;
         rewrite ?Z.eqb_refl, ?N.eqb_refl, ?listN_eqb_refl; try reflexivity;
         repeat (apply andb_true_iff; split); try apply Z.eqb_eq; try apply N.eqb_eq; try apply listN_eqb_refl; auto ]).
  Qed.

  Lemma same_literal_refl : forall o, scalar o = true -> same_literal o o = true.
  Proof.
    intros o H. unfold same_literal. rewrite N.eqb_refl. simpl. now apply (py_eq_scalar o o H H).
  Qed.

  Lemma same_literal_trans : forall a b c, scalar a = true -> scalar b = true -> scalar c = true ->
    same_literal a b = true -> same_literal b c = true -> same_literal a c = true.
  Proof.
    intros a b c Ha Hb Hc H1 H2. unfold same_literal in *.
    apply andb_true_iff in H1. destruct H1 as [C1 P1]. apply andb_true_iff in H2. destruct H2 as [C2 P2].
    apply N.eqb_eq in C1. apply N.eqb_eq in C2. apply andb_true_iff. split.
    - apply N.eqb_eq. congruence.
    - apply (py_eq_scalar a c Ha Hc). apply (py_eq_scalar a b Ha Hb) in P1. apply (py_eq_scalar b c Hb Hc) in P2. congruence.
  Qed.

  Definition atom_ok (a : val) : bool :=
    match a with VLeaf (LTyped c _) => tassign ct c c | _ => true end.

  Lemma atom_acc_refl : forall a, is_atom a = true -> atom_ok a = true -> atom_acc a a = true.
  Proof.
    intros [[ |o| |c [|]| |]| |] Ha Hok; try discriminate Ha; simpl in *.
    - now apply same_literal_refl.
    - exact Hok.
  Qed.

  (* the three table facts *)
  Definition tassign_transitive : Prop :=
    forall c1 c2 c3, protocol_like c3 = false ->
    tassign ct c1 c2 = true -> tassign ct c2 c3 = true -> tassign ct c1 c3 = true.
  Definition nominal_upward : Prop :=
    forall k c d, protocol_like d = false ->
    nominal ct k c = true -> tassign ct c d = true -> nominal ct k d = true.

  Lemma atom_acc_trans : tassign_transitive -> nominal_upward ->
    forall a b c, is_atom a = true -> is_atom b = true -> is_atom c = true ->
    atom_acc a b = true -> atom_acc b c = true -> atom_acc a c = true.
  Proof.
    intros T1 T2 a b c Ha Hb Hc H1 H2.
    destruct a as [[ |oa| |ca [|]| |]| |]; try discriminate Ha;
    destruct b as [[ |ob| |cb [|]| |]| |]; try discriminate Hb; try discriminate H1;
    destruct c as [[ |oc| |cc [|]| |]| |]; try discriminate Hc; try discriminate H2; simpl in *.
    - apply (same_literal_trans oa ob oc); assumption.
    - (* class <- literal <- literal: the literals have the same class *)
      unfold same_literal in H2. apply andb_true_iff in H2. destruct H2 as [C _]. apply N.eqb_eq in C.
      rewrite <- C. exact H1.
    - apply (T2 _ cb ca); [now apply negb_true_iff|assumption|assumption].
    - apply (T1 cc cb ca); [now apply negb_true_iff|assumption|assumption].
  Qed.

  Definition not_any (v : val) : bool := match v with VLeaf (LAny _) => false | _ => true end.
  Definition atoms_of (v : val) : list val := match v with VUnion vs => vs | _ => [v] end.

  Lemma atoms_of_atoms : forall v, simple v = true -> not_any v = true ->
    forall x, In x (atoms_of v) -> is_atom x = true.
  Proof.
    intros v Hv Hn x Hx. destruct v as [[]| |vs]; simpl in *; try discriminate;
      try (destruct Hx as [<-|[]]; exact Hv).
    rewrite forallb_forall in Hv. auto.
  Qed.

  Lemma acc_simple_any_r : forall A s, acc_simple A (VLeaf (LAny s)) = true.
  Proof. intros [[]| |] s; reflexivity. Qed.

  Lemma acc_simple_any_l : forall s C, acc_simple (VLeaf (LAny s)) C = true.
  Proof. intros s [[]| |]; reflexivity. Qed.

  Lemma acc_simple_form : forall X Y, simple X = true -> simple Y = true ->
    not_any X = true -> not_any Y = true ->
    acc_simple X Y = forallb (fun y => existsb (fun x => atom_acc x y) (atoms_of X)) (atoms_of Y).
  Proof.
    intros X Y HX HY NX NY.
    destruct X as [[]| |xs]; try discriminate; destruct Y as [[]| |ys]; try discriminate;
      simpl; rewrite ?orb_false_r, ?andb_true_r; try reflexivity;
      apply forallb_ext_in3; intros y _; now rewrite orb_false_r.
  Qed.

  (* transitivity of the whole relation on the simple fragment, through a middle value that is not Any *)
  Theorem acc_simple_trans : tassign_transitive -> nominal_upward ->
    forall A B C, simple A = true -> simple B = true -> simple C = true -> not_any B = true ->
    acc_simple A B = true -> acc_simple B C = true -> acc_simple A C = true.
  Proof.
    intros T1 T2 A B C HA HB HC HnB H1 H2.
    destruct (not_any C) eqn:NC.
    2:{ destruct C as [[]| |]; try discriminate NC. apply acc_simple_any_r. }
    destruct (not_any A) eqn:NA.
    2:{ destruct A as [[]| |]; try discriminate NA. apply acc_simple_any_l. }
    rewrite (acc_simple_form A C HA HC NA NC).
    rewrite (acc_simple_form A B HA HB NA HnB) in H1. rewrite (acc_simple_form B C HB HC HnB NC) in H2.
    rewrite forallb_forall in *. intros z Hz.
    specialize (H2 z Hz). apply existsb_exists in H2. destruct H2 as [y [Hy Eyz]].
    specialize (H1 y Hy). apply existsb_exists in H1. destruct H1 as [x [Hx Exy]].
    apply existsb_exists. exists x. split; [exact Hx|].
    apply (atom_acc_trans T1 T2 x y z); auto;
      [apply (atoms_of_atoms A)|apply (atoms_of_atoms B)|apply (atoms_of_atoms C)]; auto.
  Qed.

  (* reflexivity on the simple fragment *)
  Theorem acc_simple_refl : forall A, simple A = true ->
    forallb atom_ok (atoms_of A) = true -> acc_simple A A = true.
  Proof.
    intros A HA Hok. destruct (not_any A) eqn:NA.
    2:{ destruct A as [[]| |]; try discriminate NA. reflexivity. }
    rewrite (acc_simple_form A A HA HA NA NA). rewrite forallb_forall in *. intros y Hy.
    apply existsb_exists. exists y. split; auto. apply atom_acc_refl; auto. eapply atoms_of_atoms; eauto.
  Qed.
End Simple.
