(* Proofs/C04Sound.v — membership-soundness of the acceptance model beyond the nominal core.
   [strict_f] (Core/CanAssign.v) derives acceptances with the sound rules only.  Two theorems,
   both by induction on the fuel, for every class table:
     strict_implies_accept : strict_f ct n A B = true -> can_assign_f ct n false A B = true
     strict_sound          : table facts -> strict_f ct n A B = true ->
                             forall o, member ct B o = true -> member ct A o = true
   covering unions on both sides, Annotated on both sides, classes, scalar literals, type[C],
   generics (element containers and mappings, through the generic-bases table) and fixed tuples. *)
From Coq Require Import ZArith List Bool NArith Lia.
Import ListNotations.
Require Import PV.Core.Obj PV.Core.Val PV.Core.Cls PV.Core.Member PV.Core.CanAssignK PV.Core.CanAssign.
Require Import PV.Proofs.C04Mono.

Local Strategy opaque [veq veq_f].

(* ---- facts about the spec ---- *)
Lemma member_union : forall ct vs o, member ct (VUnion vs) o = existsb (fun t => member ct t o) vs.
Proof. intros ct vs o. cbn [member]. induction vs as [|t vs IH]; [reflexivity|]. simpl. now rewrite IH. Qed.

Lemma scalar_py_eq_scalar : forall a x, scalar_obj a = true -> py_eq a x = true -> scalar_obj x = true.
Proof. intros a x Ha H. destruct a; try discriminate Ha; destruct x; try reflexivity; simpl in H; discriminate H. Qed.

Fixpoint pairb {A B : Type} (f : A -> B -> bool) (l1 : list A) (l2 : list B) : bool :=
  match l1, l2 with
  | [], [] => true
  | x :: l1', y :: l2' => f x y && pairb f l1' l2'
  | _, _ => false
  end.

(* fixed tuples: with all flags false the member walk is "same length and pairwise" *)
Lemma mseq_all_false : forall ct ms fl es,
  all_false_b fl = true -> length fl = length ms ->
  (fix mseq (fl : list bool) (ms : list val) (es : list obj) {struct ms} : bool :=
     match ms, fl with
     | [], _ => match es with [] => true | _ => false end
     | X :: ms', false :: fl' =>
         match es with e :: es' => member ct X e && mseq fl' ms' es' | [] => false end
     | X :: ms', true :: fl' =>
         (fix star (es : list obj) : bool :=
            mseq fl' ms' es ||
            match es with e :: es' => member ct X e && star es' | [] => false end) es
     | _ :: _, [] => false
     end) fl ms es
  = pairb (member ct) ms es.
Proof.
  intros ct. induction ms as [|X ms IH]; intros fl es Hf Hl.
  - destruct es; reflexivity.
  - destruct fl as [|f fl]; [discriminate Hl|]. simpl in Hf. apply andb_true_iff in Hf. destruct Hf as [Hf1 Hf].
    destruct f; [discriminate Hf1|]. destruct es as [|e es]; [reflexivity|].
    rewrite (IH fl es Hf (eq_add_S _ _ Hl)). reflexivity.
Qed.

Section Sound.
  Context (ct : class_table).

  (* the facts about the class table that soundness rests on (all four are proved for the table
     dumped from the implementation, for all class codes: Proofs/C04Witness.v) *)
  Record sound_facts : Prop := {
    f_up : forall k c d, nominal_cls d = true -> sub_promo ct k c = true -> tassign ct c d = true -> sub_promo ct k d = true;
    f_nom : forall k d, nominal_cls d = true -> nominal ct k d = true -> sub_promo ct k d = true;
    f_tsub : forall c d, nominal_cls d = true -> tassign ct c d = true -> sub_promo ct c d = true;
    f_gb : forall k c d, issub ct k c = true -> issub ct c d = true ->
                         (exists gs, gb_args ct c d = Some gs) -> issub ct k d = true
  }.

  Definition sound_rel (r : val -> val -> bool) : Prop :=
    forall A B, r A B = true -> forall o, member ct B o = true -> member ct A o = true.

  Lemma gargs_is_some : forall x want, gargs_is x want = true -> exists gs, x = Some gs.
  Proof. intros [gs|] want H; [eauto|discriminate H]. Qed.

  Lemma sound_forallb_union : forall r A bs o,
    sound_rel r -> forallb (r A) bs = true -> member ct (VUnion bs) o = true -> member ct A o = true.
  Proof.
    intros r A bs o Hr Hall Hm. rewrite member_union in Hm. apply existsb_exists in Hm.
    destruct Hm as [b [Hb Hmb]]. rewrite forallb_forall in Hall. eapply Hr; eauto.
  Qed.

  Lemma sstep_sound : sound_facts -> forall r, sound_rel r -> sound_rel (sstep ct r).
  Proof.
    intros F r Hr A B H o Hm. unfold sstep in H.
    destruct A as [la|ta ka|vs].
    - (* leaves *)
      destruct la as [|oa| |d lit| |]; try discriminate H.
      + (* literal *)
        apply andb_true_iff in H. destruct H as [Hsa H].
        destruct B as [lb|tb kb|bs].
        * destruct lb as [|ob| | | |]; try discriminate H.
          apply andb_true_iff in H. destruct H as [Hsb Hsl].
          cbn [member] in *. unfold same_literal in *.
          apply andb_true_iff in Hsl. destruct Hsl as [C1 P1]. apply andb_true_iff in Hm. destruct Hm as [C2 P2].
          apply N.eqb_eq in C1. apply N.eqb_eq in C2. apply andb_true_iff. split; [apply N.eqb_eq; congruence|].
          assert (Hso : scalar_obj o = true) by (eapply scalar_py_eq_scalar; eauto).
          (* py_eq is transitive on scalars: through the key of C04Simple, restated locally *)
          revert P1 P2. clear - Hsa Hsb Hso.
          destruct oa; try discriminate Hsa; destruct ob; try discriminate Hsb; destruct o; try discriminate Hso;
            cbn; unfold zz_eqb; cbn; intros P1 P2; try discriminate P1; try discriminate P2;
            repeat match goal with
                   | H : _ && _ = true |- _ => apply andb_true_iff in H; destruct H
                   | H : (_ =? _)%Z = true |- _ => apply Z.eqb_eq in H
                   | H : (_ =? _)%N = true |- _ => apply N.eqb_eq in H
                   end; subst;
            repeat match goal with H' : match ?z with _ => _ end = true |- _ => destruct z; try discriminate H' end;
            rewrite ?Z.eqb_refl, ?N.eqb_refl; try reflexivity;
            try (repeat (apply andb_true_iff; split); try apply Z.eqb_eq; try apply N.eqb_eq; congruence).
          -- (* strings *) clear -P1 P2. revert s0 s1 P1 P2. induction s as [|x s IH]; intros [|y t] [|z u] P1 P2; simpl in *; try discriminate; auto.
             apply andb_true_iff in P1. destruct P1 as [A1 A2]. apply andb_true_iff in P2. destruct P2 as [B1 B2].
             apply N.eqb_eq in A1. apply N.eqb_eq in B1. subst. rewrite N.eqb_refl. simpl. eapply IH; eauto.
          -- clear -P1 P2. revert s0 s1 P1 P2. induction s as [|x s IH]; intros [|y t] [|z u] P1 P2; simpl in *; try discriminate; auto.
             apply andb_true_iff in P1. destruct P1 as [A1 A2]. apply andb_true_iff in P2. destruct P2 as [B1 B2].
             apply N.eqb_eq in A1. apply N.eqb_eq in B1. subst. rewrite N.eqb_refl. simpl. eapply IH; eauto.
        * destruct tb; try discriminate H. destruct kb as [|b [|b' rr]]; try discriminate H.
          cbn [member] in Hm. eapply Hr; eauto.
        * eapply sound_forallb_union; eauto.
      + (* class *)
        destruct lit; [discriminate H|]. apply andb_true_iff in H. destruct H as [Hnp H].
        destruct B as [lb|tb kb|bs].
        * destruct lb as [|ob| |c lit'| |]; try discriminate H.
          -- apply andb_true_iff in H. destruct H as [Hsb Hn]. cbn [member] in *.
             unfold same_literal in Hm. apply andb_true_iff in Hm. destruct Hm as [C _]. apply N.eqb_eq in C.
             rewrite <- C. apply (f_nom F); auto.
          -- cbn [member] in *. eapply (f_up F); eauto.
        * destruct tb; try discriminate H. destruct kb as [|b [|b' rr]]; try discriminate H.
          cbn [member] in Hm. eapply Hr; eauto.
        * eapply sound_forallb_union; eauto.
    - (* nodes *)
      destruct ta; try discriminate H.
      + (* Generic *)
        destruct B as [lb|tb kb|bs]; try discriminate H; [|eapply sound_forallb_union; eauto].
        destruct tb; try discriminate H.
        apply andb_true_iff in H. destruct H as [Hsub H].
        cbn [member] in Hm. apply andb_true_iff in Hm. destruct Hm as [Hk Hel].
        destruct (gkind_of c) as [[|]|] eqn:Kd; try discriminate H.
        * (* A elements container *)
          destruct ka as [|X [|X' rr]]; try discriminate H.
          destruct (gkind_of c0) as [[|]|] eqn:Kc; try discriminate H.
          -- destruct kb as [|Y [|Y' rr]]; try discriminate H.
             apply andb_true_iff in H. destruct H as [Hg Hxy].
             cbn [member]. rewrite Kd.
             rewrite (f_gb F _ _ _ Hk Hsub (gargs_is_some _ _ Hg)). cbn [andb].
             destruct (iter_elems o) as [es|]; [|discriminate Hel].
             rewrite forallb_forall in *. intros e He. eapply Hr; eauto.
          -- destruct kb as [|K' [|V' [|Z rr]]]; try discriminate H.
             apply andb_true_iff in H. destruct H as [Hg Hxk].
             cbn [member]. rewrite Kd.
             rewrite (f_gb F _ _ _ Hk Hsub (gargs_is_some _ _ Hg)). cbn [andb].
             destruct o; try discriminate Hel. cbn [iter_elems].
             rewrite forallb_forall in Hel. apply forallb_forall. intros k0 Hk0.
             apply in_map_iff in Hk0. destruct Hk0 as [kv [<- Hkv]].
             specialize (Hel kv Hkv). apply andb_true_iff in Hel. eapply Hr; [exact Hxk|tauto].
        * (* A mapping *)
          destruct ka as [|K [|V [|Z rr]]]; try discriminate H.
          destruct (gkind_of c0) as [[|]|] eqn:Kc; try discriminate H.
          destruct kb as [|K' [|V' [|Z rr]]]; try discriminate H.
          apply andb_true_iff in H. destruct H as [H Hv]. apply andb_true_iff in H. destruct H as [Hg Hkk].
          cbn [member]. rewrite Kd.
          rewrite (f_gb F _ _ _ Hk Hsub (gargs_is_some _ _ Hg)). cbn [andb].
          destruct o; try discriminate Hel.
          rewrite forallb_forall in Hel. apply forallb_forall. intros kv Hkv.
          specialize (Hel kv Hkv). apply andb_true_iff in Hel. destruct Hel as [E1 E2].
          apply andb_true_iff. split; eapply Hr; eauto.
      + (* Seq *)
        destruct ka as [|a ms]; [discriminate H|].
        destruct B as [lb|tb kb|bs]; try discriminate H; [|eapply sound_forallb_union; eauto].
        destruct tb; try discriminate H. destruct kb as [|b bs]; [discriminate H|].
        repeat (apply andb_true_iff in H; let H' := fresh "Hc" in destruct H as [H H']).
        apply N.eqb_eq in H. apply N.eqb_eq in Hc6. subst c c0.
        cbn [member] in *. rewrite N.eqb_refl in *. cbn [andb] in *.
        destruct o; try discriminate Hm.
        rewrite (mseq_all_false ct ms flags l) by (auto; now apply Nat.eqb_eq).
        rewrite (mseq_all_false ct bs flags0 l) in Hm by (auto; now apply Nat.eqb_eq).
        rename Hm into P1.
        clear - Hr Hc P1. revert bs l Hc P1. induction ms as [|m ms IH]; intros [|b bs] [|e es] Hc P1; simpl in *; try discriminate; auto.
        apply andb_true_iff in Hc. destruct Hc as [R1 R2]. apply andb_true_iff in P1. destruct P1 as [Q1 Q2].
        rewrite (Hr _ _ R1 _ Q1). simpl. eapply IH; eauto.
      + (* Subclass *)
        destruct ka as [|t0 [|t1 rr]]; [discriminate H| |destruct t0 as [[| | |? [|]| |]| |]; discriminate H].
        destruct t0 as [l0| |]; try discriminate H. destruct l0 as [| | |d lit| |]; try discriminate H.
        destruct lit; [discriminate H|]. apply andb_true_iff in H. destruct H as [Hnp H].
        destruct B as [lb|tb kb|bs]; [| |eapply sound_forallb_union; eauto].
        * destruct lb as [|ob| | | |]; try discriminate H. destruct ob; try discriminate H.
          (* B is the class object c *)
          cbn [member] in Hm. unfold same_literal in Hm. apply andb_true_iff in Hm. destruct Hm as [_ Hp].
          destruct o; simpl in Hp; try discriminate Hp. apply N.eqb_eq in Hp. subst.
          cbn [member class_target]. apply (f_tsub F); auto.
        * destruct tb; try discriminate H.
          -- (* type[c] *)
             destruct kb as [|t' [|t'' rr]]; try discriminate H;
               [|destruct t' as [[| | |? [|]| |]| |]; discriminate H].
             destruct t' as [l'| |]; try discriminate H. destruct l' as [| | |c lit'| |]; try discriminate H.
             destruct lit'; [discriminate H|].
             cbn [member class_target] in *. destruct o; try discriminate Hm.
             (* instantiate the induction hypothesis with an instance of the class *)
             exact (Hr _ _ H (OInst c0 0) Hm).
          -- destruct kb as [|b [|b' rr]]; try discriminate H. cbn [member] in Hm. eapply Hr; eauto.
      + (* Annot *)
        destruct ka as [|t0 [|t1 rr]]; try discriminate H. cbn [member]. eapply Hr; eauto.
    - (* union on the left *)
      destruct B as [lb|tb kb|bs].
      + assert (Hex : existsb (fun a => r a (VLeaf lb)) vs = true) by (destruct lb; try discriminate H; exact H).
        apply existsb_exists in Hex. destruct Hex as [a [Ha Hra]].
        rewrite member_union. apply existsb_exists. exists a. split; auto. eapply Hr; eauto.
      + assert (Hex : existsb (fun a => r a (VNode tb kb)) vs = true) by (destruct tb; try discriminate H; exact H).
        apply existsb_exists in Hex. destruct Hex as [a [Ha Hra]].
        rewrite member_union. apply existsb_exists. exists a. split; auto. eapply Hr; eauto.
      + rewrite member_union in Hm. apply existsb_exists in Hm. destruct Hm as [b [Hb Hmb]].
        rewrite forallb_forall in H. eapply Hr; eauto.
  Qed.

  Theorem strict_sound : sound_facts -> forall n, sound_rel (strict_f ct n).
  Proof.
    intros F. induction n as [|n IH]; intros A B H; [discriminate H|].
    cbn [strict_f] in H. eapply sstep_sound; eauto.
  Qed.
End Sound.

(* ---- every strict derivation is an acceptance of the full model ---- *)
Lemma gargs_is_spec : forall x want, gargs_is x want = true -> x = Some (map GArg want).
Proof.
  intros [gs|] want H; [|discriminate H]. unfold gargs_is in H. apply andb_true_iff in H. destruct H as [Hl Hf].
  apply Nat.eqb_eq in Hl. f_equal. revert want Hl Hf.
  induction gs as [|g gs IH]; intros [|w want] Hl Hf; try discriminate Hl; [reflexivity|].
  simpl in Hf. apply andb_true_iff in Hf. destruct Hf as [H1 H2].
  destruct g; try discriminate H1. apply Nat.eqb_eq in H1. subst. simpl. f_equal. apply IH; auto.
Qed.

Lemma seq_pairs_all_false : forall (r : val -> val -> bool) ms bs fl fl',
  all_false_b fl = true -> all_false_b fl' = true -> length fl = length ms -> length fl' = length bs ->
  forall2b r ms bs = true ->
  forallb (fun p => Bool.eqb (fst (fst p)) (fst (snd p)) && r (snd (fst p)) (snd (snd p)))
          (combine (combine fl ms) (combine fl' bs)) = true.
Proof.
  intros r. induction ms as [|m ms IH]; intros bs fl fl' F1 F2 L1 L2 H.
  - destruct fl; [reflexivity|discriminate L1].
  - destruct bs as [|b bs]; [discriminate H|]. destruct fl as [|f fl]; [discriminate L1|]. destruct fl' as [|f' fl']; [discriminate L2|].
    simpl in *. apply andb_true_iff in F1. destruct F1 as [A1 A2]. apply andb_true_iff in F2. destruct F2 as [B1 B2].
    apply andb_true_iff in H. destruct H as [H1 H2].
    destruct f; [discriminate A1|]. destruct f'; [discriminate B1|]. simpl. rewrite H1. simpl.
    apply IH; auto.
Qed.

Section Le.
  Context (ct : class_table) (r1 r2 : val -> val -> bool).
  Context (Hr : forall A B, r1 A B = true -> r2 A B = true).

  Lemma sstep_le : forall A B, sstep ct r1 A B = true -> ca_step ct false r2 A B = true.
  Proof.
    intros A B H. unfold sstep in H. unfold ca_step.
    destruct A as [la|ta ka|vs].
    - destruct la as [|oa| |d lit| |]; try discriminate H.
      + (* literal *)
        apply andb_true_iff in H. destruct H as [_ H].
        destruct B as [lb|tb kb|bs].
        * destruct lb; try discriminate H. apply andb_true_iff in H. tauto.
        * destruct tb; try discriminate H. destruct kb as [|b [|b' rr]]; try discriminate H.
          unfold base_rule. apply Hr; exact H.
        * unfold base_rule. revert H. apply forallb_mono. intros x. apply Hr.
      + (* class *)
        destruct lit; [discriminate H|]. apply andb_true_iff in H. destruct H as [_ H].
        unfold typed_path.
        destruct B as [lb|tb kb|bs].
        * destruct lb; try discriminate H; [apply andb_true_iff in H; tauto|exact H].
        * destruct tb; try discriminate H. destruct kb as [|b [|b' rr]]; try discriminate H.
          cbv beta iota delta [typed_view]. unfold base_rule. apply Hr; exact H.
        * cbv beta iota delta [typed_view]. unfold base_rule. revert H. apply forallb_mono. intros x. apply Hr.
    - destruct ta; try discriminate H.
      + (* Generic *)
        unfold generic_path.
        destruct B as [lb|tb kb|bs]; try discriminate H.
        * destruct tb; try discriminate H.
          apply andb_true_iff in H. destruct H as [_ H].
          cbn [strip_annot expand_known typed_view].
          destruct (gkind_of c) as [[|]|]; try discriminate H.
          -- destruct ka as [|X [|X' rr]]; try discriminate H.
             destruct (gkind_of c0) as [[|]|]; try discriminate H.
             ++ destruct kb as [|Y [|Y' rr]]; try discriminate H.
                apply andb_true_iff in H. destruct H as [Hg Hxy]. rewrite (gargs_is_spec _ _ Hg).
                cbn. rewrite (Hr _ _ Hxy). reflexivity.
             ++ destruct kb as [|K' [|V' [|Z rr]]]; try discriminate H.
                apply andb_true_iff in H. destruct H as [Hg Hxy]. rewrite (gargs_is_spec _ _ Hg).
                cbn. rewrite (Hr _ _ Hxy). reflexivity.
          -- destruct ka as [|K [|V [|Z rr]]]; try discriminate H.
             destruct (gkind_of c0) as [[|]|]; try discriminate H.
             destruct kb as [|K' [|V' [|Z rr]]]; try discriminate H.
             apply andb_true_iff in H. destruct H as [H Hv]. apply andb_true_iff in H. destruct H as [Hg Hk].
             rewrite (gargs_is_spec _ _ Hg). cbn. rewrite (Hr _ _ Hk), (Hr _ _ Hv). reflexivity.
        * cbn [strip_annot expand_known typed_view]. unfold typed_path. cbv beta iota delta [typed_view].
          unfold base_rule. revert H. apply forallb_mono. intros x. apply Hr.
      + (* Seq *)
        destruct ka as [|a ms]; [discriminate H|].
        destruct B as [lb|tb kb|bs]; try discriminate H.
        * destruct tb; try discriminate H. destruct kb as [|b bs]; [discriminate H|].
          repeat (apply andb_true_iff in H; let H' := fresh "Hc" in destruct H as [H H']).
          apply N.eqb_eq in H. apply N.eqb_eq in Hc6. subst c c0.
          cbn [strip_annot seq_view]. rewrite Hc5. cbn [andb].
          apply Nat.eqb_eq in Hc2. apply Nat.eqb_eq in Hc1. apply Nat.eqb_eq in Hc0.
          rewrite combine_length, Hc1, Nat.min_id, Hc0, Nat.eqb_refl. cbn [andb].
          apply seq_pairs_all_false; auto. revert Hc. clear - Hr.
          revert bs. induction ms as [|m ms IH]; intros [|b bs] Hc; simpl in *; try discriminate; auto.
          apply andb_true_iff in Hc. destruct Hc as [R1 R2]. rewrite (Hr _ _ R1). simpl. auto.
        * cbn [strip_annot seq_view]. unfold generic_path. cbn [strip_annot expand_known typed_view].
          unfold typed_path. cbv beta iota delta [typed_view]. unfold base_rule.
          revert H. apply forallb_mono. intros x. apply Hr.
      + (* Subclass *)
        destruct ka as [|t0 [|t1 rr]]; [discriminate H| |destruct t0 as [[| | |? [|]| |]| |]; discriminate H].
        destruct t0 as [l0| |]; try discriminate H. destruct l0 as [| | |d lit| |]; try discriminate H.
        destruct lit; [discriminate H|]. apply andb_true_iff in H. destruct H as [_ H].
        destruct B as [lb|tb kb|bs].
        * destruct lb as [|ob| | | |]; try discriminate H. destruct ob; try discriminate H. exact H.
        * destruct tb; try discriminate H.
          -- destruct kb as [|t' [|t'' rr]]; try discriminate H;
               [|destruct t' as [[| | |? [|]| |]| |]; discriminate H].
             destruct t' as [l'| |]; try discriminate H. destruct l' as [| | |c lit'| |]; try discriminate H.
             destruct lit'; [discriminate H|]. apply Hr; exact H.
          -- destruct kb as [|b [|b' rr]]; try discriminate H. unfold base_rule. apply Hr; exact H.
        * unfold base_rule. revert H. apply forallb_mono. intros x. apply Hr.
      + (* Annot *)
        destruct ka as [|t0 [|t1 rr]]; try discriminate H. apply Hr; exact H.
    - (* union *)
      destruct B as [lb|tb kb|bs].
      + destruct lb; try discriminate H; (revert H; apply existsb_mono; intros a; apply Hr).
      + destruct tb; try discriminate H; try (revert H; apply existsb_mono; intros a; apply Hr).
      + revert H. apply forallb_mono. intros x. apply Hr.
  Qed.
End Le.

Theorem strict_implies_accept : forall ct n A B,
  strict_f ct n A B = true -> can_assign_f ct n false A B = true.
Proof.
  intros ct. induction n as [|n IH]; intros A B H; [discriminate H|].
  cbn [strict_f can_assign_f] in *. eapply sstep_le; eauto.
Qed.
