(* Proofs/C04Witness.v — full statements (Definitions), refutations on the generated
   table, table obligations, examples. *)
From Coq Require Import ZArith List Bool NArith Lia.
Import ListNotations.
Require Import PV.Core.Obj PV.Core.Val PV.Core.Cls PV.Core.Member PV.Core.CanAssignK PV.Core.CanAssign PV.Core.C04Run.
Require Import PV.Core.C03Run PV.Proofs.C04Laws PV.Proofs.C04Mono PV.Proofs.C04Refl PV.Gen.ClassTable.

(* conversion hints only: keep the kernel from unfolding the dumped tables / the fuelled equality
   when it re-checks proof terms (vm_compute is unaffected) *)
Local Strategy opaque [tassign_tbl issub_tbl nomk_tbl gb_args_tbl gb_noargs_tbl classes veq veq_f].

(* soundness for membership, at full strength (Any-free, no guard) *)
Definition sound_full_statement : Prop :=
  forall A B o, has_any A = false -> has_any B = false ->
  can_assign table false A B = true -> member table B o = true -> member table A o = true.

(* NT <- int is accepted; True is an int; True is not an NT *)
Lemma sound_refuted_newtype : ~ sound_full_statement.
Proof.
  intros H.
  specialize (H (VLeaf (LNewType 1 c_int)) (VLeaf (LTyped c_int false)) (OBool true) eq_refl eq_refl eq_refl eq_refl).
  vm_compute in H. discriminate.
Qed.

(* the documented leniency: list[int] <- bare list *)
Lemma sound_refuted_bare_generic : ~ sound_full_statement.
Proof.
  intros H.
  specialize (H (VNode (TGeneric c_list) [VLeaf (LTyped c_int false)]) (VLeaf (LTyped c_list false))
                (OList 1 [OStr [97%N]]) eq_refl eq_refl eq_refl eq_refl).
  vm_compute in H. discriminate.
Qed.

(* statements decided by the differential only *)
Definition sound_guarded_statement : Prop :=
  forall A B o, has_any A = false -> has_any B = false ->
  has_bare_generic A || has_bare_generic B = false -> has_seq A && has_variadic_tuple B = false ->
  has_newtype A = false -> has_unsafe_literal B = false ->
  can_assign table false A B = true -> member table B o = true -> member table A o = true.

(* the reflexive fragment is inhabited by non-trivial values on the generated table *)
Example refl_ok_example :
  refl_ok table (VUnion [VNode (TGeneric c_dict) [VLeaf (LTyped c_str false); VNode (TSeq c_tuple [false; false]) [VUnion [VLeaf (LTyped c_int false); VLeaf (LKnown ONone)]; VLeaf (LTyped c_int false); VLeaf (LKnown ONone)]];
                         VNode (TAnnot [1%N]) [VNode (TSubclass false) [VLeaf (LTyped c_float false)]];
                         VLeaf (LNewType 1 c_int); VLeaf (LAny 2)]) = true.
Proof. vm_compute. reflexivity. Qed.

(* ---- obligations on the generated table: the nominal core is a preorder that is
   sound for membership, object is top ---- *)
Lemma table_nominal_refl : forallb (fun c => tassign table c c) classes = true.
Proof. vm_compute. reflexivity. Qed.

Lemma table_object_top : forallb (fun c => tassign table c c_object) classes = true.
Proof. vm_compute. reflexivity. Qed.

(* tassign c d and o instance of c (with promotion)  =>  o instance of d (with promotion) *)
Lemma table_nominal_sound :
  forallb (fun c' => forallb (fun c => forallb (fun d =>
     implb (sub_promo table c' c && tassign table c d && negb (protocol_like d) && negb (protocol_like c)) (sub_promo table c' d))
     classes) classes) classes = true.
Proof. vm_compute. reflexivity. Qed.

Example laws_example :
  let A := VUnion [VLeaf (LTyped c_float false); VNode (TGeneric c_list) [VLeaf (LTyped c_str false)]] in
  let B := VUnion [VLeaf (LTyped c_bool false); VLeaf (LKnown (OList 1 [OStr [97%N]]))] in
  can_assign table false A B = true /\ can_assign table true A B = true /\
  can_assign table false B A = false /\
  can_assign table false A (VLeaf (LAny 2)) = true /\ can_assign table true A (VLeaf (LAny 2)) = false.
Proof. vm_compute. repeat split; reflexivity. Qed.

(* ---- the two table facts behind transitivity on the simple fragment, for ALL class codes
   (codes outside the dumped table have no row, so every relation is false on them) ---- *)
Require Import PV.Proofs.C04Simple.

Lemma mem_pair_In : forall c d l, mem_pair c d l = true -> In (c, d) l.
Proof.
  induction l as [|[a b] l IH]; simpl; intros H; [discriminate|].
  apply orb_true_iff in H. destruct H as [H|H].
  - apply andb_true_iff in H. destruct H as [H1 H2]. apply N.eqb_eq in H1. apply N.eqb_eq in H2. subst. now left.
  - right. auto.
Qed.

Lemma mem_pair_first : forall c d l, mem_pair c d l = true -> In c (map fst l).
Proof. intros c d l H. apply mem_pair_In in H. apply (in_map fst) in H. exact H. Qed.

Lemma find_pair_first : forall {A} c d (l : list ((N * N) * A)) x,
  find_pair c d l = Some x -> In c (map (fun p => fst (fst p)) l).
Proof.
  induction l as [|[[a b] y] l IH]; simpl; intros x H; [discriminate|].
  destruct (N.eqb a c && N.eqb b d) eqn:E.
  - apply andb_true_iff in E. destruct E as [E _]. apply N.eqb_eq in E. now left.
  - right. eapply IH; eauto.
Qed.

Definition tassign_trans_check : bool :=
  forallb (fun p => forallb (fun q =>
     implb (N.eqb (snd p) (fst q) && negb (protocol_like (snd q))) (mem_pair (fst p) (snd q) tassign_tbl))
     tassign_tbl) tassign_tbl.

Lemma tassign_trans_check_ok : tassign_trans_check = true.
Proof. vm_compute. reflexivity. Qed.

Theorem table_tassign_transitive : tassign_transitive table.
Proof.
  intros c1 c2 c3 Hp H12 H23. cbn [tassign table] in *.
  apply mem_pair_In in H12. apply mem_pair_In in H23.
  pose proof tassign_trans_check_ok as H. unfold tassign_trans_check in H.
  rewrite forallb_forall in H. specialize (H _ H12). rewrite forallb_forall in H. specialize (H _ H23).
  cbn [fst snd] in H. rewrite N.eqb_refl, Hp in H. exact H.
Qed.

(* every class code that has a row in any of the three relations *)
Definition all_keys : list N :=
  map fst tassign_tbl ++ map fst issub_tbl ++ map (fun p => fst (fst p)) nomk_tbl.

Definition nominal_up_check : bool :=
  forallb (fun k => forallb (fun q =>
     implb (negb (protocol_like (snd q)) && nominal table k (fst q)) (nominal table k (snd q)))
     tassign_tbl) (nodup N.eq_dec all_keys).

Lemma nominal_up_check_ok : nominal_up_check = true.
Proof. vm_compute. reflexivity. Qed.

Lemma nominal_key : forall k c, nominal table k c = true -> In k all_keys.
Proof.
  intros k c H. unfold nominal in H. cbn [nomk tassign issub table] in H. unfold all_keys.
  destruct (find_pair k c nomk_tbl) as [b|] eqn:F.
  - apply in_or_app. right. apply in_or_app. right. eapply find_pair_first; eauto.
  - apply orb_true_iff in H. destruct H as [H|H].
    + apply in_or_app. left. eapply mem_pair_first; eauto.
    + apply in_or_app. right. apply in_or_app. left. eapply mem_pair_first; eauto.
Qed.

Theorem table_nominal_upward : nominal_upward table.
Proof.
  intros k c d Hp Hn Ht.
  assert (Hk : In k (nodup N.eq_dec all_keys)) by (apply nodup_In; eapply nominal_key; eauto).
  cbn [tassign table] in Ht. apply mem_pair_In in Ht.
  pose proof nominal_up_check_ok as H. unfold nominal_up_check in H.
  rewrite forallb_forall in H. specialize (H _ Hk). rewrite forallb_forall in H. specialize (H _ Ht).
  cbn [fst snd] in H. rewrite Hp, Hn in H. exact H.
Qed.

(* end to end on the dumped table: the modelled acceptance is a preorder on the simple fragment *)
Theorem simple_transitive_table : forall n A B C,
  simple A = true -> simple B = true -> simple C = true -> not_any B = true ->
  can_assign_f table (S (S (S n))) false A B = true -> can_assign_f table (S (S (S n))) false B C = true ->
  can_assign_f table (S (S (S n))) false A C = true.
Proof.
  intros n A B C HA HB HC HnB H1 H2.
  rewrite (simple_closed_form table n A B HA HB) in H1. rewrite (simple_closed_form table n B C HB HC) in H2.
  rewrite (simple_closed_form table n A C HA HC).
  exact (acc_simple_trans table table_tassign_transitive table_nominal_upward A B C HA HB HC HnB H1 H2).
Qed.

Theorem simple_reflexive_table : forall n A,
  simple A = true -> forallb (atom_ok table) (atoms_of A) = true ->
  can_assign_f table (S (S (S n))) false A A = true.
Proof. intros n A HA Hok. rewrite simple_closed_form by assumption. now apply acc_simple_refl. Qed.

(* ---- the four table facts behind membership-soundness, for all class codes ---- *)
Require Import PV.Proofs.C04Sound.

Lemma sub_promo_key : forall k c, sub_promo table k c = true -> In k (map fst issub_tbl).
Proof.
  intros k c H. unfold sub_promo in H. cbn [issub table] in H.
  apply orb_true_iff in H. destruct H as [H|H]; [apply orb_true_iff in H; destruct H as [H|H]|].
  - eapply mem_pair_first; eauto.
  - apply andb_true_iff in H. destruct H as [H _]. eapply mem_pair_first; eauto.
  - apply andb_true_iff in H. destruct H as [H _]. eapply mem_pair_first; eauto.
Qed.

Definition f_up_check : bool :=
  forallb (fun k => forallb (fun q =>
     implb (nominal_cls (snd q) && sub_promo table k (fst q)) (sub_promo table k (snd q))) tassign_tbl)
     (nodup N.eq_dec (map fst issub_tbl)).
Lemma f_up_check_ok : f_up_check = true. Proof. vm_compute. reflexivity. Qed.

Definition f_nom_check : bool :=
  forallb (fun k => forallb (fun d => implb (nominal_cls d && nominal table k d) (sub_promo table k d)) classes)
          (nodup N.eq_dec all_keys).
Lemma f_nom_check_ok : f_nom_check = true. Proof. vm_compute. reflexivity. Qed.

Definition f_tsub_check : bool :=
  forallb (fun q => implb (nominal_cls (snd q)) (sub_promo table (fst q) (snd q))) tassign_tbl.
Lemma f_tsub_check_ok : f_tsub_check = true. Proof. vm_compute. reflexivity. Qed.

Definition f_gb_check : bool :=
  forallb (fun p => forallb (fun g =>
     implb (N.eqb (snd p) (fst (fst g))) (mem_pair (fst p) (snd (fst g)) issub_tbl)) gb_args_tbl) issub_tbl.
Lemma f_gb_check_ok : f_gb_check = true. Proof. vm_compute. reflexivity. Qed.

Lemma find_pair_In : forall {A} c d (l : list ((N * N) * A)) x, find_pair c d l = Some x -> In ((c, d), x) l.
Proof.
  induction l as [|[[a b] y] l IH]; simpl; intros x H; [discriminate|].
  destruct (N.eqb a c && N.eqb b d) eqn:E.
  - apply andb_true_iff in E. destruct E as [E1 E2]. apply N.eqb_eq in E1. apply N.eqb_eq in E2.
    injection H as <-. subst. now left.
  - right. auto.
Qed.

(* every target that has an acceptance row is a class of the universe *)
Definition targets_in_classes : bool :=
  forallb (fun q => existsb (N.eqb (snd q)) classes) tassign_tbl &&
  forallb (fun q => existsb (N.eqb (snd q)) classes) issub_tbl &&
  forallb (fun q => existsb (N.eqb (snd (fst q))) classes) nomk_tbl.
Lemma targets_in_classes_ok : targets_in_classes = true. Proof. vm_compute. reflexivity. Qed.

Lemma nominal_target : forall k d, nominal table k d = true -> In d classes.
Proof.
  intros k d H. pose proof targets_in_classes_ok as T. unfold targets_in_classes in T.
  apply andb_true_iff in T. destruct T as [T T3]. apply andb_true_iff in T. destruct T as [T1 T2].
  rewrite forallb_forall in T1, T2, T3.
  unfold nominal in H. cbn [nomk tassign issub table] in H.
  assert (G : forall x, existsb (N.eqb x) classes = true -> In x classes).
  { intros x E. apply existsb_exists in E. destruct E as [y [Hy Ey]]. apply N.eqb_eq in Ey. now subst. }
  destruct (find_pair k d nomk_tbl) as [b|] eqn:Fp.
  - apply find_pair_In in Fp. apply G. exact (T3 _ Fp).
  - apply orb_true_iff in H. destruct H as [H|H]; apply mem_pair_In in H; apply G; [exact (T1 _ H)|exact (T2 _ H)].
Qed.

Theorem table_sound_facts : sound_facts table.
Proof.
  constructor.
  - intros k c d Hnp Hs Ht.
    assert (Hk : In k (nodup N.eq_dec (map fst issub_tbl))) by (apply nodup_In; eapply sub_promo_key; eauto).
    cbn [tassign table] in Ht. apply mem_pair_In in Ht.
    pose proof f_up_check_ok as H. unfold f_up_check in H.
    rewrite forallb_forall in H. specialize (H _ Hk). rewrite forallb_forall in H. specialize (H _ Ht).
    cbn [fst snd] in H. rewrite Hnp, Hs in H. exact H.
  - intros k d Hnp Hn.
    assert (Hk : In k (nodup N.eq_dec all_keys)) by (apply nodup_In; eapply nominal_key; eauto).
    assert (Hd := nominal_target k d Hn).
    pose proof f_nom_check_ok as H. unfold f_nom_check in H.
    rewrite forallb_forall in H. specialize (H _ Hk). rewrite forallb_forall in H. specialize (H _ Hd).
    rewrite Hnp, Hn in H. exact H.
  - intros c d Hnp Ht. cbn [tassign table] in Ht. apply mem_pair_In in Ht.
    pose proof f_tsub_check_ok as H. unfold f_tsub_check in H. rewrite forallb_forall in H. specialize (H _ Ht).
    cbn [fst snd] in H. rewrite Hnp in H. exact H.
  - intros k c d Hkc Hcd [gs Hg]. cbn [issub gb_args table] in *.
    apply mem_pair_In in Hkc. apply find_pair_In in Hg.
    pose proof f_gb_check_ok as H. unfold f_gb_check in H.
    rewrite forallb_forall in H. specialize (H _ Hkc). rewrite forallb_forall in H. specialize (H _ Hg).
    cbn [fst snd] in H. rewrite N.eqb_refl in H. exact H.
Qed.

(* membership-soundness on the dumped table, end to end *)
Theorem strict_sound_table : forall n A B o,
  strict_f table n A B = true -> member table B o = true -> member table A o = true.
Proof. intros n A B o H. exact (strict_sound table table_sound_facts n A B H o). Qed.

(* the sound core covers non-trivial pairs: Sequence[float | None] <- list[bool | None],
   Mapping[str, tuple[int, A]] <- dict[str, tuple[bool, B]], type[A] <- type[B] *)
Definition t_cls (c : N) := VLeaf (LTyped c false).
Definition t_none := VLeaf (LKnown ONone).
Lemma strict_examples :
  strict_f table 6 (VNode (TGeneric c_Sequence) [VUnion [t_cls c_float; t_none]])
                   (VNode (TGeneric c_list) [VUnion [t_cls c_bool; t_none]]) = true /\
  strict_f table 6 (VNode (TGeneric c_Mapping) [t_cls c_str; VNode (TSeq c_tuple [false; false]) [VUnion [t_cls c_int; t_cls 40]; t_cls c_int; t_cls 40]])
                   (VNode (TGeneric c_dict) [t_cls c_str; VNode (TSeq c_tuple [false; false]) [VUnion [t_cls c_bool; t_cls 41]; t_cls c_bool; t_cls 41]]) = true /\
  strict_f table 6 (VNode (TSubclass false) [t_cls 40]) (VNode (TSubclass false) [t_cls 41]) = true /\
  strict_f table 6 (VNode (TGeneric c_list) [t_cls c_int]) (t_cls c_list) = false.
Proof. vm_compute. repeat split; reflexivity. Qed.
