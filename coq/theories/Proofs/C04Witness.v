(* Proofs/C04Witness.v — full statements (Definitions), refutations on the generated
   table, table obligations, examples. *)
From Coq Require Import ZArith List Bool NArith Lia.
Import ListNotations.
Require Import PV.Core.Obj PV.Core.Val PV.Core.Cls PV.Core.Member PV.Core.CanAssignK PV.Core.CanAssign PV.Core.C04Run.
Require Import PV.Core.C03Run PV.Proofs.C04Laws PV.Proofs.C04Mono PV.Proofs.C04Refl PV.Gen.ClassTable.

(* soundness for membership, at full strength (Any-free, no guard) *)
Definition sound_full_statement : Prop :=
  forall A B o, has_any A = false -> has_any B = false ->
  can_assign table false A B = true -> member table B o = true -> member table A o = true.

(* NT <- int is accepted; True is an int; True is not an NT *)
Lemma sound_refuted_newtype : ~ sound_full_statement.
Proof.
  intros H.
  specialize (H (VLeaf (LNewType 1 c_int)) (VLeaf (LTyped c_int false)) (OBool true) eq_refl eq_refl eq_refl eq_refl).
  vm_compute in H. discriminate.
Qed.

(* the documented leniency: list[int] <- bare list *)
Lemma sound_refuted_bare_generic : ~ sound_full_statement.
Proof.
  intros H.
  specialize (H (VNode (TGeneric c_list) [VLeaf (LTyped c_int false)]) (VLeaf (LTyped c_list false))
                (OList 1 [OStr [97%N]]) eq_refl eq_refl eq_refl eq_refl).
  vm_compute in H. discriminate.
Qed.

(* statements decided by the differential only *)
Definition sound_guarded_statement : Prop :=
  forall A B o, has_any A = false -> has_any B = false ->
  has_bare_generic A || has_bare_generic B = false -> has_seq A && has_variadic_tuple B = false ->
  has_newtype A = false -> has_unsafe_literal B = false ->
  can_assign table false A B = true -> member table B o = true -> member table A o = true.

(* the reflexive fragment is inhabited by non-trivial values on the generated table *)
Example refl_ok_example :
  refl_ok table (VUnion [VNode (TGeneric c_dict) [VLeaf (LTyped c_str false); VNode (TSeq c_tuple [false; false]) [VUnion [VLeaf (LTyped c_int false); VLeaf (LKnown ONone)]; VLeaf (LTyped c_int false); VLeaf (LKnown ONone)]];
                         VNode (TAnnot [1%N]) [VNode (TSubclass false) [VLeaf (LTyped c_float false)]];
                         VLeaf (LNewType 1 c_int); VLeaf (LAny 2)]) = true.
Proof. vm_compute. reflexivity. Qed.

(* ---- obligations on the generated table: the nominal core is a preorder that is
   sound for membership, object is top ---- *)
Lemma table_nominal_refl : forallb (fun c => tassign table c c) classes = true.
Proof. vm_compute. reflexivity. Qed.

Lemma table_object_top : forallb (fun c => tassign table c c_object) classes = true.
Proof. vm_compute. reflexivity. Qed.

(* protocol classes are compared structurally; the nominal soundness statement is
   about the classes whose instances are compared nominally *)
Definition protocol_like (d : N) : bool := existsb (N.eqb d) [27; 28; 20; 21; 30; 31; 29]%N.

(* tassign c d and o instance of c (with promotion)  =>  o instance of d (with promotion) *)
Lemma table_nominal_sound :
  forallb (fun c' => forallb (fun c => forallb (fun d =>
     implb (sub_promo table c' c && tassign table c d && negb (protocol_like d) && negb (protocol_like c)) (sub_promo table c' d))
     classes) classes) classes = true.
Proof. vm_compute. reflexivity. Qed.

Example laws_example :
  let A := VUnion [VLeaf (LTyped c_float false); VNode (TGeneric c_list) [VLeaf (LTyped c_str false)]] in
  let B := VUnion [VLeaf (LTyped c_bool false); VLeaf (LKnown (OList 1 [OStr [97%N]]))] in
  can_assign table false A B = true /\ can_assign table true A B = true /\
  can_assign table false B A = false /\
  can_assign table false A (VLeaf (LAny 2)) = true /\ can_assign table true A (VLeaf (LAny 2)) = false.
Proof. vm_compute. repeat split; reflexivity. Qed.
