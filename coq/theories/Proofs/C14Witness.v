(* Proofs/C14Witness.v — full statements, concrete refutations (each witness is
   replayed on the real code by harness/c14.py) and inhabitation examples. *)
From Coq Require Import ZArith List Bool NArith Lia.
Import ListNotations.
Require Import PV.Core.Obj PV.Core.Val PV.Core.Subst PV.Proofs.Dedup PV.Proofs.Unite PV.Proofs.UniteLaws PV.Proofs.SubstLaws.

Definition w_int := VLeaf (LTyped c_int false).
Definition w_str := VLeaf (LTyped c_str false).
Definition w_float := VLeaf (LTyped c_float false).
Definition w_tup (u : val) := VNode (TSeq c_tuple [false]) [u; u].          (* tuple[u] *)
Definition w_td (u : val) := VNode (TTypedDict [(1%N, (true, false))] false false) [u; u].  (* TypedDict({"a": u}) *)

(* "values that compare equal hash equal" *)
Definition eq_implies_hash_eq_full_statement : Prop :=
  forall n a b, veq_f n a b = true -> heq a b = true.

Lemma eq_hash_refuted_union_order : ~ eq_implies_hash_eq_full_statement.
Proof.
  intros H. specialize (H 3 (VUnion [w_int; w_str]) (VUnion [w_str; w_int]) eq_refl).
  vm_compute in H. discriminate.
Qed.

Definition w_list1 := VLeaf (LKnown (OList 1 [OInt 1])).   (* KnownValue([1]) *)
Definition w_list2 := VLeaf (LKnown (OList 2 [OInt 1])).   (* KnownValue([1]), another list object *)

Lemma eq_hash_refuted_unhashable_literal : ~ eq_implies_hash_eq_full_statement.
Proof.
  intros H. specialize (H 3 w_list1 w_list2 eq_refl). vm_compute in H. discriminate.
Qed.

(* Callable[[*, k: int, l: str], int] vs the same with l declared before k *)
Definition w_call1 := VNode (TCallable 0 [107%N; 108%N]) [w_int; w_str; w_int].
Definition w_call2 := VNode (TCallable 0 [108%N; 107%N]) [w_str; w_int; w_int].

Lemma eq_hash_refuted_kwonly_order : ~ eq_implies_hash_eq_full_statement.
Proof.
  intros H. specialize (H 3 w_call1 w_call2 eq_refl). vm_compute in H. discriminate.
Qed.

(* TypedDicts whose keys are declared in a different order are == and hash equal *)
Definition w_td_xy := VNode (TTypedDict [(120%N, (true, false)); (121%N, (true, false))] false false) [VUnion [w_int; w_str]; w_int; w_str].
Definition w_td_yx := VNode (TTypedDict [(121%N, (true, false)); (120%N, (true, false))] false false) [VUnion [w_str; w_int]; w_str; w_int].

Lemma typeddict_key_order_consistent :
  veq w_td_xy w_td_yx = true /\ heq w_td_xy w_td_yx = true /\ unite [w_td_xy; w_td_yx] = w_td_xy.
Proof. vm_compute. repeat split; reflexivity. Qed.

(* consequence: equal alternatives are not merged *)
Lemma unhashable_literal_not_merged : unite [w_list1; w_list2] = VUnion [w_list1; w_list2] /\ veq w_list1 w_list2 = true.
Proof. split; vm_compute; reflexivity. Qed.

Lemma union_order_not_merged :
  unite [w_tup (VUnion [w_int; w_str]); w_tup (VUnion [w_str; w_int])]
    = VUnion [w_tup (VUnion [w_int; w_str]); w_tup (VUnion [w_str; w_int])]
  /\ veq (w_tup (VUnion [w_int; w_str])) (w_tup (VUnion [w_str; w_int])) = true.
Proof. split; vm_compute; reflexivity. Qed.

(* == is not transitive (because set comparison goes through the hashes) *)
Definition w_y := w_tup (VUnion [w_int; w_str]).
Definition w_y' := w_tup (VUnion [w_str; w_int]).
Definition w_A := VUnion [w_float; w_y].
Definition w_B := VUnion [w_y; w_float].
Definition w_C := VUnion [w_y'; w_float].

Definition veq_transitive_full_statement : Prop :=
  forall n a b c, veq_f n a b = true -> veq_f n b c = true -> veq_f n a c = true.

Lemma veq_transitive_refuted : ~ veq_transitive_full_statement.
Proof.
  intros H. specialize (H 5 w_A w_B w_C eq_refl eq_refl). vm_compute in H. discriminate.
Qed.

(* commutativity at full strength, refuted by a TypedDict whose hash ignores the value types *)
Definition unite_comm_full_statement : Prop :=
  forall n a b, flat a = true -> flat b = true -> fits n (flatten a ++ flatten b) = true ->
  veq_f (S n) (unite_f n [a; b]) (unite_f n [b; a]) = true.

Definition w_a := VUnion [w_td w_A; w_td w_C].
Definition w_b := w_td w_B.

Lemma unite_comm_refuted : ~ unite_comm_full_statement.
Proof.
  intros H. specialize (H 10 w_a w_b eq_refl eq_refl eq_refl). vm_compute in H. discriminate.
Qed.

(* the guard of the partial theorems is satisfiable by non-trivial operands
   (unions, an unhashable literal, a nested sequence, a TypedDict) *)
Lemma guard_inhabited :
  let a := VUnion [w_int; w_list1; w_tup (VUnion [w_int; w_str])] in
  let b := VUnion [w_td w_A; w_str; w_int] in
  flat a = true /\ flat b = true /\ fits 10 (flatten a ++ flatten b) = true /\
  equiv_onb (E_f 10) (flatten a ++ flatten b) = true /\
  unite_f 10 [a; b] = VUnion [w_int; w_list1; w_tup (VUnion [w_int; w_str]); w_td w_A; w_str].
Proof. vm_compute. repeat split; reflexivity. Qed.

(* (associativity and substitution-identity are proved: UniteLaws.unite_assoc, SubstLaws.subst_id_on_closed)
   ---- statements that are NOT proved here; they are decided only by the
   differential check (harness/c14.py evaluates them on the real code and the
   model on every generated case).  Kept as Definitions so the claim is visible. ---- *)
Definition subst_commutes_unite_statement : Prop :=
  forall n m a b, flat a = true -> flat b = true ->
  equiv_onb (E_f n) (flatten a ++ flatten b ++ flatten (subst_f n m a) ++ flatten (subst_f n m b)) = true ->
  has_nested_annot (subst_f n m (unite_f n [a; b])) = false ->
  veq_f (S n) (subst_f n m (unite_f n [a; b])) (unite_f n [subst_f n m a; subst_f n m b]) = true.

(* a closed canonical value with derived fields and a union: substitution leaves it unchanged *)
Definition w_closed := VNode (TGeneric c_list) [w_tup (VUnion [w_int; w_str])].
Lemma subst_closed_example :
  closed w_closed = true /\ canonical 10 w_closed /\
  subst_f 10 [(1%N, w_float)] w_closed = w_closed /\
  subst_f 10 [(1%N, w_float)] (VNode (TGeneric c_list) [VNode (TTypeVar 1 false) []]) = VNode (TGeneric c_list) [w_float].
Proof.
  split; [reflexivity|]. split.
  - cbn [canonical w_closed w_tup]. repeat split; try (intros _); vm_compute; reflexivity.
  - split; vm_compute; reflexivity.
Qed.

(* associativity is inhabited non-trivially *)
Lemma assoc_example :
  let a := VUnion [w_int; w_list1] in let b := w_tup (VUnion [w_int; w_str]) in let c := VUnion [w_str; w_int; VAnyUnreachable] in
  flat a = true /\ flat b = true /\ flat c = true /\
  fits 10 (VAnyUnreachable :: flatten a ++ flatten b ++ flatten c) = true /\
  equiv_onb (E_f 10) (VAnyUnreachable :: flatten a ++ flatten b ++ flatten c) = true /\
  unite_f 10 [unite_f 10 [a; b]; c] = VUnion [w_int; w_list1; w_tup (VUnion [w_int; w_str]); w_str].
Proof. vm_compute. repeat split; reflexivity. Qed.
