(* Proofs/CallAtoms.v — on the atom fragment, the checker's acceptance of a
   literal argument is runtime membership: the acceptance table dumped from the
   implementation (Gen/SolveAtoms.v) and the membership table computed by
   CPython (Gen/CallObjs.v) agree on every (type atom, object) pair.
   Re-checked on every run. *)
From Coq Require Import List Bool Arith.
Import ListNotations.
Require Import PV.TypeVar.Base PV.TypeVar.Simple PV.Gen.SolveAtoms PV.Gen.CallObjs PV.Proofs.SolveAtoms.

Lemma all_objs_complete : forall o, In o all_objs.
Proof. intros o. destruct o; cbn; auto 20. Qed.

Definition tables_agree_b : bool :=
  forallb (fun o => forallb (fun a => Bool.eqb (atom_ale a (lit_atom o)) (obj_member o a)) all_atoms) all_objs.

Lemma tables_agree_holds : tables_agree_b = true.
Proof. vm_compute. reflexivity. Qed.

Lemma atom_accepts_literal_iff_member : forall a o, atom_ale a (lit_atom o) = obj_member o a.
Proof.
  intros a o. pose proof tables_agree_holds as H. unfold tables_agree_b in H.
  rewrite forallb_forall in H. specialize (H o (all_objs_complete o)).
  rewrite forallb_forall in H. specialize (H a (all_atoms_complete a)).
  apply Bool.eqb_prop. exact H.
Qed.

Theorem acc_literal_is_member : forall t o, acc atom_ops t (obj_val o) = member o t.
Proof.
  intros [|xs] o; [reflexivity|].
  change (acc atom_ops (SU xs) (obj_val o))
    with (forallb (fun y => existsb (fun x => atom_ale x y) xs) [lit_atom o]).
  cbn [forallb member]. rewrite andb_true_r.
  induction xs as [|x xs IH]; cbn [existsb]; [reflexivity|].
  rewrite atom_accepts_literal_iff_member, IH. reflexivity.
Qed.
