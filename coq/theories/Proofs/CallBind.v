(* Proofs/CallBind.v — facts about the binder of Call/Model.v. *)
From Coq Require Import List Bool Arith NArith Permutation.
Import ListNotations.
Require Import PV.TypeVar.Base PV.TypeVar.Model PV.Call.Model.

Section Bind.
  Context {V Obj : Type}.

  Lemma cons_opt_some : forall {A} (x : A) r l, cons_opt x r = Some l -> exists l', r = Some l' /\ l = x :: l'.
  Proof. intros A x [l'|] l H; cbn in H; [|discriminate]. injection H as <-. eauto. Qed.

  (* every parameter is bound exactly once, in signature order *)
  Lemma bind_go_params : forall (ps : list (@param V)) (pos : list Obj) kw b,
    bind_go ps pos kw = Some b -> map fst b = ps.
  Proof.
    induction ps as [|p ps IH]; intros pos kw b H; cbn in H.
    - destruct pos, kw; try discriminate. injection H as <-. reflexivity.
    - assert (Hk : forall b,
        match kw_take (pname p) kw with
        | Some (o, kw') => cons_opt (p, BOne o) (bind_go ps [] kw')
        | None => if has_default p then cons_opt (p, BDefault) (bind_go ps [] kw) else None
        end = Some b -> map fst b = p :: ps).
      { intros b0 H0. destruct (kw_take (pname p) kw) as [[o kw']|].
        - apply cons_opt_some in H0. destruct H0 as [l' [H1 ->]]. cbn. f_equal. eapply IH, H1.
        - destruct (has_default p); [|discriminate].
          apply cons_opt_some in H0. destruct H0 as [l' [H1 ->]]. cbn. f_equal. eapply IH, H1. }
      destruct (kind p).
      + destruct pos as [|o pos']; [apply Hk, H|].
        destruct (kw_mem (pname p) kw); [discriminate|].
        apply cons_opt_some in H. destruct H as [l' [H1 ->]]. cbn. f_equal. eapply IH, H1.
      + destruct pos; [apply Hk, H|discriminate].
      + apply cons_opt_some in H. destruct H as [l' [H1 ->]]. cbn. f_equal. eapply IH, H1.
      + destruct pos; [|discriminate].
        apply cons_opt_some in H. destruct H as [l' [H1 ->]]. cbn. f_equal. eapply IH, H1.
  Qed.

  Lemma kw_take_perm : forall n (kw : list (N * Obj)) o kw',
    kw_take n kw = Some (o, kw') -> Permutation (map snd kw) (o :: map snd kw').
  Proof.
    intros n kw. induction kw as [|[m x] kw IH]; intros o kw' H; cbn in H; [discriminate|].
    destruct (N.eqb n m).
    - injection H as <- <-. apply Permutation_refl.
    - destruct (kw_take n kw) as [[o' rest]|] eqn:E; [|discriminate].
      injection H as <- <-. cbn. eapply Permutation_trans; [apply perm_skip, IH; reflexivity|apply perm_swap].
  Qed.

  Definition bound_objs (b : list (@param V * @barg Obj)) : list Obj :=
    flat_map (fun x => objs_of (snd x)) b.

  (* no argument is dropped or duplicated: the bound arguments are exactly the
     arguments of the call *)
  Lemma bind_go_objs : forall (ps : list (@param V)) (pos : list Obj) kw b,
    bind_go ps pos kw = Some b -> Permutation (bound_objs b) (pos ++ map snd kw).
  Proof.
    induction ps as [|p ps IH]; intros pos kw b H; cbn in H.
    - destruct pos, kw; try discriminate. injection H as <-. apply Permutation_refl.
    - assert (Hk : forall b,
        match kw_take (pname p) kw with
        | Some (o, kw') => cons_opt (p, BOne o) (bind_go ps [] kw')
        | None => if has_default p then cons_opt (p, BDefault) (bind_go ps [] kw) else None
        end = Some b -> Permutation (bound_objs b) (map snd kw)).
      { intros b0 H0. destruct (kw_take (pname p) kw) as [[o kw']|] eqn:E.
        - apply cons_opt_some in H0. destruct H0 as [l' [H1 ->]]. cbn.
          apply IH in H1. cbn in H1. apply Permutation_sym.
          eapply Permutation_trans; [exact (kw_take_perm _ _ _ _ E)|]. apply perm_skip, Permutation_sym, H1.
        - destruct (has_default p); [|discriminate].
          apply cons_opt_some in H0. destruct H0 as [l' [H1 ->]]. cbn. apply IH in H1. exact H1. }
      destruct (kind p).
      + destruct pos as [|o pos']; [apply Hk, H|].
        destruct (kw_mem (pname p) kw); [discriminate|].
        apply cons_opt_some in H. destruct H as [l' [H1 ->]]. cbn. apply perm_skip. apply IH, H1.
      + destruct pos; [apply Hk, H|discriminate].
      + apply cons_opt_some in H. destruct H as [l' [H1 ->]]. unfold bound_objs. cbn.
        apply Permutation_app_head. apply IH in H1. exact H1.
      + destruct pos; [|discriminate].
        apply cons_opt_some in H. destruct H as [l' [H1 ->]]. unfold bound_objs. cbn.
        apply IH in H1. cbn in H1. apply Permutation_sym, Permutation_nil in H1.
        fold (bound_objs l'). rewrite H1, app_nil_r. apply Permutation_refl.
  Qed.
End Bind.
