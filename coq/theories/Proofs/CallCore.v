(* Proofs/CallCore.v — C03 composed into C06: over the merged Core value model
   (Core/Val.v, Core/Member.v, Core/CanAssignK.v) the non-generic call-checking theorem
   holds with Core's structural membership as the specification, on every call whose
   (declared type, literal argument) pairs are inside C03's guard `ok`. *)
From Coq Require Import ZArith List Bool NArith.
Import ListNotations.
Require Import PV.Core.Obj PV.Core.Val PV.Core.Cls PV.Core.Member PV.Core.CanAssignK.
Require Import PV.Proofs.C03Main.
Require Import PV.TypeVar.Base PV.Call.Model PV.Proofs.CallMain.

Section CallCore.
  Context (ct : class_table) (O : ops val) (limit : nat) (none_v : val).
  (* the acceptance operation agrees with the model of T.can_assign(KnownValue(o)) *)
  Hypothesis acc_is_ca : forall T o, acc O T (VLeaf (LKnown o)) = ca ct T o.

  Definition kv (o : obj) : val := VLeaf (LKnown o).

  Theorem core_diagnosed_iff_nonmember_partial : forall s c b,
    flat_sig s = true -> cbind s c = Some b -> literal_args kv b ->
    (forall p vs T o, In (p, BVals vs) b -> ann p = AnnE (TTy T) -> In (AV (kv o)) vs -> ok ct T o) ->
    (diagnosed O limit none_v s c = true <->
     exists p vs T o, In (p, BVals vs) b /\ ann p = AnnE (TTy T) /\ In (AV (kv o)) vs /\ member ct T o = false).
  Proof.
    intros s c b Hnv Hb Hlit Hok.
    apply (nongeneric_diagnosed_iff_nonmember_on O limit none_v kv (fun o T => member ct T o)); auto.
    intros p vs T o Hin Ea Hx. unfold kv. rewrite acc_is_ca. apply ok_ca_member. eapply Hok; eassumption.
  Qed.
End CallCore.
