(* Proofs/CallMain.v — the C06 theorems about Call/Model.v. *)
From Coq Require Import List Bool Arith NArith Permutation.
Import ListNotations.
Require Import PV.TypeVar.Base PV.TypeVar.Model PV.TypeVar.Spec PV.Call.Model.
Require Import PV.Proofs.SolveCall PV.Proofs.CallBind.

Section CallMain.
  Context {V : Type} (O : ops V) (limit : nat).
  Context {Obj : Type} (val : Obj -> V).
  (* runtime membership of an argument object in a static type (the specification) *)
  Context (member : Obj -> V -> bool).

  Notation param := (@param V).
  Notation barg := (@barg Obj).

  Lemma pass2_in : forall sol (b : list (param * barg)) n,
    In (IncompatibleArgument n) (pass2 O val sol b) <->
    exists p ba, In (p, ba) b /\ pname p = n /\ arg_fits O val (sub sol (ann p)) ba = false.
  Proof.
    intros sol b n. unfold pass2. rewrite in_flat_map. split.
    - intros [[p ba] [Hin H]]. destruct (arg_fits O val (sub sol (ann p)) ba) eqn:E; [destruct H|].
      destruct H as [H|[]]. injection H as <-. exists p, ba. auto.
    - intros [p [ba [Hin [<- E]]]]. exists (p, ba). split; [exact Hin|]. rewrite E. left. reflexivity.
  Qed.

  Lemma pass2_nil : forall sol (b : list (param * barg)),
    pass2 O val sol b = [] <-> forall p ba, In (p, ba) b -> arg_fits O val (sub sol (ann p)) ba = true.
  Proof.
    intros sol b. unfold pass2. induction b as [|[p ba] b IH]; cbn; [split; [intros _ ? ? []|reflexivity]|].
    destruct (arg_fits O val (sub sol (ann p)) ba) eqn:E; cbn.
    - rewrite IH. split.
      + intros H q qa [Hq|Hq]; [injection Hq as <- <-; exact E|apply H, Hq].
      + intros H q qa Hq. apply H. right. exact Hq.
    - split; [intros HH; discriminate HH|]. intros H. specialize (H p ba (or_introl eq_refl)). congruence.
  Qed.

  Lemma pass2_only_arguments : forall sol (b : list (param * barg)) d,
    In d (pass2 O val sol b) -> exists n, d = IncompatibleArgument n.
  Proof.
    intros sol b d H. unfold pass2 in H. apply in_flat_map in H. destruct H as [[p ba] [_ H]].
    destruct (arg_fits O val (sub sol (ann p)) ba); [destruct H|]. destruct H as [<-|[]]. eauto.
  Qed.

  (* shape of an accepted call *)
  Theorem check_call_accepted_iff : forall s c,
    fst (check_call O limit val s c) = [] <->
    exists b sol, bind s c = Some b /\ pass1_fail O limit val (tdecl s) b = None /\
      mresolve O limit (flat_map (arg_bounds (tdecl s)) (t_values val b)) = Sol sol /\
      forall p ba, In (p, ba) b -> arg_fits O val (sub sol (ann p)) ba = true.
  Proof.
    intros s c. unfold check_call. destruct (bind s c) as [b|]; cbn.
    2:{ split; [intros HH; discriminate HH|]. intros [b [sol [H _]]]. discriminate H. }
    destruct (pass1_fail O limit val (tdecl s) b) as [n|] eqn:Ep; cbn.
    { split; [intros HH; discriminate HH|]. intros [b' [sol [H1 [H2 _]]]]. injection H1 as <-. congruence. }
    destruct (mresolve O limit _) as [sol|] eqn:Er; cbn.
    2:{ split; [intros HH; discriminate HH|]. intros [b' [sol [H1 [_ [H3 _]]]]]. injection H1 as <-. congruence. }
    rewrite pass2_nil. split.
    - intros H. exists b, sol. auto.
    - intros [b' [sol' [H1 [_ [H3 H4]]]]]. injection H1 as <-. assert (sol' = sol) by congruence. subst. exact H4.
  Qed.

  (* signatures that do not mention the type variable *)
  Lemma no_vars_t_values : forall (b : list (param * barg)),
    forallb (fun p => negb (is_var (ann p))) (map fst b) = true -> t_values val b = [].
  Proof.
    induction b as [|[p ba] b IH]; cbn; [reflexivity|]. intros H. apply andb_prop in H. destruct H as [H1 H2].
    destruct (is_var (ann p)); [discriminate|]. cbn. apply IH, H2.
  Qed.

  Lemma no_vars_pass1 : forall d (b : list (param * barg)),
    forallb (fun p => negb (is_var (ann p))) (map fst b) = true -> pass1_fail O limit val d b = None.
  Proof.
    intros d b H. unfold pass1_fail.
    assert (Hf : find (fun '(p, ba) => is_var (ann p) &&
                  negb (forallb (fun o => arg_ok O limit d (val o)) (objs_of ba))) b = None).
    { induction b as [|[p ba] b IH]; cbn; [reflexivity|]. cbn in H. apply andb_prop in H. destruct H as [H1 H2].
      destruct (is_var (ann p)); [discriminate|]. cbn. apply IH, H2. }
    rewrite Hf. reflexivity.
  Qed.

  Lemma sub_no_var : forall sol sol' (a : @annot V), is_var a = false -> sub sol a = sub sol' a.
  Proof. intros sol sol' [|t|] H; try reflexivity. discriminate. Qed.

  (* Non-generic signatures: the diagnostics are exactly one incompatible_argument
     per parameter with an argument its annotation does not accept *)
  Theorem nongeneric_diagnostics : forall s c b,
    no_vars s = true -> bind s c = Some b ->
    forall d, In d (fst (check_call O limit val s c)) <->
      exists p ba t o, In (p, ba) b /\ d = IncompatibleArgument (pname p) /\
        ann p = AnnTy t /\ In o (objs_of ba) /\ acc O t (val o) = false.
  Proof.
    intros s c b Hnv Hb d. unfold check_call. rewrite Hb.
    assert (Hps : map fst b = params s) by (eapply bind_go_params; exact Hb).
    unfold no_vars in Hnv. rewrite <- Hps in Hnv.
    rewrite (no_vars_pass1 (tdecl s) b Hnv), (no_vars_t_values b Hnv). cbn.
    split.
    - intros H. destruct (pass2_only_arguments _ _ _ H) as [n ->].
      apply pass2_in in H. destruct H as [p [ba [Hin [<- Hf]]]].
      unfold arg_fits in Hf. destruct (ann p) as [|t|] eqn:Ea; cbn in Hf; try discriminate.
      + assert (Hex : existsb (fun o => negb (acc O t (val o))) (objs_of ba) = true).
        { clear -Hf. induction (objs_of ba) as [|o l IH]; cbn in *; [discriminate|].
          destruct (acc O t (val o)); cbn in *; [apply IH, Hf|reflexivity]. }
        apply existsb_exists in Hex. destruct Hex as [o [Ho Hn]].
        exists p, ba, t, o. repeat split; auto. destruct (acc O t (val o)); [discriminate|reflexivity].
      + exfalso. rewrite forallb_forall in Hnv. specialize (Hnv p).
        rewrite Ea in Hnv. cbn in Hnv. assert (false = true); [|discriminate].
        apply Hnv. apply in_map_iff. exists (p, ba). auto.
    - intros [p [ba [t [o [Hin [-> [Ea [Ho Hacc]]]]]]]]. apply pass2_in. exists p, ba. repeat split; auto.
      rewrite Ea. cbn. apply not_true_is_false. intros Hall. rewrite forallb_forall in Hall.
      specialize (Hall o Ho). congruence.
  Qed.

  Hypothesis acc_member : forall t o, acc O t (val o) = member o t.

  (* diagnosed(call) <=> exists arg: not member(arg, declared(param)) *)
  Theorem nongeneric_diagnosed_iff_nonmember : forall s c b,
    no_vars s = true -> bind s c = Some b ->
    (diagnosed O limit val s c = true <->
     exists p ba t o, In (p, ba) b /\ ann p = AnnTy t /\ In o (objs_of ba) /\ member o t = false).
  Proof.
    intros s c b Hnv Hb. unfold diagnosed. split.
    - destruct (fst (check_call O limit val s c)) as [|d l] eqn:E; [discriminate|]. intros _.
      assert (Hd : In d (fst (check_call O limit val s c))) by (rewrite E; left; reflexivity).
      apply (nongeneric_diagnostics s c b Hnv Hb) in Hd.
      destruct Hd as [p [ba [t [o [Hin [_ [Ea [Ho Hacc]]]]]]]]. rewrite acc_member in Hacc. eauto 8.
    - intros [p [ba [t [o [Hin [Ea [Ho Hm]]]]]]].
      assert (Hd : In (IncompatibleArgument (pname p)) (fst (check_call O limit val s c))).
      { apply (nongeneric_diagnostics s c b Hnv Hb). exists p, ba, t, o. rewrite acc_member. auto 8. }
      destruct (fst (check_call O limit val s c)); [destruct Hd|reflexivity].
  Qed.

  (* generic or not: an accepted call has a solution under which every argument
     is a member of the substituted parameter type (otherwise an error is reported) *)
  Theorem accepted_call_arguments_fit : forall s c,
    diagnosed O limit val s c = false ->
    exists b sol, bind s c = Some b /\ snd (check_call O limit val s c) = inferred O sol (ret s) /\
      forall p ba t o, In (p, ba) b -> sub sol (ann p) = Some t -> In o (objs_of ba) -> member o t = true.
  Proof.
    intros s c Hd. unfold diagnosed in Hd.
    destruct (fst (check_call O limit val s c)) eqn:E; [|discriminate].
    pose proof E as E'. apply check_call_accepted_iff in E. destruct E as [b [sol [Hb [H1 [Hr Hfit]]]]].
    exists b, sol. split; [exact Hb|]. split.
    - unfold check_call. rewrite Hb, H1, Hr. reflexivity.
    - intros p ba t o Hin Hs Ho. specialize (Hfit p ba Hin). unfold arg_fits in Hfit. rewrite Hs in Hfit.
      rewrite forallb_forall in Hfit. rewrite <- acc_member. apply Hfit, Ho.
  Qed.

  Hypothesis L : acc_laws O.

  (* with C15: the second pass never reports a parameter annotated with the bare
     type variable — the solution accepts every such argument *)
  Theorem solution_accepts_typevar_arguments : forall d (b : list (param * barg)) sol p ba,
    mresolve O limit (flat_map (arg_bounds d) (t_values val b)) = Sol sol ->
    In (p, ba) b -> ann p = AnnVar -> arg_fits O val (sub sol (ann p)) ba = true.
  Proof.
    intros d b sol p ba Hr Hin Ea. rewrite Ea. cbn. apply forallb_forall. intros o Ho.
    eapply mresolve_lower; [exact L|exact Hr|].
    apply in_flat_map. exists (val o). split; [|left; reflexivity].
    unfold t_values. apply in_flat_map. exists (p, ba). split; [exact Hin|].
    rewrite Ea. cbn. apply in_map, Ho.
  Qed.

  (* hence, for a call that binds: accepted <=> every T-argument fits the declaration on its
     own, the bounds are solvable, and every other argument is a member of its declared type *)
  Theorem generic_accepted_iff : forall s c b,
    bind s c = Some b ->
    (diagnosed O limit val s c = false <->
     pass1_fail O limit val (tdecl s) b = None /\
     is_err (mresolve O limit (flat_map (arg_bounds (tdecl s)) (t_values val b))) = false /\
     forall p ba t o, In (p, ba) b -> ann p = AnnTy t -> In o (objs_of ba) -> member o t = true).
  Proof.
    intros s c b Hb. unfold diagnosed. split.
    - destruct (fst (check_call O limit val s c)) eqn:E; [|discriminate]. intros _.
      apply check_call_accepted_iff in E. destruct E as [b' [sol [Hb' [H1 [Hr Hfit]]]]].
      assert (b' = b) by congruence. subst b'. split; [exact H1|]. split; [rewrite Hr; reflexivity|].
      intros p ba t o Hin Ea Ho. specialize (Hfit p ba Hin). rewrite Ea in Hfit. cbn in Hfit.
      rewrite forallb_forall in Hfit. rewrite <- acc_member. apply Hfit, Ho.
    - intros [H1 [Hr Hm]].
      destruct (mresolve O limit (flat_map (arg_bounds (tdecl s)) (t_values val b))) as [sol|] eqn:Er; [|discriminate].
      assert (E : fst (check_call O limit val s c) = []).
      { apply check_call_accepted_iff. exists b, sol. repeat split; auto.
        intros p ba Hin. destruct (ann p) as [|t|] eqn:Ea.
        - reflexivity.
        - cbn. apply forallb_forall. intros o Ho. rewrite acc_member. eapply Hm; eassumption.
        - rewrite <- Ea. eapply solution_accepts_typevar_arguments; eassumption. }
      rewrite E. reflexivity.
  Qed.

  (* the inferred type of `-> T` contains every argument passed for a parameter annotated T *)
  Theorem identity_result_member : forall s c b p ba o,
    ret s = AnnVar -> diagnosed O limit val s c = false -> bind s c = Some b ->
    In (p, ba) b -> ann p = AnnVar -> In o (objs_of ba) ->
    member o (snd (check_call O limit val s c)) = true.
  Proof.
    intros s c b p ba o Hret Hd Hb Hin Ea Ho.
    destruct (accepted_call_arguments_fit s c Hd) as [b' [sol [Hb' [Hsnd Hfit]]]].
    assert (b' = b) by congruence. subst b'. rewrite Hsnd, Hret. cbn.
    eapply Hfit; [exact Hin| |exact Ho]. rewrite Ea. reflexivity.
  Qed.
End CallMain.
