(* Proofs/CallMain.v — the C06 theorems about Call/Model.v. *)
From Coq Require Import List Bool Arith NArith.
Import ListNotations.
Require Import PV.TypeVar.Base PV.TypeVar.Model PV.TypeVar.Spec PV.Call.Model.
Require Import PV.Binder.Kind PV.Binder.Sig PV.Binder.Bind PV.Binder.PyBind.
Require Import PV.Proofs.BinderConcrete PV.Proofs.BinderValid.

Section CallMain.
  Context {V : Type} (O : ops V) (limit : nat).

  Lemma actuals_concrete : forall (c : @ccall V), concrete_call c = true -> concrete (actuals_of c).
  Proof.
    intros c H. unfold concrete_call in H. apply andb_prop in H. destruct H as [H1 H2].
    unfold concrete, actuals_of; cbn. repeat split.
    - destruct (a_star c); [discriminate|reflexivity].
    - destruct (a_starkw c); [discriminate|reflexivity].
    - induction (a_pos c); cbn; auto.
    - induction (a_kw c) as [|[n v] l IH]; cbn; auto.
  Qed.

  Lemma actuals_kw_names : forall (c : @ccall V), map fst (keywords (actuals_of c)) = map fst (a_kw c).
  Proof. intros c. cbn. induction (a_kw c) as [|[n v] l IH]; cbn; [reflexivity|]. f_equal. exact IH. Qed.

  (* C05 composed: for a concrete call the model reports a binding failure
     exactly when CPython cannot bind the call *)
  Theorem binding_failure_iff_cpython_rejects : forall (s : @csig V) c,
    valid_sig (sig_of s) = true -> concrete_call c = true -> names_nodup (map fst (a_kw c)) = true ->
    (cbind s c = None <-> py_bind (sig_of s) (length (a_pos c)) (map fst (a_kw c)) = false).
  Proof.
    intros s c Hv Hc Hn.
    pose proof (bind_concrete_iff_pybind (sig_of s) (actuals_of c) Hv (actuals_concrete c Hc)) as H.
    rewrite actuals_kw_names in H. specialize (H Hn).
    assert (Hl : length (positionals (actuals_of c)) = length (a_pos c)) by (cbn; apply map_length).
    rewrite Hl in H. rewrite <- H. unfold accepts, cbind.
    destruct (bind (sig_of s) (actuals_of c)); split; intros; congruence.
  Qed.
End CallMain.
