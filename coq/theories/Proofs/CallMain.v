(* Proofs/CallMain.v — the C06 theorems about Call/Model.v. *)
From Coq Require Import List Bool Arith NArith.
Import ListNotations.
Require Import PV.TypeVar.Base PV.TypeVar.Model PV.TypeVar.Spec PV.Call.Model.
Require Import PV.Binder.Kind PV.Binder.Sig PV.Binder.Bind PV.Binder.PyBind.
Require Import PV.Proofs.BinderConcrete PV.Proofs.BinderValid PV.Proofs.BinderStar PV.Proofs.BinderMain PV.Proofs.SolveCall.

Section CallMain.
  Context {V : Type} (O : ops V) (limit : nat).

  Lemma actuals_concrete : forall (c : @ccall V), concrete_call c = true -> concrete (actuals_of c).
  Proof.
    intros c H. unfold concrete_call in H. apply andb_prop in H. destruct H as [H1 H2].
    unfold concrete, actuals_of; cbn. repeat split.
    - destruct (a_star c); [discriminate|reflexivity].
    - destruct (a_starkw c); [discriminate|reflexivity].
    - induction (a_pos c); cbn; auto.
    - induction (a_kw c) as [|[n v] l IH]; cbn; auto.
  Qed.

  Lemma actuals_kw_names : forall (c : @ccall V), map fst (keywords (actuals_of c)) = map fst (a_kw c).
  Proof. intros c. cbn. induction (a_kw c) as [|[n v] l IH]; cbn; [reflexivity|]. f_equal. exact IH. Qed.

  (* C05 composed: for a concrete call the model reports a binding failure
     exactly when CPython cannot bind the call *)
  Theorem binding_failure_iff_cpython_rejects : forall (s : @csig V) c,
    valid_sig (sig_of s) = true -> concrete_call c = true -> names_nodup (map fst (a_kw c)) = true ->
    (cbind s c = None <-> py_bind (sig_of s) (length (a_pos c)) (map fst (a_kw c)) = false).
  Proof.
    intros s c Hv Hc Hn.
    pose proof (bind_concrete_iff_pybind (sig_of s) (actuals_of c) Hv (actuals_concrete c Hc)) as H.
    rewrite actuals_kw_names in H. specialize (H Hn).
    assert (Hl : length (positionals (actuals_of c)) = length (a_pos c)) by (cbn; apply map_length).
    rewrite Hl in H. rewrite <- H. unfold accepts, cbind.
    destruct (bind (sig_of s) (actuals_of c)); split; intros; congruence.
  Qed.

  Lemma actuals_definite : forall (c : @ccall V), definite (actuals_of c).
  Proof.
    intros c. unfold definite, actuals_of; cbn. split.
    - induction (a_pos c); cbn; auto.
    - induction (a_kw c) as [|[n v] l IH]; cbn; auto.
  Qed.

  (* C05 composed, star arguments: a call the model does not report as a binding failure
     has an expansion of its star arguments that CPython binds *)
  Theorem bound_star_call_has_binding_expansion : forall (s : @csig V) c b,
    valid_sig (sig_of s) = true -> names_nodup (map fst (a_kw c)) = true -> cbind s c = Some b ->
    exists npos' kws', expansion (actuals_of c) npos' kws' /\ py_bind (sig_of s) npos' kws' = true.
  Proof.
    intros s c b Hv Hn Hb.
    apply (bind_star_accept_sound (sig_of s) (actuals_of c) Hv (actuals_definite c)).
    - rewrite actuals_kw_names. exact Hn.
    - unfold accepts. unfold cbind in Hb. destruct (bind (sig_of s) (actuals_of c)); [reflexivity|discriminate].
  Qed.
End CallMain.

Section CallThms.
  Context {V : Type} (O : ops V) (limit : nat) (none_v : V).
  Notation cparam := (@cparam V).
  Notation barg := (@barg V).

  Lemma pass2_nil : forall sol (b : list (cparam * barg)),
    pass2 O none_v sol b = [] <-> forall p ba, In (p, ba) b -> fits O none_v sol (ann p) ba = true.
  Proof.
    intros sol b. unfold pass2. induction b as [|[p ba] b IH]; cbn; [split; [intros _ ? ? []|reflexivity]|].
    destruct (fits O none_v sol (ann p) ba) eqn:E; cbn.
    - rewrite IH. split.
      + intros H q qa [Hq|Hq]; [injection Hq as <- <-; exact E|apply H, Hq].
      + intros H q qa Hq. apply H. right. exact Hq.
    - split; [intros HH; discriminate HH|]. intros H. specialize (H p ba (or_introl eq_refl)). congruence.
  Qed.

  Lemma pass2_in : forall sol (b : list (cparam * barg)) d,
    In d (pass2 O none_v sol b) <->
    exists p ba, In (p, ba) b /\ d = IncompatibleArgument (pname (cp p)) /\ fits O none_v sol (ann p) ba = false.
  Proof.
    intros sol b d. unfold pass2. rewrite in_flat_map. split.
    - intros [[p ba] [Hin H]]. destruct (fits O none_v sol (ann p) ba) eqn:E; [destruct H|].
      destruct H as [<-|[]]. exists p, ba. auto.
    - intros [p [ba [Hin [-> E]]]]. exists (p, ba). split; [exact Hin|]. rewrite E. left. reflexivity.
  Qed.

  (* shape of an accepted call *)
  Theorem check_call_accepted_iff : forall s c,
    fst (check_call O limit none_v s c) = [] <->
    exists b l, cbind s c = Some b /\ pass1 O limit none_v s b = inr l /\ resolve_ok O limit l = true /\
      forall p ba, In (p, ba) b -> fits O none_v (sol_of O limit l) (ann p) ba = true.
  Proof.
    intros s c. unfold check_call. destruct (cbind s c) as [b|]; cbn.
    2:{ split; [intros HH; discriminate HH|]. intros [b [l [H _]]]. discriminate H. }
    destruct (pass1 O limit none_v s b) as [n|l] eqn:Ep; cbn.
    { split; [intros HH; discriminate HH|]. intros [b' [l [H1 [H2 _]]]]. injection H1 as <-. congruence. }
    destruct (resolve_ok O limit l) eqn:Er; cbn.
    - rewrite pass2_nil. split.
      + intros H. exists b, l. auto.
      + intros [b' [l' [H1 [H2 [_ H4]]]]]. injection H1 as <-. assert (l' = l) by congruence. subst. exact H4.
    - split; [intros HH; discriminate HH|]. intros [b' [l' [H1 [H2 [H3 _]]]]]. injection H1 as <-.
      assert (l' = l) by congruence. subst. congruence.
  Qed.

  (* an accepted call comes with a solution for every type variable under which every
     bound argument value fits the substituted annotation, and the inferred type is the
     substituted return annotation — otherwise an error is reported *)
  Theorem accepted_call_arguments_fit : forall s c,
    diagnosed O limit none_v s c = false ->
    exists b sol, cbind s c = Some b /\ snd (check_call O limit none_v s c) = inferred O sol (cret s) /\
      forall p vs x, In (p, BVals vs) b -> In x vs -> fits1 O none_v sol (ann p) x = true.
  Proof.
    intros s c Hd. unfold diagnosed in Hd.
    destruct (fst (check_call O limit none_v s c)) eqn:E; [|discriminate].
    apply check_call_accepted_iff in E. destruct E as [b [l [Hb [H1 [Hr Hfit]]]]].
    exists b, (sol_of O limit l). split; [exact Hb|]. split.
    - unfold check_call. rewrite Hb, H1, Hr. reflexivity.
    - intros p vs x Hin Hx. specialize (Hfit p (BVals vs) Hin). cbn in Hfit.
      rewrite forallb_forall in Hfit. apply Hfit, Hx.
  Qed.

  (* the solver-level findings of C15 cannot surface in an accepted call: every
     callback's parameter type (an UPPER bound of T_k) accepts the value chosen for T_k,
     and the callback's result is accepted by the value chosen for its result variable *)
  Theorem accepted_call_respects_callback_bounds : forall s c,
    diagnosed O limit none_v s c = false ->
    exists b sol, cbind s c = Some b /\
      forall p vs k r pv qv, In (p, BVals vs) b -> ann p = AnnFun k r -> In (AFun pv qv) vs ->
        acc O pv (sol k) = true /\ (forall j, r = RVar j -> acc O (sol j) qv = true).
  Proof.
    intros s c Hd. destruct (accepted_call_arguments_fit s c Hd) as [b [sol [Hb [_ Hfit]]]].
    exists b, sol. split; [exact Hb|]. intros p vs k r pv qv Hin Ea Hx.
    specialize (Hfit p vs (AFun pv qv) Hin Hx). rewrite Ea in Hfit. cbn in Hfit.
    apply andb_prop in Hfit. destruct Hfit as [H1 H2]. split; [exact H1|].
    intros j ->. exact H2.
  Qed.

  (* ---- signatures without type variables ---- *)
  Lemma no_tv_pass1 : forall s (b : list (cparam * barg)),
    forallb (fun p => negb (has_tv (ann p))) (map fst b) = true -> pass1 O limit none_v s b = inr [].
  Proof.
    intros s b. induction b as [|[p ba] b IH]; cbn; [reflexivity|]. intros H.
    apply andb_prop in H. destruct H as [H1 H2]. destruct (has_tv (ann p)); [discriminate|].
    rewrite (IH H2). reflexivity.
  Qed.

  Lemma fits_e_no_tv : forall sol sol' (e : @texp V) x, tv_in e = false -> fits_e O none_v sol e x = fits_e O none_v sol' e x.
  Proof.
    intros sol sol' e. induction e as [t|k|e1 IH|ek IHk ev IHv|e1 IH|ea IHa eb IHb|e1 IH]; intros x H; cbn in H.
    - destruct x; reflexivity.
    - discriminate.
    - destruct x; try reflexivity. cbn. apply IH, H.
    - apply orb_false_elim in H. destruct H as [H1 H2]. destruct x; try reflexivity. cbn.
      rewrite (IHk _ H1), (IHv _ H2). reflexivity.
    - destruct x; try reflexivity. cbn. apply IH, H.
    - apply orb_false_elim in H. destruct H as [H1 H2]. destruct x; try reflexivity. cbn.
      rewrite (IHa _ H1), (IHb _ H2). reflexivity.
    - destruct x; cbn; rewrite ?(IH _ H); try reflexivity.
  Qed.

  Lemma fits1_no_tv : forall sol sol' (a : @annot V) x, has_tv a = false -> fits1 O none_v sol a x = fits1 O none_v sol' a x.
  Proof.
    intros sol sol' [|e|k r] x H; try discriminate; [reflexivity|]. cbn. apply fits_e_no_tv, H.
  Qed.

  Lemma cbind_params : forall (s : @csig V) c b p ba, cbind s c = Some b -> In (p, ba) b -> In p (cparams s).
  Proof.
    intros s c b p ba H Hin. unfold cbind in H. destruct (bind (sig_of s) (actuals_of c)) as [r|]; [|discriminate].
    injection H as <-. apply in_map_iff in Hin. destruct Hin as [[q [[n pos] pl]] [He Hc]].
    injection He as <- _. eapply in_combine_l. exact Hc.
  Qed.

  (* the diagnostics of a call that binds to a signature without type variables are exactly
     one incompatible_argument per parameter with an argument its annotation does not accept *)
  Theorem nongeneric_diagnostics : forall s c b,
    no_tv s = true -> cbind s c = Some b ->
    forall d, In d (fst (check_call O limit none_v s c)) <->
      exists p vs x, In (p, BVals vs) b /\ d = IncompatibleArgument (pname (cp p)) /\
        In x vs /\ fits1 O none_v (fun _ => any_generic O) (ann p) x = false.
  Proof.
    intros s c b Hnv Hb d.
    assert (Hall : forallb (fun p => negb (has_tv (ann p))) (map fst b) = true).
    { apply forallb_forall. intros p Hp. apply in_map_iff in Hp. destruct Hp as [[q ba] [<- Hin]].
      unfold no_tv in Hnv. rewrite forallb_forall in Hnv. apply Hnv. eapply cbind_params; eassumption. }
    unfold check_call. rewrite Hb, (no_tv_pass1 s b Hall). cbn. rewrite pass2_in. split.
    - intros [p [ba [Hin [-> Hf]]]]. destruct ba as [vs|dd]; [|discriminate].
      cbn in Hf.
      assert (Hex : existsb (fun x => negb (fits1 O none_v (sol_of O limit []) (ann p) x)) vs = true).
      { clear -Hf. induction vs as [|x l IH]; cbn in *; [discriminate|].
        destruct (fits1 O none_v (sol_of O limit []) (ann p) x); cbn in *; [apply IH, Hf|reflexivity]. }
      apply existsb_exists in Hex. destruct Hex as [x [Hx Hn]].
      exists p, vs, x. repeat split; auto.
      assert (Hp : has_tv (ann p) = false).
      { rewrite forallb_forall in Hall. specialize (Hall p). destruct (has_tv (ann p)); [|reflexivity].
        assert (negb true = true); [|discriminate]. apply Hall. apply in_map_iff. exists (p, BVals vs). auto. }
      rewrite (fits1_no_tv _ (sol_of O limit []) _ _ Hp).
      destruct (fits1 O none_v (sol_of O limit []) (ann p) x); [discriminate|reflexivity].
    - intros [p [vs [x [Hin [-> [Hx Hf]]]]]]. exists p, (BVals vs). repeat split; auto.
      cbn. apply not_true_is_false. intros Hallf. rewrite forallb_forall in Hallf.
      assert (Hp : has_tv (ann p) = false).
      { rewrite forallb_forall in Hall. specialize (Hall p). destruct (has_tv (ann p)); [|reflexivity].
        assert (negb true = true); [|discriminate]. apply Hall. apply in_map_iff. exists (p, BVals vs). auto. }
      rewrite (fits1_no_tv _ (sol_of O limit []) _ _ Hp) in Hf. specialize (Hallf x Hx). congruence.
  Qed.

  (* with acceptance = runtime membership on literal arguments:
     diagnosed(call) <=> exists arg: not member(arg, declared(param)) *)
  Context {Obj : Type} (val : Obj -> V) (member : Obj -> V -> bool).
  Definition literal_args (b : list (cparam * barg)) : Prop :=
    forall p vs x, In (p, BVals vs) b -> In x vs -> exists o, x = AV (val o).

  (* flat signatures: every parameter unannotated or annotated with a closed type of the fragment *)
  Definition flat_ann (a : @annot V) : bool :=
    match a with AnnNone => true | AnnE (TTy _) => true | _ => false end.
  Definition flat_sig (s : @csig V) : bool := forallb (fun p => flat_ann (ann p)) (cparams s).

  Lemma flat_no_tv : forall s, flat_sig s = true -> no_tv s = true.
  Proof.
    intros s H. unfold flat_sig, no_tv in *. rewrite forallb_forall in *. intros p Hp.
    specialize (H p Hp). destruct (ann p) as [|[t|k|e|ek ev|e|ea eb|e]|k r]; cbn in *; try discriminate; reflexivity.
  Qed.

  Theorem nongeneric_diagnosed_iff_nonmember_on : forall s c b,
    flat_sig s = true -> cbind s c = Some b -> literal_args b ->
    (* acceptance = membership is only needed on the (declared type, literal) pairs of this call *)
    (forall p vs t o, In (p, BVals vs) b -> ann p = AnnE (TTy t) -> In (AV (val o)) vs ->
        acc O t (val o) = member o t) ->
    (diagnosed O limit none_v s c = true <->
     exists p vs t o, In (p, BVals vs) b /\ ann p = AnnE (TTy t) /\ In (AV (val o)) vs /\ member o t = false).
  Proof.
    intros s c b Hfl Hb Hlit Ham. pose proof (flat_no_tv s Hfl) as Hnv. unfold diagnosed. split.
    - destruct (fst (check_call O limit none_v s c)) as [|d l] eqn:E; [discriminate|]. intros _.
      assert (Hd : In d (fst (check_call O limit none_v s c))) by (rewrite E; left; reflexivity).
      apply (nongeneric_diagnostics s c b Hnv Hb) in Hd.
      destruct Hd as [p [vs [x [Hin [_ [Hx Hf]]]]]].
      destruct (Hlit p vs x Hin Hx) as [o ->].
      assert (Hp : flat_ann (ann p) = true).
      { unfold flat_sig in Hfl. rewrite forallb_forall in Hfl. apply Hfl. eapply cbind_params; eassumption. }
      destruct (ann p) as [|[t|k|e|ek ev|e|ea eb|e]|k r] eqn:Ea; cbn in Hf, Hp; try discriminate.
      exists p, vs, t, o. rewrite <- (Ham p vs t o Hin Ea Hx). auto.
    - intros [p [vs [t [o [Hin [Ea [Hx Hm]]]]]]].
      assert (Hd : In (IncompatibleArgument (pname (cp p))) (fst (check_call O limit none_v s c))).
      { apply (nongeneric_diagnostics s c b Hnv Hb). exists p, vs, (AV (val o)). repeat split; auto.
        rewrite Ea. cbn. rewrite (Ham p vs t o Hin Ea Hx). exact Hm. }
      destruct (fst (check_call O limit none_v s c)); [destruct Hd|reflexivity].
  Qed.

  Hypothesis acc_member : forall t o, acc O t (val o) = member o t.

  Theorem nongeneric_diagnosed_iff_nonmember : forall s c b,
    flat_sig s = true -> cbind s c = Some b -> literal_args b ->
    (diagnosed O limit none_v s c = true <->
     exists p vs t o, In (p, BVals vs) b /\ ann p = AnnE (TTy t) /\ In (AV (val o)) vs /\ member o t = false).
  Proof.
    intros s c b Hnv Hb Hlit. apply nongeneric_diagnosed_iff_nonmember_on; auto.
  Qed.

  Hypothesis L : acc_laws O.

  Lemma both_some : forall {A} (x y : option (list A)) l, both x y = Some l ->
    exists a b, x = Some a /\ y = Some b /\ l = a ++ b.
  Proof. intros A [a|] [b|] l H; cbn in H; try discriminate. injection H as <-. eauto. Qed.

  Lemma pass1_incl : forall s (b : list (cparam * barg)) l p vs,
    pass1 O limit none_v s b = inr l -> In (p, BVals vs) b -> has_tv (ann p) = true ->
    exists l0, gen_bounds O limit none_v s (ann p) vs = Some l0 /\ incl l0 l.
  Proof.
    intros s b. induction b as [|[q qa] b IH]; intros l p vs H Hin Htv; [destruct Hin|].
    cbn in H.
    destruct (if has_tv (ann q) then _ else Some []) as [here|] eqn:Eh; [|discriminate].
    destruct (pass1 O limit none_v s b) as [n|l'] eqn:Ep; [discriminate|]. injection H as <-.
    destruct Hin as [Hq|Hin].
    - injection Hq as -> ->. rewrite Htv in Eh. exists here. split; [exact Eh|].
      intros z Hz. apply in_or_app. left. exact Hz.
    - destruct (IH l' p vs eq_refl Hin Htv) as [l0 [Hg Hi]]. exists l0. split; [exact Hg|].
      intros z Hz. apply in_or_app. right. apply Hi, Hz.
  Qed.

  Lemma bounds_for_in : forall k b (l : list (@tagged V)), In (k, b) l -> In b (bounds_for k l).
  Proof.
    intros k b l H. unfold bounds_for. apply in_flat_map. exists (k, b). split; [exact H|].
    rewrite Nat.eqb_refl. left. reflexivity.
  Qed.

  (* any lower bound that reached the solver is accepted by the value chosen *)
  Lemma tagged_lower_accepted : forall (l : list (@tagged V)) k v,
    resolve_ok O limit l = true -> In (k, LowerBound v) l -> acc O (sol_of O limit l k) v = true.
  Proof.
    intros l k v Hr Hk.
    pose proof (bounds_for_in k _ l Hk) as Hb.
    assert (Hok : is_err (solved O limit l k) = false).
    { unfold resolve_ok in Hr. rewrite forallb_forall in Hr. specialize (Hr k).
      destruct (is_err (solved O limit l k)); [|reflexivity].
      assert (negb true = true); [|discriminate]. apply Hr. unfold tvs. apply in_map_iff. exists (k, LowerBound v). auto. }
    unfold sol_of. unfold solved in *. destruct (bounds_for k l) as [|b0 bs] eqn:Eb; [destruct Hb|].
    rewrite <- Eb in *.
    destruct (mresolve O limit (bounds_for k l)) as [w|] eqn:Em; [|discriminate].
    eapply mresolve_lower; [exact L|exact Em|exact Hb].
  Qed.

  Lemma lower_gen_in : forall s k v l0, lower_gen O limit s k v = Some l0 -> In (k, LowerBound v) l0.
  Proof.
    intros s k v l0 H. unfold lower_gen in H.
    destruct (is_err (mresolve O limit (arg_bounds (decl_of s k) v))); [discriminate|].
    injection H as <-. left. reflexivity.
  Qed.

  (* By induction on the type expression, to any nesting depth: once `e.can_assign(x)` produced
     bounds that reached the solver and the solver succeeded, x fits e under the values chosen.
     (with C15: the value chosen accepts every lower bound) *)
  Theorem gen_e_fits : forall s l (e : @texp V) x l0,
    resolve_ok O limit l = true -> gen_e O limit none_v s e x = Some l0 -> incl l0 l ->
    fits_e O none_v (sol_of O limit l) e x = true.
  Proof.
    intros s l e. induction e as [t|k|e1 IH|ek IHk ev IHv|e1 IH|ea IHa eb IHb|e1 IH]; intros x l0 Hr Hg Hi.
    - destruct x; cbn in *; try discriminate. destruct (acc O t v); [reflexivity|discriminate].
    - destruct x; cbn in *; try discriminate.
      apply tagged_lower_accepted; [exact Hr|]. apply Hi. eapply lower_gen_in, Hg.
    - destruct x; cbn in *; try discriminate. eapply IH; eassumption.
    - destruct x; cbn in *; try discriminate. apply both_some in Hg. destruct Hg as [a [c [Ha [Hc ->]]]].
      apply andb_true_intro. split.
      + eapply IHk; [exact Hr|exact Ha|]. intros z Hz. apply Hi, in_or_app. left. exact Hz.
      + eapply IHv; [exact Hr|exact Hc|]. intros z Hz. apply Hi, in_or_app. right. exact Hz.
    - destruct x; cbn in *; try discriminate. eapply IH; eassumption.
    - destruct x; cbn in *; try discriminate. apply both_some in Hg. destruct Hg as [a [c [Ha [Hc ->]]]].
      apply andb_true_intro. split.
      + eapply IHa; [exact Hr|exact Ha|]. intros z Hz. apply Hi, in_or_app. left. exact Hz.
      + eapply IHb; [exact Hr|exact Hc|]. intros z Hz. apply Hi, in_or_app. right. exact Hz.
    - destruct x; cbn in *; try (eapply IH; eassumption).
      destruct (acc O none_v v); [reflexivity|]. cbn. eapply IH; eassumption.
  Qed.

  (* hence the second pass never reports an argument passed (positionally or by keyword) for a
     parameter whose annotation mentions type variables but no callback: it can only fail on
     concretely typed parameters and on a callback's parameter type (the upper-bound position) *)
  Theorem non_callback_argument_fits_after_pass1 : forall s (b : list (cparam * barg)) l p e x,
    pass1 O limit none_v s b = inr l -> resolve_ok O limit l = true ->
    In (p, BVals [x]) b -> ann p = AnnE e -> tv_in e = true ->
    fits_e O none_v (sol_of O limit l) e x = true.
  Proof.
    intros s b l p e x Hp Hr Hin Ea Htv.
    destruct (pass1_incl s b l p [x] Hp Hin) as [l0 [Hg Hi]]; [rewrite Ea; exact Htv|].
    rewrite Ea in Hg.
    assert (Hgen : exists l1, gen_e O limit none_v s e x = Some l1 /\ incl l1 l).
    { destruct e as [t|k|e1|ek ev|e1|ea eb|e1]; cbn in Hg;
        try (apply both_some in Hg; destruct Hg as [a [c [Ha [_ ->]]]]; exists a; split; [exact Ha|];
             intros z Hz; apply Hi, in_or_app; left; exact Hz).
      destruct x; cbn in Hg; try discriminate. exists l0. split; [exact Hg|exact Hi]. }
    destruct Hgen as [l1 [Hg1 Hi1]]. eapply gen_e_fits; eassumption.
  Qed.

  Theorem typevar_argument_accepted_by_solution : forall s (b : list (cparam * barg)) l p k v,
    pass1 O limit none_v s b = inr l -> resolve_ok O limit l = true ->
    In (p, BVals [AV v]) b -> ann p = AnnE (TVarE k) ->
    acc O (sol_of O limit l k) v = true.
  Proof.
    intros s b l p k v Hp Hr Hin Ea.
    exact (non_callback_argument_fits_after_pass1 s b l p (TVarE k) (AV v) Hp Hr Hin Ea eq_refl).
  Qed.

  (* the result type of a callback passed for Callable[.., T_j] is accepted by T_j's value *)
  Theorem callback_result_accepted : forall s (b : list (cparam * barg)) l p k j pv qv,
    pass1 O limit none_v s b = inr l -> resolve_ok O limit l = true ->
    In (p, BVals [AFun pv qv]) b -> ann p = AnnFun k (RVar j) ->
    acc O (sol_of O limit l j) qv = true.
  Proof.
    intros s b l p k j pv qv Hp Hr Hin Ea.
    destruct (pass1_incl s b l p [AFun pv qv] Hp Hin) as [l0 [Hg Hi]]; [rewrite Ea; reflexivity|].
    rewrite Ea in Hg. cbn in Hg. apply both_some in Hg. destruct Hg as [a [c [Ha [_ ->]]]].
    apply both_some in Ha. destruct Ha as [a1 [a2 [H1 [H2 ->]]]].
    apply tagged_lower_accepted; [exact Hr|]. apply Hi, in_or_app. left. apply in_or_app. right.
    eapply lower_gen_in, H2.
  Qed.

  (* the inferred type of `-> T_k` contains every literal passed (positionally or by
     keyword) for a parameter annotated T_k *)
  Theorem identity_result_member : forall s c b p k o,
    cret s = RVar k -> diagnosed O limit none_v s c = false -> cbind s c = Some b ->
    In (p, BVals [AV (val o)]) b -> ann p = AnnE (TVarE k) ->
    member o (snd (check_call O limit none_v s c)) = true.
  Proof.
    intros s c b p k o Hret Hd Hb Hin Ea.
    destruct (accepted_call_arguments_fit s c Hd) as [b' [sol [Hb' [Hsnd Hfit]]]].
    assert (b' = b) by congruence. subst b'. rewrite Hsnd, Hret. cbn.
    specialize (Hfit p [AV (val o)] (AV (val o)) Hin (or_introl eq_refl)).
    rewrite Ea in Hfit. cbn in Hfit. rewrite <- acc_member. exact Hfit.
  Qed.
End CallThms.
