(* Proofs/CallOverload.v — C08 composed into C06: an overloaded callee whose overloads are
   signatures of the call model.  Per-overload acceptance, which the C08 resolver model
   (Overload/Resolve.v) takes as an abstract function, is instantiated with the C06 verdict
   `diagnosed`; the call is a union-free, Any-free argument tuple (no union decomposition, no
   "matched due to Any": the call model does not track Any usage). *)
From Coq Require Import List Bool Arith NArith.
Import ListNotations.
Require Import PV.TypeVar.Base PV.Call.Model PV.Overload.Resolve PV.Proofs.OverloadResolve.

Section Ov.
  Context {V : Type} (O : ops V) (limit : nat) (none_v : V).
  Context (c : @ccall V).

  (* one overload, as the resolver sees it: it takes part iff the call binds; its single
     "parameter" accepts iff the C06 check of this overload reports nothing *)
  Definition osig_of (sr : @csig V * rtype) : osig :=
    mkSig (is_some (cbind (fst sr) c))
          [mkBP 0 true (fun _ => if diagnosed O limit none_v (fst sr) c then Fail else Clean)]
          (snd sr).

  Lemma accepts_osig_of : forall sr,
    accepts (osig_of sr) [0] = if diagnosed O limit none_v (fst sr) c then Fail else Clean.
  Proof.
    intros [s r]. unfold accepts, osig_of. cbn.
    unfold diagnosed, check_call. destruct (cbind s c) as [b|]; cbn; [|reflexivity].
    destruct (match fst _ with [] => false | _ => true end); reflexivity.
  Qed.

  (* a call to an overloaded function is diagnosed iff every overload's own check diagnoses it,
     and is otherwise typed with the return type of the first overload whose check is clean *)
  Theorem overloaded_call_first_clean : forall (ovs : list (@csig V * rtype)),
    resolve (map osig_of ovs) (singletons [0]) =
    match find (fun sr => negb (diagnosed O limit none_v (fst sr) c)) ovs with
    | Some sr => RTypes [snd sr]
    | None => RErr
    end.
  Proof.
    intros ovs. rewrite first_match.
    2:{ intros s Hs. apply in_map_iff in Hs. destruct Hs as [sr [<- _]]. rewrite accepts_osig_of.
        destruct (diagnosed O limit none_v (fst sr) c); discriminate. }
    induction ovs as [|sr ovs IH]; [reflexivity|].
    unfold first_clean in *. simpl map. simpl find. rewrite accepts_osig_of.
    destruct (diagnosed O limit none_v (fst sr) c); simpl negb; cbv iota; [exact IH|reflexivity].
  Qed.

  Theorem overloaded_call_diagnosed_iff : forall (ovs : list (@csig V * rtype)),
    resolve (map osig_of ovs) (singletons [0]) = RErr <->
    forall sr, In sr ovs -> diagnosed O limit none_v (fst sr) c = true.
  Proof.
    intros ovs. rewrite overloaded_call_first_clean.
    destruct (find _ ovs) as [sr|] eqn:E.
    - split; [intros HH; discriminate HH|]. intros H. apply find_some in E. destruct E as [Hin Hn].
      specialize (H sr Hin). cbv beta in Hn. rewrite H in Hn. simpl in Hn. discriminate Hn.
    - split; [|reflexivity]. intros _ sr Hin. pose proof (find_none _ _ E sr Hin) as H. cbv beta in H.
      destruct (diagnosed O limit none_v (fst sr) c); [reflexivity|cbn in H; discriminate H].
  Qed.
End Ov.
