(* Proofs/CallSelf.v — bind_self: a method / classmethod / constructor call is the call of the
   underlying function with the receiver prepended.  Index-shift lemma over the C05 binder's fold
   (Binder/Bind.v): binding (p0 :: s) against (one more definite positional in front) is binding
   s against the original arguments, with every positional index shifted by one. *)
From Coq Require Import List Bool Arith NArith Lia.
Import ListNotations.
Require Import PV.Binder.Kind PV.Binder.Sig PV.Binder.Bind.

Section Shift.
  Context (a : actuals) (p0 : param).

  Definition a' : actuals :=
    mkActuals (true :: positionals a) (star_args a) (keywords a) (star_kwargs a) (kwargs_required a).

  Definition she (e : N * position * payload) : N * position * payload :=
    let '(n, pos, pl) := e in
    (n, match pos with Pos i => Pos (S i) | x => x end,
        match pl with Tuple from count plus => Tuple (S from) count plus | x => x end).

  Definition e0 : N * position * payload := (pname p0, Pos 0, One).

  Definition sh (st : bstate) : bstate :=
    mkB (S (pidx st)) (kcons st) (sac st) (skc st) (eka st) (map she (bound st) ++ [e0]).

  Lemma step_shift : forall st p, step a' (sh st) p = option_map sh (step a st p).
  Proof.
    intros [pi kc sa sk ek bd] p. unfold step, sh, a', bind1.
    cbn [positionals star_args keywords star_kwargs kwargs_required pidx kcons sac skc eka bound length].
    change (S pi <? S (length (positionals a))) with (pi <? length (positionals a)).
    change (nth (S pi) (true :: positionals a) true) with (nth pi (positionals a) true).
    change (S (length (positionals a)) - S pi) with (length (positionals a) - pi).
    change (Nat.max (S pi) (S (length (positionals a)))) with (S (Nat.max pi (length (positionals a)))).
    destruct (pkind p);
      repeat match goal with
             | |- context [if ?c then _ else _] => destruct c
             | |- context [match kw_lookup ?n ?l with _ => _ end] => destruct (kw_lookup n l)
             | |- context [match ?x - ?y with _ => _ end] => destruct (x - y)
             | |- context [match filter ?f ?l with _ => _ end] => destruct (filter f l)
             end; reflexivity.
  Qed.

  Lemma bind_params_shift : forall s st,
    bind_params a' (sh st) s = option_map sh (bind_params a st s).
  Proof.
    induction s as [|p s IH]; intros st; cbn; [reflexivity|].
    rewrite step_shift. destruct (step a st p) as [st1|]; cbn; [apply IH|reflexivity].
  Qed.

  Lemma finish_shift : forall f st,
    (forall st, f (sh st) = f st) -> finish_with f a' (sh st) = finish_with f a st.
  Proof.
    intros f [pi kc sa sk ek bd] Hf. unfold finish_with, has_extra_kw. rewrite Hf. reflexivity.
  Qed.

  (* the receiver is a positional(-or-keyword) parameter without default, not passed by keyword *)
  Hypothesis p0_kind : pkind p0 = POK \/ pkind p0 = PO.
  Hypothesis p0_not_kw : kw_lookup (pname p0) (keywords a) = None.

  Lemma first_step : step a' init_state p0 = Some (sh init_state).
  Proof.
    unfold step, init_state, sh, a', e0. cbn. destruct p0_kind as [-> | ->]; cbn; [rewrite p0_not_kw|]; reflexivity.
  Qed.

  Theorem bind_shift : forall s,
    bind (p0 :: s) a' = option_map (fun r => e0 :: map she r) (bind s a).
  Proof.
    intros s. unfold bind, bind_with. cbn [bind_params]. rewrite first_step, bind_params_shift.
    destruct (bind_params a init_state s) as [st|]; cbn; [|reflexivity].
    rewrite (finish_shift eka st); [|reflexivity].
    destruct (finish_with eka a st); cbn; [|reflexivity].
    rewrite rev_app_distr. cbn. rewrite map_rev. reflexivity.
  Qed.
End Shift.

(* ---- lifted to the call model: Signature.bind_self / the synthesized __init__ ---- *)
Require Import PV.TypeVar.Base PV.TypeVar.Model PV.Call.Model.

Section BindSelf.
  Context {V : Type} (O : ops V) (limit : nat) (none_v : V).
  Context (s : @csig V) (selfp : @cparam V) (c : @ccall V) (selfv : @aval V).

  (* the underlying function: the receiver parameter in front *)
  Definition with_receiver : @csig V := mk_csig (selfp :: cparams s) (decls s) (cret s).
  (* the call as the function sees it: the receiver value in front *)
  Definition call_with_receiver : @ccall V := mk_ccall (selfv :: a_pos c) (a_star c) (a_kw c) (a_starkw c).

  Hypothesis self_kind : pkind (cp selfp) = POK \/ pkind (cp selfp) = PO.
  Hypothesis self_unannotated : ann selfp = AnnNone.
  Hypothesis self_not_kw : kw_lookup (pname (cp selfp)) (keywords (actuals_of c)) = None.

  Lemma bound_values_shift : forall p n pos pl,
    bound_values call_with_receiver p
      (let '(_, q, _) := she (n, pos, pl) in q) (let '(_, _, r) := she (n, pos, pl) in r)
    = bound_values c p pos pl.
  Proof.
    intros p n pos pl. destruct pl as [|from count plus|names plus]; cbn.
    - destruct pos; reflexivity.
    - reflexivity.
    - reflexivity.
  Qed.

  Lemma combine_map_she : forall (ps : list (@cparam V)) r,
    map (fun '(p, (_, pos, pl)) => (p, bound_values call_with_receiver p pos pl)) (combine ps (map she r))
    = map (fun '(p, (_, pos, pl)) => (p, bound_values c p pos pl)) (combine ps r).
  Proof.
    induction ps as [|p ps IH]; intros r; [reflexivity|]. destruct r as [|[[n pos] pl] r]; [reflexivity|].
    cbn [map combine]. rewrite IH. f_equal.
    pose proof (bound_values_shift p n pos pl) as H. cbn in H.
    destruct pl as [|from count plus|names plus]; destruct pos; cbn in *; rewrite ?H; reflexivity.
  Qed.

  Theorem cbind_with_receiver :
    cbind with_receiver call_with_receiver =
    option_map (fun b => (selfp, BVals [selfv]) :: b) (cbind s c).
  Proof.
    unfold cbind.
    change (sig_of with_receiver) with (cp selfp :: sig_of s).
    change (actuals_of call_with_receiver) with (a' (actuals_of c)).
    rewrite (bind_shift (actuals_of c) (cp selfp) self_kind self_not_kw).
    destruct (bind (sig_of s) (actuals_of c)) as [r|]; cbn [option_map]; [|reflexivity].
    f_equal. cbn [cparams with_receiver combine map]. rewrite combine_map_she. reflexivity.
  Qed.

  Lemma gen_e_self : forall e x, gen_e O limit none_v with_receiver e x = gen_e O limit none_v s e x.
  Proof.
    induction e as [t|k|e1 IH|ek IHk ev IHv|e1 IH|ea IHa eb IHb|e1 IH]; intros x; destruct x; cbn;
      rewrite ?IH, ?IHk, ?IHv, ?IHa, ?IHb; reflexivity.
  Qed.

  Lemma all_gen_ext : forall {A B} (f g : A -> option (list B)) l, (forall x, f x = g x) -> all_gen f l = all_gen g l.
  Proof. intros A B f g l H. induction l as [|x l IH]; cbn; [reflexivity|]. rewrite H, IH. reflexivity. Qed.

  Lemma gen_bounds_self : forall a vs, gen_bounds O limit none_v with_receiver a vs = gen_bounds O limit none_v s a vs.
  Proof.
    intros [|e|k r] vs; [reflexivity| |reflexivity].
    unfold gen_bounds. destruct e; try (apply all_gen_ext; intros x; apply gen_e_self). reflexivity.
  Qed.

  Lemma pass1_self : forall b, pass1 O limit none_v with_receiver b = pass1 O limit none_v s b.
  Proof.
    induction b as [|[p ba] b IH]; [reflexivity|]. cbn [pass1]. rewrite IH.
    destruct (has_tv (ann p)); [|reflexivity].
    destruct ba as [vs|[d|]]; rewrite ?gen_bounds_self; reflexivity.
  Qed.

  (* a method / classmethod / constructor call is checked exactly like the call of the underlying
     function with the receiver prepended: same diagnostics, same inferred type *)
  Theorem check_call_with_receiver :
    check_call O limit none_v with_receiver call_with_receiver = check_call O limit none_v s c.
  Proof.
    unfold check_call. rewrite cbind_with_receiver.
    destruct (cbind s c) as [b|]; cbn [option_map]; [|reflexivity].
    cbn [pass1]. rewrite self_unannotated. cbn [has_tv]. rewrite pass1_self.
    destruct (pass1 O limit none_v s b) as [n|l]; [reflexivity|].
    cbn [app]. destruct (resolve_ok O limit l); [|reflexivity].
    unfold pass2. cbn [flat_map]. rewrite self_unannotated. cbn. reflexivity.
  Qed.
End BindSelf.
