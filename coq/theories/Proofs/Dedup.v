(* Proofs/Dedup.v — facts about insertion-ordered de-duplication (the dict / set
   that unite_values, annotate_value and MultiValuedValue.__eq__ build), generic
   in the element type and in the key identification E. *)
From Coq Require Import List Bool Arith Lia.
Import ListNotations.
Require Import PV.Core.Val.

Section DedupFacts.
  Context {T : Type} (E : T -> T -> bool).

  Lemma mem_keys_app : forall a1 a2 x,
    mem_keys E (a1 ++ a2) x = mem_keys E a1 x || mem_keys E a2 x.
  Proof. intros. unfold mem_keys. apply existsb_app. Qed.

  Lemma mem_keys_true : forall l x, mem_keys E l x = true <-> exists k, In k l /\ E k x = true.
  Proof. intros. unfold mem_keys. apply existsb_exists. Qed.

  Lemma mem_keys_false : forall l x, mem_keys E l x = false <-> forall k, In k l -> E k x = false.
  Proof.
    intros l x. split.
    - intros H k Hk. destruct (E k x) eqn:Ek; auto.
      assert (mem_keys E l x = true) by (apply mem_keys_true; eauto). congruence.
    - intros H. destruct (mem_keys E l x) eqn:M; auto.
      apply mem_keys_true in M. destruct M as [k [Hk Ek]]. rewrite (H k Hk) in Ek. discriminate.
  Qed.

  Lemma dedup_acc_prefix : forall l acc, exists r, dedup_acc E acc l = acc ++ r.
  Proof.
    induction l as [|a l IH]; intros acc; simpl.
    - exists []. now rewrite app_nil_r.
    - destruct (mem_keys E acc a).
      + apply IH.
      + destruct (IH (acc ++ [a])) as [r Hr]. exists (a :: r). rewrite Hr, <- app_assoc. reflexivity.
  Qed.

  Lemma dedup_acc_keeps : forall l acc x, In x acc -> In x (dedup_acc E acc l).
  Proof.
    intros l acc x Hx. destruct (dedup_acc_prefix l acc) as [r Hr]. rewrite Hr. apply in_or_app; auto.
  Qed.

  Lemma dedup_acc_subset : forall l acc x, In x (dedup_acc E acc l) -> In x acc \/ In x l.
  Proof.
    induction l as [|a l IH]; intros acc x Hx; simpl in *; auto.
    destruct (mem_keys E acc a).
    - destruct (IH _ _ Hx); auto.
    - destruct (IH _ _ Hx) as [H|H]; auto.
      apply in_app_or in H. destruct H as [H|[H|[]]]; auto.
  Qed.

  Lemma mem_keys_mono : forall l acc x,
    mem_keys E acc x = true -> mem_keys E (dedup_acc E acc l) x = true.
  Proof.
    intros l acc x H. destruct (dedup_acc_prefix l acc) as [r Hr]. rewrite Hr, mem_keys_app, H. reflexivity.
  Qed.

  Lemma dedup_acc_cover : forall l acc x,
    E x x = true -> In x l -> mem_keys E (dedup_acc E acc l) x = true.
  Proof.
    induction l as [|a l IH]; intros acc x Hr Hx; simpl in *; [contradiction|].
    destruct Hx as [->|Hx].
    - destruct (mem_keys E acc x) eqn:M.
      + apply mem_keys_mono; auto.
      + apply mem_keys_mono. rewrite mem_keys_app. simpl. rewrite Hr. now rewrite orb_true_r.
    - apply IH; auto.
  Qed.

  (* no two keys are identified: E earlier later = false *)
  Fixpoint nodupF (l : list T) : Prop :=
    match l with
    | [] => True
    | x :: r => (forall y, In y r -> E x y = false) /\ nodupF r
    end.

  Lemma nodupF_snoc : forall acc x, nodupF acc -> mem_keys E acc x = false -> nodupF (acc ++ [x]).
  Proof.
    induction acc as [|k acc IH]; intros x Hn Hm; simpl in *.
    - split; auto. intros y [].
    - destruct Hn as [Hk Hn]. unfold mem_keys in Hm. simpl in Hm. apply orb_false_iff in Hm.
      destruct Hm as [Hkx Hm]. split.
      + intros y Hy. apply in_app_or in Hy. destruct Hy as [Hy|[<-|[]]]; auto.
      + apply IH; auto.
  Qed.

  Lemma dedup_acc_nodup : forall l acc, nodupF acc -> nodupF (dedup_acc E acc l).
  Proof.
    induction l as [|a l IH]; intros acc Hn; simpl; auto.
    destruct (mem_keys E acc a) eqn:M; apply IH; auto. apply nodupF_snoc; auto.
  Qed.

  Lemma nodupF_filter : forall f l, nodupF l -> nodupF (filter f l).
  Proof.
    induction l as [|a l IH]; simpl; intros Hn; auto. destruct Hn as [Ha Hn].
    destruct (f a); simpl; auto. split; auto.
    intros y Hy. apply filter_In in Hy. apply Ha. tauto.
  Qed.

  Lemma nodupF_app_head : forall acc a l, nodupF (acc ++ a :: l) -> mem_keys E acc a = false.
  Proof.
    induction acc as [|k acc IH]; intros a l Hn; simpl in *; auto.
    destruct Hn as [Hk Hn]. unfold mem_keys. simpl. rewrite Hk by (apply in_or_app; right; left; auto).
    simpl. apply (IH a l Hn).
  Qed.

  Lemma dedup_acc_fix : forall l acc, nodupF (acc ++ l) -> dedup_acc E acc l = acc ++ l.
  Proof.
    induction l as [|a l IH]; intros acc Hn; simpl.
    - now rewrite app_nil_r.
    - rewrite (nodupF_app_head _ _ _ Hn).
      rewrite IH; rewrite <- app_assoc; simpl; auto.
  Qed.

  Lemma dedup_fix : forall l, nodupF l -> dedup E l = l.
  Proof. intros. unfold dedup. now rewrite dedup_acc_fix. Qed.

  Lemma dedup_nodup : forall l, nodupF (dedup E l).
  Proof. intros. apply dedup_acc_nodup. exact I. Qed.

  Lemma dedup_subset : forall l x, In x (dedup E l) -> In x l.
  Proof. intros l x H. destruct (dedup_acc_subset _ _ _ H) as [[]|]; auto. Qed.

  (* E restricted to a carrier P is an equivalence *)
  Section Equiv.
    Context (P : T -> Prop).
    Context (Hrefl : forall x, P x -> E x x = true).
    Context (Hsym : forall x y, P x -> P y -> E x y = true -> E y x = true).
    Context (Htrans : forall x y z, P x -> P y -> P z -> E x y = true -> E y z = true -> E x z = true).

    Lemma pigeon : forall K1 K2,
      (forall x, In x K1 -> P x) -> (forall x, In x K2 -> P x) -> nodupF K1 ->
      (forall x, In x K1 -> mem_keys E K2 x = true) -> length K1 <= length K2.
    Proof.
      induction K1 as [|x r IH]; intros K2 P1 P2 Hn Hc; simpl; [lia|].
      destruct Hn as [Hx Hn].
      assert (Hm : mem_keys E K2 x = true) by (apply Hc; left; auto).
      apply mem_keys_true in Hm. destruct Hm as [y [Hy Eyx]].
      destruct (in_split _ _ Hy) as [A [B HK2]]. subst K2.
      assert (Hlen : length r <= length (A ++ B)).
      { apply IH; auto.
        - intros z Hz. apply P1. right; auto.
        - intros z Hz. apply P2. apply in_app_or in Hz. apply in_or_app. destruct Hz; auto. right; right; auto.
        - intros z Hz. assert (Hmz : mem_keys E (A ++ y :: B) z = true) by (apply Hc; right; auto).
          apply mem_keys_true in Hmz. destruct Hmz as [w [Hw Ewz]].
          apply mem_keys_true. apply in_app_or in Hw. destruct Hw as [Hw|[Hw|Hw]].
          + exists w. split; auto. apply in_or_app; auto.
          + subst w. exfalso.
            assert (Px : P x) by (apply P1; left; auto).
            assert (Pz : P z) by (apply P1; right; auto).
            assert (Py : P y) by (apply P2; auto).
            assert (Exy : E x y = true) by (apply Hsym; auto).
            assert (Exz : E x z = true) by (eapply Htrans; eauto).
            rewrite (Hx z Hz) in Exz. discriminate.
          + exists w. split; auto. apply in_or_app; auto. }
      rewrite app_length in *. simpl. lia.
    Qed.

    Lemma set_eq_true : forall K1 K2,
      (forall x, In x K1 -> P x) -> (forall x, In x K2 -> P x) -> nodupF K1 -> nodupF K2 ->
      (forall x, In x K1 -> mem_keys E K2 x = true) ->
      (forall x, In x K2 -> mem_keys E K1 x = true) ->
      set_eq E K1 K2 = true.
    Proof.
      intros K1 K2 P1 P2 N1 N2 C1 C2. unfold set_eq. rewrite !dedup_fix by auto.
      apply andb_true_iff. split.
      - apply Nat.eqb_eq. apply Nat.le_antisymm; apply pigeon; auto.
      - apply forallb_forall. auto.
    Qed.

    Lemma same_length : forall K1 K2,
      (forall x, In x K1 -> P x) -> (forall x, In x K2 -> P x) -> nodupF K1 -> nodupF K2 ->
      (forall x, In x K1 -> mem_keys E K2 x = true) ->
      (forall x, In x K2 -> mem_keys E K1 x = true) ->
      length K1 = length K2.
    Proof. intros. apply Nat.le_antisymm; apply pigeon; auto. Qed.
  End Equiv.

  (* extensionality: de-duplication only looks at E on the elements it is given *)
  Lemma dedup_acc_ext : forall (E' : T -> T -> bool) l acc,
    (forall x y, In x (acc ++ l) -> In y (acc ++ l) -> E x y = E' x y) ->
    dedup_acc E acc l = dedup_acc E' acc l.
  Proof.
    intros E'. induction l as [|a l IH]; intros acc H; simpl; auto.
    assert (M : mem_keys E acc a = mem_keys E' acc a).
    { unfold mem_keys. clear IH. induction acc as [|k acc IHa]; simpl; auto.
      assert (Hk : E k a = E' k a).
      { apply H; simpl; auto. right. apply in_or_app. right. left. auto. }
      rewrite Hk. f_equal. apply IHa. intros x y Hx Hy. apply H; right; auto. }
    rewrite M. destruct (mem_keys E' acc a); apply IH; intros x y Hx Hy; apply H.
    - apply in_app_or in Hx. apply in_or_app. destruct Hx; auto. right; right; auto.
    - apply in_app_or in Hy. apply in_or_app. destruct Hy; auto. right; right; auto.
    - rewrite <- app_assoc in Hx. exact Hx.
    - rewrite <- app_assoc in Hy. exact Hy.
  Qed.
End DedupFacts.
