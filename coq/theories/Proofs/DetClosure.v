(* Proofs/DetClosure.v — the visited set of a worklist closure does not depend on
   which element `pop()` returns (C10). *)
From Coq Require Import List Bool NArith Permutation.
Import ListNotations.
Require Import PV.Det.SetConsumers.

(* S is closed for (pend, seen): contains both, and the successors of every
   element that was not already seen at the start *)
Definition good (succ : N -> list N) (pend seen S : list N) : Prop :=
  incl seen S /\ incl pend S /\ forall x, In x S -> ~ In x seen -> incl (succ x) S.

Lemma closure_least_good : forall succ pend seen r, closure_run succ pend seen r ->
  good succ pend seen r /\ forall S, good succ pend seen S -> incl r S.
Proof.
  intros succ pend seen r H. induction H as [seen | x pend pend' seen r HP Hin _ IH | x pend pend' seen r HP Hnin _ IH].
  - split.
    + split; [apply incl_refl|]. split; [intros y []|]. intros x Hx Hn. contradiction.
    + intros S [HS _]. exact HS.
  - destruct IH as [[G1 [G2 G3]] Hmin]. split.
    + split; [exact G1|]. split; [|exact G3].
      intros y Hy. apply (Permutation_in _ HP) in Hy. destruct Hy as [Hy|Hy]; [subst; apply G1; exact Hin|apply G2; exact Hy].
    + intros S [S1 [S2 S3]]. apply Hmin. split; [exact S1|]. split; [|exact S3].
      intros y Hy. apply S2. apply (Permutation_in _ (Permutation_sym HP)). right. exact Hy.
  - destruct IH as [[G1 [G2 G3]] Hmin]. split.
    + split; [intros y Hy; apply G1; right; exact Hy|]. split.
      * intros y Hy. apply (Permutation_in _ HP) in Hy. destruct Hy as [Hy|Hy].
        -- subst. apply G1. left. reflexivity.
        -- apply G2. apply in_or_app. right. exact Hy.
      * intros y Hy Hn. destruct (N.eq_dec x y) as [E|E].
        -- subst. intros z Hz. apply G2. apply in_or_app. left. exact Hz.
        -- apply G3; [exact Hy|]. intros [C|C]; [contradiction|contradiction].
    + intros S [S1 [S2 S3]]. apply Hmin.
      assert (HxS : In x S) by (apply S2; apply (Permutation_in _ (Permutation_sym HP)); left; reflexivity).
      split; [intros y [Hy|Hy]; [subst; exact HxS|apply S1; exact Hy]|]. split.
      * intros y Hy. apply in_app_or in Hy. destruct Hy as [Hy|Hy].
        -- apply (S3 x HxS Hnin). exact Hy.
        -- apply S2. apply (Permutation_in _ (Permutation_sym HP)). right. exact Hy.
      * intros y Hy Hn. apply S3; [exact Hy|]. intros C. apply Hn. right. exact C.
Qed.

Theorem closure_choice_independent : forall succ pend seen r1 r2,
  closure_run succ pend seen r1 -> closure_run succ pend seen r2 -> forall x, In x r1 <-> In x r2.
Proof.
  intros succ pend seen r1 r2 H1 H2 x.
  destruct (closure_least_good _ _ _ _ H1) as [G1 M1]. destruct (closure_least_good _ _ _ _ H2) as [G2 M2].
  split; intros Hx; [apply (M1 r2 G2)|apply (M2 r1 G1)]; exact Hx.
Qed.

(* a run exists and can really take different orders *)
Example closure_run_example :
  closure_run (fun x => if N.eqb x 1 then [2%N; 3%N] else []) [1%N] [] [3%N; 2%N; 1%N] /\
  closure_run (fun x => if N.eqb x 1 then [2%N; 3%N] else []) [1%N] [] [2%N; 3%N; 1%N].
Proof.
  split.
  - eapply cr_visit with (x := 1%N) (pend' := []); [apply Permutation_refl|intros []|]. cbn.
    eapply cr_visit with (x := 2%N) (pend' := [3%N]); [apply Permutation_refl|intros [C|[]]; discriminate|]. cbn.
    eapply cr_visit with (x := 3%N) (pend' := []); [apply Permutation_refl|intros [C|[C|[]]]; discriminate|]. cbn.
    apply cr_done.
  - eapply cr_visit with (x := 1%N) (pend' := []); [apply Permutation_refl|intros []|]. cbn.
    eapply cr_visit with (x := 3%N) (pend' := [2%N]); [apply perm_swap|intros [C|[]]; discriminate|]. cbn.
    eapply cr_visit with (x := 2%N) (pend' := []); [apply Permutation_refl|intros [C|[C|[]]]; discriminate|]. cbn.
    apply cr_done.
Qed.
