(* Proofs/DetClosure.v — the visited set of a worklist closure does not depend on
   which element `pop()` returns (C10). *)
From Coq Require Import List Bool NArith Permutation.
Import ListNotations.
Require Import PV.Det.SetConsumers.

(* S is closed for (pend, seen): contains both, and the successors of every
   element that was not already seen at the start *)
Definition good (succ : N -> list N) (pend seen S : list N) : Prop :=
  incl seen S /\ incl pend S /\ forall x, In x S -> ~ In x seen -> incl (succ x) S.

Lemma closure_least_good : forall succ pend seen r, closure_run succ pend seen r ->
  good succ pend seen r /\ forall S, good succ pend seen S -> incl r S.
Proof.
  intros succ pend seen r H. induction H as [seen | x pend pend' seen r HP Hin _ IH | x pend pend' seen r HP Hnin _ IH].
  - split.
    + split; [apply incl_refl|]. split; [intros y []|]. intros x Hx Hn. contradiction.
    + intros S [HS _]. exact HS.
  - destruct IH as [[G1 [G2 G3]] Hmin]. split.
    + split; [exact G1|]. split; [|exact G3].
      intros y Hy. apply (Permutation_in _ HP) in Hy. destruct Hy as [Hy|Hy]; [subst; apply G1; exact Hin|apply G2; exact Hy].
    + intros S [S1 [S2 S3]]. apply Hmin. split; [exact S1|]. split; [|exact S3].
      intros y Hy. apply S2. apply (Permutation_in _ (Permutation_sym HP)). right. exact Hy.
  - destruct IH as [[G1 [G2 G3]] Hmin]. split.
    + split; [intros y Hy; apply G1; right; exact Hy|]. split.
      * intros y Hy. apply (Permutation_in _ HP) in Hy. destruct Hy as [Hy|Hy].
        -- subst. apply G1. left. reflexivity.
        -- apply G2. apply in_or_app. right. exact Hy.
      * intros y Hy Hn. destruct (N.eq_dec x y) as [E|E].
        -- subst. intros z Hz. apply G2. apply in_or_app. left. exact Hz.
        -- apply G3; [exact Hy|]. intros [C|C]; [contradiction|contradiction].
    + intros S [S1 [S2 S3]]. apply Hmin.
      assert (HxS : In x S) by (apply S2; apply (Permutation_in _ (Permutation_sym HP)); left; reflexivity).
      split; [intros y [Hy|Hy]; [subst; exact HxS|apply S1; exact Hy]|]. split.
      * intros y Hy. apply in_app_or in Hy. destruct Hy as [Hy|Hy].
        -- apply (S3 x HxS Hnin). exact Hy.
        -- apply S2. apply (Permutation_in _ (Permutation_sym HP)). right. exact Hy.
      * intros y Hy Hn. apply S3; [exact Hy|]. intros C. apply Hn. right. exact C.
Qed.

Theorem closure_choice_independent : forall succ pend seen r1 r2,
  closure_run succ pend seen r1 -> closure_run succ pend seen r2 -> forall x, In x r1 <-> In x r2.
Proof.
  intros succ pend seen r1 r2 H1 H2 x.
  destruct (closure_least_good _ _ _ _ H1) as [G1 M1]. destruct (closure_least_good _ _ _ _ H2) as [G2 M2].
  split; intros Hx; [apply (M1 r2 G2)|apply (M2 r1 G1)]; exact Hx.
Qed.

(* a run exists and can really take different orders *)
Example closure_run_example :
  closure_run (fun x => if N.eqb x 1 then [2%N; 3%N] else []) [1%N] [] [3%N; 2%N; 1%N] /\
  closure_run (fun x => if N.eqb x 1 then [2%N; 3%N] else []) [1%N] [] [2%N; 3%N; 1%N].
Proof.
  split.
  - eapply cr_visit with (x := 1%N) (pend' := []); [apply Permutation_refl|intros []|]. cbn.
    eapply cr_visit with (x := 2%N) (pend' := [3%N]); [apply Permutation_refl|intros [C|[]]; discriminate|]. cbn.
    eapply cr_visit with (x := 3%N) (pend' := []); [apply Permutation_refl|intros [C|[C|[]]]; discriminate|]. cbn.
    apply cr_done.
  - eapply cr_visit with (x := 1%N) (pend' := []); [apply Permutation_refl|intros []|]. cbn.
    eapply cr_visit with (x := 3%N) (pend' := [2%N]); [apply perm_swap|intros [C|[]]; discriminate|]. cbn.
    eapply cr_visit with (x := 2%N) (pend' := []); [apply Permutation_refl|intros [C|[C|[]]]; discriminate|]. cbn.
    apply cr_done.
Qed.

(* ------------------------------------------------------------------ *)
(* the closure with an aborting case (_resolve_origin in full) *)
Lemma good_skip : forall succ x pend pend' seen S,
  Permutation pend (x :: pend') -> good succ pend seen S -> good succ pend' seen S.
Proof.
  intros succ x pend pend' seen S HP [S1 [S2 S3]]. split; [exact S1|]. split; [|exact S3].
  intros y Hy. apply S2. apply (Permutation_in _ (Permutation_sym HP)). right. exact Hy.
Qed.

Lemma good_visit : forall succ x pend pend' seen S,
  Permutation pend (x :: pend') -> ~ In x seen -> good succ pend seen S -> good succ (succ x ++ pend') (x :: seen) S.
Proof.
  intros succ x pend pend' seen S HP Hnin [S1 [S2 S3]].
  assert (HxS : In x S) by (apply S2; apply (Permutation_in _ (Permutation_sym HP)); left; reflexivity).
  split; [intros y [Hy|Hy]; [subst; exact HxS|apply S1; exact Hy]|]. split.
  - intros y Hy. apply in_app_or in Hy. destruct Hy as [Hy|Hy].
    + apply (S3 x HxS Hnin). exact Hy.
    + apply S2. apply (Permutation_in _ (Permutation_sym HP)). right. exact Hy.
  - intros y Hy Hn. apply S3; [exact Hy|]. intros C. apply Hn. right. exact C.
Qed.

Lemma oclosure_some : forall succ known pend seen r, oclosure_run succ known pend seen (Some r) ->
  closure_run succ pend seen r /\ forall x, In x r -> In x seen \/ known x = true.
Proof.
  intros succ known pend seen r H. remember (Some r) as o eqn:Eo. revert r Eo.
  induction H as [seen | x pend pend' seen o HP Hin _ IH | x pend pend' seen HP Hnin Hk | x pend pend' seen o HP Hnin Hk _ IH];
    intros r Eo.
  - injection Eo as Eo. subst. split; [constructor|]. intros x Hx. left. exact Hx.
  - destruct (IH r Eo) as [H1 H2]. split; [eapply cr_skip; eassumption|exact H2].
  - discriminate.
  - destruct (IH r Eo) as [H1 H2]. split; [eapply cr_visit; eassumption|].
    intros y Hy. destruct (H2 y Hy) as [[E|Hs]|Hk']; [subst; right; exact Hk|left; exact Hs|right; exact Hk'].
Qed.

Lemma oclosure_none : forall succ known pend seen, oclosure_run succ known pend seen None ->
  exists x, known x = false /\ ~ In x seen /\ forall S, good succ pend seen S -> In x S.
Proof.
  intros succ known pend seen H. remember (@None (list N)) as o eqn:Eo.
  induction H as [seen | x pend pend' seen o HP Hin _ IH | x pend pend' seen HP Hnin Hk | x pend pend' seen o HP Hnin Hk _ IH].
  - discriminate.
  - destruct (IH Eo) as [y [Hy1 [Hy2 Hy3]]]. exists y. split; [exact Hy1|]. split; [exact Hy2|].
    intros S HS. apply Hy3. eapply good_skip; eassumption.
  - exists x. split; [exact Hk|]. split; [exact Hnin|].
    intros S [_ [S2 _]]. apply S2. apply (Permutation_in _ (Permutation_sym HP)). left. reflexivity.
  - destruct (IH Eo) as [y [Hy1 [Hy2 Hy3]]]. exists y. split; [exact Hy1|]. split; [intros C; apply Hy2; right; exact C|].
    intros S HS. apply Hy3. eapply good_visit; eassumption.
Qed.

Theorem oclosure_choice_independent : forall succ known pend seen r1 r2,
  oclosure_run succ known pend seen r1 -> oclosure_run succ known pend seen r2 ->
  match r1, r2 with
  | None, None => True
  | Some a, Some b => forall x, In x a <-> In x b
  | _, _ => False
  end.
Proof.
  intros succ known pend seen r1 r2 H1 H2.
  assert (Mixed : forall a, oclosure_run succ known pend seen (Some a) -> oclosure_run succ known pend seen None -> False).
  { intros a Ha Hn. destruct (oclosure_some _ _ _ _ _ Ha) as [Hc Hknown].
    destruct (oclosure_none _ _ _ _ Hn) as [x [Hx1 [Hx2 Hx3]]].
    destruct (closure_least_good _ _ _ _ Hc) as [G _]. specialize (Hx3 a G).
    destruct (Hknown x Hx3) as [Hs|Hk]; [contradiction|congruence]. }
  destruct r1 as [a|], r2 as [b|].
  - apply (closure_choice_independent succ pend seen); [apply (oclosure_some _ _ _ _ _ H1)|apply (oclosure_some _ _ _ _ _ H2)].
  - exact (Mixed a H1 H2).
  - exact (Mixed b H2 H1).
  - exact I.
Qed.
