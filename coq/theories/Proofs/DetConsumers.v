(* Proofs/DetConsumers.v — the ordering discipline of Det/SetConsumers.v (C10). *)
From Coq Require Import List Bool NArith Arith Lia Permutation.
Import ListNotations.
Require Import PV.Det.SetConsumers.

(* ------------------------------------------------------------------ *)
(* membership *)
Lemma mem_In : forall x s, mem x s = true <-> In x s.
Proof.
  intros x s. unfold mem. rewrite existsb_exists. split.
  - intros [y [Hin Heq]]. apply N.eqb_eq in Heq. subst. exact Hin.
  - intros Hin. exists x. split; [exact Hin|apply N.eqb_refl].
Qed.

Lemma mem_false_In : forall x s, mem x s = false <-> ~ In x s.
Proof.
  intros x s. rewrite <- mem_In. destruct (mem x s); split; intros H.
  - discriminate.
  - exfalso. apply H. reflexivity.
  - intros H1. discriminate.
  - reflexivity.
Qed.

Lemma mem_ext : forall s1 s2 x, (forall y, In y s1 <-> In y s2) -> mem x s1 = mem x s2.
Proof.
  intros s1 s2 x H. destruct (mem x s1) eqn:E1; destruct (mem x s2) eqn:E2; try reflexivity.
  - apply mem_In in E1. apply H in E1. apply mem_In in E1. congruence.
  - apply mem_In in E2. apply H in E2. apply mem_In in E2. congruence.
Qed.

Lemma mem_perm : forall x s s', Permutation s s' -> mem x s = mem x s'.
Proof.
  intros x s s' HP. apply mem_ext. intros y. split; intros Hy.
  - eapply Permutation_in; eauto.
  - eapply Permutation_in; [apply Permutation_sym|]; eauto.
Qed.

Lemma existsb_perm : forall (p : N -> bool) s s', Permutation s s' -> existsb p s = existsb p s'.
Proof.
  intros p s s' HP. induction HP; cbn.
  - reflexivity.
  - rewrite IHHP. reflexivity.
  - destruct (p x), (p y); reflexivity.
  - congruence.
Qed.

Lemma forallb_perm : forall (p : N -> bool) s s', Permutation s s' -> forallb p s = forallb p s'.
Proof.
  intros p s s' HP. induction HP; cbn.
  - reflexivity.
  - rewrite IHHP. reflexivity.
  - destruct (p x), (p y); reflexivity.
  - congruence.
Qed.

(* ------------------------------------------------------------------ *)
(* folds with a commutative step: loops over a set whose body only
   accumulates (|=, add, any-style flags) *)
Lemma fold_left_comm_perm : forall (A : Type) (f : A -> N -> A),
  (forall a x y, f (f a x) y = f (f a y) x) ->
  forall s s', Permutation s s' -> forall a, fold_left f s a = fold_left f s' a.
Proof.
  intros A f Hc s s' HP. induction HP; intros a; cbn.
  - reflexivity.
  - apply IHHP.
  - rewrite Hc. reflexivity.
  - rewrite IHHP1. apply IHHP2.
Qed.

Lemma fold_right_comm_perm : forall (A : Type) (f : N -> A -> A),
  (forall a x y, f x (f y a) = f y (f x a)) ->
  forall s s', Permutation s s' -> forall a, fold_right f a s = fold_right f a s'.
Proof.
  intros A f Hc s s' HP. induction HP; intros a; cbn.
  - reflexivity.
  - rewrite IHHP. reflexivity.
  - apply Hc.
  - rewrite IHHP1. apply IHHP2.
Qed.

(* ------------------------------------------------------------------ *)
(* sorted(s) *)
Lemma insert_sorted_comm : forall x y l,
  insert_sorted x (insert_sorted y l) = insert_sorted y (insert_sorted x l).
Proof.
  intros x y l. induction l as [|z t IH]; cbn;
    repeat (match goal with
            | |- context [(?a <=? ?b)%N] => destruct (N.leb_spec a b)
            end; cbn);
    try reflexivity; try (exfalso; lia);
    try (assert (x = y) by lia; subst; reflexivity);
    try (rewrite IH; reflexivity).
Qed.

Lemma sorted_list_perm : forall s s', Permutation s s' -> sorted_list s = sorted_list s'.
Proof.
  intros s s' HP. unfold sorted_list. apply fold_right_comm_perm; [|exact HP].
  intros a x y. apply insert_sorted_comm.
Qed.

Lemma insert_sorted_perm : forall x l, Permutation (insert_sorted x l) (x :: l).
Proof.
  intros x l. induction l as [|y t IH]; cbn.
  - apply Permutation_refl.
  - destruct (x <=? y)%N.
    + apply Permutation_refl.
    + eapply Permutation_trans; [apply perm_skip; exact IH|apply perm_swap].
Qed.

Lemma sorted_list_is_perm : forall s, Permutation (sorted_list s) s.
Proof.
  induction s as [|x t IH]; cbn.
  - apply perm_nil.
  - eapply Permutation_trans; [apply insert_sorted_perm|apply perm_skip; exact IH].
Qed.

Inductive ascending : list N -> Prop :=
| asc_nil : ascending []
| asc_one : forall x, ascending [x]
| asc_cons : forall x y t, (x <= y)%N -> ascending (y :: t) -> ascending (x :: y :: t).

Lemma insert_sorted_ascending : forall x l, ascending l -> ascending (insert_sorted x l).
Proof.
  intros x l H. induction H; cbn.
  - constructor.
  - destruct (x <=? x0)%N eqn:E.
    + apply N.leb_le in E. constructor; [exact E|constructor].
    + apply N.leb_gt in E. constructor; [lia|constructor].
  - cbn in IHascending. destruct (x <=? x0)%N eqn:E0.
    + apply N.leb_le in E0. constructor; [exact E0|]. constructor; assumption.
    + apply N.leb_gt in E0. destruct (x <=? y)%N eqn:E1.
      * apply N.leb_le in E1. constructor; [lia|]. constructor; assumption.
      * constructor; [exact H|exact IHascending].
Qed.

Lemma sorted_list_ascending : forall s, ascending (sorted_list s).
Proof.
  induction s as [|x t IH]; cbn.
  - constructor.
  - apply insert_sorted_ascending. exact IH.
Qed.

(* ------------------------------------------------------------------ *)
(* min over a total order *)
Lemma fold_min_spec : forall t x,
  In (fold_left N.min t x) (x :: t) /\ forall y, In y (x :: t) -> (fold_left N.min t x <= y)%N.
Proof.
  induction t as [|z t IH]; intros x; cbn.
  - split; [left; reflexivity|]. intros y [H|[]]. subst. lia.
  - destruct (IH (N.min x z)) as [Hin Hle]. split.
    + destruct Hin as [Hin|Hin].
      * rewrite <- Hin. destruct (N.min_spec x z) as [[_ E]|[_ E]]; rewrite E; [left|right; left]; reflexivity.
      * right. right. exact Hin.
    + intros y [Hy|[Hy|Hy]].
      * subst y. specialize (Hle (N.min x z) (or_introl eq_refl)). lia.
      * subst y. specialize (Hle (N.min x z) (or_introl eq_refl)). lia.
      * apply Hle. right. exact Hy.
Qed.

Lemma min_list_spec : forall s m, min_list s = Some m <-> (In m s /\ forall y, In y s -> (m <= y)%N).
Proof.
  intros s m. destruct s as [|x t]; cbn.
  - split; [discriminate|intros [[] _]].
  - destruct (fold_min_spec t x) as [Hin Hle]. split.
    + intros H. injection H as H. subst m. split; assumption.
    + intros [Hm Hall]. f_equal. apply N.le_antisymm.
      * apply Hle. exact Hm.
      * apply Hall. exact Hin.
Qed.

Lemma min_list_perm : forall s s', Permutation s s' -> min_list s = min_list s'.
Proof.
  intros s s' HP. destruct (min_list s) as [m|] eqn:E.
  - symmetry. apply min_list_spec. apply min_list_spec in E. destruct E as [Hin Hall]. split.
    + eapply Permutation_in; eauto.
    + intros y Hy. apply Hall. eapply Permutation_in; [apply Permutation_sym|]; eauto.
  - destruct s as [|x t]; [|discriminate]. apply Permutation_nil in HP. subst. reflexivity.
Qed.

(* ------------------------------------------------------------------ *)
(* next(iter(s)) under len(s) == 1 *)
Lemma only_perm : forall s s', Permutation s s' -> only s = only s'.
Proof.
  intros s s' HP. destruct s as [|x [|y t]].
  - apply Permutation_nil in HP. subst. reflexivity.
  - apply Permutation_length_1_inv in HP. subst. reflexivity.
  - pose proof (Permutation_length HP) as HL. destruct s' as [|a [|b u]]; cbn in HL; try discriminate. reflexivity.
Qed.

(* ------------------------------------------------------------------ *)
(* results that are sets again *)
Lemma filter_perm : forall (p : N -> bool) s s', Permutation s s' -> Permutation (filter p s) (filter p s').
Proof.
  intros p s s' HP. induction HP; cbn.
  - apply perm_nil.
  - destruct (p x); [apply perm_skip|]; assumption.
  - destruct (p x), (p y); try apply Permutation_refl. apply perm_swap.
  - eapply Permutation_trans; eassumption.
Qed.

Lemma filter_ext_mem : forall t s s', (forall y, In y s <-> In y s') ->
  filter (fun x => negb (mem x s)) t = filter (fun x => negb (mem x s')) t.
Proof.
  intros t s s' H. apply filter_ext. intros a. rewrite (mem_ext s s' a H). reflexivity.
Qed.

Definition res_equiv (a b : res) : Prop :=
  match a, b with
  | RSet x, RSet y => Permutation x y
  | _, _ => a = b
  end.

Theorem insensitive_kinds_perm_invariant : forall k a s s',
  insensitive k = true -> Permutation s s' -> res_equiv (run k a s) (run k a s').
Proof.
  intros k a s s' Hk HP. destruct k; cbn in Hk; try discriminate; cbn.
  - rewrite (mem_perm _ _ _ HP). reflexivity.
  - rewrite (Permutation_length HP). reflexivity.
  - destruct s as [|x t].
    + apply Permutation_nil in HP. subst. reflexivity.
    + destruct s' as [|y u]; [apply Permutation_sym, Permutation_nil in HP; discriminate|reflexivity].
  - rewrite (existsb_perm _ _ _ HP). reflexivity.
  - rewrite (forallb_perm _ _ _ HP). reflexivity.
  - rewrite (sorted_list_perm _ _ HP). reflexivity.
  - rewrite (min_list_perm _ _ HP). reflexivity.
  - rewrite (only_perm _ _ HP). reflexivity.
  - apply Permutation_map. exact HP.
  - unfold diff. apply filter_perm. exact HP.
  - unfold union, diff. apply Permutation_app; [exact HP|].
    rewrite (filter_ext_mem (p_other a) s s'); [apply Permutation_refl|].
    intros y. split; intros Hy; [eapply Permutation_in; eauto|eapply Permutation_in; [apply Permutation_sym|]; eauto].
Qed.

(* the remaining two kinds do expose the order *)
Lemma list_kind_refuted : exists a s s', Permutation s s' /\ run KList a s <> run KList a s'.
Proof.
  exists {| p_pred := fun _ => true; p_elt := 0%N; p_fun := fun x => x; p_other := [] |}, [1%N; 2%N], [2%N; 1%N].
  split; [apply perm_swap|cbn; discriminate].
Qed.

Lemma first_kind_refuted : exists a s s', Permutation s s' /\ run KFirst a s <> run KFirst a s'.
Proof.
  exists {| p_pred := fun _ => true; p_elt := 0%N; p_fun := fun x => x; p_other := [] |}, [1%N; 2%N], [2%N; 1%N].
  split; [apply perm_swap|cbn; discriminate].
Qed.

(* ------------------------------------------------------------------ *)
(* insertion-ordered de-duplication *)
Lemma dedup_In : forall xs seen x, In x (dedup seen xs) <-> (In x xs /\ ~ In x seen).
Proof.
  induction xs as [|y t IH]; intros seen x; cbn.
  - tauto.
  - destruct (mem y seen) eqn:E.
    + rewrite IH. apply mem_In in E. split.
      * intros [H1 H2]. split; [right; exact H1|exact H2].
      * intros [[H1|H1] H2]; [subst; contradiction|split; assumption].
    + apply mem_false_In in E. cbn. rewrite IH. cbn. split.
      * intros [H|[H1 H2]]; [subst; split; [left; reflexivity|exact E]|].
        split; [right; exact H1|]. intros H3. apply H2. right. exact H3.
      * intros [[H1|H1] H2]; [left; exact H1|].
        destruct (N.eq_dec y x) as [Heq|Hne]; [left; exact Heq|].
        right. split; [exact H1|]. intros [H3|H3]; [contradiction|contradiction].
Qed.

Lemma dedup_NoDup : forall xs seen, NoDup (dedup seen xs).
Proof.
  induction xs as [|y t IH]; intros seen; cbn.
  - constructor.
  - destruct (mem y seen) eqn:E; [apply IH|].
    constructor; [|apply IH]. rewrite dedup_In. intros [_ H]. apply H. left. reflexivity.
Qed.

Lemma dedup_ext : forall xs s1 s2, (forall y, In y s1 <-> In y s2) -> dedup s1 xs = dedup s2 xs.
Proof.
  induction xs as [|x t IH]; intros s1 s2 H; cbn.
  - reflexivity.
  - rewrite (mem_ext s1 s2 x H). destruct (mem x s2).
    + apply IH. exact H.
    + f_equal. apply IH. intros y. cbn. rewrite H. tauto.
Qed.

Lemma dedup_app : forall xs ys seen, dedup seen (xs ++ ys) = dedup seen xs ++ dedup (rev xs ++ seen) ys.
Proof.
  induction xs as [|x t IH]; intros ys seen; cbn.
  - reflexivity.
  - destruct (mem x seen) eqn:E.
    + rewrite IH. f_equal. apply dedup_ext. intros y. apply mem_In in E.
      rewrite ?in_app_iff. cbn. rewrite ?in_app_iff. cbn. intuition (subst; auto).
    + cbn. f_equal. rewrite IH. f_equal. apply dedup_ext. intros y.
      rewrite ?in_app_iff. cbn. rewrite ?in_app_iff. cbn. intuition (subst; auto).
Qed.

Lemma dedup_idem : forall xs seen, dedup seen (dedup seen xs) = dedup seen xs.
Proof.
  induction xs as [|x t IH]; intros seen; cbn.
  - reflexivity.
  - destruct (mem x seen) eqn:E; [apply IH|]. cbn. rewrite E. f_equal. apply IH.
Qed.

Lemma fromkeys_spec : forall xs, NoDup (fromkeys xs) /\ forall x, In x (fromkeys xs) <-> In x xs.
Proof.
  intros xs. split; [apply dedup_NoDup|]. intros x. unfold fromkeys. rewrite dedup_In. cbn. tauto.
Qed.

Lemma fromkeys_app : forall xs ys,
  fromkeys (xs ++ ys) = fromkeys xs ++ filter (fun y => negb (mem y xs)) (fromkeys ys).
Proof.
  intros xs ys. unfold fromkeys. rewrite dedup_app. f_equal.
  rewrite app_nil_r.
  (* dedup (rev xs) ys = filter (not in xs) (dedup [] ys) *)
  assert (G : forall ys s0 s1, (forall y, In y s1 <-> (In y s0 \/ In y xs)) ->
             dedup s1 ys = filter (fun y => negb (mem y xs)) (dedup s0 ys)).
  { clear ys. induction ys as [|y t IH]; intros s0 s1 H; cbn; [reflexivity|].
    destruct (mem y s0) eqn:E0.
    - assert (E1 : mem y s1 = true) by (apply mem_In, H; left; apply mem_In; exact E0).
      rewrite E1. apply IH. exact H.
    - destruct (mem y xs) eqn:Ex.
      + assert (E1 : mem y s1 = true) by (apply mem_In, H; right; apply mem_In; exact Ex).
        rewrite E1. cbn. rewrite Ex. cbn. apply IH. intros z. rewrite H. cbn.
        split; [tauto|]. intros [[Hz|Hz]|Hz]; try tauto. subst. right. apply mem_In. exact Ex.
      + assert (E1 : mem y s1 = false).
        { apply mem_false_In. intros Hy. apply H in Hy. destruct Hy as [Hy|Hy].
          - apply mem_false_In in E0. contradiction.
          - apply mem_false_In in Ex. contradiction. }
        rewrite E1. cbn. rewrite Ex. cbn. f_equal. apply IH. intros z. cbn. rewrite H. tauto. }
  apply G. intros y. rewrite <- in_rev. cbn. tauto.
Qed.

(* unite_values: nesting does not change the member order *)
Lemma unite_nested : forall a b c, unite [unite [a; b]; c] = unite [a; b; c].
Proof.
  intros a b c. unfold unite. cbn [concat]. rewrite !app_nil_r.
  rewrite app_assoc. set (X := a ++ b). unfold fromkeys.
  rewrite (dedup_app (dedup [] X) c []). rewrite (dedup_app X c []).
  rewrite dedup_idem. f_equal. apply dedup_ext. intros y.
  rewrite !app_nil_r, <- !in_rev. rewrite dedup_In. cbn. tauto.
Qed.

Lemma unite_idempotent : forall a, unite [a; a] = unite [a].
Proof.
  intros a. unfold unite. cbn [concat]. rewrite !app_nil_r. rewrite fromkeys_app.
  assert (H : filter (fun y => negb (mem y a)) (fromkeys a) = []).
  { assert (G : forall l, (forall x, In x l -> In x a) -> filter (fun y => negb (mem y a)) l = []).
    { induction l as [|x t IH]; intros Hl; cbn; [reflexivity|].
      assert (E : mem x a = true) by (apply mem_In, Hl; left; reflexivity).
      rewrite E. cbn. apply IH. intros z Hz. apply Hl. right. exact Hz. }
    apply G. intros x Hx. apply (proj2 (fromkeys_spec a)). exact Hx. }
  rewrite H. apply app_nil_r.
Qed.

(* ------------------------------------------------------------------ *)
(* the repairs: same reported elements as before, and no dependence on the
   arrangement of any set *)
Definition is_arrangement (arrange : list N -> list N) : Prop := forall l, Permutation (arrange l) l.

Lemma extra_kwargs_repair_refines : forall arrange kw consumed, is_arrangement arrange ->
  Permutation (extra_kwargs_old arrange kw consumed) (extra_kwargs_new kw consumed)
  /\ extra_kwargs_old (fun l => l) kw consumed = extra_kwargs_new kw consumed.
Proof.
  intros arrange kw consumed Ha. split; [apply Ha|reflexivity].
Qed.

Lemma extra_kwargs_old_refuted : exists a1 a2 kw consumed,
  is_arrangement a1 /\ is_arrangement a2 /\ extra_kwargs_old a1 kw consumed <> extra_kwargs_old a2 kw consumed.
Proof.
  exists (fun l => l), (@rev N), [1%N; 2%N; 3%N], [2%N].
  split; [intros l; apply Permutation_refl|]. split; [intros l; apply Permutation_sym, Permutation_rev|].
  cbn. discriminate.
Qed.

(* the repaired listing keeps the order of the call's keywords *)
Lemma extra_kwargs_new_keeps_call_order : forall kw1 kw2 consumed,
  extra_kwargs_new (kw1 ++ kw2) consumed = extra_kwargs_new kw1 consumed ++ extra_kwargs_new kw2 consumed.
Proof. intros. unfold extra_kwargs_new. apply filter_app. Qed.

Lemma or_apply_repair_refines : forall arrange cs, is_arrangement arrange ->
  Permutation (or_apply_old arrange cs) (or_apply_new cs) /\ or_apply_old (fun l => l) cs = or_apply_new cs.
Proof.
  intros arrange cs Ha. split; [apply Ha|reflexivity].
Qed.

Lemma or_apply_old_refuted : exists a1 a2 cs,
  is_arrangement a1 /\ is_arrangement a2 /\ or_apply_old a1 cs <> or_apply_old a2 cs.
Proof.
  exists (fun l => l), (@rev N), [1%N; 2%N; 1%N; 3%N].
  split; [intros l; apply Permutation_refl|]. split; [intros l; apply Permutation_sym, Permutation_rev|].
  cbn. discriminate.
Qed.

Lemma new_nodes_repair_refines : forall arrange after before, is_arrangement arrange ->
  Permutation (new_nodes_old arrange after before) (new_nodes_new after before)
  /\ new_nodes_old (fun l => l) after before = new_nodes_new after before.
Proof.
  intros arrange after before Ha. split; [apply Ha|reflexivity].
Qed.

Lemma new_nodes_old_refuted : exists a1 a2 after before,
  is_arrangement a1 /\ is_arrangement a2 /\ new_nodes_old a1 after before <> new_nodes_old a2 after before.
Proof.
  exists (fun l => l), (@rev N), [1%N; 2%N; 3%N; 4%N], [1%N].
  split; [intros l; apply Permutation_refl|]. split; [intros l; apply Permutation_sym, Permutation_rev|].
  cbn. discriminate.
Qed.

Lemma protocol_new_perm_invariant : forall m m' fails, Permutation m m' -> protocol_new m fails = protocol_new m' fails.
Proof.
  intros m m' fails HP. unfold protocol_new. rewrite (sorted_list_perm _ _ HP). reflexivity.
Qed.

Lemma protocol_new_reports_least : forall m fails x, protocol_new m fails = Some x ->
  In x m /\ fails x = true.
Proof.
  intros m fails x H. unfold protocol_new, first_failing in H. apply find_some in H. destruct H as [Hin Hf].
  split; [|exact Hf]. eapply Permutation_in; [apply sorted_list_is_perm|exact Hin].
Qed.

Lemma protocol_old_refuted : exists a1 a2 m fails,
  is_arrangement a1 /\ is_arrangement a2 /\ protocol_old a1 m fails <> protocol_old a2 m fails.
Proof.
  exists (fun l => l), (@rev N), [1%N; 2%N; 3%N], (fun _ => true).
  split; [intros l; apply Permutation_refl|]. split; [intros l; apply Permutation_sym, Permutation_rev|].
  cbn. discriminate.
Qed.

(* ------------------------------------------------------------------ *)
(* caches: whatever was looked up before, a memoised call returns f k *)
Definition cache_sound (f : N -> N) (c : cache) : Prop := forall k v, cache_get c k = Some v -> v = f k.

Lemma memo_call_sound : forall f c k, cache_sound f c ->
  cache_sound f (fst (memo_call f c k)) /\ snd (memo_call f c k) = f k.
Proof.
  intros f c k Hs. unfold memo_call. destruct (cache_get c k) as [v|] eqn:E; cbn.
  - split; [exact Hs|apply Hs; exact E].
  - split; [|reflexivity]. intros k' v'. cbn. destruct (N.eqb k' k) eqn:Ek.
    + apply N.eqb_eq in Ek. subst. intros H. injection H as H. congruence.
    + apply Hs.
Qed.

Lemma replay_sound : forall f h c, cache_sound f c -> cache_sound f (replay_history f c h).
Proof.
  intros f h. induction h as [|k t IH]; intros c Hs; cbn.
  - exact Hs.
  - apply IH. apply memo_call_sound. exact Hs.
Qed.

Theorem memo_history_independent : forall f h1 h2 k,
  snd (memo_call f (replay_history f [] h1) k) = snd (memo_call f (replay_history f [] h2) k).
Proof.
  intros f h1 h2 k.
  assert (E : forall h, snd (memo_call f (replay_history f [] h) k) = f k).
  { intros h. apply memo_call_sound. apply replay_sound. intros k' v'. cbn. discriminate. }
  rewrite !E. reflexivity.
Qed.

(* ------------------------------------------------------------------ *)
(* short-circuiting all(): the RESULT is arrangement-independent (forallb_perm), the set of
   evaluated elements is not -- unless every element passes *)
Lemma all_trace_total : forall p s, forallb p s = true -> all_trace p s = s.
Proof.
  intros p s. induction s as [|x t IH]; cbn; [reflexivity|].
  intros H. apply andb_true_iff in H. destruct H as [Hx Ht]. rewrite Hx. f_equal. apply IH. exact Ht.
Qed.

Lemma all_trace_prefix : forall p s, exists rest, s = all_trace p s ++ rest.
Proof.
  intros p s. induction s as [|x t [rest IH]]; cbn.
  - exists []. reflexivity.
  - destruct (p x).
    + exists rest. cbn. f_equal. exact IH.
    + exists t. reflexivity.
Qed.

Lemma all_trace_refuted : exists p s s', Permutation s s' /\ ~ Permutation (all_trace p s) (all_trace p s').
Proof.
  exists (fun x => negb (N.eqb x 2)), [1%N; 2%N], [2%N; 1%N]. split; [apply perm_swap|].
  cbn. intros H. apply Permutation_length in H. cbn in H. discriminate.
Qed.

(* ------------------------------------------------------------------ *)
(* order-exposing consumers that are harmless in special cases *)

(* a set with at most one element has a single arrangement *)
Lemma at_most_one_arrangement : forall (s s' : list N), length s <= 1 -> Permutation s s' -> s = s'.
Proof.
  intros s s' Hl HP. destruct s as [|x [|y t]]; cbn in Hl; try lia.
  - apply Permutation_nil in HP. subst. reflexivity.
  - apply Permutation_length_1_inv in HP. subst. reflexivity.
Qed.

(* "keep the first success": the result is arrangement-independent as soon as all successes agree *)
Lemma find_some_perm : forall (ok : N -> bool) s s', Permutation s s' ->
  (find ok s = None <-> find ok s' = None).
Proof.
  intros ok s s' HP. split; intros H.
  - destruct (find ok s') eqn:E; [|reflexivity]. apply find_some in E. destruct E as [Hin Hok].
    apply (Permutation_in _ (Permutation_sym HP)) in Hin. pose proof (find_none _ _ H _ Hin). congruence.
  - destruct (find ok s) eqn:E; [|reflexivity]. apply find_some in E. destruct E as [Hin Hok].
    apply (Permutation_in _ HP) in Hin. pose proof (find_none _ _ H _ Hin). congruence.
Qed.

Theorem first_success_perm : forall (ok : N -> bool) (res : N -> N) s s',
  (forall x y, In x s -> In y s -> ok x = true -> ok y = true -> res x = res y) ->
  Permutation s s' -> option_map res (find ok s) = option_map res (find ok s').
Proof.
  intros ok res s s' Hag HP.
  destruct (find ok s) as [x|] eqn:E1; destruct (find ok s') as [y|] eqn:E2; cbn.
  - apply find_some in E1. apply find_some in E2. destruct E1 as [I1 O1]. destruct E2 as [I2 O2].
    f_equal. apply Hag; try assumption. apply (Permutation_in _ (Permutation_sym HP)). exact I2.
  - exfalso. apply (find_some_perm ok s s' HP) in E2. congruence.
  - exfalso. apply (find_some_perm ok s s' HP) in E1. congruence.
  - reflexivity.
Qed.

(* ... and it is not when two successes disagree *)
Lemma first_success_refuted : exists (ok : N -> bool) (res : N -> N) (s s' : list N),
  Permutation s s' /\ option_map res (find ok s) <> option_map res (find ok s').
Proof.
  exists (fun _ => true), (fun x => x), [1%N; 2%N], [2%N; 1%N]. split; [apply perm_swap|cbn; discriminate].
Qed.
