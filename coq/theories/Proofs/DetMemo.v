(* Proofs/DetMemo.v — a keyed memo cache is history-independent iff (in the sense
   below) its key determines the cached result (C10). *)
From Coq Require Import List Bool NArith Lia.
Import ListNotations.
Require Import PV.Det.Memo.

Lemma ckey_eqb_eq : forall a b, ckey_eqb a b = true <-> a = b.
Proof.
  intros [a1 a2] [b1 b2]. unfold ckey_eqb. cbn. rewrite andb_true_iff, !N.eqb_eq. split.
  - intros [H1 H2]. subst. reflexivity.
  - intros H. injection H as H1 H2. split; assumption.
Qed.

Lemma ckey_eqb_refl : forall a, ckey_eqb a a = true.
Proof. intros a. apply ckey_eqb_eq. reflexivity. Qed.

Definition key_determines (key : input -> ckey) (f : input -> N) : Prop :=
  forall x y, key x = key y -> f x = f y.

Definition kcache_sound (key : input -> ckey) (f : input -> N) (c : kcache) : Prop :=
  forall x v, kcache_get c (key x) = Some v -> v = f x.

Lemma kmemo_call_sound : forall key f c x, key_determines key f -> kcache_sound key f c ->
  kcache_sound key f (fst (kmemo_call key f c x)) /\ snd (kmemo_call key f c x) = f x.
Proof.
  intros key f c x Hd Hs. unfold kmemo_call. destruct (kcache_get c (key x)) as [v|] eqn:E; cbn.
  - split; [exact Hs|apply Hs; exact E].
  - split; [|reflexivity]. intros y v. cbn. destruct (ckey_eqb (key y) (key x)) eqn:Ek.
    + apply ckey_eqb_eq in Ek. intros H. injection H as H. subst v. symmetry. apply Hd. exact Ek.
    + apply Hs.
Qed.

Lemma kreplay_sound : forall key f h c, key_determines key f -> kcache_sound key f c ->
  kcache_sound key f (kreplay key f c h).
Proof.
  intros key f h. induction h as [|x t IH]; intros c Hd Hs; cbn.
  - exact Hs.
  - apply IH; [exact Hd|]. apply kmemo_call_sound; assumption.
Qed.

Theorem keyed_memo_history_independent : forall key f, key_determines key f ->
  forall h1 h2 x, answer_after key f h1 x = answer_after key f h2 x /\ answer_after key f h1 x = f x.
Proof.
  intros key f Hd h1 h2 x.
  assert (E : forall h, answer_after key f h x = f x).
  { intros h. unfold answer_after. apply kmemo_call_sound; [exact Hd|]. apply kreplay_sound; [exact Hd|].
    intros y v. cbn. discriminate. }
  rewrite !E. split; reflexivity.
Qed.

(* conversely: whenever the key does NOT determine the result, some history changes an answer *)
Theorem keyed_memo_needs_determining_key : forall key f x y,
  key x = key y -> f x <> f y -> answer_after key f [x] y <> answer_after key f [] y.
Proof.
  intros key f x y Hk Hf. unfold answer_after, kmemo_call. cbn.
  rewrite <- Hk. rewrite ckey_eqb_refl. cbn. exact Hf.
Qed.

Lemma full_key_injective : forall x y, full_key x = full_key y -> x = y.
Proof. intros x y H. exact H. Qed.

(* the key of the current code keeps the node: every cached function is determined by it *)
Corollary full_key_history_independent : forall f h1 h2 x,
  answer_after full_key f h1 x = answer_after full_key f h2 x.
Proof.
  intros f h1 h2 x. apply keyed_memo_history_independent. intros a b H. apply full_key_injective in H. subst. reflexivity.
Qed.

(* dropping the node from the key: two uses of the same name in different places collide *)
Lemma name_only_key_refuted : exists f h x, answer_after name_only_key f h x <> answer_after name_only_key f [] x.
Proof.
  exists (fun x => snd x), [(1%N, 1%N)], (1%N, 2%N). vm_compute. discriminate.
Qed.

(* ------------------------------------------------------------------ *)
(* two-way memo: history-independent exactly for involutions *)
Definition ncache_sound (inv : N -> N) (c : ncache) : Prop := forall k v, ncache_get c k = Some v -> v = inv k.

Lemma two_way_call_sound : forall inv c x, (forall z, inv (inv z) = z) -> ncache_sound inv c ->
  ncache_sound inv (fst (two_way_call inv c x)) /\ snd (two_way_call inv c x) = inv x.
Proof.
  intros inv c x Hinv Hs. unfold two_way_call. destruct (ncache_get c x) as [v|] eqn:E; cbn.
  - split; [exact Hs|apply Hs; exact E].
  - split; [|reflexivity]. intros k v. cbn. destruct (N.eqb k x) eqn:E1.
    + apply N.eqb_eq in E1. subst. intros H. injection H as H. subst. reflexivity.
    + destruct (N.eqb k (inv x)) eqn:E2.
      * apply N.eqb_eq in E2. subst. intros H. injection H as H. subst. symmetry. apply Hinv.
      * apply Hs.
Qed.

Theorem two_way_memo_history_independent : forall inv, (forall z, inv (inv z) = z) ->
  forall h1 h2 x, two_way_answer inv h1 x = two_way_answer inv h2 x.
Proof.
  intros inv Hinv h1 h2 x.
  assert (S : forall h c, ncache_sound inv c -> ncache_sound inv (two_way_replay inv c h)).
  { induction h as [|y t IH]; intros c Hs; cbn; [exact Hs|]. apply IH. apply two_way_call_sound; assumption. }
  assert (E : forall h, two_way_answer inv h x = inv x).
  { intros h. unfold two_way_answer. apply two_way_call_sound; [exact Hinv|]. apply S. intros k v. cbn. discriminate. }
  rewrite !E. reflexivity.
Qed.

(* for a non-involutive inv an earlier call changes a later answer: the back-pointer wins *)
Theorem two_way_memo_needs_involution : forall inv x,
  inv (inv x) <> x -> inv x <> x -> two_way_answer inv [x] (inv x) <> two_way_answer inv [] (inv x).
Proof.
  intros inv x Hni Hne. unfold two_way_answer, two_way_call. cbn.
  destruct (N.eqb (inv x) x) eqn:E1; [apply N.eqb_eq in E1; contradiction|].
  rewrite N.eqb_refl. cbn. intros H. apply Hni. symmetry. exact H.
Qed.
