(* Proofs/DetMemo.v — a keyed memo cache is history-independent iff (in the sense
   below) its key determines the cached result (C10). *)
From Coq Require Import List Bool NArith Lia.
Import ListNotations.
Require Import PV.Det.Memo.

Lemma ckey_eqb_eq : forall a b, ckey_eqb a b = true <-> a = b.
Proof.
  intros [a1 a2] [b1 b2]. unfold ckey_eqb. cbn. rewrite andb_true_iff, !N.eqb_eq. split.
  - intros [H1 H2]. subst. reflexivity.
  - intros H. injection H as H1 H2. split; assumption.
Qed.

Lemma ckey_eqb_refl : forall a, ckey_eqb a a = true.
Proof. intros a. apply ckey_eqb_eq. reflexivity. Qed.

Definition key_determines (key : input -> ckey) (f : input -> N) : Prop :=
  forall x y, key x = key y -> f x = f y.

Definition kcache_sound (key : input -> ckey) (f : input -> N) (c : kcache) : Prop :=
  forall x v, kcache_get c (key x) = Some v -> v = f x.

Lemma kmemo_call_sound : forall key f c x, key_determines key f -> kcache_sound key f c ->
  kcache_sound key f (fst (kmemo_call key f c x)) /\ snd (kmemo_call key f c x) = f x.
Proof.
  intros key f c x Hd Hs. unfold kmemo_call. destruct (kcache_get c (key x)) as [v|] eqn:E; cbn.
  - split; [exact Hs|apply Hs; exact E].
  - split; [|reflexivity]. intros y v. cbn. destruct (ckey_eqb (key y) (key x)) eqn:Ek.
    + apply ckey_eqb_eq in Ek. intros H. injection H as H. subst v. symmetry. apply Hd. exact Ek.
    + apply Hs.
Qed.

Lemma kreplay_sound : forall key f h c, key_determines key f -> kcache_sound key f c ->
  kcache_sound key f (kreplay key f c h).
Proof.
  intros key f h. induction h as [|x t IH]; intros c Hd Hs; cbn.
  - exact Hs.
  - apply IH; [exact Hd|]. apply kmemo_call_sound; assumption.
Qed.

Theorem keyed_memo_history_independent : forall key f, key_determines key f ->
  forall h1 h2 x, answer_after key f h1 x = answer_after key f h2 x /\ answer_after key f h1 x = f x.
Proof.
  intros key f Hd h1 h2 x.
  assert (E : forall h, answer_after key f h x = f x).
  { intros h. unfold answer_after. apply kmemo_call_sound; [exact Hd|]. apply kreplay_sound; [exact Hd|].
    intros y v. cbn. discriminate. }
  rewrite !E. split; reflexivity.
Qed.

(* conversely: whenever the key does NOT determine the result, some history changes an answer *)
Theorem keyed_memo_needs_determining_key : forall key f x y,
  key x = key y -> f x <> f y -> answer_after key f [x] y <> answer_after key f [] y.
Proof.
  intros key f x y Hk Hf. unfold answer_after, kmemo_call. cbn.
  rewrite <- Hk. rewrite ckey_eqb_refl. cbn. exact Hf.
Qed.

Lemma full_key_injective : forall x y, full_key x = full_key y -> x = y.
Proof. intros x y H. exact H. Qed.

(* the key of the current code keeps the node: every cached function is determined by it *)
Corollary full_key_history_independent : forall f h1 h2 x,
  answer_after full_key f h1 x = answer_after full_key f h2 x.
Proof.
  intros f h1 h2 x. apply keyed_memo_history_independent. intros a b H. apply full_key_injective in H. subst. reflexivity.
Qed.

(* dropping the node from the key: two uses of the same name in different places collide *)
Lemma name_only_key_refuted : exists f h x, answer_after name_only_key f h x <> answer_after name_only_key f [] x.
Proof.
  exists (fun x => snd x), [(1%N, 1%N)], (1%N, 2%N). vm_compute. discriminate.
Qed.
