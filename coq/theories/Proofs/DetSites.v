(* Proofs/DetSites.v — obligations about the regenerated site inventory (C10). *)
From Coq Require Import String List Bool.
Require Import PV.Det.SetConsumers PV.Det.Audit PV.Gen.Sites.
Import ListNotations.

Lemma all_sites_classified : forallb classified sites = true.
Proof. vm_compute. reflexivity. Qed.

Lemma audit_has_no_stale_entry : audit_live sites = true.
Proof. vm_compute. reflexivity. Qed.

(* exactly two places remain where an iteration order can reach output (phase 4: the join in Signature.validate is proved to run over at most one element):
   the first-success loop over artificial_bases (insensitive iff the successes agree, no input
   found) and the stdout listing of --find-unused-attributes (witnessed, not a diagnostic) *)
Lemma residual_sites_are_exactly : map (fun s => (s_func s, s_expr s)) (filter is_residual sites) =
  [ ("TypeObject.can_assign", "other.artificial_bases");
    ("ClassAttributeChecker.check_unused_attributes", "existing_attrs - attrs_read - ignored") ]%string.
Proof. vm_compute. reflexivity. Qed.

(* every accepted consumer kind is one for which invariance is proved *)
Lemma acceptable_kind_is_insensitive : forall s k,
  classified s = true -> (verdict_of s = Some (VKind k) \/ exists c, verdict_of s = Some (VEscape c k)) ->
  insensitive k = true.
Proof.
  intros s k Hc Hv. unfold classified in Hc. destruct Hv as [Hv|[c Hv]]; rewrite Hv in Hc; exact Hc.
Qed.

(* Signature.validate joins `seen_kinds - KIND_TO_ALLOWED_PREVIOUS[kind]`.  The only caller that
   shows the text builds its parameters from POSITIONAL_ONLY and VAR_POSITIONAL; for every such
   kind, and every set of previously seen kinds among those two, at most one kind is disallowed --
   a join over at most one element has a single arrangement.  Computed over the table
   regenerated from signature.py. *)
Definition allowed_for (k : string) : list string :=
  match find (fun p => String.eqb (fst p) k) allowed_previous with
  | Some p => snd p
  | None => []
  end%list.
Definition str_mem (x : string) (l : list string) : bool := existsb (String.eqb x) l.
Definition disallowed (seen : list string) (k : string) : list string :=
  filter (fun s => negb (str_mem s (allowed_for k))) seen.

Lemma validate_join_is_singleton :
  forallb (fun k => Nat.leb (length (disallowed ["POSITIONAL_ONLY"; "VAR_POSITIONAL"]%string k)) 1)
          ["POSITIONAL_ONLY"; "VAR_POSITIONAL"]%string = true
  /\ allowed_for "POSITIONAL_ONLY" <> []%list /\ allowed_for "VAR_POSITIONAL" <> []%list.
Proof. vm_compute. repeat split; discriminate. Qed.
