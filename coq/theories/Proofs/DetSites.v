(* Proofs/DetSites.v — obligations about the regenerated site inventory (C10). *)
From Coq Require Import String List Bool.
Require Import PV.Det.SetConsumers PV.Det.Audit PV.Gen.Sites.
Import ListNotations.

Lemma all_sites_classified : forallb classified sites = true.
Proof. vm_compute. reflexivity. Qed.

Lemma audit_has_no_stale_entry : audit_live sites = true.
Proof. vm_compute. reflexivity. Qed.

(* exactly three places remain where an iteration order can reach output; two
   are diagnostics' detail text for which no input was found, one is the
   stdout listing of --find-unused-attributes *)
Lemma residual_sites_are_exactly : map (fun s => (s_func s, s_expr s)) (filter is_residual sites) =
  [ ("Signature.validate", "disallowed_previous");
    ("TypeObject.can_assign", "other.artificial_bases");
    ("ClassAttributeChecker.check_unused_attributes", "existing_attrs - attrs_read - ignored") ]%string.
Proof. vm_compute. reflexivity. Qed.

(* every accepted consumer kind is one for which invariance is proved *)
Lemma acceptable_kind_is_insensitive : forall s k,
  classified s = true -> (verdict_of s = Some (VKind k) \/ exists c, verdict_of s = Some (VEscape c k)) ->
  insensitive k = true.
Proof.
  intros s k Hc Hv. unfold classified in Hc. destruct Hv as [Hv|[c Hv]]; rewrite Hv in Hc; exact Hc.
Qed.
