(* Proofs/DetState.v — obligations about the regenerated inventory of state that
   outlives one check (C10). *)
From Coq Require Import String List Bool.
Require Import PV.Det.StateAudit PV.Gen.State.
Import ListNotations.

Lemma all_state_items_classified : forallb state_classified state_items = true /\ state_audit_live state_items = true.
Proof. split; vm_compute; reflexivity. Qed.

Lemma cache_keys_are_pinned :
  keys_eqb cache_keys pinned_cache_keys || keys_eqb cache_keys pinned_cache_keys_after_protocol_fix = true.
Proof. vm_compute. reflexivity. Qed.

Lemma keys_eqb_eq : forall a b, keys_eqb a b = true -> a = b.
Proof.
  induction a as [|x a IH]; intros [|y b] H; cbn in H; try discriminate; [reflexivity|].
  apply andb_true_iff in H. destruct H as [H1 H2]. f_equal; [|apply IH; exact H2].
  unfold key_eqb in H1. repeat (apply andb_true_iff in H1; destruct H1 as [H1 ?]).
  destruct x, y. cbn in *.
  repeat match goal with H : String.eqb _ _ = true |- _ => apply String.eqb_eq in H end. subst. reflexivity.
Qed.

Lemma process_global_caches_are_exactly :
  map st_name (filter (fun s => match lookup_state s (state_audit ++ state_audit_extra)%list with Some (SProcessCache _) => true | _ => false end) state_items)
  = ["_empty_constrained"; "directory_has_init"; "get_all_error_codes"; "_get_checker"; "_typing_name_cache"]%string.
Proof. vm_compute. reflexivity. Qed.

Lemma resolution_cache_key_keeps_what_determines_the_result : resolution_key_ok resolution_key_fields = true.
Proof. vm_compute. reflexivity. Qed.

Lemma mutation_sites_are_pinned : keys_eqb mutation_sites pinned_mutation_sites = true.
Proof. vm_compute. reflexivity. Qed.
