(* Proofs/FormatConv.v — per-conversion facts: what pyanalyze's
   ConversionSpecifier.accept says about one literal argument versus what
   CPython's converter does with it. *)
From Coq Require Import ZArith NArith List Bool Lia.
Import ListNotations.
Require Import PV.Gen.FormatRe PV.Format.Percent PV.Format.PyPercent PV.Format.Guards.
Open Scope N_scope.

Lemma list_eqb_eq : forall a b, list_eqb a b = true <-> a = b.
Proof.
  induction a as [|x a IH]; intros [|y b]; simpl; split; intros H; try congruence; try discriminate.
  - apply andb_true_iff in H. destruct H as [H1 H2]. apply N.eqb_eq in H1. apply IH in H2. congruence.
  - inversion H; subst. rewrite N.eqb_refl. simpl. apply IH. reflexivity.
Qed.

Lemma list_eqb_refl : forall a, list_eqb a a = true.
Proof. intros a. apply list_eqb_eq. reflexivity. Qed.

Lemma int_max_lt_float_overflow : (int_max < float_overflow)%Z.
Proof. apply Z.ltb_lt. vm_compute. reflexivity. Qed.

Lemma int_max_lt_ssize_max : (int_max < ssize_max)%Z.
Proof. apply Z.ltb_lt. vm_compute. reflexivity. Qed.

Local Opaque float_overflow.

Lemma mem_In : forall c l, mem c l = true <-> In c l.
Proof.
  intros c l. unfold mem. rewrite existsb_exists. split.
  - intros [x [Hin Heq]]. apply N.eqb_eq in Heq. subst. exact Hin.
  - intros Hin. exists c. split; [exact Hin|apply N.eqb_refl].
Qed.

(* the generated sets of format_strings.py, expressed with the classes of the spec *)
Lemma integer_set_is_idx : forall t, mem t integer_conversion_types = is_idx t.
Proof.
  intros t. apply eq_iff_eq_true. unfold is_idx. rewrite !mem_In.
  unfold integer_conversion_types. simpl. intuition.
Qed.

Lemma numeric_set_is_classes : forall t,
  mem t numeric_conversion_types = is_idx t || is_dec t || is_flt t.
Proof.
  intros t. apply eq_iff_eq_true. unfold is_idx, is_dec, is_flt.
  rewrite !orb_true_iff, !mem_In. unfold numeric_conversion_types. simpl. intuition.
Qed.

Ltac finish_obj :=
  repeat match goal with
         | |- context [(?a <=? ?b)%Z] => destruct (Z.leb_spec a b)
         | |- context [(?a <? ?b)%Z] => destruct (Z.ltb_spec a b)
         | H : context [(?a <=? ?b)%Z] |- _ => destruct (Z.leb_spec a b)
         | H : context [(?a <? ?b)%Z] |- _ => destruct (Z.ltb_spec a b)
         | |- context [Nat.eqb ?a ?b] => destruct (Nat.eqb a b)
         | H : context [Nat.eqb ?a ?b] |- _ => destruct (Nat.eqb a b)
         end;
  simpl in *; try reflexivity; try discriminate; try congruence; try lia.

Ltac classes t :=
  unfold type_accept, conv_ok, c_limit;
  rewrite integer_set_is_idx, numeric_set_is_classes;
  destruct (is_idx t) eqn:Eidx; simpl orb;
  [|destruct (is_dec t) eqn:Edec; simpl orb;
  [|destruct (is_flt t) eqn:Eflt; simpl orb;
  [|destruct (t =? ch_a) eqn:Ea; simpl orb;
  [|destruct (t =? ch_r) eqn:Er; simpl orb;
  [|destruct (t =? ch_c) eqn:Ec;
  [|destruct (t =? ch_b) eqn:Eb; simpl orb;
  [|destruct (t =? ch_s) eqn:Es; rewrite ?andb_false_r, ?andb_true_r;
  [|destruct (t =? ch_pct) eqn:Epc]]]]]]]].

(* pyanalyze accepts the argument and it is not an overflow case: CPython converts it *)
Lemma accept_ok_conv_ok : forall is_bytes t o,
  (t = ch_b -> is_bytes = true) -> obj_big o = false ->
  type_accept is_bytes t o = [] -> conv_ok is_bytes t o = true.
Proof.
  intros is_bytes t o Hb Hbig.
  pose proof int_max_lt_float_overflow as Hfo.
  classes t; intros Hacc;
    try (apply N.eqb_eq in Eb; specialize (Hb Eb); subst is_bytes);
    destruct o as [z| [|] | [|] | s | s | m]; try destruct is_bytes; simpl in *;
    unfold int_max in *; try discriminate; try reflexivity; finish_obj.
Qed.

(* pyanalyze reports the argument (and it is not the %c range class): CPython raises *)
Lemma accept_err_conv_bad : forall is_bytes t o,
  (t =? ch_c) && c_range_obj is_bytes o = false ->
  type_accept is_bytes t o <> [] -> conv_ok is_bytes t o = false.
Proof.
  intros is_bytes t o. unfold c_range_obj.
  classes t; intros Hcr Hacc;
    try (exfalso; apply Hacc; reflexivity); try reflexivity;
    destruct o as [z| [|] | [|] | s | s | m]; try destruct is_bytes; simpl in *;
    try (exfalso; apply Hacc; reflexivity); try reflexivity; finish_obj;
    try (exfalso; apply Hacc; reflexivity).
Qed.

Lemma star_small_ok : forall p o, obj_big o = false -> int_like o = true -> star_ok p o = true.
Proof.
  intros p o Hbig Hint. pose proof int_max_lt_ssize_max as Hlt.
  unfold star_ok. rewrite Hint. simpl.
  destruct o as [z| [|] | f | s | s | m]; simpl in *; try discriminate;
    unfold int_max, ssize_max in *; destruct p; simpl; finish_obj.
Qed.

Lemma star_not_int_bad : forall p o, int_like o = false -> star_ok p o = false.
Proof. intros p o H. unfold star_ok. rewrite H. reflexivity. Qed.

Lemma num_small_ok : forall p f, fw_big f = false -> num_ok p f = true.
Proof.
  intros p f H. pose proof int_max_lt_ssize_max as Hlt.
  destruct f as [| |n]; simpl in *; try reflexivity.
  unfold int_max, ssize_max in *. destruct p; finish_obj.
Qed.
