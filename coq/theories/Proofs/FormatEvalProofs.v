(* Proofs/FormatEvalProofs.v — the extended str.format specification
   (FormatEval.eval_fields: paths, conversions, nested specs, format-spec
   validation) versus the structural one (StrFormat.py_fields_raise) and
   pyanalyze's field loop, for field trees and argument lists of any size. *)
From Coq Require Import ZArith NArith List Bool Lia.
Import ListNotations.
Require Import PV.Gen.FormatRe PV.Format.Percent PV.Format.PyPercent PV.Format.StrFormat PV.Format.FormatEval.
Require Import PV.Proofs.FormatStr.
Open Scope N_scope.

Definition nargs_of (a : fargs) : N := N.of_nat (length (fa_pos a)).
Definition kw_of (a : fargs) : list (list N) := map fst (fa_kw a).

Lemma nth_none_iff : forall (l : list fobj) c,
  (N.of_nat (length l) <=? c) = match nth_error l (N.to_nat c) with Some _ => false | None => true end.
Proof.
  intros l c. destruct (nth_error l (N.to_nat c)) eqn:E.
  - apply N.leb_gt. assert (N.to_nat c < length l)%nat by (apply nth_error_Some; congruence). lia.
  - apply N.leb_le. apply nth_error_None in E. lia.
Qed.

Lemma find_name_in : forall s (kvs : list (list N * fobj)),
  name_in s (map fst kvs) = match find (fun p => list_eqb s (fst p)) kvs with Some _ => true | None => false end.
Proof.
  intros s kvs. unfold name_in. induction kvs as [|[k v] kvs IH]; simpl; [reflexivity|].
  destruct (list_eqb s k); [reflexivity|exact IH].
Qed.

(* one step of CPython's numbering + lookup, as the structural specification sees it *)
Lemma struct_step : forall a fd fs st cur,
  py_fields_raise (fd :: fs) (nargs_of a) (kw_of a) st cur =
  match lookup a (f_name fd) st cur with
  | (Raise, _, _) => true
  | (_, st', cur') => py_fields_raise fs (nargs_of a) (kw_of a) st' cur'
  end.
Proof.
  intros a fd fs st cur. simpl. unfold lookup, nargs_of, kw_of.
  destruct (f_name fd) as [|i|s].
  - destruct st; try reflexivity; rewrite nth_none_iff;
      destruct (nth_error (fa_pos a) (N.to_nat cur)); reflexivity.
  - destruct st; try reflexivity; rewrite nth_none_iff;
      destruct (nth_error (fa_pos a) (N.to_nat i)); reflexivity.
  - rewrite find_name_in. destruct (find (fun p => list_eqb s (fst p)) (fa_kw a)); reflexivity.
Qed.

Lemma lookup_not_undecided : forall a n st cur st' cur', lookup a n st cur <> (Undecided, st', cur').
Proof.
  intros a [|i|s] st cur st' cur'; unfold lookup; destruct st; try discriminate;
    try (destruct (nth_error (fa_pos a) _); discriminate);
    destruct (find _ (fa_kw a)); discriminate.
Qed.

Definition leaf_field (lf : leaf) : field := mk_field (lf_name lf) (lf_path lf) (lf_conv lf) (nonempty (lf_spec lf)).
Definition spec_fields (items : list sitem) : list field :=
  flat_map (fun si => match si with SFld lf => [leaf_field lf] | SLit _ => [] end) items.

Lemma flatten_tfield_eq : forall f,
  flatten_tfield f = mk_field (tf_name f) (tf_path f) (tf_conv f) (nonempty (tf_spec f)) :: spec_fields (tf_spec f).
Proof. reflexivity. Qed.

(* the nested fields of a spec: a structural raise is a raise; otherwise the
   numbering state advances exactly as in the structural specification *)
Lemma spec_items_struct : forall a items rest st cur,
  match eval_spec_items a items st cur with
  | (v, _, st', cur') =>
      py_fields_raise (spec_fields items ++ rest) (nargs_of a) (kw_of a) st cur =
      if py_fields_raise (spec_fields items) (nargs_of a) (kw_of a) st cur then true
      else py_fields_raise rest (nargs_of a) (kw_of a) st' cur'
  end /\
  (py_fields_raise (spec_fields items) (nargs_of a) (kw_of a) st cur = true ->
   fst (fst (fst (eval_spec_items a items st cur))) = VR).
Proof.
  intros a items. induction items as [|[c|lf] items IH]; intros rest st cur.
  - simpl. split; [reflexivity|discriminate].
  - simpl. specialize (IH rest st cur).
    destruct (eval_spec_items a items st cur) as [[[v txt] st'] cur']. simpl in *. exact IH.
  - change (spec_fields (SFld lf :: items)) with (leaf_field lf :: spec_fields items).
    simpl app. rewrite !struct_step. simpl eval_spec_items. simpl f_name.
    destruct (lookup a (lf_name lf) st cur) as [[ro st1] cur1] eqn:El.
    destruct ro as [| |o].
    + simpl. split; [reflexivity|reflexivity].
    + exfalso. exact (lookup_not_undecided _ _ _ _ _ _ El).
    + specialize (IH rest st1 cur1).
      destruct (eval_spec_items a items st1 cur1) as [[[v txt] st'] cur'].
      destruct IH as [IH1 IH2].
      destruct (walk_path o (lf_path lf)) as [| |o'] ; simpl in *;
        (split; [exact IH1|]); intros H; specialize (IH2 H); subst v;
        try reflexivity;
        match goal with |- v_and ?x VR = VR => destruct x; reflexivity end.
Qed.

Lemma v_and_VR_r : forall x, v_and x VR = VR.
Proof. destruct x; reflexivity. Qed.

(* every raise of the structural specification is a raise of the extended one *)
Lemma struct_raise_full_raise : forall a fs st cur,
  py_fields_raise (flat_map flatten_tfield fs) (nargs_of a) (kw_of a) st cur = true ->
  eval_fields a fs st cur = VR.
Proof.
  intros a fs. induction fs as [|f fs IH]; intros st cur H.
  - discriminate.
  - change (flat_map flatten_tfield (f :: fs)) with (flatten_tfield f ++ flat_map flatten_tfield fs) in H.
    rewrite flatten_tfield_eq in H. simpl app in H.
    rewrite struct_step in H. simpl f_name in H. simpl eval_fields.
    destruct (lookup a (tf_name f) st cur) as [[ro st1] cur1] eqn:El.
    destruct ro as [| |o]; [reflexivity|exfalso; exact (lookup_not_undecided _ _ _ _ _ _ El)|].
    pose proof (spec_items_struct a (tf_spec f) (flat_map flatten_tfield fs) st1 cur1) as Hs.
    destruct (eval_spec_items a (tf_spec f) st1 cur1) as [[[v txt] st2] cur2].
    destruct Hs as [Hs1 Hs2]. rewrite Hs1 in H. simpl in Hs2.
    destruct (py_fields_raise (spec_fields (tf_spec f)) (nargs_of a) (kw_of a) st1 cur1).
    + rewrite (Hs2 eq_refl). destruct (walk_path o (tf_path f)); reflexivity.
    + rewrite (IH st2 cur2 H).
      destruct (walk_path o (tf_path f)) as [| |o']; try reflexivity.
      * destruct v; reflexivity.
      * destruct v; try reflexivity; destruct txt as [tx|]; try reflexivity;
          destruct (check_spec (apply_conv o' (tf_conv f)) tx); reflexivity.
Qed.

(* on simple fields (no path, no conversion, empty spec) the extended
   specification is exactly the structural one: nothing is left undecided *)
Lemma simple_full_eq_struct : forall a fs st cur,
  forallb tfield_simple fs = true ->
  eval_fields a fs st cur =
  if py_fields_raise (flat_map flatten_tfield fs) (nargs_of a) (kw_of a) st cur then VR else VF.
Proof.
  intros a fs. induction fs as [|f fs IH]; intros st cur Hs.
  - reflexivity.
  - simpl in Hs. apply andb_true_iff in Hs. destruct Hs as [Hf Hs].
    unfold tfield_simple in Hf. destruct f as [nm pth cv sp]. simpl in Hf.
    destruct pth; [|discriminate]. destruct cv; [discriminate|]. destruct sp; [|discriminate].
    change (flat_map flatten_tfield (mk_tf nm [] None [] :: fs)) with (flatten_tfield (mk_tf nm [] None []) ++ flat_map flatten_tfield fs).
    rewrite flatten_tfield_eq. simpl app. rewrite struct_step. simpl.
    destruct (lookup a nm st cur) as [[ro st1] cur1] eqn:El.
    destruct ro as [| |o]; [reflexivity|exfalso; exact (lookup_not_undecided _ _ _ _ _ _ El)|].
    simpl. rewrite (IH st1 cur1 Hs).
    destruct (py_fields_raise (flat_map flatten_tfield fs) (nargs_of a) (kw_of a) st1 cur1); reflexivity.
Qed.

Lemma simple_split : forall f, tfield_simple f = tfield_no_path f && tfield_plain f.
Proof.
  intros [nm pth cv sp]. unfold tfield_simple, tfield_no_path, tfield_plain. simpl.
  destruct pth; destruct cv; destruct sp; try reflexivity; rewrite andb_false_r; reflexivity.
Qed.

(* CPython (extended specification) raises ==> _str_format_impl reports, outside
   the two remaining str.format findings: a field path, a conversion or format spec *)
Theorem format_full_raise_reported : forall a fs,
  forallb tfield_no_path fs = true ->          (* C17-format-field-path *)
  forallb tfield_plain fs = true ->            (* C17-format-spec-not-validated *)
  eval_fields a fs AInit 0 = VR ->
  nonempty (pa_fields_check (flat_map flatten_tfield fs) (nargs_of a) (kw_of a)) = true.
Proof.
  intros a fs Hp Hpl Hr.
  assert (forallb tfield_simple fs = true) as Hs.
  { apply forallb_forall. intros f Hin. rewrite simple_split.
    rewrite forallb_forall in Hp, Hpl. rewrite (Hp f Hin), (Hpl f Hin). reflexivity. }
  rewrite (simple_full_eq_struct a fs AInit 0 Hs) in Hr.
  apply format_raise_reported.
  destruct (py_fields_raise (flat_map flatten_tfield fs) (nargs_of a) (kw_of a) AInit 0); [reflexivity|discriminate].
Qed.

(* reported ==> the extended specification raises, or only "not used" reports; no guard *)
Theorem format_full_report_sound : forall a fs,
  nonempty (pa_fields_check (flat_map flatten_tfield fs) (nargs_of a) (kw_of a)) = true ->
  eval_fields a fs AInit 0 = VR \/
  forallb is_unused (pa_fields_check (flat_map flatten_tfield fs) (nargs_of a) (kw_of a)) = true.
Proof.
  intros a fs H. destruct (format_report_sound _ _ _ H) as [Hr|Hu].
  - left. apply struct_raise_full_raise. exact Hr.
  - right. exact Hu.
Qed.

(* the unguarded raise=>report statement is false: "{0.nope}".format(1), "{:d}".format("s") *)
Lemma format_full_refuted :
  let a1 := mk_fargs [FInt 1] [] in
  let f1 := mk_tf (ANum 0) [(false, [110; 111; 112; 101])] None [] in
  let a2 := mk_fargs [FStr [115]] [] in
  let f2 := mk_tf ANone [] None [SLit 100] in
  (eval_fields a1 [f1] AInit 0 = VR /\ pa_fields_check (flatten_tfield f1) 1 [] = [] /\ tfield_no_path f1 = false) /\
  (eval_fields a2 [f2] AInit 0 = VR /\ pa_fields_check (flatten_tfield f2) 1 [] = [] /\ tfield_plain f2 = false).
Proof. vm_compute. repeat split; reflexivity. Qed.

(* examples on real templates: paths, conversions, nested specs, spec validation *)
Example format_full_examples :
  let t := fun (s : list N) => s in
  (* "{0.real:>{1}}".format(5, 3) : fine *)
  py_format_full [123;48;46;114;101;97;108;58;62;123;49;125;125] (mk_fargs [FInt 5; FInt 3] []) = FVFine /\
  (* "{0[1]}".format((1,)) : IndexError *)
  py_format_full [123;48;91;49;93;125] (mk_fargs [FSeq false [FInt 1]] []) = FVRaises /\
  (* "{:,x}".format(255) : Cannot specify ',' with 'x' *)
  py_format_full [123;58;44;120;125] (mk_fargs [FInt 255] []) = FVRaises /\
  (* "{:_x}".format(255) : fine *)
  py_format_full [123;58;95;120;125] (mk_fargs [FInt 255] []) = FVFine /\
  (* "{!r:d}".format(1) : str does not take 'd' *)
  py_format_full [123;33;114;58;100;125] (mk_fargs [FInt 1] []) = FVRaises /\
  (* "{:05}".format(1j) : zero padding not allowed for complex *)
  py_format_full [123;58;48;53;125] (mk_fargs [FComplex] []) = FVRaises /\
  (* "{a[k]:.2f}".format(a={"k": 1.5}) : fine *)
  py_format_full [123;97;91;107;93;58;46;50;102;125] (mk_fargs [] [([97], FDict [(FKStr [107], FFloat)])]) = FVFine.
Proof. vm_compute. repeat split; reflexivity. Qed.

(* ---------------------------------------------------------------- f-strings *)
(* visit_FormattedValue on a literal operand computes format(conv(value), spec)
   with CPython's own functions and (after the fix) reports when that raises.
   In the specification a replacement field of an f-string is the str.format
   field "{0<conv>:<spec>}" applied to the operand: *)
Lemma eval_spec_literals : forall a sp st cur,
  eval_spec_items a (map SLit sp) st cur = (VF, Some sp, st, cur).
Proof.
  intros a sp st cur. induction sp as [|c sp IH]; simpl; [reflexivity|]. rewrite IH. reflexivity.
Qed.

Theorem fstring_field_is_format_field : forall o conv spec,
  eval_fields (mk_fargs [o] []) [mk_tf (ANum 0) [] conv (map SLit spec)] AInit 0 =
  check_spec (apply_conv o conv) spec.
Proof.
  intros o conv spec. simpl. rewrite eval_spec_literals.
  destruct (check_spec (apply_conv o conv) spec); reflexivity.
Qed.
