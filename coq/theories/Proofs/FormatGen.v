(* Proofs/FormatGen.v — the functions translated from format_strings.py on every
   run (Gen/FormatAccept.v: ConversionSpecifier.accept_no_mvv,
   StarConversionSpecifier.accept, ConversionSpecifier.lint) are equal to the
   hand-written model the theorems are about.  The proofs destruct every test
   that occurs, so a behaviour-preserving rearrangement of the source re-proves;
   a change of behaviour does not. *)
From Coq Require Import ZArith NArith List Bool Lia.
Import ListNotations.
Require Import PV.Gen.FormatRe PV.Gen.FormatAccept PV.Gen.FormatLoops PV.Format.Percent PV.Format.StrFormat PV.Format.Typed.
Open Scope N_scope.

Ltac all_ifs :=
  repeat match goal with
         | |- context [if ?c then _ else _] => destruct c eqn:?
         end.

(* destruct the boolean variables that occur in conditions (atoms first, so that
   every occurrence is replaced), then the integer comparisons *)
Ltac var_ifs :=
  repeat (simpl;
          match goal with
          | |- context [if ?c then _ else _] =>
              match c with
              | context [?x] => is_var x; match type of x with bool => destruct x end
              end
          end).

Ltac cmp_atoms :=
  repeat match goal with
         | |- context [(?a <=? ?b)%Z] => destruct (a <=? b)%Z
         | |- context [(?a <? ?b)%Z] => destruct (a <? b)%Z
         | |- context [Nat.eqb ?a ?b] => destruct (Nat.eqb a b)
         end.

(* robust to rearrangements of the source: the conversion type is first split
   into the six characters the code compares it with (then every test
   computes) and "none of them" (then every comparison is false) *)
Ltac split_conv t :=
  destruct (N.eqb_spec t 97); [subst t|];
  [|destruct (N.eqb_spec t 114); [subst t|];
  [|destruct (N.eqb_spec t 99); [subst t|];
  [|destruct (N.eqb_spec t 98); [subst t|];
  [|destruct (N.eqb_spec t 115); [subst t|];
  [|destruct (N.eqb_spec t 37); [subst t|]]]]]].

Lemma mem2 : forall t a b, mem t [a; b] = (t =? a) || (t =? b).
Proof. intros. unfold mem. simpl. rewrite orb_false_r. reflexivity. Qed.

(* the translated function is the hand-written mirror, for every view *)
Lemma gen_accept_v_is_model : forall is_bytes t v, gen_accept is_bytes t v = type_accept_v is_bytes t v.
Proof.
  intros b t [k i n ii byt st z sb l].
  unfold gen_accept, type_accept_v, c_limit, ch_a, ch_r, ch_c, ch_b, ch_s, ch_pct. simpl.
  split_conv t.
  1-6: (var_ifs; simpl; cmp_atoms; reflexivity).
  rewrite ?mem2.
  repeat match goal with
         | H : t <> ?k |- _ => apply N.eqb_neq in H; rewrite ?H; clear H
         end.
  destruct (mem t integer_conversion_types); destruct (mem t numeric_conversion_types);
    var_ifs; simpl; cmp_atoms; reflexivity.
Qed.

(* the mirror on the view of a literal is the literal model (hand-written on both sides) *)
Lemma type_accept_v_obj : forall is_bytes t o,
  type_accept_v is_bytes t (view_of_obj o) = type_accept is_bytes t o.
Proof.
  intros b t o. unfold type_accept_v, type_accept, c_limit.
  destruct (mem t integer_conversion_types); [destruct o as [z|[|]|f|s|s|m]; reflexivity|].
  destruct (mem t numeric_conversion_types); [destruct o as [z|[|]|f|s|s|m]; reflexivity|].
  destruct ((t =? ch_a) || (t =? ch_r)); [reflexivity|].
  destruct (t =? ch_c).
  { destruct b; destruct o as [z|[|]|f|s|s|m]; simpl; cmp_atoms; reflexivity. }
  destruct (t =? ch_b); destruct (t =? ch_s); destruct (t =? ch_pct);
    destruct b; destruct o as [z|[|]|f|s|s|m]; reflexivity.
Qed.

Lemma gen_accept_is_model : forall is_bytes t o,
  gen_accept is_bytes t (view_of_obj o) = type_accept is_bytes t o.
Proof. intros. rewrite gen_accept_v_is_model. apply type_accept_v_obj. Qed.

Lemma gen_star_is_model : forall o,
  gen_star_accept (view_of_obj o) = (if int_like o then [] else [EStar]).
Proof. intros o. unfold gen_star_accept, view_of_obj. simpl. destruct (int_like o); reflexivity. Qed.

Lemma gen_lint_is_model : forall is_bytes nm cs,
  spec_lint is_bytes nm cs =
  gen_spec_lint is_bytes cs ++
  (if nm && negb (c_type cs =? ch_pct)
      && (negb (is_some (c_key cs)) || is_star (c_prec cs) || is_star (c_width cs))
   then [LCombine] else []).
Proof.
  intros b nm cs. unfold spec_lint, gen_spec_lint, ch_pct, ch_b.
  destruct (c_type cs =? 37); destruct (c_type cs =? 98); destruct b; destruct (has_options cs); reflexivity.
Qed.

(* ================================================================ the loops (Gen/FormatLoops.v) *)
Lemma gen_needs_mapping_is_model : forall specs, gen_needs_mapping specs = needs_mapping specs.
Proof. reflexivity. Qed.

Lemma gen_serial_of_is_model : forall cs, gen_serial_of cs = serial_of cs.
Proof.
  intros cs. unfold gen_serial_of, serial_of, ch_pct.
  destruct (is_star (c_width cs)); destruct (is_star (c_prec cs)); destruct (c_type cs =? 37); reflexivity.
Qed.

Lemma gen_serial_specifiers_is_model : forall specs, gen_serial_specifiers specs = serial_specifiers specs.
Proof.
  intros specs. unfold gen_serial_specifiers, serial_specifiers.
  induction specs as [|cs specs IH]; [reflexivity|]. simpl. rewrite gen_serial_of_is_model, IH. reflexivity.
Qed.

Lemma gen_lint_of_is_model : forall is_bytes nm cs, gen_lint_of is_bytes nm cs = spec_lint is_bytes nm cs.
Proof.
  intros b nm cs. rewrite gen_lint_is_model. unfold gen_lint_of, ch_pct. f_equal.
  destruct nm; destruct (c_type cs =? 37); destruct (is_some (c_key cs)); destruct (is_star (c_prec cs));
    destruct (is_star (c_width cs)); reflexivity.
Qed.

Lemma gen_pa_lint_is_model : forall is_bytes specs n, gen_pa_lint is_bytes specs n = pa_lint is_bytes specs n.
Proof.
  intros b specs n. unfold gen_pa_lint, pa_lint. rewrite gen_needs_mapping_is_model. f_equal.
  generalize (needs_mapping specs) as nm. intros nm.
  induction specs as [|cs l IH]; [reflexivity|].
  simpl. rewrite gen_lint_of_is_model, IH. reflexivity.
Qed.

Lemma gen_zip_is_zip : forall is_bytes ss os, gen_zip (serial_accept is_bytes) ss os = zip_accept is_bytes ss os.
Proof.
  intros b ss. induction ss as [|s ss IH]; intros [|o os]; try reflexivity.
  simpl. rewrite IH. reflexivity.
Qed.

(* accept_tuple_args_no_mvv: the arity tests and the zip loop, on literal arguments ... *)
Lemma gen_accept_tail_is_model : forall is_bytes specs a,
  accept_tuple is_bytes specs a =
  gen_accept_tail (serial_accept is_bytes) (gen_serial_specifiers specs)
    (match a with ATuple l => l | ADict _ => [OOther true] | AScalar o => [o] end).
Proof.
  intros b specs a. unfold accept_tuple, gen_accept_tail. rewrite gen_serial_specifiers_is_model, gen_zip_is_zip.
  reflexivity.
Qed.

(* ... and on typed ones *)
Lemma gen_zip_is_zip_u : forall is_bytes ss us, gen_zip (serial_accept_u is_bytes) ss us = zip_accept_u is_bytes ss us.
Proof.
  intros b ss. induction ss as [|s ss IH]; intros [|u us]; try reflexivity.
  simpl. rewrite IH. reflexivity.
Qed.

Lemma gen_accept_tail_typed_is_model : forall is_bytes specs (l : list uval),
  accept_tuple_typed is_bytes specs (TTuple l) =
  gen_accept_tail (serial_accept_u is_bytes) (gen_serial_specifiers specs) l.
Proof.
  intros b specs l. unfold accept_tuple_typed, gen_accept_tail.
  rewrite gen_serial_specifiers_is_model, gen_zip_is_zip_u. reflexivity.
Qed.

(* _str_format_impl: the field loop and the "not used" tests *)
Lemma gen_field_loop_is_model : forall fields nargs kw st cur,
  gen_field_loop fields nargs kw st cur = pa_field_loop fields nargs kw st cur.
Proof.
  induction fields as [|fd fs IH]; intros nargs kw st cur; [reflexivity|].
  simpl. destruct (f_name fd) as [|i|s]; rewrite IH.
  - destruct (pa_field_loop fs nargs kw AAuto (cur + 1)) as [[e ui] uk].
    destruct st; simpl; rewrite <- ?app_assoc; reflexivity.
  - destruct (pa_field_loop fs nargs kw AManual cur) as [[e ui] uk].
    destruct st; simpl; rewrite <- ?app_assoc; reflexivity.
  - destruct (pa_field_loop fs nargs kw st cur) as [[e ui] uk].
    destruct (name_in s kw); simpl; reflexivity.
Qed.

Lemma gen_fields_check_is_model : forall fields nargs kw,
  gen_fields_check fields nargs kw = pa_fields_check fields nargs kw.
Proof. intros. unfold gen_fields_check, pa_fields_check. rewrite gen_field_loop_is_model. reflexivity. Qed.
