(* Proofs/FormatGen.v — the functions translated from format_strings.py on every
   run (Gen/FormatAccept.v: ConversionSpecifier.accept_no_mvv,
   StarConversionSpecifier.accept, ConversionSpecifier.lint) are equal to the
   hand-written model the theorems are about.  The proofs destruct every test
   that occurs, so a behaviour-preserving rearrangement of the source re-proves;
   a change of behaviour does not. *)
From Coq Require Import ZArith NArith List Bool Lia.
Import ListNotations.
Require Import PV.Gen.FormatRe PV.Gen.FormatAccept PV.Format.Percent.
Open Scope N_scope.

Ltac all_ifs :=
  repeat match goal with
         | |- context [if ?c then _ else _] => destruct c eqn:?
         end.

Ltac cmp_atoms :=
  repeat match goal with
         | |- context [(?a <=? ?b)%Z] => destruct (a <=? b)%Z
         | |- context [(?a <? ?b)%Z] => destruct (a <? b)%Z
         | |- context [Nat.eqb ?a ?b] => destruct (Nat.eqb a b)
         end.

Lemma gen_accept_is_model : forall is_bytes t o,
  gen_accept is_bytes t (view_of_obj o) = type_accept is_bytes t o.
Proof.
  intros b t o. unfold gen_accept, type_accept, c_limit, ch_a, ch_r, ch_c, ch_b, ch_s, ch_pct.
  destruct (mem t integer_conversion_types);
    [destruct o as [z|[|]|f|s|s|m]; reflexivity|].
  destruct (mem t numeric_conversion_types);
    [destruct o as [z|[|]|f|s|s|m]; reflexivity|].
  assert (mem t [97; 114] = (t =? 97) || (t =? 114)) as Ear by (unfold mem; simpl; rewrite orb_false_r; reflexivity).
  rewrite Ear. clear Ear.
  destruct ((t =? 97) || (t =? 114)); [reflexivity|].
  destruct (t =? 99).
  { destruct b; destruct o as [z|[|]|f|s|s|m]; simpl; cmp_atoms; reflexivity. }
  destruct (t =? 98); destruct (t =? 115); destruct (t =? 37);
    destruct b; destruct o as [z|[|]|f|s|s|m]; reflexivity.
Qed.

Lemma gen_star_is_model : forall o,
  gen_star_accept (view_of_obj o) = (if int_like o then [] else [EStar]).
Proof. intros o. unfold gen_star_accept, view_of_obj. simpl. destruct (int_like o); reflexivity. Qed.

Lemma gen_lint_is_model : forall is_bytes nm cs,
  spec_lint is_bytes nm cs =
  gen_spec_lint is_bytes cs ++
  (if nm && negb (c_type cs =? ch_pct)
      && (negb (is_some (c_key cs)) || is_star (c_prec cs) || is_star (c_width cs))
   then [LCombine] else []).
Proof.
  intros b nm cs. unfold spec_lint, gen_spec_lint, ch_pct, ch_b.
  destruct (c_type cs =? 37); destruct (c_type cs =? 98); destruct b; destruct (has_options cs); reflexivity.
Qed.
